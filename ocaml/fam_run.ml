(* family "run" — mirrors harness/src/fam_run.rs on the extracted model (tree-store machine).
   Only sha256 is executable among the cryptographic primitives; a run that reaches any other
   primitive is reported as "skip" (the model makes no prediction). Allocator counts, heap
   history and atom representation do not exist on the tree store: the keys h=, enc=, lim=, ga=,
   gp= are accepted and ignored, and nothing is printed after the result. *)
open Conv

exception Unsupported_prim

let prims : Prims.prims =
  let u _ = raise Unsupported_prim in
  { Prims.p_sha256 = Sha256.sha256;
    p_keccak256 = u; p_g1_valid = u; p_g2_valid = u;
    p_g1_add = (fun _ _ -> raise Unsupported_prim); p_g1_neg = u;
    p_g1_mul = (fun _ _ -> raise Unsupported_prim); p_g1_gen_mul = u;
    p_g2_add = (fun _ _ -> raise Unsupported_prim); p_g2_neg = u;
    p_g2_mul = (fun _ _ -> raise Unsupported_prim);
    p_g1_map = (fun _ _ -> raise Unsupported_prim); p_g2_map = (fun _ _ -> raise Unsupported_prim);
    p_pairing_identity = u; p_aggregate_verify = (fun _ _ -> raise Unsupported_prim);
    p_k1_pubkey_ok = u; p_k1_sig_ok = u; p_k1_verify = (fun _ _ _ -> raise Unsupported_prim);
    p_r1_pubkey_ok = u; p_r1_sig_ok = u; p_r1_verify = (fun _ _ _ -> raise Unsupported_prim) }

let rec nat_of_int_acc (n : int) (acc : Datatypes.nat) : Datatypes.nat =
  if n = 0 then acc else nat_of_int_acc (n - 1) (Datatypes.S acc)
let fuel : Datatypes.nat Lazy.t = lazy (nat_of_int_acc 4_000_000 Datatypes.O)

let kv (t : string array) (key : string) : string option =
  let r = ref None in
  Array.iter (fun x ->
      match String.index_opt x '=' with
      | Some i when String.sub x 0 i = key -> r := Some (String.sub x (i + 1) (String.length x - i - 1))
      | _ -> ()) t;
  !r

let fam_run (t : string array) : string =
  match t.(0) with
  | "run" ->
    let n = Array.length t in
    let p = Util.parse_tree t.(n - 2) and e = Util.parse_tree t.(n - 1) in
    let opts = Array.sub t 1 (n - 3) in
    let flags = n_of_dec (Option.value (kv opts "f") ~default:"0") in
    let m = n_of_dec (Option.value (kv opts "m") ~default:"0") in
    let f = match Option.value (kv opts "d") ~default:"chia" with
      | "chia" -> Dialect.run_chia | "hide" -> Dialect.run_hiding | "rt" -> Dialect.run_runtime
      | d -> failwith ("unknown dialect " ^ d) in
    (try
       match f prims (Lazy.force fuel) flags p e m with
       | Err.Ok (c, v) -> Printf.sprintf "ok %s %s" (dec_of_n c) (Util.show_tree_short v)
       | Err.Err Err.Unsupported -> "skip"
       | Err.Err e -> "err " ^ (match String.index_opt (Util.err_name e) '[' with
           | Some i -> String.sub (Util.err_name e) 0 i | None -> Util.err_name e)
     with Unsupported_prim -> "skip")
  | _ -> "skip"

let () = Reg.register "run" fam_run
