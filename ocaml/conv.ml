(* conversions between OCaml values and the extracted Coq datatypes (positive/N/Z stay Coq's) *)
open BinNums

let rec pos_of_int (n : int) : positive =
  if n = 1 then Coq_xH
  else if n land 1 = 0 then Coq_xO (pos_of_int (n lsr 1))
  else Coq_xI (pos_of_int (n lsr 1))
let n_of_int (n : int) : coq_N = if n = 0 then N0 else Npos (pos_of_int n)
let z_of_int (n : int) : coq_Z =
  if n = 0 then Z0 else if n > 0 then Zpos (pos_of_int n) else Zneg (pos_of_int (- n))
let rec int_of_pos (p : positive) : int =
  match p with Coq_xH -> 1 | Coq_xO q -> 2 * int_of_pos q | Coq_xI q -> 2 * int_of_pos q + 1
let int_of_n (n : coq_N) : int = match n with N0 -> 0 | Npos p -> int_of_pos p
let int_of_z (z : coq_Z) : int =
  match z with Z0 -> 0 | Zpos p -> int_of_pos p | Zneg p -> - (int_of_pos p)

(* arbitrary-size naturals as lowercase hex strings (no prefix; "0" for zero) *)
let pos_bits (p : positive) : bool list = (* least significant first *)
  let rec go p acc = match p with
    | Coq_xH -> Stdlib.List.rev (true :: acc)
    | Coq_xO q -> go q (false :: acc)
    | Coq_xI q -> go q (true :: acc) in
  go p []
let hex_of_n (n : coq_N) : string =
  match n with
  | N0 -> "0"
  | Npos p ->
    let bits = Array.of_list (pos_bits p) in
    let nb = Array.length bits in
    let nd = (nb + 3) / 4 in
    let b = Buffer.create nd in
    for d = nd - 1 downto 0 do
      let v = ref 0 in
      for i = 3 downto 0 do
        let idx = d * 4 + i in
        v := !v * 2 + (if idx < nb && bits.(idx) then 1 else 0)
      done;
      Buffer.add_char b "0123456789abcdef".[!v]
    done;
    Buffer.contents b
let n_of_hex (s : string) : coq_N =
  (* most significant digit first *)
  let acc = ref None in  (* positive option *)
  let push bit =
    acc := (match !acc with
        | None -> if bit then Some Coq_xH else None
        | Some p -> Some (if bit then Coq_xI p else Coq_xO p)) in
  String.iter (fun c ->
      let v = match c with
        | '0'..'9' -> Char.code c - 48
        | 'a'..'f' -> Char.code c - 87
        | 'A'..'F' -> Char.code c - 55
        | _ -> failwith "bad hex digit" in
      for i = 3 downto 0 do push ((v lsr i) land 1 = 1) done) s;
  match !acc with None -> N0 | Some p -> Npos p

(* decimal strings for N and Z, via OCaml ints when small, else by repeated division *)
let n_of_dec (s : string) : coq_N =
  let acc = ref N0 in
  let ten = n_of_int 10 in
  String.iter (fun c -> acc := BinNat.N.add (BinNat.N.mul !acc ten) (n_of_int (Char.code c - 48))) s;
  !acc
let z_of_dec (s : string) : coq_Z =
  if String.length s > 0 && s.[0] = '-' then
    BinInt.Z.opp (BinInt.Z.of_N (n_of_dec (String.sub s 1 (String.length s - 1))))
  else BinInt.Z.of_N (n_of_dec s)
let dec_of_n (n : coq_N) : string =
  let ten = n_of_int 10 in
  let rec go n acc =
    match n with
    | N0 -> if acc = [] then "0" else String.concat "" acc
    | _ ->
      let (q, r) = BinNat.N.div_eucl n ten in
      go q (string_of_int (int_of_n r) :: acc) in
  go n []
let dec_of_z (z : coq_Z) : string =
  match z with
  | Z0 -> "0"
  | Zpos p -> dec_of_n (Npos p)
  | Zneg p -> "-" ^ dec_of_n (Npos p)

(* byte strings: "-" is empty, otherwise lowercase hex *)
let bytes_of_hex (s : string) : coq_N list =
  if s = "-" then [] else begin
    let n = String.length s / 2 in
    Stdlib.List.init n (fun i -> n_of_int (int_of_string ("0x" ^ String.sub s (2 * i) 2)))
  end
let hex_of_bytes (b : coq_N list) : string =
  if b = [] then "-" else
    String.concat "" (Stdlib.List.map (fun x -> Printf.sprintf "%02x" (int_of_n x)) b)
