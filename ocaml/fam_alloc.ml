(* family "alloc" — mirrors harness/src/fam_alloc.rs on the extracted arena model (AllocHist.a_step).
   "ref" runs the same history on the reference (AllocHist.r_step) in the same syntax. *)
open Conv

let split_commas s = String.split_on_char ',' s

let parse_op (tok : string) : AllocHist.op =
  let f = Array.of_list (split_commas tok) in
  let n i = n_of_dec f.(i) in
  match f.(0) with
  | "a" -> AllocHist.ONewAtom (bytes_of_hex f.(1))
  | "s" -> AllocHist.ONewSmall (n 1)
  | "u" -> AllocHist.ONewU64 (n 1)
  | "i" -> AllocHist.ONewI64 (z_of_dec f.(1))
  | "n" -> AllocHist.ONewNumber (z_of_dec f.(1))
  | "m" -> AllocHist.ONewMalachite (z_of_dec f.(1))
  | "p" -> AllocHist.ONewPair (n 1, n 2)
  | "b" -> AllocHist.ONewSubstr (n 1, n 2, n 3)
  | "c" ->
    let is = Stdlib.List.map n_of_dec (Stdlib.List.tl (Stdlib.List.tl (Array.to_list f))) in
    AllocHist.ONewConcat (n 1, is)
  | "ga" -> AllocHist.OAddGhostAtom (n 1)
  | "gp" -> AllocHist.OAddGhostPair (n 1)
  | "rp" -> AllocHist.ORemoveGhostPair (n 1)
  | "k" -> AllocHist.OCheckpoint
  | "t" -> AllocHist.OTCheckpoint
  | "r" -> AllocHist.ORestore (n 1)
  | "rt" -> AllocHist.ORestoreT (n 1)
  | "mr" -> AllocHist.OMaybeRestore (n 1, n 2)
  | "A" -> AllocHist.OAtom (n 1)
  | "L" -> AllocHist.OAtomLen (n 1)
  | "E" -> AllocHist.OAtomEq (n 1, n 2)
  | "S" -> AllocHist.OSmallNumber (n 1)
  | "N" -> AllocHist.ONumber (n 1)
  | "X" -> AllocHist.OSexp (n 1)
  | "V" -> AllocHist.ONodeView (n 1)
  | _ -> failwith ("bad op token " ^ tok)

let tree_opt (t : Sexp.sexp option) : string =
  match t with Some t -> Util.show_tree_short t | None -> "?"

let err_code (e : Err.errkind) : string = Util.err_name e

let show_obs (o : AllocHist.obs) : string =
  match o with
  | AllocHist.ObNode t -> "n:" ^ tree_opt t
  | AllocHist.ObMaybe (k, t) -> "m" ^ dec_of_n k ^ ":" ^ tree_opt t
  | AllocHist.ObUnit -> "u"
  | AllocHist.ObBytes b -> "b:" ^ hex_of_bytes b
  | AllocHist.ObNum n -> "l:" ^ dec_of_n n
  | AllocHist.ObBool b -> if b then "q:1" else "q:0"
  | AllocHist.ObOptN None -> "o:none"
  | AllocHist.ObOptN (Some v) -> "o:" ^ dec_of_n v
  | AllocHist.ObInt z -> "z:" ^ dec_of_z z
  | AllocHist.ObAtomV -> "xa"
  | AllocHist.ObPairV (l, r) -> "xp:" ^ tree_opt l ^ "," ^ tree_opt r
  | AllocHist.ObBufV b -> "vb:" ^ hex_of_bytes b
  | AllocHist.ObU32V v -> "vu:" ^ dec_of_n v
  | AllocHist.ObErr e -> "e:" ^ err_code e
  | AllocHist.ObSkip -> "skip"
  | AllocHist.ObDead -> "P"

let is_panic (o : AllocHist.obs) =
  match o with
  | AllocHist.ObErr (Err.Panic _) | AllocHist.ObDead -> true
  | _ -> false

let digest_trees (ts : string list) : string =
  let h = ref 0xcbf29ce484222325L in
  Stdlib.List.iter (fun s ->
      String.iter (fun c ->
          h := Int64.logxor !h (Int64.of_int (Char.code c));
          h := Int64.mul !h 0x100000001b3L) (s ^ "|")) ts;
  Printf.sprintf "%016Lx" !h

let show_tree_opt_full (t : Sexp.sexp option) : string =
  match t with Some t -> Util.show_tree t | None -> "?"

let run_arena (t : string array) : string =
  let fx = t.(1) = "1" in
  match AllocHist.a_init (n_of_dec t.(2)) with
  | Err.Err _ -> "P"
  | Err.Ok st0 ->
    let st = ref st0 in
    let out = ref [] in
    (try
       for i = 3 to Array.length t - 1 do
         let (st', ob) = AllocHist.a_step fx !st (parse_op t.(i)) in
         st := st';
         if is_panic ob then begin out := "P" :: !out; raise Exit end;
         let al = AllocHist.a_al st' in
         let dg = digest_trees (Stdlib.List.map (fun n -> show_tree_opt_full (Alloc.denote (Alloc.hp al) n))
                                  (AllocHist.a_nodes st')) in
         out := Printf.sprintf "%s/%s,%s,%s/%s" (show_obs ob)
             (dec_of_n (Alloc.atom_count al)) (dec_of_n (Alloc.pair_count al)) (dec_of_n (Alloc.heap_size al)) dg
                :: !out
       done
     with Exit -> ());
    if !out = [] then "-" else String.concat " " (Stdlib.List.rev !out)

let run_ref (t : string array) : string =
  let st = ref (AllocHist.r_init (n_of_dec t.(2))) in
  let out = ref [] in
  (try
     for i = 3 to Array.length t - 1 do
       let (st', ob) = AllocHist.r_step !st (parse_op t.(i)) in
       st := st';
       if is_panic ob then begin out := "P" :: !out; raise Exit end;
       let r = AllocHist.r_st st' in
       let dg = digest_trees (Stdlib.List.map Util.show_tree (AllocHist.r_nodes st')) in
       out := Printf.sprintf "%s/%s,%s,%s/%s" (show_obs (AllocHist.norm_obs ob))
           (dec_of_n (AllocRef.r_atoms r)) (dec_of_n (AllocRef.r_pairs r)) (dec_of_n (AllocRef.r_heap r)) dg
              :: !out
     done
   with Exit -> ());
  if !out = [] then "-" else String.concat " " (Stdlib.List.rev !out)

(* per step: has the arena model taken new_substr's copy-to-heap branch (finding F2) so far? *)
let run_f2 (t : string array) : string =
  let fx = t.(1) = "1" in
  match AllocHist.a_init (n_of_dec t.(2)) with
  | Err.Err _ -> "-"
  | Err.Ok st0 ->
    let st = ref st0 in
    let out = Buffer.create 64 in
    for i = 3 to Array.length t - 1 do
      let o = parse_op t.(i) in
      (* is this step itself a substring of an inline atom that cannot be stored inline? (it is
         that also when the repaired code then refuses it for lack of heap) *)
      let here = (match o with
          | AllocHist.ONewSubstr (i, s, e) ->
            (match Alloc.nth_N (AllocHist.a_nodes !st) i with
             | Some x ->
               (match Alloc.new_substr_gen false (AllocHist.a_al !st) x s e with
                | Err.Ok (_, Alloc.SubSmallHeap) -> true
                | _ -> false)
             | None -> false)
          | _ -> false) in
      let (st', _) = AllocHist.a_step fx !st o in
      st := st';
      Buffer.add_char out (if AllocHist.a_f2 st' || here then '1' else '0')
    done;
    if Buffer.length out = 0 then "-" else Buffer.contents out

let fam_alloc (t : string array) : string =
  match t.(0) with
  | "run" -> run_arena t
  | "f2" -> run_f2 t
  | "ref" -> run_ref t
  | _ -> "skip"

let () = Reg.register "alloc" fam_alloc
