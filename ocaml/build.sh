#!/bin/sh
# build the extracted model + driver into <verif>/.build/ocaml/model
set -e
cd "$(dirname "$0")"
OUT="$(cd .. && pwd)/.build/ocaml"
mkdir -p "$OUT"
rm -rf "$OUT/src"; mkdir -p "$OUT/src"
cp gen/*.ml gen/*.mli *.ml "$OUT/src/"
cd "$OUT/src"
# dependency order from ocamldep; driver.ml (the main loop) is linked last so that every
# family has registered itself before it runs
mv driver.ml driver.ml.last
ORDER=$(ocamlfind ocamldep -sort *.mli *.ml)
mv driver.ml.last driver.ml
ocamlfind ocamlopt -package unix -linkpkg -O2 -w -a -o "$OUT/model" $ORDER driver.ml 2>/dev/null || ocamlfind ocamlopt -package unix -linkpkg -w -a -o "$OUT/model" $ORDER driver.ml
