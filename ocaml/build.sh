#!/bin/sh
# build the extracted model + driver into /verif/.build/ocaml/model
set -e
cd "$(dirname "$0")"
OUT=/verif/.build/ocaml
mkdir -p "$OUT"
rm -rf "$OUT/src"; mkdir -p "$OUT/src"
cp gen/*.ml gen/*.mli conv.ml util.ml driver.ml "$OUT/src/"
cd "$OUT/src"
# dependency order from ocamldep
ORDER=$(ocamlfind ocamldep -sort *.mli *.ml)
ocamlfind ocamlopt -O2 -w -a -o "$OUT/model" $ORDER 2>/dev/null || ocamlfind ocamlopt -w -a -o "$OUT/model" $ORDER
