(* family "fastops" — mirrors harness/src/fam_fastops.rs on the extracted Model/OpsFast.v:
   mode fast = the default build's operator bodies, nofast = the no-fastpath build's, gen = the
   tree-store operator on the denoted argument list. *)
open Conv

let sha = Sha256.sha256

let arg_of (s : string) : OpsFast.rarg =
  let body = String.sub s 1 (String.length s - 1) in
  match s.[0] with
  | 's' -> OpsFast.RSmall (n_of_dec body)
  | 'b' -> OpsFast.RBuf (bytes_of_hex body)
  | 'p' -> OpsFast.RPair (Sexp.Atom [], Sexp.Atom [])
  | _ -> failwith "bad argument spec"

let term_of (s : string) : OpsFast.rterm =
  let body = String.sub s 1 (String.length s - 1) in
  match s.[0] with
  | 's' -> OpsFast.TSmall (n_of_dec body)
  | 'b' -> OpsFast.TBuf (bytes_of_hex body)
  | _ -> failwith "bad terminator spec"

let show (r : (BinNums.coq_N * Sexp.sexp) Err.res) : string =
  match r with
  | Err.Ok (c, v) ->
    let repr = match v with
      | Sexp.Atom b -> (match Alloc.fits_in_small_atom b with Some _ -> "s" | None -> "b")
      | Sexp.Cons _ -> "p" in
    "ok " ^ dec_of_n c ^ " " ^ Util.show_tree_short v ^ " " ^ repr
  | Err.Err e -> "err " ^ Util.err_name e

let fam_fastops (t : string array) : string =
  if t.(0) <> "fo" then failwith "bad fastops case";
  let flags = Flags.flags_of_N (n_of_dec t.(3)) in
  let max_cost = n_of_dec t.(4) in
  let items = if t.(6) = "-" then [] else String.split_on_char ',' t.(6) in
  let inp = (Stdlib.List.map arg_of items, term_of t.(5)) in
  if not (OpsFast.rinput_ok inp) then "skip invariant" else
  let r = match t.(1), t.(2) with
    | "fast", "op_add" -> OpsFast.op_add_fast flags inp max_cost
    | "nofast", "op_add" -> OpsFast.op_add_nofast flags inp max_cost
    | "gen", "op_add" -> OpsArith.op_add flags (OpsFast.denote_input inp) max_cost
    | "fast", "op_subtract" -> OpsFast.op_subtract_fast flags inp max_cost
    | "nofast", "op_subtract" -> OpsFast.op_subtract_nofast flags inp max_cost
    | "gen", "op_subtract" -> OpsArith.op_subtract flags (OpsFast.denote_input inp) max_cost
    | "fast", "op_multiply" -> OpsFast.op_multiply_fast flags inp max_cost
    | "nofast", "op_multiply" -> OpsFast.op_multiply_nofast flags inp max_cost
    | "gen", "op_multiply" -> OpsArith.op_multiply flags (OpsFast.denote_input inp) max_cost
    | "fast", "op_gr" -> OpsFast.op_gr_fast flags inp max_cost
    | "nofast", "op_gr" -> OpsFast.op_gr_nofast flags inp max_cost
    | "gen", "op_gr" -> OpsArith.op_gr flags (OpsFast.denote_input inp) max_cost
    | "fast", "op_sha256" -> OpsFast.op_sha256_fast sha flags inp max_cost
    | "nofast", "op_sha256" -> OpsFast.op_sha256_nofast sha flags inp max_cost
    | "gen", "op_sha256" -> OpsStr.op_sha256 sha flags (OpsFast.denote_input inp) max_cost
    | _ -> failwith "bad mode/operator" in
  show r

let () = Reg.register "fastops" fam_fastops
