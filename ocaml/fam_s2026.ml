(* family "s2026" — mirrors harness/src/fam_s2026.rs *)
open Conv

(* decoded values: (expanded size saturating at 2^40, structural hash, the tree) *)
type v = { size : int; h : int64; t : Sexp.sexp }

let mix1 = 0x100000001b3L
let mix2 = 0x9E3779B97F4A7C15L
let mk_atom (b : BinNums.coq_N list) : v = { size = 1; h = Util.fnv64 (Util.ints_of_bytes b); t = Sexp.Atom b }
let mk_pair (l : v) (r : v) : v =
  { size = min (1 + l.size + r.size) (1 lsl 40);
    h = Int64.add (Int64.mul (Int64.add (Int64.mul l.h mix1) r.h) mix2) 1L;
    t = Sexp.Cons (l.t, r.t) }

let show_digest (x : v) : string =
  if x.size <= 60 then Util.show_tree x.t else Printf.sprintf "T#%d:%016Lx" x.size x.h

(* digest of a source tree, iterative *)
let digest_of_tree (t : Sexp.sexp) : v =
  let st = Stack.create () in
  let vals = Stack.create () in
  Stack.push (`Visit t) st;
  while not (Stack.is_empty st) do
    match Stack.pop st with
    | `Visit (Sexp.Atom b) -> Stack.push (mk_atom b) vals
    | `Visit (Sexp.Cons (l, r)) -> Stack.push `Join st; Stack.push (`Visit r) st; Stack.push (`Visit l) st
    | `Join -> let r = Stack.pop vals in let l = Stack.pop vals in Stack.push (mk_pair l r) vals
  done;
  Stack.pop vals

let len = Stdlib.List.length
let ename r = match r with Err.Ok _ -> "ACCEPT" | Err.Err e -> Util.err_name e

let fam_s2026 (t : string array) : string =
  let open S2026 in
  match t.(0) with
  | "ser" ->
    (match ser_2026 (n_of_dec t.(1)) (Fam_intern.parse_dag t.(2)) with
     | Err.Ok b -> "ok " ^ (if len b <= 120 then hex_of_bytes b else Util.digest b)
     | Err.Err e -> "err " ^ Util.err_name e)
  | "rt" ->
    let tr = Fam_intern.parse_dag t.(2) in
    (match ser_2026 (n_of_dec t.(1)) tr with
     | Err.Err e -> "err " ^ Util.err_name e
     | Err.Ok b ->
       let src = digest_of_tree tr in
       let buf = Buffer.create 64 in
       Buffer.add_string buf (Printf.sprintf "ok len=%d" (len b));
       Stdlib.List.iter (fun strict ->
           let same = match de_2026 mk_atom mk_pair strict usize_max b with
             | Err.Ok (x, rest) -> x.size = src.size && x.h = src.h && rest = []
             | Err.Err _ -> false in
           let probe = match probe_2026 strict usize_max b with
             | Err.Ok n -> dec_of_z n | Err.Err e -> Util.err_name e in
           Buffer.add_string buf (Printf.sprintf " %s=%b probe=%s" (if strict then "strict" else "lenient") same probe))
         [true; false];
       Buffer.add_string buf (" classic=" ^ ename (Classic.node_from_bytes b));
       Buffer.contents buf)
  | "de" ->
    let b = bytes_of_hex t.(3) in
    (match de_2026 mk_atom mk_pair (t.(1) = "1") (z_of_dec t.(2)) b with
     | Err.Ok (x, rest) -> Printf.sprintf "ok %s %d" (show_digest x) (len b - len rest)
     | Err.Err e -> "err " ^ Util.err_name e)
  | "probe" ->
    (match probe_2026 (t.(1) = "1") (z_of_dec t.(2)) (bytes_of_hex t.(3)) with
     | Err.Ok n -> "ok " ^ dec_of_z n
     | Err.Err e -> "err " ^ Util.err_name e)
  | "cl" -> "ok classic=" ^ ename (Classic.node_from_bytes (bytes_of_hex t.(1)))
  | _ -> "skip"

let () = Reg.register "s2026" fam_s2026
