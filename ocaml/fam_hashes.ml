(* family "hashes" — mirrors harness/src/fam_hashes.rs *)
open Conv

let sha (b : BinNums.coq_N list) = Sha256.sha256 b
let table = HashTable.precomputed_hashes

(* fits_in_small_atom of allocator.rs: which atoms new_atom stores inline *)
let small_of_bytes (b : int list) : int option =
  match b with
  | [] -> Some 0
  | v0 :: rest ->
    let len = Stdlib.List.length b in
    if len > 4 || (len = 1 && v0 = 0) || v0 land 0x80 <> 0
       || (v0 = 0 && (match rest with v1 :: _ -> v1 land 0x80 = 0 | [] -> false))
       || (len = 4 && v0 > 3) then None
    else Some (Stdlib.List.fold_left (fun acc x -> acc * 256 + x) 0 b)

(* the DAG transport format with representations: 'a' through new_atom, 'h' on the heap *)
let parse_rdag (s : string) : TreeHashOp.rtree =
  let i = ref 0 in
  let st : [ `Pair | `Node of TreeHashOp.rtree ] Stack.t = Stack.create () in
  let finished = ref (Array.make 16 (TreeHashOp.RBuf [])) in
  let nfin = ref 0 in
  let push_done t =
    if !nfin >= Array.length !finished then begin
      let bigger = Array.make (2 * Array.length !finished) (TreeHashOp.RBuf []) in
      Array.blit !finished 0 bigger 0 !nfin; finished := bigger end;
    (!finished).(!nfin) <- t; incr nfin in
  let result = ref None in
  while !result = None do
    let c = s.[!i] in
    if c = 'p' then begin incr i; Stack.push `Pair st end
    else begin
      let j = String.index_from s !i ';' in
      let body = String.sub s (!i + 1) (j - !i - 1) in
      i := j + 1;
      let node =
        if c = 'a' || c = 'h' then begin
          let b = bytes_of_hex (if body = "" then "-" else body) in
          let t = if c = 'h' then TreeHashOp.RBuf b
            else (match small_of_bytes (Util.ints_of_bytes b) with
                | Some v -> TreeHashOp.RSmall (n_of_int v)
                | None -> TreeHashOp.RBuf b) in
          push_done t; t end
        else if c = 'r' then (!finished).(int_of_string body)
        else failwith "bad dag char" in
      let cur = ref node in
      let continue = ref true in
      while !continue do
        if Stack.is_empty st then begin result := Some !cur; continue := false end
        else match Stack.pop st with
          | `Pair -> Stack.push `Pair st; Stack.push (`Node !cur) st; continue := false
          | `Node left ->
            (match Stack.pop st with `Pair -> () | _ -> failwith "bad dag");
            cur := TreeHashOp.RPair (left, !cur);
            push_done !cur
      done
    end
  done;
  match !result with Some t -> t | None -> failwith "no tree"

let rec nat_of_int (n : int) : Datatypes.nat =
  let r = ref Datatypes.O in
  for _ = 1 to n do r := Datatypes.S !r done; !r

let u64max = n_of_dec "18446744073709551615"

let fam_hashes (t : string array) : string =
  match t.(0) with
  | "all" ->
    let rt = parse_rdag t.(1) in
    let tr = TreeHashOp.erase rt in
    let r0 = TreeHashOp.tree_hash_costed sha table false rt u64max in
    let r1 = TreeHashOp.tree_hash_costed sha table true rt u64max in
    (match r0, r1 with
     | Err.Ok (c0, h0), Err.Ok (c1, h1) ->
       (* the arena hashers of the model on the unshared and on the interned arena *)
       let fuel = nat_of_int (3 * Fam_intern.int_of_nat (Sexp.n_nodes tr) + 8) in
       let oc it = match TreeHashOp.oc_loop sha it fuel [] [it.Intern.it_root] with
         | Err.Ok cache -> (match TreeHashOp.lookup it.Intern.it_root cache with Some h -> Some h | None -> None)
         | Err.Err _ -> None in
       let py it cc = match TreeHashOp.py_treehash sha it cc fuel with Err.Ok h -> Some h | Err.Err _ -> None in
       let it1 = Intern.intern_tree tr in
       let others = [ oc it1; py it1 true; py it1 false;
                      (match Classic.ser tr with
                       | Some e -> (match Classic.tree_hash_from_stream sha e with Err.Ok (h, _) -> Some h | _ -> None)
                       | None -> None) ] in
       let agree = h0 = h1 && Stdlib.List.for_all (fun x -> x = Some h0) others in
       Printf.sprintf "ok h=%s cost=%s,%s agree=%b" (hex_of_bytes h0) (dec_of_n c0) (dec_of_n c1) agree
     | Err.Err e, _ | _, Err.Err e -> "err costed " ^ Util.err_name e)
  | "budget" ->
    let rt = parse_rdag t.(3) in
    (match TreeHashOp.tree_hash_costed sha table (t.(1) = "1") rt (n_of_dec t.(2)) with
     | Err.Ok (c, h) -> Printf.sprintf "ok %s %s" (dec_of_n c) (hex_of_bytes h)
     | Err.Err e -> "err " ^ Util.err_name e)
  | _ -> "skip"

let () = Reg.register "hashes" fam_hashes
