(* family "br" — mirrors harness/src/fam_br.rs on the extracted model *)
open Conv

(* back-references can denote exponentially large trees: printing is bounded by a node count *)
let cap = 50000
let size_capped (t : Sexp.sexp) : int =
  let st = Stack.create () in
  Stack.push t st;
  let c = ref 0 in
  while not (Stack.is_empty st) && !c <= cap do
    incr c;
    (match Stack.pop st with
     | Sexp.Cons (l, r) -> Stack.push l st; Stack.push r st
     | Sexp.Atom _ -> ())
  done;
  !c
let show_capped t = if size_capped t > cap then "T>cap" else Util.show_tree_short t

let show_outcome (b : BinNums.coq_N list) (o : BackRef.br_outcome) : string =
  let (pc, r) = o in
  match r with
  | Err.Ok (tr, rest) ->
    Printf.sprintf "ok %s %d pc=%s" (show_capped tr)
      (Stdlib.List.length b - Stdlib.List.length rest) (dec_of_n pc)
  | Err.Err e -> Printf.sprintf "err %s pc=%s" (Util.err_name e) (dec_of_n pc)

let fam_br (t : string array) : string =
  let open BackRef in
  match t.(0) with
  | "new" -> let b = bytes_of_hex t.(1) in show_outcome b (node_from_stream_backrefs b)
  | "old" -> let b = bytes_of_hex t.(1) in show_outcome b (node_from_stream_backrefs_old b)
  | "abs" -> let b = bytes_of_hex t.(1) in show_outcome b (de_br_abs b)
  | "spec" ->
    let b = bytes_of_hex t.(1) in
    (match de_br_spec b with
     | Err.Ok (tr, rest) -> Printf.sprintf "ok %s %d" (show_capped tr) (Stdlib.List.length b - Stdlib.List.length rest)
     | Err.Err e -> "err " ^ Util.err_name e)
  | "probe" ->
    (match serialized_length_from_bytes (bytes_of_hex t.(1)) with
     | Err.Ok n -> "ok " ^ dec_of_n n | Err.Err e -> "err " ^ Util.err_name e)
  | "ser" ->
    (match SerBR.node_to_bytes_backrefs Sha256.sha256 (Util.parse_tree t.(1)) with
     | Err.Ok b -> "ok " ^ Util.digest b | Err.Err e -> "err " ^ Util.err_name e)
  | "serl" ->
    (match SerBR.node_to_bytes_backrefs_limit Sha256.sha256 (Util.parse_tree t.(2)) (n_of_dec t.(1)) with
     | Err.Ok b -> "ok " ^ Util.digest b | Err.Err e -> "err " ^ Util.err_name e)
  | _ -> "skip"

let () = Reg.register "br" fam_br
