(* family "varint" — mirrors harness/src/fam_varint.rs *)
open Conv

let fam_varint (t : string array) : string =
  match t.(0) with
  | "w" ->
    (match Varint.write_varint (z_of_dec t.(1)) with
     | Some e -> "ok " ^ hex_of_bytes e
     | None -> "panic")
  | "r" ->
    (match Varint.read_varint (t.(1) = "1") (bytes_of_hex t.(2)) with
     | Varint.VOk (v, rest) -> "ok " ^ dec_of_z v ^ " " ^ hex_of_bytes rest
     | Varint.VErr -> "err"
     | Varint.VPanic -> "panic")
  | _ -> failwith "bad varint case"


let () = Reg.register "varint" fam_varint
