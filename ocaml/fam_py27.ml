(* family "py27" — the model of clvm_tree_to_lazy_node (Model/PyHeap.v); mirrors
   pyharness/fam_py27.py.
   conv <kind> <tree>: stable kinds are built as OStable objects with one address per object;
     kinds whose allocations the model cannot know in advance (lazy, fresh) are skipped here and
     re-run as `replay` with the allocation trace recorded by the Python side.
   replay <keepalive 0|1> <root addr> <trace csv|-> <tree>: fresh-children object at the recorded
     root address, address oracle = the recorded trace; `invalid-oracle` when a recorded address
     is live in the model at the moment it is handed out (py_alloc_valid would be violated). *)
open Conv

exception Invalid_oracle of int * string

let rec int_of_nat (n : Datatypes.nat) : int = match n with Datatypes.O -> 0 | Datatypes.S k -> 1 + int_of_nat k

let res_tree r = match r with
  | Err.Ok t -> "ok " ^ Util.show_tree_short t
  | Err.Err e -> "err " ^ Util.err_name e

(* one address per object; [share]: structurally equal sub-trees are one object *)
let build_stable (share : bool) (t : Sexp.sexp) : PyHeap.pobj =
  let next = ref 1000 in
  let memo : (Sexp.sexp, PyHeap.pobj) Hashtbl.t = Hashtbl.create 64 in
  let fresh_addr () = incr next; n_of_int !next in
  let rec go t =
    match (if share then Hashtbl.find_opt memo t else None) with
    | Some o -> o
    | None ->
      let o = match t with
        | Sexp.Atom b -> PyHeap.OAtom (fresh_addr (), b)
        | Sexp.Cons (l, r) -> let lo = go l in let ro = go r in PyHeap.OStable (fresh_addr (), lo, ro) in
      if share then Hashtbl.replace memo t o;
      o in
  go t

let fam_py27 (t : string array) : string =
  match t.(0) with
  | "conv" ->
    let kind = t.(1) in
    if kind = "lazy" || kind = "fresh" then "skip"
    else begin
      let o = build_stable (kind = "shared") (Util.parse_tree t.(2)) in
      res_tree (PyHeap.clvm_tree_to_lazy_node PyHeap.reusing_oracle PyHeap.current_keepalive o)
    end
  | "replay" ->
    let ka = t.(1) = "1" in
    let root = n_of_dec t.(2) in
    let trace = if t.(3) = "-" then [||] else Array.of_list (Stdlib.List.map n_of_dec (String.split_on_char ',' t.(3))) in
    let tree = Util.parse_tree t.(4) in
    let oracle (n : Datatypes.nat) (lv : BinNums.coq_N list) : BinNums.coq_N =
      let i = int_of_nat n in
      if i >= Array.length trace then raise (Invalid_oracle (i, "trace-exhausted"))
      else begin
        let a = trace.(i) in
        if Stdlib.List.mem a lv then raise (Invalid_oracle (i, dec_of_n a));
        a
      end in
    (try res_tree (PyHeap.clvm_tree_to_lazy_node oracle ka (PyHeap.mk_fresh root tree))
     with Invalid_oracle (i, a) -> Printf.sprintf "invalid-oracle %d %s" i a)
  | _ -> "skip"

let () = Reg.register "py27" fam_py27
