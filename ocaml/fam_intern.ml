(* family "intern" — mirrors harness/src/fam_intern.rs *)
open Conv

let sha (b : BinNums.coq_N list) = Sha256.sha256 b

(* DAG transport format: 'p' node node | 'a' HEX ';' | 'h' HEX ';' | 'r' DEC ';'
   the model has no node identity and no representations: 'h' is 'a', 'r' is the sub-tree again *)
let parse_dag (s : string) : Sexp.sexp =
  let i = ref 0 in
  let st : [ `Pair | `Node of Sexp.sexp ] Stack.t = Stack.create () in
  let finished : Sexp.sexp array ref = ref (Array.make 16 (Sexp.Atom [])) in
  let nfin = ref 0 in
  let push_done t =
    if !nfin >= Array.length !finished then begin
      let bigger = Array.make (2 * Array.length !finished) (Sexp.Atom []) in
      Array.blit !finished 0 bigger 0 !nfin; finished := bigger end;
    (!finished).(!nfin) <- t; incr nfin in
  let result = ref None in
  while !result = None do
    let c = s.[!i] in
    if c = 'p' then begin incr i; Stack.push `Pair st end
    else begin
      let j = String.index_from s !i ';' in
      let body = String.sub s (!i + 1) (j - !i - 1) in
      i := j + 1;
      let node =
        if c = 'a' || c = 'h' then begin
          let t = Sexp.Atom (bytes_of_hex (if body = "" then "-" else body)) in push_done t; t end
        else if c = 'r' then (!finished).(int_of_string body)
        else failwith "bad dag char" in
      let cur = ref node in
      let continue = ref true in
      while !continue do
        if Stack.is_empty st then begin result := Some !cur; continue := false end
        else match Stack.pop st with
          | `Pair -> Stack.push `Pair st; Stack.push (`Node !cur) st; continue := false
          | `Node left ->
            (match Stack.pop st with `Pair -> () | _ -> failwith "bad dag");
            cur := Sexp.Cons (left, !cur);
            push_done !cur
      done
    end
  done;
  match !result with Some t -> t | None -> failwith "no tree"

let rec int_of_nat (n : Datatypes.nat) : int =
  (* iterative to survive large indices *)
  let r = ref 0 and c = ref n in
  (try while true do match !c with Datatypes.O -> raise Exit | Datatypes.S m -> incr r; c := m done with Exit -> ());
  !r

let node_name (n : Intern.inode) : string =
  match n with Intern.IA i -> "a" ^ string_of_int (int_of_nat i) | Intern.IP i -> "p" ^ string_of_int (int_of_nat i)

let shorten (s : string) : string =
  if String.length s <= 400 then s
  else Printf.sprintf "X#%d:%016Lx" (String.length s) (Util.fnv64 (Util.ints_of_string s))

let tables (it : Intern.itree) : string * string * string =
  let atoms = String.concat "," (Stdlib.List.map hex_of_bytes it.Intern.it_atoms) in
  let pairs = String.concat "," (Stdlib.List.map (fun (l, r) -> node_name l ^ ":" ^ node_name r) it.Intern.it_pairs) in
  (atoms, pairs, node_name it.Intern.it_root)

let fam_intern (t : string array) : string =
  match t.(0) with
  | "tab" ->
    let it = Intern.intern_tree (parse_dag t.(1)) in
    let (a, p, r) = tables it in
    Printf.sprintf "ok %d %d A=%s P=%s R=%s" (Stdlib.List.length it.Intern.it_atoms)
      (Stdlib.List.length it.Intern.it_pairs) (shorten a) (shorten p) r
  | "eq" ->
    (* the theorem C24_tree_preserved makes these the serialization / tree hash of the interned
       tree; they are computed from the source tree *)
    let tr = parse_dag t.(1) in
    (match Classic.ser tr with
     | Some b -> Printf.sprintf "ok %s %s" (Util.digest b) (hex_of_bytes (Classic.treehash sha tr))
     | None -> "err SerializationError")
  | _ -> "skip"

let () = Reg.register "intern" fam_intern
