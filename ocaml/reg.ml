(* family registry: every fam_<x>.ml registers its case function at start-up *)
let table : (string, string array -> string) Hashtbl.t = Hashtbl.create 16
let register (name : string) (f : string array -> string) = Hashtbl.replace table name f
