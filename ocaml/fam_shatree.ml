(* family "shatree" (C23) — mirrors harness/src/fam_shatree.rs on the extracted model.
     both f=.. m=.. share=.. <program tree> <tree>  -> "<native outcome> ; <clvm outcome>"
        (share= is ignored: a tree has no sharing)
     cost <tree>  -> "cost <native old> <clvm old> <native new> <clvm new>": the closed forms
        ShaTreeCost.native_cost / clvm_cost under the pre-hard-fork and the new cost model. *)
open Conv

let outcome r =
  match r with
  | Err.Ok (c, v) -> Printf.sprintf "ok %s %s" (dec_of_n c) (Util.show_tree_short v)
  | Err.Err e -> "err " ^ (match String.index_opt (Util.err_name e) '[' with
      | Some i -> String.sub (Util.err_name e) 0 i | None -> Util.err_name e)

let fam_shatree (t : string array) : string =
  match t.(0) with
  | "both" ->
    let n = Array.length t in
    let p = Util.parse_tree t.(n - 2) and tree = Util.parse_tree t.(n - 1) in
    let opts = Array.sub t 1 (n - 3) in
    let flags = n_of_dec (Option.value (Fam_run.kv opts "f") ~default:"0") in
    let m = n_of_dec (Option.value (Fam_run.kv opts "m") ~default:"0") in
    let fuel = Lazy.force Fam_run.fuel in
    let o1 = outcome (Dialect.run_chia Fam_run.prims fuel flags (ShaTreeCost.native_prog tree) Sexp.nil_s m) in
    let o2 = outcome (Dialect.run_chia Fam_run.prims fuel flags p tree m) in
    o1 ^ " ; " ^ o2
  | "cost" ->
    let tree = Util.parse_tree t.(1) in
    let (((a, b), c), d) = ShaTreeCost.shacost tree in
    Printf.sprintf "cost %s %s %s %s" (dec_of_n a) (dec_of_n b) (dec_of_n c) (dec_of_n d)
  | _ -> "skip"

let () = Reg.register "shatree" fam_shatree
