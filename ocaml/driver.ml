(* model driver: mirrors harness/src/main.rs — same case lines in, same observation syntax out *)
open Conv

let fam_varint (t : string array) : string =
  match t.(0) with
  | "w" ->
    (match Varint.write_varint (z_of_dec t.(1)) with
     | Some e -> "ok " ^ hex_of_bytes e
     | None -> "panic")
  | "r" ->
    (match Varint.read_varint (t.(1) = "1") (bytes_of_hex t.(2)) with
     | Varint.VOk (v, rest) -> "ok " ^ dec_of_z v ^ " " ^ hex_of_bytes rest
     | Varint.VErr -> "err"
     | Varint.VPanic -> "panic")
  | _ -> failwith "bad varint case"

let () =
  let fam = Sys.argv.(1) in
  let f = match fam with
    | "varint" -> fam_varint
    | _ -> failwith ("unknown family " ^ fam) in
  try
    while true do
      let line = String.trim (input_line stdin) in
      if line <> "" && line.[0] <> '#' then begin
        let t = Array.of_list (Stdlib.List.filter (fun s -> s <> "") (String.split_on_char ' ' line)) in
        print_string (f t); print_newline ()
      end
    done
  with End_of_file -> ()
