(* model driver: mirrors harness/src/main.rs — same case lines in, same observation syntax out.
   Families live in fam_<x>.ml and register themselves in Reg (build.sh links driver.ml last). *)
exception Line_timeout
(* opt-in (the correspondence runs set it): a case the extracted model cannot evaluate within MODEL_LINE_TIMEOUT seconds (multi-kilobyte
   numeric operands: the model's arithmetic is Coq's binary-positive arithmetic) is reported as
   `skip`, i.e. not compared; the check counts skips in its evidence *)
let line_limit = try int_of_string (Sys.getenv "MODEL_LINE_TIMEOUT") with _ -> 0
let () =
  Sys.set_signal Sys.sigalrm (Sys.Signal_handle (fun _ -> raise Line_timeout));
  let fam = Sys.argv.(1) in
  let f = match Hashtbl.find_opt Reg.table fam with
    | Some f -> f
    | None -> failwith ("unknown family " ^ fam) in
  try
    while true do
      let line = String.trim (input_line stdin) in
      if line <> "" && line.[0] <> '#' then begin
        let t = Array.of_list (Stdlib.List.filter (fun s -> s <> "") (String.split_on_char ' ' line)) in
        if line_limit > 0 then ignore (Unix.alarm line_limit);
        let r = try let r = f t in ignore (Unix.alarm 0); r with
          | Line_timeout -> "skip model-timeout"
          | Stack_overflow -> "crash stack-overflow"
          | Failure m -> "crash failure " ^ m
          | Not_found -> "crash not-found"
          | Invalid_argument m -> "crash invalid-arg " ^ m in
        ignore (Unix.alarm 0);
        print_string r; print_newline ()
      end
    done
  with End_of_file -> ()
