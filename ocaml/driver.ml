(* model driver: mirrors harness/src/main.rs — same case lines in, same observation syntax out.
   Families live in fam_<x>.ml and register themselves in Reg (build.sh links driver.ml last). *)
let () =
  let fam = Sys.argv.(1) in
  let f = match Hashtbl.find_opt Reg.table fam with
    | Some f -> f
    | None -> failwith ("unknown family " ^ fam) in
  try
    while true do
      let line = String.trim (input_line stdin) in
      if line <> "" && line.[0] <> '#' then begin
        let t = Array.of_list (Stdlib.List.filter (fun s -> s <> "") (String.split_on_char ' ' line)) in
        let r = try f t with
          | Stack_overflow -> "crash stack-overflow"
          | Failure m -> "crash failure " ^ m
          | Not_found -> "crash not-found"
          | Invalid_argument m -> "crash invalid-arg " ^ m in
        print_string r; print_newline ()
      end
    done
  with End_of_file -> ()
