(* family "incr" — mirrors harness/src/fam_incr.rs on the extracted model (Model/Incremental.v).
   case line:  hist <sentinel> <nodes> <ops> <oracle>
   <oracle> = for every add op, in order, the bytes the implementation held after that call
   (';'-separated hex). The model's find_path oracle answers from them: at output position p the
   answer is Some path iff the implementation wrote 0xfe there (path = the atom that follows).
   Every path is validated against the model's stack (the premise of C19_decode); an invalid one
   is reported in the observation ("!invalid-path@<pos>"), so the line disagrees with the
   implementation's. At completion the model decodes its own bytes with both model decoders and
   compares with Incremental.assemble of the retained additions ("!asm-mismatch"). *)
open Conv
open Incremental

let parse_defs (s : string) : stree array =
  if s = "-" then [||] else begin
    let ds = Stdlib.List.filter (fun x -> x <> "") (String.split_on_char ';' s) in
    let arr = Array.make (Stdlib.List.length ds) SHole in
    Stdlib.List.iteri (fun i d ->
        let body = String.sub d 1 (String.length d - 1) in
        arr.(i) <-
          (match d.[0] with
           | 'a' -> SAtom (bytes_of_hex (if body = "" then "-" else body))
           | 'p' ->
             let k = String.index body '.' in
             let get x = if x = "s" then SHole else arr.(int_of_string x) in
             SCons (get (String.sub body 0 k), get (String.sub body (k + 1) (String.length body - k - 1)))
           | _ -> failwith "bad node def")) ds;
    arr
  end

let show_dec (o : BackRef.br_outcome) : string =
  match snd o with
  | Err.Ok (t, _) -> Util.show_tree t
  | Err.Err e -> "err-" ^ Util.err_name e

let fam_incr (t : string array) : string =
  match t.(0) with
  | "hist" ->
    let nodes = parse_defs t.(2) in
    let ops = Stdlib.List.filter (fun x -> x <> "") (String.split_on_char ',' t.(3)) in
    let oracle_src =
      if Array.length t > 4 then Array.of_list (String.split_on_char ';' t.(4)) else [||] in
    let s = ref ser_new in
    let undos = ref [||] in              (* per add call: undo state, retained additions before it *)
    let retained = ref [] in             (* reversed *)
    let nadd = ref 0 in
    let obs = ref [] in
    let stop = ref false in
    Stdlib.List.iter (fun op ->
        if not !stop then begin
          let arg = String.sub op 1 (String.length op - 1) in
          match op.[0] with
          | 'A' ->
            let node = if arg = "s" then SHole else nodes.(int_of_string arg) in
            let src =
              if !nadd < Array.length oracle_src then
                Array.of_list (Stdlib.List.map int_of_n (bytes_of_hex oracle_src.(!nadd)))
              else [||] in
            let flags = Buffer.create 16 in
            let orc (st : ser) (n : stree) : BinNums.coq_N list option =
              let p = int_of_n (c_pos (out st)) in
              if p < Array.length src && src.(p) = 0xfe then begin
                let rest = Stdlib.List.init (Array.length src - p - 1) (fun i -> n_of_int src.(p + 1 + i)) in
                match BackRef.parse_path rest with
                | Err.Ok (path, _) ->
                  (match Path.traverse_path path (BackRef.stack_list (tc_stk st)) with
                   | Err.Ok (_, found) when Sexp.sexp_eqb found (to_sexp n) -> ()
                   | _ -> Buffer.add_string flags (Printf.sprintf "!invalid-path@%d" p));
                  Some path
                | Err.Err _ -> Buffer.add_string flags (Printf.sprintf "!bad-path-atom@%d" p); None
              end else None in
            (match add orc !s node with
             | Err.Ok ((d, u), s') ->
               undos := Array.append !undos [| (u, !retained) |];
               retained := node :: !retained;
               incr nadd;
               s := s';
               let b = get_ref s' in
               let item = Buffer.create 64 in
               Buffer.add_string item
                 (Printf.sprintf "a:%d:%s:%s" (if d then 1 else 0) (dec_of_n (size s')) (hex_of_bytes b));
               if d then begin
                 let dn = BackRef.node_from_stream_backrefs b in
                 Buffer.add_string item (":dec=" ^ show_dec dn);
                 Buffer.add_string item (":old=" ^ show_dec (BackRef.node_from_stream_backrefs_old b));
                 (match assemble (Stdlib.List.rev !retained), snd dn with
                  | Some want, Err.Ok (got, []) when Sexp.sexp_eqb want got -> ()
                  | _ -> Buffer.add_string flags "!asm-mismatch");
                 (match into_inner s' with Err.Ok _ -> () | Err.Err _ -> Buffer.add_string flags "!not-finished")
               end;
               Buffer.add_buffer item flags;
               obs := Buffer.contents item :: !obs
             | Err.Err e ->
               obs := ("a:err:" ^ Util.err_name e ^ Buffer.contents flags) :: !obs;
               stop := true)
          | 'U' ->
            let (u, ret) = !undos.(int_of_string arg) in
            s := restore u !s;
            retained := ret;
            obs := Printf.sprintf "u:%s:%s" (dec_of_n (size !s)) (hex_of_bytes (get_ref !s)) :: !obs
          | _ -> failwith "bad op"
        end) ops;
    String.concat "|" (Stdlib.List.rev !obs)
  | _ -> "skip"

let () = Reg.register "incr" fam_incr
