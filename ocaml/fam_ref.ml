(* family "ref" — the reference evaluator of property C01 (Model/RefClvm.v, extracted) on the
   same `run k=v ... <program> <env>` case lines as family "run". Only m= (budget) is read, and
   ad=cur|hist (default cur: current_adapters); the flag word and the dialect are the
   implementation's business (C01 fixes them: ChiaDialect, no flags).
     ok <cost> <tree> | err <Kind> | skip   (skip: the run applies an operator outside the
                                             classic set: the reference has no opinion) *)
open Conv

let fuel : Datatypes.nat Lazy.t = lazy (Fam_run.nat_of_int_acc 1_000_000 Datatypes.O)

let fam_ref (t : string array) : string =
  match t.(0) with
  | "run" ->
    let n = Array.length t in
    let p = Util.parse_tree t.(n - 2) and e = Util.parse_tree t.(n - 1) in
    let opts = Array.sub t 1 (n - 3) in
    let m = n_of_dec (Option.value (Fam_run.kv opts "m") ~default:"0") in
    let ad = match Option.value (Fam_run.kv opts "ad") ~default:"cur" with
      | "cur" -> RefClvm.current_adapters | "hist" -> RefClvm.historical_adapters
      | a -> failwith ("unknown adapter set " ^ a) in
    (match RefClvm.ref_run Sha256.sha256 ad (fun _ _ -> true) (Lazy.force fuel) p e m with
     | Err.Ok (c, v) -> Printf.sprintf "ok %s %s" (dec_of_n c) (Util.show_tree_short v)
     | Err.Err Err.Unsupported -> "skip"
     | Err.Err e -> "err " ^ (match String.index_opt (Util.err_name e) '[' with
         | Some i -> String.sub (Util.err_name e) 0 i | None -> Util.err_name e))
  | _ -> "skip"

let () = Reg.register "ref" fam_ref
