(* family "crypto" — mirrors harness/src/fam_crypto.rs for the "ops" cases.

   The model's operators are parametric in the primitives (Model/Prims.v). Here the record is
   instantiated with: the extracted Gallina SHA-256 and Keccak-256 (executable specifications),
   and, for every group / pairing / ECDSA primitive, a LOOK-UP in the table that follows the
   token "|" on the case line (entries key=value, the keys of fam_crypto.rs "prim"). A primitive
   call whose key is not in the table aborts the case with the observation "need <key>"; the
   check (lib/props/c32.py) computes the value with its independent reference (lib/ec_ref.py:
   G1/G2 arithmetic and validation, ECDSA) or, for pairing / aggregate-verify / hash-to-curve,
   asks the harness for `prim <key>` (a direct library call, not an operator), adds the answer
   to the table and runs the case again. So the model's wrappers are executed in full.
   "hash" and "ecdsa" cases run the Gallina specifications (Sha256, Keccak, Ecdsa) on their own. *)
open Conv

exception Need of string

let tbl : (string, string) Hashtbl.t = Hashtbl.create 64
let lookup key = match Hashtbl.find_opt tbl key with Some v -> v | None -> raise (Need key)
let hx = hex_of_bytes
let lb key = lookup key = "1"
let ly key = bytes_of_hex (lookup key)
let items l = String.concat ";" (Stdlib.List.map (fun (a, b) -> hx a ^ "," ^ hx b) l)

let native_keccak = ref true

let prims : Prims.prims = {
  Prims.p_sha256 = (fun m -> Sha256.sha256 m);
  p_keccak256 = (fun m -> if !native_keccak then Keccak.keccak256 m else ly ("keccak:" ^ hx m));
  p_g1_valid = (fun b -> lb ("g1v:" ^ hx b));
  p_g2_valid = (fun b -> lb ("g2v:" ^ hx b));
  p_g1_add = (fun a b -> ly ("g1add:" ^ hx a ^ ":" ^ hx b));
  p_g1_neg = (fun a -> ly ("g1neg:" ^ hx a));
  p_g1_mul = (fun a k -> ly ("g1mul:" ^ hx a ^ ":" ^ dec_of_z k));
  p_g1_gen_mul = (fun k -> ly ("g1gen:" ^ dec_of_z k));
  p_g2_add = (fun a b -> ly ("g2add:" ^ hx a ^ ":" ^ hx b));
  p_g2_neg = (fun a -> ly ("g2neg:" ^ hx a));
  p_g2_mul = (fun a k -> ly ("g2mul:" ^ hx a ^ ":" ^ dec_of_z k));
  p_g1_map = (fun m d -> ly ("g1map:" ^ hx m ^ ":" ^ hx d));
  p_g2_map = (fun m d -> ly ("g2map:" ^ hx m ^ ":" ^ hx d));
  p_pairing_identity = (fun l -> lb ("pair:" ^ items l));
  p_aggregate_verify = (fun s l -> lb ("aggv:" ^ hx s ^ ":" ^ items l));
  p_k1_pubkey_ok = (fun b -> lb ("k1pk:" ^ hx b));
  p_k1_sig_ok = (fun b -> lb ("k1sig:" ^ hx b));
  p_k1_verify = (fun pk m s -> lb ("k1ver:" ^ hx pk ^ ":" ^ hx m ^ ":" ^ hx s));
  p_r1_pubkey_ok = (fun b -> lb ("r1pk:" ^ hx b));
  p_r1_sig_ok = (fun b -> lb ("r1sig:" ^ hx b));
  p_r1_verify = (fun pk m s -> lb ("r1ver:" ^ hx pk ^ ":" ^ hx m ^ ":" ^ hx s));
}

let op_by_name (name : string) : OpUtils.opfn =
  match name with
  | "point_add" -> OpsCrypto.op_point_add prims
  | "pubkey_for_exp" -> OpsCrypto.op_pubkey_for_exp prims
  | "coinid" -> OpsCrypto.op_coinid_p prims
  | "keccak256" -> OpsCrypto.op_keccak256 prims
  | "secp256k1_verify" -> OpsCrypto.op_secp256k1_verify prims
  | "secp256r1_verify" -> OpsCrypto.op_secp256r1_verify prims
  | "g1_subtract" -> OpsCrypto.op_bls_g1_subtract prims
  | "g1_multiply" -> OpsCrypto.op_bls_g1_multiply prims
  | "g1_negate" -> OpsCrypto.op_bls_g1_negate prims
  | "g2_add" -> OpsCrypto.op_bls_g2_add prims
  | "g2_subtract" -> OpsCrypto.op_bls_g2_subtract prims
  | "g2_multiply" -> OpsCrypto.op_bls_g2_multiply prims
  | "g2_negate" -> OpsCrypto.op_bls_g2_negate prims
  | "g1_map" -> OpsCrypto.op_bls_map_to_g1 prims
  | "g2_map" -> OpsCrypto.op_bls_map_to_g2 prims
  | "pairing_identity" -> OpsCrypto.op_bls_pairing_identity prims
  | "bls_verify" -> OpsCrypto.op_bls_verify prims
  | _ -> failwith ("unknown operator " ^ name)

let fam_crypto (t : string array) : string =
  match t.(0) with
  | "ops" ->
    let n = Array.length t in
    let bar = ref n in
    Array.iteri (fun i s -> if s = "|" && !bar = n then bar := i) t;
    Hashtbl.reset tbl;
    for i = !bar + 1 to n - 1 do
      match String.index_opt t.(i) '=' with
      | Some k -> Hashtbl.replace tbl (String.sub t.(i) 0 k)
                    (String.sub t.(i) (k + 1) (String.length t.(i) - k - 1))
      | None -> failwith "bad table entry"
    done;
    let max_cost = n_of_dec t.(1) in
    (try
       let out = ref [] in
       let i = ref 2 in
       while !i < !bar do
         let flags = Flags.flags_of_N (n_of_dec t.(!i)) in
         let name = t.(!i + 1) in
         if name = "sha256" then raise (Need "not-modelled-here");
         let f = op_by_name name in
         let args = Util.parse_tree t.(!i + 2) in
         i := !i + 3;
         out := (match f flags args max_cost with
             | Err.Ok (c, v) -> "ok " ^ dec_of_n c ^ " " ^ Util.show_tree_short v
             | Err.Err e -> "err " ^ Util.err_name e) :: !out
       done;
       String.concat " / " (Stdlib.List.rev !out)
     with Need k -> "need " ^ k)
  | "hash" ->
    (* executable specifications on their own: "hash sha256|keccak <hex>" -> "= <hex>" *)
    let m = bytes_of_hex t.(2) in
    (match t.(1) with
     | "sha256" -> "= " ^ hx (Sha256.sha256 m)
     | "keccak" -> "= " ^ hx (Keccak.keccak256 m)
     | _ -> failwith "bad hash")
  | "ecdsa" ->
    (* the Gallina ECDSA specification on its own: "ecdsa k1|r1 <pk> <msg> <sig>" -> "= <pk ok> <sig ok> <verdict>" *)
    let c = (match t.(1) with "k1" -> Ecdsa.secp256k1 | "r1" -> Ecdsa.secp256r1 | _ -> failwith "bad curve") in
    let pk = bytes_of_hex t.(2) and msg = bytes_of_hex t.(3) and sg = bytes_of_hex t.(4) in
    let b x = if x then "1" else "0" in
    let pko = Ecdsa.pubkey_ok c pk and sgo = Ecdsa.sig_ok c sg in
    "= " ^ b pko ^ " " ^ b sgo ^ " " ^ b (pko && sgo && Ecdsa.ecdsa_verify c pk msg sg)
  | _ -> failwith "bad crypto case"

let () = Reg.register "crypto" fam_crypto
