(* family "ops" — mirrors harness/src/fam_ops.rs on the extracted operator models *)
open Conv

let sha = Sha256.sha256

let lookup (name : string) : OpUtils.opfn option =
  match name with
  | "op_if" -> Some OpsCore.op_if
  | "op_cons" -> Some OpsCore.op_cons
  | "op_first" -> Some OpsCore.op_first
  | "op_rest" -> Some OpsCore.op_rest
  | "op_listp" -> Some OpsCore.op_listp
  | "op_raise" -> Some OpsCore.op_raise
  | "op_eq" -> Some OpsCore.op_eq
  | "op_add" -> Some OpsArith.op_add
  | "op_subtract" -> Some OpsArith.op_subtract
  | "op_multiply" -> Some OpsArith.op_multiply
  | "op_div" -> Some OpsArith.op_div
  | "op_divmod" -> Some OpsArith.op_divmod
  | "op_mod" -> Some OpsArith.op_mod
  | "op_modpow" -> Some OpsArith.op_modpow
  | "op_gr" -> Some OpsArith.op_gr
  | "op_gr_bytes" -> Some OpsStr.op_gr_bytes
  | "op_strlen" -> Some OpsStr.op_strlen
  | "op_substr" -> Some OpsStr.op_substr
  | "op_concat" -> Some OpsStr.op_concat
  | "op_ash" -> Some OpsBits.op_ash
  | "op_lsh" -> Some OpsBits.op_lsh
  | "op_logand" -> Some OpsBits.op_logand
  | "op_logior" -> Some OpsBits.op_logior
  | "op_logxor" -> Some OpsBits.op_logxor
  | "op_lognot" -> Some OpsBits.op_lognot
  | "op_not" -> Some OpsBits.op_not
  | "op_any" -> Some OpsBits.op_any
  | "op_all" -> Some OpsBits.op_all
  | "op_sha256" -> Some (OpsStr.op_sha256 sha)
  | "op_sha256_tree" -> Some (OpsStr.op_sha256_tree sha)
  | _ -> None

let starts_with p s = String.length s >= String.length p && String.sub s 0 (String.length p) = p
let after p s = String.sub s (String.length p) (String.length s - String.length p)

let show (r : (BinNums.coq_N * Sexp.sexp) Err.res) : string =
  match r with
  | Err.Ok (c, v) -> "ok " ^ dec_of_n c ^ " " ^ Util.show_tree_short v
  | Err.Err e -> "err " ^ Util.err_name e

let call name flags max_cost args =
  if starts_with "unknown:" name then
    show (OpsUnknown.op_unknown (bytes_of_hex (after "unknown:" name)) flags args max_cost)
  else if starts_with "strict:" name then
    show (OpsUnknown.unknown_operator (bytes_of_hex (after "strict:" name)) flags args max_cost)
  else match lookup name with
    | Some f -> show (f flags args max_cost)
    | None -> failwith ("unknown operator name " ^ name)

let fam_ops (t : string array) : string =
  match t.(0) with
  | "op" ->
    call t.(1) (Flags.flags_of_N (n_of_dec t.(2))) (n_of_dec t.(3)) (Util.parse_tree t.(4))
  | "opv" ->
    call t.(2) (Flags.flags_of_N (n_of_dec t.(3))) (n_of_dec t.(4)) (Util.parse_tree t.(5))
  | "ul" ->
    let flags = Flags.flags_of_N (n_of_dec t.(2)) in
    let items = if t.(4) = "-" then [] else String.split_on_char ',' t.(4) in
    let lens = Stdlib.List.map (fun s -> if s = "p" then None else Some (n_of_dec s)) items in
    (match OpsUnknown.unknown_cost (bytes_of_hex t.(1)) lens flags.Flags.f_new_cost_model (n_of_dec t.(3)) with
     | Err.Ok c -> "ok " ^ dec_of_n c ^ " a;"
     | Err.Err e -> "err " ^ Util.err_name e)
  (* the published rule (C09's specification) on the same inputs: "some <cost>" | "none" *)
  | "ulspec" ->
    let flags = Flags.flags_of_N (n_of_dec t.(2)) in
    let items = if t.(4) = "-" then [] else String.split_on_char ',' t.(4) in
    let lens = Stdlib.List.map (fun s -> if s = "p" then None else Some (n_of_dec s)) items in
    (match OpsUnknown.unknown_operator_spec flags.Flags.f_no_unknown_ops (bytes_of_hex t.(1)) lens
             flags.Flags.f_new_cost_model (n_of_dec t.(3)) with
     | Some c -> "some " ^ dec_of_n c
     | None -> "none")
  | _ -> failwith "bad ops case"

let () = Reg.register "ops" fam_ops
