(* family "ops" — mirrors harness/src/fam_ops.rs on the extracted operator models *)
open Conv

let sha = Sha256.sha256

let lookup (name : string) : OpUtils.opfn option =
  match name with
  | "op_if" -> Some OpsCore.op_if
  | "op_cons" -> Some OpsCore.op_cons
  | "op_first" -> Some OpsCore.op_first
  | "op_rest" -> Some OpsCore.op_rest
  | "op_listp" -> Some OpsCore.op_listp
  | "op_raise" -> Some OpsCore.op_raise
  | "op_eq" -> Some OpsCore.op_eq
  | "op_add" -> Some OpsArith.op_add
  | "op_subtract" -> Some OpsArith.op_subtract
  | "op_multiply" -> Some OpsArith.op_multiply
  | "op_div" -> Some OpsArith.op_div
  | "op_divmod" -> Some OpsArith.op_divmod
  | "op_mod" -> Some OpsArith.op_mod
  | "op_modpow" -> Some OpsArith.op_modpow
  | "op_gr" -> Some OpsArith.op_gr
  | "op_gr_bytes" -> Some OpsStr.op_gr_bytes
  | "op_strlen" -> Some OpsStr.op_strlen
  | "op_substr" -> Some OpsStr.op_substr
  | "op_concat" -> Some OpsStr.op_concat
  | "op_ash" -> Some OpsBits.op_ash
  | "op_lsh" -> Some OpsBits.op_lsh
  | "op_logand" -> Some OpsBits.op_logand
  | "op_logior" -> Some OpsBits.op_logior
  | "op_logxor" -> Some OpsBits.op_logxor
  | "op_lognot" -> Some OpsBits.op_lognot
  | "op_not" -> Some OpsBits.op_not
  | "op_any" -> Some OpsBits.op_any
  | "op_all" -> Some OpsBits.op_all
  | "op_sha256" -> Some (OpsStr.op_sha256 sha)
  | "op_sha256_tree" -> Some (OpsStr.op_sha256_tree sha)
  | _ -> None

(* the documented cost formulas (Model/CostSpec.v) *)
let spec_lookup (name : string) : (Flags.flagset -> Sexp.sexp -> Sexp.sexp -> BinNums.coq_N) option =
  match name with
  | "op_if" -> Some CostSpec.spec_if
  | "op_cons" -> Some CostSpec.spec_cons
  | "op_first" -> Some CostSpec.spec_first
  | "op_rest" -> Some CostSpec.spec_rest
  | "op_listp" -> Some CostSpec.spec_listp
  | "op_eq" -> Some CostSpec.spec_eq
  | "op_add" -> Some CostSpec.spec_add
  | "op_subtract" -> Some CostSpec.spec_subtract
  | "op_multiply" -> Some CostSpec.spec_multiply
  | "op_div" -> Some CostSpec.spec_div
  | "op_divmod" -> Some CostSpec.spec_divmod
  | "op_mod" -> Some CostSpec.spec_mod
  | "op_modpow" -> Some CostSpec.spec_modpow
  | "op_gr" -> Some CostSpec.spec_gr
  | "op_gr_bytes" -> Some CostSpec.spec_gr_bytes
  | "op_strlen" -> Some CostSpec.spec_strlen
  | "op_substr" -> Some CostSpec.spec_substr
  | "op_concat" -> Some CostSpec.spec_concat
  | "op_ash" -> Some CostSpec.spec_ash
  | "op_lsh" -> Some CostSpec.spec_lsh
  | "op_logand" -> Some CostSpec.spec_logand
  | "op_logior" -> Some CostSpec.spec_logior
  | "op_logxor" -> Some CostSpec.spec_logxor
  | "op_lognot" -> Some CostSpec.spec_lognot
  | "op_not" -> Some CostSpec.spec_not
  | "op_any" -> Some CostSpec.spec_any
  | "op_all" -> Some CostSpec.spec_all
  | "op_sha256" -> Some CostSpec.spec_sha256
  | "op_sha256_tree" -> Some CostSpec.spec_sha256_tree
  | _ -> None

let starts_with p s = String.length s >= String.length p && String.sub s 0 (String.length p) = p
let after p s = String.sub s (String.length p) (String.length s - String.length p)

let show (r : (BinNums.coq_N * Sexp.sexp) Err.res) : string =
  match r with
  | Err.Ok (c, v) -> "ok " ^ dec_of_n c ^ " " ^ Util.show_tree_short v
  | Err.Err e -> "err " ^ Util.err_name e

let call name flags max_cost args =
  if starts_with "unknown:" name then
    show (OpsUnknown.op_unknown (bytes_of_hex (after "unknown:" name)) flags args max_cost)
  else if starts_with "strict:" name then
    show (OpsUnknown.unknown_operator (bytes_of_hex (after "strict:" name)) flags args max_cost)
  else match lookup name with
    | Some f -> show (f flags args max_cost)
    | None -> failwith ("unknown operator name " ^ name)

let fam_ops (t : string array) : string =
  match t.(0) with
  | "op" ->
    call t.(1) (Flags.flags_of_N (n_of_dec t.(2))) (n_of_dec t.(3)) (Util.parse_tree t.(4))
  | "opv" ->
    call t.(2) (Flags.flags_of_N (n_of_dec t.(3))) (n_of_dec t.(4)) (Util.parse_tree t.(5))
  | "ul" ->
    let flags = Flags.flags_of_N (n_of_dec t.(2)) in
    let items = if t.(4) = "-" then [] else String.split_on_char ',' t.(4) in
    let lens = Stdlib.List.map (fun s -> if s = "p" then None else Some (n_of_dec s)) items in
    (match OpsUnknown.unknown_cost (bytes_of_hex t.(1)) lens flags.Flags.f_new_cost_model (n_of_dec t.(3)) with
     | Err.Ok c -> "ok " ^ dec_of_n c ^ " a;"
     | Err.Err e -> "err " ^ Util.err_name e)
  (* the published rule (C09's specification) on the same inputs: "some <cost>" | "none" *)
  | "ulspec" ->
    let flags = Flags.flags_of_N (n_of_dec t.(2)) in
    let items = if t.(4) = "-" then [] else String.split_on_char ',' t.(4) in
    let lens = Stdlib.List.map (fun s -> if s = "p" then None else Some (n_of_dec s)) items in
    (match OpsUnknown.unknown_operator_spec flags.Flags.f_no_unknown_ops (bytes_of_hex t.(1)) lens
             flags.Flags.f_new_cost_model (n_of_dec t.(3)) with
     | Some c -> "some " ^ dec_of_n c
     | None -> "none")
  (* spec <name> <flags> <tree>: the documented cost of a successful call (the result value is
     the model's): "spec <documented cost> model <model cost>" | "none" (the call fails) *)
  | "spec" ->
    let flags = Flags.flags_of_N (n_of_dec t.(2)) in
    let args = Util.parse_tree t.(3) in
    (match lookup t.(1), spec_lookup t.(1) with
     | Some f, Some sp ->
       (match f flags args (n_of_dec "18446744073709551615") with
        | Err.Ok (c, v) -> "spec " ^ dec_of_n (sp flags args v) ^ " model " ^ dec_of_n c
        | Err.Err _ -> "none")
     | _ -> "none")
  | _ -> failwith "bad ops case"

let () = Reg.register "ops" fam_ops
