(* driver-side helpers mirroring harness/src/util.rs *)
open Conv

let fnv64 (b : int list) : int64 =
  let h = ref 0xcbf29ce484222325L in
  Stdlib.List.iter (fun x ->
      h := Int64.logxor !h (Int64.of_int x);
      h := Int64.mul !h 0x100000001b3L) b;
  !h

let ints_of_bytes (b : BinNums.coq_N list) : int list = Stdlib.List.map int_of_n b
let ints_of_string (s : string) : int list = Stdlib.List.init (String.length s) (fun i -> Char.code s.[i])

let digest (b : BinNums.coq_N list) : string =
  let l = Stdlib.List.length b in
  if l = 0 then "-"
  else if l <= 48 then hex_of_bytes b
  else Printf.sprintf "#%d:%016Lx" l (fnv64 (ints_of_bytes b))

(* tree transport format: 'p' tree tree | 'a' HEX ';' | 'z' HEXBYTE '*' DEC ';' *)
let parse_tree (s : string) : Sexp.sexp =
  let i = ref 0 in
  (* explicit stack to survive deep trees *)
  let st : [ `Pair | `Node of Sexp.sexp ] Stack.t = Stack.create () in
  let result = ref None in
  while !result = None do
    let c = s.[!i] in
    if c = 'p' then begin incr i; Stack.push `Pair st end
    else begin
      let j = String.index_from s !i ';' in
      let body = String.sub s (!i + 1) (j - !i - 1) in
      let node =
        if c = 'a' then Sexp.Atom (bytes_of_hex (if body = "" then "-" else body))
        else begin
          let k = String.index body '*' in
          let byte = n_of_int (int_of_string ("0x" ^ String.sub body 0 k)) in
          let n = int_of_string (String.sub body (k + 1) (String.length body - k - 1)) in
          Sexp.Atom (Stdlib.List.init n (fun _ -> byte))
        end in
      i := j + 1;
      let cur = ref node in
      let continue = ref true in
      while !continue do
        if Stack.is_empty st then begin result := Some !cur; continue := false end
        else match Stack.pop st with
          | `Pair -> Stack.push `Pair st; Stack.push (`Node !cur) st; continue := false
          | `Node left ->
            (match Stack.pop st with `Pair -> () | _ -> failwith "bad tree");
            cur := Sexp.Cons (left, !cur)
      done
    end
  done;
  match !result with Some t -> t | None -> failwith "no tree"

let show_tree (t : Sexp.sexp) : string =
  let b = Buffer.create 64 in
  let st = Stack.create () in
  Stack.push t st;
  while not (Stack.is_empty st) do
    match Stack.pop st with
    | Sexp.Cons (l, r) -> Buffer.add_char b 'p'; Stack.push r st; Stack.push l st
    | Sexp.Atom a ->
      Buffer.add_char b 'a';
      if a <> [] then Buffer.add_string b (hex_of_bytes a);
      Buffer.add_char b ';'
  done;
  Buffer.contents b

let show_tree_short (t : Sexp.sexp) : string =
  let s = show_tree t in
  if String.length s <= 200 then s
  else Printf.sprintf "T#%d:%016Lx" (String.length s) (fnv64 (ints_of_string s))

let err_name (e : Err.errkind) : string =
  match e with
  | Err.SerializationError -> "SerializationError"
  | Err.SerializationBackrefError -> "SerializationBackrefError"
  | Err.OutOfMemory -> "OutOfMemory"
  | Err.PathIntoAtom -> "PathIntoAtom"
  | Err.TooManyPairs -> "TooManyPairs"
  | Err.TooManyAtoms -> "TooManyAtoms"
  | Err.CostExceeded -> "CostExceeded"
  | Err.UnknownSoftforkExtension -> "UnknownSoftforkExtension"
  | Err.SoftforkCostMismatch -> "SoftforkCostMismatch"
  | Err.InternalError n -> "InternalError[" ^ string_of_int (int_of_n n) ^ "]"
  | Err.Raise -> "Raise"
  | Err.InvalidNilTerminator -> "InvalidNilTerminator"
  | Err.DivisionByZero -> "DivisionByZero"
  | Err.ValueStackLimit -> "ValueStackLimit"
  | Err.EnvStackLimit -> "EnvStackLimit"
  | Err.ShiftTooLarge -> "ShiftTooLarge"
  | Err.Reserved -> "Reserved"
  | Err.Invalid -> "Invalid"
  | Err.Unimplemented -> "Unimplemented"
  | Err.InvalidOpArg n -> "InvalidOpArg[" ^ string_of_int (int_of_n n) ^ "]"
  | Err.InvalidAllocArg n -> "InvalidAllocArg[" ^ string_of_int (int_of_n n) ^ "]"
  | Err.BLSPairingIdentityFailed -> "BLSPairingIdentityFailed"
  | Err.BLSVerifyFailed -> "BLSVerifyFailed"
  | Err.Secp256Failed -> "Secp256Failed"
  | Err.SoftforkStackDepth -> "SoftforkStackDepth"
  | Err.Panic n -> "panic[" ^ string_of_int (int_of_n n) ^ "]"
  | Err.Overflow n -> "overflow[" ^ string_of_int (int_of_n n) ^ "]"
  | Err.OutOfFuel -> "OUT-OF-FUEL"
  | Err.Unsupported -> "skip"
