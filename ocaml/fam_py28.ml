(* family "py28" — the model of the wheel's pure-Python helpers (Model/PyCodec.v); mirrors
   pyharness/fam_py28.py *)
open Conv

let sha (b : BinNums.coq_N list) = Sha256.sha256 b

let exc_name (e : PyCodec.pyexc) : string =
  match e with
  | PyCodec.BadEncoding -> "ValueError bad encoding"
  | PyCodec.BlobTooLarge -> "ValueError blob too large"
  | PyCodec.BlobTooLong -> "ValueError blob too long"
  | PyCodec.PopEmpty _ -> "IndexError pop from empty list"
  | PyCodec.AssertFailed _ -> "AssertionError"
  | PyCodec.PyOverflow -> "OverflowError int too big to convert"
  | PyCodec.BadHashArg -> "ValueError arguments must be bytes of len 32"
  | PyCodec.PyOutOfFuel -> "OUT-OF-FUEL"

let unc_str (um, ua) =
  match ua with
  | None -> "none"
  | Some items ->
    Printf.sprintf "um=%s ua=%d:%s" (Util.show_tree_short um) (Stdlib.List.length items)
      (String.concat "," (Stdlib.List.map Util.show_tree_short items))

let hexs b = String.concat "" (Stdlib.List.map (fun x -> Printf.sprintf "%02x" (int_of_n x)) b)

let fam_py28 (t : string array) : string =
  let open PyCodec in
  match t.(0) with
  | "ser" ->
    (match py_sexp_to_bytes (Util.parse_tree t.(1)) with
     | PyOk b -> "ok " ^ Util.digest b
     | PyRaise e -> "err " ^ exc_name e)
  | "de" ->
    let b = bytes_of_hex t.(1) in
    (match py_sexp_from_stream py_current_limit b with
     | PyOk (tr, rest) -> Printf.sprintf "ok %s %d" (Util.show_tree_short tr) (Stdlib.List.length b - Stdlib.List.length rest)
     | PyRaise e -> "err " ^ exc_name e)
  | "defix" ->
    let b = bytes_of_hex t.(1) in
    (match py_sexp_from_stream (Some (n_of_int 6)) b with
     | PyOk (tr, rest) -> Printf.sprintf "ok %s %d" (Util.show_tree_short tr) (Stdlib.List.length b - Stdlib.List.length rest)
     | PyRaise e -> "err " ^ exc_name e)
  | "i2b" ->
    (match py_int_to_bytes (z_of_dec t.(1)) with
     | PyOk b -> "ok " ^ hex_of_bytes b
     | PyRaise e -> "err " ^ exc_name e)
  | "b2i" -> "ok " ^ dec_of_z (py_int_from_bytes (bytes_of_hex t.(1)))
  | "curry" ->
    let n = int_of_string t.(1) in
    let m = Util.parse_tree t.(2) in
    let args = Stdlib.List.init n (fun i -> Util.parse_tree t.(3 + i)) in
    let c = py_curry m args in
    let th = Classic.treehash sha c in
    let ch = py_curry_hash sha (Classic.treehash sha m) (Stdlib.List.map (Classic.treehash sha) args) in
    (match ch, py_uncurry c with
     | PyOk ch, PyOk u ->
       Printf.sprintf "ok c=%s th=%s ch=%s %s" (Util.show_tree_short c) (hexs th) (hexs ch) (unc_str u)
     | PyRaise e, _ -> "err " ^ exc_name e
     | _, PyRaise e -> "err " ^ exc_name e)
  | "uncurry" ->
    (match py_uncurry (Util.parse_tree t.(1)) with
     | PyOk u -> "ok " ^ unc_str u
     | PyRaise e -> "err " ^ exc_name e)
  | "th" -> "ok " ^ hexs (Classic.treehash sha (Util.parse_tree t.(1)))
  | _ -> "skip"

let () = Reg.register "py28" fam_py28
