(* family "classic" — mirrors harness/src/fam_classic.rs *)
open Conv

let sha (b : BinNums.coq_N list) = Sha256.sha256 b

let res_bytes r = match r with
  | Err.Ok b -> "ok " ^ Util.digest b
  | Err.Err e -> "err " ^ Util.err_name e

let fam_classic (t : string array) : string =
  let open Classic in
  match t.(0) with
  | "ser" -> res_bytes (node_to_bytes (Util.parse_tree t.(1)))
  | "serl" -> res_bytes (node_to_bytes_limit (Util.parse_tree t.(2)) (n_of_dec t.(1)))
  | "de" ->
    let b = bytes_of_hex t.(1) in
    (match node_from_stream b with
     | Err.Ok (tr, rest) -> Printf.sprintf "ok %s %d" (Util.show_tree_short tr) (Stdlib.List.length b - Stdlib.List.length rest)
     | Err.Err e -> "err " ^ Util.err_name e)
  | "th" ->
    let b = bytes_of_hex t.(1) in
    (match tree_hash_from_stream sha b with
     | Err.Ok (h, rest) -> Printf.sprintf "ok %s %d" (hex_of_bytes h) (Stdlib.List.length b - Stdlib.List.length rest)
     | Err.Err e -> "err " ^ Util.err_name e)
  | "tr" ->
    let b = bytes_of_hex t.(1) in
    (match parse_triples sha b with
     | Err.Ok ((tr, hs), rest) ->
       let buf = Buffer.create 64 in
       Stdlib.List.iter (fun x -> match x with
           | TAtom (s, e, o) -> Buffer.add_string buf (Printf.sprintf "A%s,%s,%s;" (dec_of_n s) (dec_of_n e) (dec_of_n o))
           | TPair (s, e, o) -> Buffer.add_string buf (Printf.sprintf "P%s,%s,%s;" (dec_of_n s) (dec_of_n e) (dec_of_n o))) tr;
       let s = Buffer.contents buf in
       let s = if String.length s <= 300 then s else Printf.sprintf "R#%d:%016Lx" (String.length s) (Util.fnv64 (Util.ints_of_string s)) in
       let all = Stdlib.List.concat_map Util.ints_of_bytes hs in
       Printf.sprintf "ok %s %d:%016Lx %d" s (Stdlib.List.length hs) (Util.fnv64 all) (Stdlib.List.length b - Stdlib.List.length rest)
     | Err.Err e -> "err " ^ Util.err_name e)
  | "canon" ->
    (match is_canonical_serialization (bytes_of_hex t.(1)) with
     | BTrue -> "ok true" | BFalse -> "ok false" | BPanic -> "panic" | BFuel -> "OUT-OF-FUEL")
  | "tlen" ->
    (match serialized_length_trusted (bytes_of_hex t.(1)) with
     | Err.Ok n -> "ok " ^ dec_of_n n | Err.Err e -> "err " ^ Util.err_name e)
  | "clen" ->
    (match cache_serialized_length (Util.parse_tree t.(1)) with
     | Err.Ok n -> "ok " ^ dec_of_n n | Err.Err e -> "err " ^ Util.err_name e)
  | _ -> "skip"


let () = Reg.register "classic" fam_classic
