(* family "py26" — the glue model (Model/PyGlue.v).
   glue <flag word>  ->  "<flag bits passed to the dialect> <heap limit>" | "overflow" *)
open Conv

let fam_py26 (t : string array) : string =
  match t.(0) with
  | "glue" ->
    let w = n_of_dec t.(1) in
    if BinNat.N.leb (n_of_dec "4294967296") w then "overflow"
    else begin
      let bits = PyGlue.from_bits_truncate w in
      Printf.sprintf "%s %s" (dec_of_n bits) (dec_of_n (PyGlue.api_heap_limit bits))
    end
  | "auto" ->
    (* which decoder deser_auto selects: "2026body <hex of body>" | "backrefs" *)
    let b = bytes_of_hex t.(1) in
    (match PyGlue.strip_prefix PyGlue.coq_MAGIC_2026 b with
     | Some body -> "2026body " ^ hex_of_bytes body
     | None -> "backrefs")
  | _ -> "skip"

let () = Reg.register "py26" fam_py26
