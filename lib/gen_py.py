"""Generators for the wheel properties C26-C28 (all randomness from the rng passed in)."""
import gen

# (bit_count, tag, number of value bits) of every size-field class of the classic format, incl.
# the two classes no serializer emits: 6 bytes (0xfc) and 7 bytes (0xfe)
SIZE_CLASSES = [(1, 0x80, 6), (2, 0xc0, 13), (3, 0xe0, 20), (4, 0xf0, 27), (5, 0xf8, 34), (6, 0xfc, 41), (7, 0xfe, 48)]


def size_field(k, size):
    """the k-byte size field holding `size` (zero padded on the left)"""
    n, tag, bits = SIZE_CLASSES[k - 1]
    assert size < (1 << bits)
    raw = size.to_bytes(n, "big")
    return bytes([tag | raw[0]]) + raw[1:]


def padded_atoms(r, thorough=False):
    """byte strings `size field ++ body` with the size zero-padded into EVERY prefix class that can
    hold it (this is what reaches the 6- and 7-byte classes), plus sizes on both sides of 2^34
    and truncated bodies."""
    out = []
    sizes = [0, 1, 2, 0x3f, 0x40, 0x41, 0xff, 0x100, 0x1fff, 0x2000]
    if thorough:
        sizes += [0xffff, 0x10000, 0xfffff, 0x100000]
    for size in sizes:
        for k in range(1, 8):
            if size >= (1 << SIZE_CLASSES[k - 1][2]):
                continue
            body = bytes(r.getrandbits(8) for _ in range(min(size, 70))) + (bytes([0x61]) * max(0, size - 70))
            enc = size_field(k, size) + body
            out.append(enc)
            out.append(enc + b"\x01")                     # trailing byte: consumed count matters
            if size:
                out.append(enc[:-1])                      # body one byte short
            out.append(b"\xff" + enc + b"\x80")           # inside a pair
            out.append(b"\xff\x05" + enc)
    # size values around the 2^34 cap and in the top bits of each class (body absent: both reject,
    # but for different reasons)
    for k in (5, 6, 7):
        bits = SIZE_CLASSES[k - 1][2]
        for size in (0x3ffffffff, 0x400000000, 0x400000001, (1 << bits) - 1, 1 << (bits - 1)):
            if size < (1 << bits):
                out.append(size_field(k, size))
                out.append(size_field(k, size) + b"\x00" * 9)
    # truncated size fields
    for k in range(2, 8):
        f = size_field(k, 1)
        for cut in range(1, k):
            out.append(f[:cut])
    return out


def gen_int(r):
    k = r.random()
    if k < 0.25:
        return r.choice(gen.INTERESTING_INTS) + r.choice([-2, -1, 0, 1, 2])
    if k < 0.6:
        n = r.choice([7, 8, 15, 16, 23, 24, 31, 32, 63, 64, 127, 128, 255, 256, r.randrange(1, 600)])
        return r.choice([1, -1]) * (1 << n) + r.choice([-2, -1, 0, 1, 2])
    if k < 0.8:
        return r.randrange(-70000, 70000)
    n = r.randrange(1, 400)
    return r.choice([1, -1]) * r.getrandbits(n)


def boundary_ints():
    out = []
    for n in list(range(0, 80)) + [127, 128, 129, 255, 256, 257, 511, 512, 1023, 1024]:
        for s in (1, -1):
            for d in (-1, 0, 1):
                out.append(s * (1 << n) + d)
    return sorted(set(out))


def small_tree(r, size=None):
    return gen.gen_tree(r, size if size is not None else r.choice([1, 1, 2, 3, 5, 8]))


def near_curried(r):
    """trees shaped almost like a curried program: one position of the pattern is perturbed"""
    from_list = lambda xs, tail=b"": _list(xs, tail)
    m = small_tree(r, r.choice([1, 3]))
    args = [small_tree(r, r.choice([1, 1, 3])) for _ in range(r.randrange(0, 4))]
    A, Q, C, ONE, NIL = b"\x02", b"\x01", b"\x04", b"\x01", b""
    perturb = r.randrange(0, 10)
    fixed = ONE if perturb != 1 else r.choice([b"", b"\x02", b"\x00\x01", (b"\x01", b"")])
    for i, a in enumerate(reversed(args)):
        c_kw = C if not (perturb == 2 and i == 0) else r.choice([b"\x05", b"", (C, b"")])
        q_kw = Q if not (perturb == 3 and i == 0) else r.choice([b"\x02", b""])
        tail = NIL if not (perturb == 4 and i == 0) else r.choice([b"\x01", (b"", b"")])
        fixed = (c_kw, ((q_kw, a), (fixed, tail)))
    a_kw = A if perturb != 5 else r.choice([b"\x04", b"", (A, b"")])
    q_kw = Q if perturb != 6 else r.choice([b"\x02", b"", b"\x00\x01"])
    tail = NIL if perturb != 7 else r.choice([b"\x80", (b"", b"")])
    if perturb == 8:
        return (a_kw, (q_kw, m))
    return (a_kw, ((q_kw, m), (fixed, tail)))


def _list(xs, tail=b""):
    t = tail
    for x in reversed(xs):
        t = (x, t)
    return t


# ---- small runnable CLVM programs, assembled by hand over the core opcodes ---------------------

def quote(t):
    return (b"\x01", t)


def gen_expr(r, depth, env_paths=(1, 2, 3, 5, 6, 7, 11, 13, 15)):
    """an expression tree over a handful of operators; arguments are paths into the environment,
    quoted constants or sub-expressions"""
    I = gen.int_to_bytes
    if depth <= 0 or r.random() < 0.3:
        k = r.random()
        if k < 0.45:
            return I(r.choice(env_paths))
        if k < 0.5:
            return I(r.choice([0, 4, 8, 9, 31, 64, 0x100, 0xffff]))       # odd paths / nil
        return quote(r.choice([I(gen_int(r) % 100000), b"", gen.tiny_atom(r), small_tree(r, 3)]))
    sub = lambda: gen_expr(r, depth - 1, env_paths)
    op = r.choice(["+", "-", "*", "c", "f", "r", "l", "i", "=", "sha256", "concat", "strlen", "substr",
                   "a", "x", "/", "listp_if", "unknown", "softfork", "q"])
    if op == "+":
        return _list([b"\x10"] + [sub() for _ in range(r.randrange(0, 4))])
    if op == "-":
        return _list([b"\x11"] + [sub() for _ in range(r.randrange(0, 3))])
    if op == "*":
        return _list([b"\x12"] + [sub() for _ in range(r.randrange(0, 3))])
    if op == "/":
        return _list([b"\x13", sub(), sub()])
    if op == "c":
        return _list([b"\x04", sub(), sub()])
    if op == "f":
        return _list([b"\x05", sub()])
    if op == "r":
        return _list([b"\x06", sub()])
    if op == "l":
        return _list([b"\x07", sub()])
    if op == "i":
        return _list([b"\x03", sub(), sub(), sub()])
    if op == "=":
        return _list([b"\x09", sub(), sub()])
    if op == "sha256":
        return _list([b"\x0b"] + [sub() for _ in range(r.randrange(0, 3))])
    if op == "concat":
        return _list([b"\x0e"] + [sub() for _ in range(r.randrange(0, 3))])
    if op == "strlen":
        return _list([b"\x0d", sub()])
    if op == "substr":
        return _list([b"\x0c", sub(), quote(I(r.randrange(0, 3)))] + ([quote(I(r.randrange(0, 5)))] if r.random() < 0.5 else []))
    if op == "a":
        return _list([b"\x02", quote(sub()), r.choice([I(1), sub()])])
    if op == "x":
        return _list([b"\x08"] + [sub() for _ in range(r.randrange(0, 2))])
    if op == "listp_if":
        return _list([b"\x03", _list([b"\x07", sub()]), sub(), sub()])
    if op == "unknown":
        return _list([r.choice([b"\x7f", b"\x40", b"\x00\x01\x00", b"\xc0\x05", b"\x25", b"\x3f\x00"])] + [sub() for _ in range(r.randrange(0, 3))])
    if op == "softfork":
        inner = sub()
        return _list([b"\x24", quote(I(r.choice([0, 1, 140, 141, 1000, 10 ** 6]))), quote(I(r.choice([0, 0, 1, 2]))), quote(inner), r.choice([I(1), quote(b"")])])
    return quote(sub())


def gen_program(r):
    return gen_expr(r, r.choice([1, 2, 2, 3, 4]))


def gen_env(r):
    return _list([r.choice([gen.int_to_bytes(gen_int(r) % 10 ** 6), gen.tiny_atom(r), small_tree(r, 3)]) for _ in range(r.randrange(0, 5))],
                 r.choice([b"", b"", b"\x05"]))
