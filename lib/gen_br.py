"""Generators for the back-reference ("compressed") serialization format (C17, C18, C29br).

Trees are Python values as in gen.py: bytes (atom) or (left, right). The parse stack of the
decoders is tracked as the CLVM list it denotes: values = (top, rest-of-stack), nil = b"".
Every random choice comes from the rng passed in.
"""
import gen

NIL = b""

PATH_KINDS = ("valid", "spine", "into_atom", "past_end", "leading_zero", "all_zero", "empty",
              "noncanon_prefix", "huge", "truncated_path", "bad_prefix")


def path_bytes(bits):
    """bits in traversal order (first step first; True = rest) -> minimal big-endian path atom"""
    v = 1 << len(bits)
    for i, b in enumerate(bits):
        if b:
            v |= 1 << i
    return v.to_bytes((v.bit_length() + 7) // 8, "big")


def walk(r, values, kind):
    """choose a path relative to the stack list `values`. Returns (bits, node or None)."""
    bits = []
    node = values
    # along the spine
    while True:
        k = r.random()
        if not isinstance(node, tuple):
            break
        if kind == "spine":
            if k < 0.45:
                return bits, node
            bits.append(True)
            node = node[1]
            continue
        if k < 0.15:
            return bits, node
        if k < 0.55:
            bits.append(True)
            node = node[1]
            continue
        bits.append(False)
        node = node[0]
        # inside an item
        while isinstance(node, tuple) and r.random() < 0.7:
            d = r.random() < 0.5
            bits.append(d)
            node = node[1] if d else node[0]
        break
    return bits, node


def follow(values, bits):
    node = values
    for b in bits:
        if not isinstance(node, tuple):
            return None
        node = node[1] if b else node[0]
    return node


def gen_backref(r, values, kind=None):
    """bytes of one back-reference item (0xfe + path atom) chosen relative to the stack, and the
    node it denotes (None = the decoders must reject)."""
    kind = kind or r.choice(("valid",) * 6 + ("spine",) * 6 + PATH_KINDS)
    if kind in ("valid", "spine", "leading_zero", "noncanon_prefix"):
        bits, node = walk(r, values, "spine" if kind == "spine" or r.random() < 0.4 else "valid")
        p = path_bytes(bits)
        if kind == "leading_zero":
            p = b"\x00" * r.randrange(1, 4) + p
        if kind == "noncanon_prefix":
            return b"\xfe" + gen.noncanonical_prefix(r, len(p)) + p, (node if len(p) < (1 << 34) else None), kind
        return b"\xfe" + gen.atom_prefix(p) + p, node, kind
    if kind == "into_atom":
        bits, node = walk(r, values, "valid")
        while isinstance(node, tuple):
            d = r.random() < 0.5
            bits.append(d)
            node = node[1] if d else node[0]
        bits += [r.random() < 0.5 for _ in range(r.randrange(1, 4))]
        p = path_bytes(bits)
        return b"\xfe" + gen.atom_prefix(p) + p, None, kind
    if kind == "past_end":
        bits = []
        node = values
        while isinstance(node, tuple):
            bits.append(True)
            node = node[1]
        extra = r.randrange(0, 3)          # 0: exactly the terminating nil (valid), >0: past it
        bits += [r.random() < 0.7 for _ in range(extra)]
        p = path_bytes(bits)
        return b"\xfe" + gen.atom_prefix(p) + p, (NIL if extra == 0 else None), kind
    if kind == "all_zero":
        p = b"\x00" * r.randrange(1, 4)
        return b"\xfe" + gen.atom_prefix(p) + p, NIL, kind
    if kind == "empty":
        return b"\xfe\x80", NIL, kind
    if kind == "huge":
        bits = [r.random() < 0.8 for _ in range(r.choice([7, 8, 9, 15, 16, 17, 40, 70]))]
        p = path_bytes(bits)
        return b"\xfe" + gen.atom_prefix(p) + p, follow(values, bits), kind
    if kind == "truncated_path":
        p = bytes(r.getrandbits(8) for _ in range(r.randrange(2, 6)))
        return b"\xfe" + gen.atom_prefix(p) + p[:r.randrange(0, len(p))], None, "truncated_path"
    # bad_prefix: a size field that parse_path rejects
    return b"\xfe" + r.choice([b"\xff", b"\xfe\x00\x00\x00\x00\x00\x01\x01", b"\xfc\x04\x00\x00\x00\x00", b"\xfc", b""]), None, "bad_prefix"


def small_atom(r):
    k = r.random()
    if k < 0.25:
        return NIL
    if k < 0.6:
        return bytes([r.choice([0, 1, 2, 0x7f, 0x80, 0xfe, 0xff, r.getrandbits(8)])])
    if k < 0.9:
        return bytes(r.getrandbits(8) for _ in range(r.choice([2, 3, 4, 8])))
    return bytes([r.getrandbits(8)]) * r.choice([0x3f, 0x40, 70])


def gen_stream(r, budget=None, p_backref=0.3, bad=0.08):
    """One byte string in the back-reference grammar, generated while tracking the decoder's
    stack, so that paths are meaningful. Returns (bytes, expected tree or None, histogram keys).
    A back-reference that must be rejected ends the generation (the decoders stop there)."""
    budget = [budget or r.choice([1, 2, 3, 5, 8, 13, 30, 60])]
    out = bytearray()
    kinds = []

    class Stop(Exception):
        pass

    def item(values, depth):
        budget[0] -= 1
        k = r.random()
        if budget[0] > 0 and depth < 150 and k < 0.5:
            out.append(0xff)
            l = item(values, depth + 1)
            rt = item((l, values), depth + 1)
            return (l, rt)
        if k < 0.5 + p_backref or (budget[0] <= 0 and k < 0.8):
            kind = None
            if r.random() < bad:
                kind = r.choice(("into_atom", "past_end", "truncated_path", "bad_prefix", "huge"))
            enc, node, kind = gen_backref(r, values, kind)
            kinds.append(kind + (":ok" if node is not None else ":reject"))
            out.extend(enc)
            if node is None:
                raise Stop()
            return node
        a = small_atom(r)
        out.extend(gen.atom_prefix(a) + a)
        return a

    try:
        t = item(NIL, 0)
    except Stop:
        t = None
    except RecursionError:
        t = None
    return bytes(out), t, kinds


def expanded_size(t, cap=10 ** 7):
    """number of nodes of the tree a DAG denotes (memoised by identity)"""
    memo = {}
    st = [(t, False)]
    while st:
        v, done = st.pop()
        if not isinstance(v, tuple):
            continue
        if id(v) in memo:
            continue
        if done:
            a = memo[id(v[0])] if isinstance(v[0], tuple) else 1
            b = memo[id(v[1])] if isinstance(v[1], tuple) else 1
            memo[id(v)] = min(cap, 1 + a + b)
        else:
            st.append((v, True))
            st.append((v[0], False))
            st.append((v[1], False))
    return memo[id(t)] if isinstance(t, tuple) else 1


def mutate(r, b):
    """byte-level mutations of a (mostly valid) compressed serialization"""
    m = r.random()
    if m < 0.25 or not b:
        return b
    if m < 0.40:
        return b[:r.randrange(0, len(b) + 1)]
    if m < 0.50:
        return b + bytes(r.getrandbits(8) for _ in range(r.randrange(1, 4)))
    if m < 0.70:
        i = r.randrange(len(b))
        return b[:i] + bytes([r.choice([0xff, 0xfe, 0x80, 0x81, 0x01, 0x02, 0x03, 0x00, 0x7f, b[i] ^ (1 << r.randrange(8))])]) + b[i + 1:]
    if m < 0.85:
        i = r.randrange(len(b))
        ins = r.choice([b"\xfe\x01", b"\xfe\x02", b"\xfe\x03", b"\xfe\x80", b"\xfe\x00", b"\xfe\x82\x00\x02", b"\xfe\x06",
                        b"\xfe\x81\xff", b"\xfe", b"\xff", b"\xfe\xfe", b"\xfe\xff", b"\xff\xfe\x01\xfe\x01"])
        return b[:i] + ins + b[i:]
    if m < 0.93:
        # replace a back-reference's path byte
        idx = [i for i in range(len(b) - 1) if b[i] == 0xfe]
        if idx:
            i = r.choice(idx) + 1
            return b[:i] + bytes([r.choice([0, 1, 2, 3, 4, 5, 6, 7, 0x0f, 0x7f, 0x80, 0x81, r.getrandbits(8)])]) + b[i + 1:]
        return b
    return b"\xff" + b + b"\xfe" + r.choice([b"\x02", b"\x01", b"\x03", b"\x04", b"\x06"])


def shared_tree(r, size=None, atoms=None):
    """a tree with repeated sub-trees at varying depths (by value); small atom pool so that
    equal atoms and equal sub-trees are frequent"""
    pool = atoms or [small_atom(r) for _ in range(r.choice([1, 2, 3, 6]))] + \
        [bytes(r.getrandbits(8) for _ in range(r.choice([4, 5, 8, 33])))]
    size = size or r.choice([1, 2, 3, 5, 8, 13, 20, 40, 80])
    made = []
    share = r.choice([0.0, 0.15, 0.3, 0.5])

    def build(n, depth):
        if made and r.random() < share:
            return r.choice(made)
        if n <= 1 or depth > 150:
            return r.choice(pool)
        k = r.choice([1, n // 2, r.randrange(1, n)])
        k = min(max(k, 1), n - 1)
        t = (build(k, depth + 1), build(n - 1 - k, depth + 1))
        made.append(t)
        return t

    return build(size, 0)


def tree_size(t):
    n = 0
    st = [t]
    while st:
        v = st.pop()
        n += 1
        if isinstance(v, tuple):
            st.append(v[0])
            st.append(v[1])
    return n
