"""ctx.correspond with an explicit shard count for the model run (vlib shards by line count only,
which leaves a few hundred slow cases — extracted SHA-256 — on two processes)."""
import os
import vlib


def correspond(ctx, fam, cases, shards=None, variant="default", canon=vlib.canon_default, name=None,
               nontrivial=None, skip=lambda m: m.startswith("skip"), timeout=1500):
    name = name or fam
    shards = shards or vlib.NPROC
    shards = max(1, min(shards, len(cases)))
    cmd = ["sh", "-c", "ulimit -s unlimited 2>/dev/null || ulimit -s 1000000; exec %s %s"
           % (os.path.join(vlib.BUILD, "ocaml", "model"), fam)]
    m = vlib._run_sharded(cmd, cases, timeout, shards=shards, on_timeout="skip model-shard-timeout")
    i = vlib.run_impl(fam, cases, variant)
    dis = []
    skipped = 0
    for c, a, b in zip(cases, m, i):
        ctx.evaluations += 1
        if a is not None and (a.startswith("skip model-") or skip(a)):   # model gave up on the line (time limit): not evaluated
            skipped += 1
            continue
        if c not in ctx.distinct:
            ctx.distinct.add(c)
            if nontrivial is None or nontrivial(c, a, b):
                ctx.nontrivial += 1
        if canon(a) != canon(b):
            dis.append((c, a, b))
    ctx.dist.setdefault("families", {})[name + ":" + variant] = {
        "cases": len(cases), "skipped_by_model": skipped, "disagreements": len(dis)}
    ctx.programs += len(cases)
    ctx.disagreements_checked += len(dis)
    if dis:
        ctx.broken.append(("correspondence", name + ":" + variant,
                           "\n".join("%s\n  model: %s\n  impl : %s" % d for d in dis[:10])))
    if len(ctx.samples) < 12 and cases:
        k = ctx.rng.randrange(len(cases))
        ctx.samples.append({"family": name, "case": cases[k][:300], "model": (m[k] or "")[:300], "impl": (i[k] or "")[:300]})
    return dis
