"""Directed byte strings for the canonical check (C15 converse, C16 canonical equivalence):
atoms whose length prefix is longer than necessary, with sizes at the edges of every prefix-length
class. `is_canonical_atom` accepts a k-byte prefix exactly when the size is at least the minimum of
class k; a changed minimum is only visible on sizes between the old and the new value, i.e. just
below a class minimum (with the class's own prefix) and at it."""

TAGS = {1: 0x80, 2: 0xc0, 3: 0xe0, 4: 0xf0, 5: 0xf8, 6: 0xfc}
CLASS_MIN = {1: 1, 2: 0x40, 3: 0x2000, 4: 0x100000, 5: 0x8000000, 6: 0x400000000}


def prefix_k(size, k):
    """the k-byte length prefix announcing `size` (None when size does not fit k bytes)"""
    hi = size >> (8 * (k - 1))
    if hi >= (1 << (7 - k)):
        return None
    out = [TAGS[k] | hi]
    for i in range(k - 2, -1, -1):
        out.append((size >> (8 * i)) & 0xff)
    return bytes(out)


def boundary_strings(max_size):
    """(label, bytes): every prefix length 1..6 with the sizes 0, 1, 2 and, for each class minimum m,
    m/2, m-1, m, m+1 (up to max_size), as a bare atom, inside a pair and followed by a trailing
    byte. The atom's bytes are 0xa5 (so a one-byte atom does need its prefix)."""
    sizes = {0, 1, 2}
    for m in CLASS_MIN.values():
        for s in (m // 2, m - 1, m, m + 1):
            if 0 <= s <= max_size:
                sizes.add(s)
    out = []
    for k in range(1, 7):
        for s in sorted(sizes):
            p = prefix_k(s, k)
            if p is None:
                continue
            atom = p + b"\xa5" * s
            out.append(("k%d-size%d" % (k, s), atom))
            if s <= 0x2001:
                out.append(("k%d-size%d-pair" % (k, s), b"\xff" + atom + b"\x80"))
                out.append(("k%d-size%d-trail" % (k, s), atom + b"\x00"))
    return out
