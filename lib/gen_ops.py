"""Generators for the `ops` family (operators of more_ops.rs / core_ops.rs called directly).

A *base item* is a dict {name, flags, args (list of trees), term (terminator atom), heavy}.
`line(item, budget, cmd)` renders a case line. Budgets are derived in two phases: the base item
is run on the implementation with an effectively unlimited budget, then `followups` derives the
budgets at which the outcome must flip (cost c, c-1, the last checked cost = c - malloc, +-1, the
cost boundaries of argument-list prefixes, random budgets below c).

`heavy` items carry operands whose VALUE the extracted model cannot compute quickly (the model's
integers are Coq's binary numbers): they are only run against the model under budgets below the
last checked cost, where both sides must answer CostExceeded before touching the value.
"""
import gen

HUGE = (1 << 63) - 1

# flag bits (chia_dialect.rs)
CANONICAL_INTS = 0x0001
NO_UNKNOWN_OPS = 0x0002
LIMIT_HEAP = 0x0004
ENABLE_GC = 0x0020
LIMITS = 0x0040
DISABLE_OP = 0x0200
MALACHITE = 0x1000
NEW_COST_MODEL = 0x2000

# operand-size thresholds read from more_ops.rs (checked by `thresholds_from_source`)
THRESHOLDS = [256, 1024, 2048]

ARITH = ["op_add", "op_subtract", "op_multiply"]
DIVS = ["op_div", "op_divmod", "op_mod"]
LOGIC = ["op_logand", "op_logior", "op_logxor"]
VALUE_OPS = set(ARITH + DIVS + LOGIC + ["op_modpow", "op_gr", "op_lognot", "op_ash", "op_lsh"])
HASH_OPS = {"op_sha256", "op_sha256_tree"}
MORE_OPS = ARITH + DIVS + LOGIC + ["op_modpow", "op_gr", "op_gr_bytes", "op_strlen", "op_substr", "op_concat",
                                   "op_ash", "op_lsh", "op_lognot", "op_not", "op_any", "op_all",
                                   "op_sha256", "op_sha256_tree"]
CORE_OPS = ["op_if", "op_cons", "op_first", "op_rest", "op_listp", "op_raise", "op_eq"]
ARITY = {"op_div": 2, "op_divmod": 2, "op_mod": 2, "op_modpow": 3, "op_gr": 2, "op_gr_bytes": 2, "op_strlen": 1,
         "op_substr": 3, "op_ash": 2, "op_lsh": 2, "op_lognot": 1, "op_not": 1, "op_sha256_tree": 1,
         "op_if": 3, "op_cons": 2, "op_first": 1, "op_rest": 1, "op_listp": 1, "op_raise": 1, "op_eq": 2}


def thresholds_from_source(repo):
    """the `> N` operand-size literals of more_ops.rs next to LIMITS / DISABLE_OP tests"""
    import re, os
    src = open(os.path.join(repo, "src", "more_ops.rs")).read()
    vals = set()
    for m in re.finditer(r"ClvmFlags::(?:LIMITS|DISABLE_OP)\)(?:[^;{}]|\{[^{}]*\})*?\{", src, re.S):
        for n in re.findall(r">\s*(\d+)", m.group(0)):
            vals.add(int(n))
    return sorted(vals)


def alen(t):
    return len(t)


def tree_atoms(t):
    st = [t]
    while st:
        v = st.pop()
        if isinstance(v, tuple):
            st.append(v[0]); st.append(v[1])
        else:
            yield v


def mklist(args, term=b""):
    t = term
    for a in reversed(args):
        t = (a, t)
    return t


def pad(b, r, n=None):
    """non-canonical padding with the sign byte"""
    n = n if n is not None else r.choice([1, 1, 2, 3, 7])
    p = b"\xff" if (len(b) > 0 and b[0] >= 0x80) else b"\x00"
    return p * n + b


def int_atom(r, maxlen=4096):
    """an integer operand: boundaries, paddings, threshold sizes"""
    k = r.random()
    if k < 0.08:
        return b""
    if k < 0.40:
        v = r.choice(gen.INTERESTING_INTS)
        if r.random() < 0.5:
            v += r.choice([-1, 0, 1])
        if r.random() < 0.3:
            v = -v
        b = gen.int_to_bytes(v)
        if r.random() < 0.2:
            b = pad(b, r)
        return b
    if k < 0.50:
        return bytes([r.choice([0, 1, 0x7f, 0x80, 0x81, 0xff, r.getrandbits(8)])])
    if k < 0.62:
        return bytes(r.getrandbits(8) for _ in range(r.choice([2, 3, 4, 5, 7, 8, 9, 12, 16, 17, 31, 32, 33])))
    if k < 0.70:   # 00.. / ff.. only
        return bytes([r.choice([0, 0xff])]) * r.choice([1, 2, 3, 4, 5, 8, 9])
    if k < 0.90:   # around the LIMITS / DISABLE_OP thresholds
        n = r.choice(THRESHOLDS) + r.choice([-1, 0, 0, 1, 1])
        n = min(n, maxlen)
        first = r.choice([0x00, 0x01, 0x7f, 0x80, 0xff, r.getrandbits(8)])
        if r.random() < 0.5:
            return gen.Rep(first, n)
        return bytes([first]) + bytes(r.getrandbits(8) for _ in range(n - 1))
    return bytes(r.getrandbits(8) for _ in range(r.randrange(0, 70)))


def big_rep(r, thorough=False):
    n = r.choice([5000, 65536, 100000, 1 << 20] + ([3 << 20] if thorough else []))
    return gen.Rep(r.choice([0x00, 0x01, 0x41, 0x7f, 0x80, 0xff]), n + r.choice([-1, 0, 1]))


def blob(r):
    k = r.random()
    if k < 0.15:
        return b""
    if k < 0.5:
        return bytes(r.getrandbits(8) for _ in range(r.choice([1, 1, 2, 3, 4, 5, 8, 31, 32, 33, 48, 64, 65])))
    if k < 0.7:
        return gen.gen_atom(r)
    if k < 0.85:
        return gen.Rep(r.getrandbits(8), r.choice([55, 56, 63, 64, 65, 119, 120, 127, 128, 129, 255, 256, 1000]))
    return int_atom(r)


def small_tree(r):
    return gen.gen_tree(r, size=r.choice([2, 3, 3, 5, 9]))


def i32_arg(r, around=None):
    k = r.random()
    if around is not None and k < 0.6:
        v = around + r.choice([-2, -1, 0, 1, 2])
        b = gen.int_to_bytes(v)
        if r.random() < 0.15:
            b = pad(b, r, r.choice([1, 2, 3]))
        return b
    if k < 0.75:
        return gen.int_to_bytes(r.choice([0, 1, -1, 2, 7, 8, 9, 63, 64, 65, 127, 128, 255, 256, 65534, 65535, 65536,
                                          -65534, -65535, -65536, 0x7fffffff, -0x80000000, 0x80000000, -0x80000001]))
    if k < 0.85:
        return bytes(r.getrandbits(8) for _ in range(r.choice([1, 2, 3, 4, 4, 5])))
    return int_atom(r)


def gen_args(r, name, thorough=False):
    """-> (args, term): mostly well-formed argument lists for `name`"""
    if name in ARITH or name in LOGIC:
        n = r.choice([0, 1, 1, 2, 2, 2, 3, 3, 4, 5, 6])
        mx = 1100 if name == "op_multiply" else 4096
        args = [int_atom(r, mx) for _ in range(n)]
        if name == "op_multiply" and r.random() < 0.15:
            # products crossing the 1024-limb LIMITS rule
            args = [gen.Rep(r.choice([1, 0x7f, 0xff, 0x80]), r.choice([255, 256])) for _ in range(r.choice([4, 5]))]
        if r.random() < 0.06:
            args[r.randrange(len(args)) if args else 0:0] = [big_rep(r, thorough)]
    elif name in DIVS:
        a0 = int_atom(r, 4096)
        a1 = int_atom(r, 1100)
        if r.random() < 0.15:
            a1 = r.choice([b"", b"\x00", b"\x00\x00", b"\x01", b"\xff", b"\x02"])
        if r.random() < 0.35:
            # operand sizes exactly at the DISABLE_OP / LIMITS thresholds
            def sized(n):
                first = r.choice([0x00, 0x01, 0x7f, 0x80, 0xff])
                return gen.Rep(first, n) if r.random() < 0.5 else bytes([first]) + bytes(r.getrandbits(8) for _ in range(n - 1))
            a0 = sized(r.choice([2047, 2048, 2049, 2049, 255, 256, 257, 257]))
            a1 = r.choice([b"\x03", b"\x00\x07", b"\xff\x7f\x01", sized(r.choice([1023, 1024, 1025])), int_atom(r, 40)])
        if r.random() < 0.04:
            a0 = big_rep(r, thorough)
        args = [a0, a1]
    elif name == "op_modpow":
        b = int_atom(r, 300)
        k = r.random()
        if k < 0.4:
            e, m = int_atom(r, 8), int_atom(r, 300)
        elif k < 0.7:
            e, m = int_atom(r, 300), int_atom(r, 3)
        else:
            e, m = int_atom(r, 300), int_atom(r, 300)   # heavy unless rejected
        if len(e) > 0 and r.random() < 0.7:    # mostly non-negative exponents
            eb = gen.atom_bytes(e)
            if eb[0] >= 0x80:
                e = b"\x00" + eb if len(eb) < 255 else bytes([eb[0] & 0x7f]) + eb[1:]
        if r.random() < 0.1:
            m = r.choice([b"", b"\x00", b"\x01", b"\xff"])
        args = [b, e, m]
    elif name == "op_gr":
        args = [int_atom(r), int_atom(r)]
        if r.random() < 0.2:
            args[1] = pad(gen.atom_bytes(args[0]), r) if r.random() < 0.5 else args[0]
        if r.random() < 0.03:
            args[r.randrange(2)] = big_rep(r, thorough)
    elif name in ("op_gr_bytes", "op_eq"):
        a = blob(r)
        k = r.random()
        if k < 0.3:
            ab = gen.atom_bytes(a)
            b = r.choice([ab, ab + b"\x00", ab[:-1], ab[:-1] + bytes([(ab[-1] + 1) & 0xff]) if ab else b"\x00"])
        else:
            b = blob(r)
        if r.random() < 0.05:
            n = r.choice([100000, 1 << 20])
            a, b = gen.Rep(0x41, n), gen.Rep(0x41, n + r.choice([0, 1, -1]))
        args = [a, b] if r.random() < 0.5 else [b, a]
    elif name == "op_strlen":
        args = [blob(r) if r.random() < 0.8 else big_rep(r, thorough)]
    elif name == "op_substr":
        a0 = blob(r) if r.random() < 0.85 else big_rep(r, thorough)
        n = len(a0)
        start = i32_arg(r, r.choice([0, 0, 1, n, n - 1, n // 2]))
        args = [a0, start]
        if r.random() < 0.7:
            args.append(i32_arg(r, r.choice([n, n, n - 1, n + 1, 0, n // 2, gen.int_from_bytes(gen.atom_bytes(start)[:4])])))
    elif name == "op_concat":
        n = r.choice([0, 1, 2, 2, 3, 4, 6])
        args = [blob(r) for _ in range(n)]
        if r.random() < 0.1:
            args.insert(r.randrange(len(args) + 1), big_rep(r, thorough))
    elif name in ("op_ash", "op_lsh"):
        a0 = int_atom(r, 1100)
        sh = i32_arg(r, r.choice([0, 1, 7, 8, 9, -1, -8, -9, 65535, -65535, 64, -64, 8 * len(a0), -8 * len(a0), -8 * len(a0) + 1]))
        args = [a0, sh]
    elif name == "op_lognot":
        args = [int_atom(r)]
    elif name == "op_not":
        args = [r.choice([b"", b"\x00", b"\x01", small_tree(r), blob(r)])]
    elif name in ("op_any", "op_all"):
        n = r.choice([0, 1, 2, 3, 4, 6])
        args = [r.choice([b"", b"", b"\x00", b"\x01", small_tree(r), blob(r)]) for _ in range(n)]
    elif name == "op_sha256":
        k = r.random()
        if k < 0.25:   # the (1 . small) precomputed fast path and its neighbours
            args = [r.choice([b"\x01", b"\x01", b"\x00\x01", b"\x02"]),
                    gen.int_to_bytes(r.choice([0, 1, 2, 35, 36, 37, 38, 127, 128, 255, 256])) if r.random() < 0.8 else b"\x00"]
            if r.random() < 0.15:
                args.append(b"")
        else:
            n = r.choice([0, 1, 1, 2, 3, 4, 6])
            args = [blob(r) for _ in range(n)]
        if r.random() < 0.05:
            args.insert(r.randrange(len(args) + 1), big_rep(r, thorough))
    elif name == "op_sha256_tree":
        k = r.random()
        if k < 0.3:
            args = [blob(r)]
        elif k < 0.35:
            args = [gen.int_to_bytes(r.choice([0, 1, 35, 36, 37, 38]))]
        else:
            args = [gen.gen_tree(r, size=r.choice([2, 3, 5, 9, 17, 40]), share=r.choice([0.0, 0.0, 0.3, 0.6]))]
    elif name == "op_if":
        args = [r.choice([b"", b"\x00", b"\x01", small_tree(r), blob(r)]), gen.gen_tree(r, 3), gen.gen_tree(r, 3)]
    elif name in ("op_cons",):
        args = [gen.gen_tree(r, 3), gen.gen_tree(r, 3)]
    elif name in ("op_first", "op_rest", "op_listp", "op_raise"):
        args = [gen.gen_tree(r, r.choice([1, 1, 3, 5]))]
    else:
        raise ValueError(name)
    return args, b""


def mutate_shape(r, name, args, term):
    """arity errors, pairs at each position, improper terminators. Returns a list of
    (args, term, prefix_len|None): prefix_len = number of leading arguments before the first
    inserted pair (its cost boundary is where CostExceeded turns into InvalidOpArg)"""
    out = []
    k = r.random()
    if k < 0.35:
        j = r.randrange(len(args) + 1) if r.random() < 0.5 or not args else r.randrange(len(args))
        a2 = list(args)
        if j < len(a2) and r.random() < 0.7:
            a2[j] = small_tree(r)
        else:
            a2.insert(j, small_tree(r))
        out.append((a2, term, j))
    elif k < 0.55:
        out.append((args, r.choice([b"\x01", b"\x80", b"\xff\xff", gen.Rep(0x41, 100)]), None))
    elif k < 0.75:
        if args:
            out.append((args[:-1], term, None))
        out.append((args + [int_atom(r)], term, None))
    elif k < 0.85:
        n = r.choice([0, 1, 2, 3, 4, 5, 6])
        out.append(([int_atom(r) for _ in range(n)], term, None))
    else:
        out.append(([gen.gen_tree(r, r.choice([1, 3])) for _ in range(r.randrange(0, 5))], r.choice([b"", b"\x01"]), None))
    return out


def is_heavy(name, args):
    if name in VALUE_OPS:
        sizes = [len(a) for t in args for a in tree_atoms(t)]
        if any(s > 4200 for s in sizes):
            return True
        if name == "op_modpow" and len(args) >= 3 and all(not isinstance(a, tuple) for a in args[:3]):
            e, m = len(args[1]), len(args[2])
            if e * m * m > 600000:
                return True
        if name in DIVS and len(args) >= 2 and not isinstance(args[0], tuple) and not isinstance(args[1], tuple):
            if len(args[0]) * len(args[1]) > 3000000:
                return True
    if name in HASH_OPS:
        if sum(len(a) for t in args for a in tree_atoms(t)) > 3000:
            return True
    return False


SIZE_LIMITED = set(DIVS + ["op_modpow", "op_multiply"])

FLAG_CHOICES = [0, 0, 0, NEW_COST_MODEL, NEW_COST_MODEL, LIMITS, DISABLE_OP, LIMITS | DISABLE_OP, MALACHITE,
                MALACHITE | NEW_COST_MODEL, MALACHITE | LIMITS | DISABLE_OP, CANONICAL_INTS, ENABLE_GC,
                LIMITS | NEW_COST_MODEL, DISABLE_OP | NEW_COST_MODEL,
                NO_UNKNOWN_OPS | LIMIT_HEAP | DISABLE_OP | CANONICAL_INTS | 0x10]


def gen_items(r, names, n, thorough=False, flags=None):
    """n base items over the given operator names (plus shape mutations and their prefixes)"""
    items = []
    for _ in range(n):
        name = r.choice(names)
        args, term = gen_args(r, name, thorough)
        f = r.choice(flags or FLAG_CHOICES)
        if flags is None and name in SIZE_LIMITED and r.random() < 0.5:
            f = r.choice([LIMITS, DISABLE_OP, DISABLE_OP, LIMITS | DISABLE_OP, DISABLE_OP | MALACHITE, LIMITS | MALACHITE,
                          DISABLE_OP | NEW_COST_MODEL, NO_UNKNOWN_OPS | LIMIT_HEAP | DISABLE_OP | CANONICAL_INTS | 0x10])
        if r.random() < 0.25:
            for (a2, t2, pre) in mutate_shape(r, name, args, term):
                it = {"name": name, "flags": f, "args": a2, "term": t2, "heavy": is_heavy(name, a2)}
                if pre is not None and name not in ARITY:
                    p = {"name": name, "flags": f, "args": a2[:pre], "term": b"", "heavy": is_heavy(name, a2[:pre])}
                    items.append(p)
                    it["prefix"] = p
                items.append(it)
        else:
            items.append({"name": name, "flags": f, "args": args, "term": term, "heavy": is_heavy(name, args)})
    return items


def line(it, budget=HUGE, cmd="op", flags=None):
    f = it["flags"] if flags is None else flags
    tree = gen.tt(mklist(it["args"], it["term"]))
    if cmd == "op":
        return "op %s %d %d %s" % (it["name"], f, budget, tree)
    return "opv %s %s %d %d %s" % (cmd[3:], it["name"], f, budget, tree)


def parse_obs(o):
    """-> ('ok', cost, treestr) | ('err', kind) | ('other', text)"""
    if o is None:
        return ("other", "none")
    t = o.split()
    if t and t[0] == "ok":
        return ("ok", int(t[1]), t[2] if len(t) > 2 else "")
    if t and t[0] == "err":
        return ("err", t[1].split("[")[0])
    return ("other", o)


def result_atom_len(treestr):
    """length of the result atom when the result is a single (short) atom, else None"""
    if treestr.startswith("a") and treestr.endswith(";") and treestr.count(";") == 1:
        return (len(treestr) - 2) // 2
    return None


def budgets_for(r, obs, extra=()):
    """budgets at which the outcome must flip, from the unlimited-budget observation"""
    p = parse_obs(obs)
    out = set(extra)
    if p[0] == "ok":
        c = p[1]
        out.update([c, c - 1, c + 1])
        n = result_atom_len(p[2])
        if n is not None:
            k = c - 10 * n
            out.update([k, k - 1, k + 1])
        if p[2].startswith("pa"):   # divmod: two atoms
            parts = p[2][1:].split(";")
            k = c - 10 * sum((len(x) - 1) // 2 for x in parts if x)
            out.update([k, k - 1])
        out.add(c - 320)   # sha256tree: malloc is checked
        if c > 2:
            out.add(r.randrange(1, c))
            out.add(r.randrange(1, c))
    return sorted(b for b in out if 0 <= b <= HUGE)


# ---- unknown operators ------------------------------------------------------------------------

def py_unknown_base(fn, lens, ncm):
    """the published base cost on unbounded integers (None: a pair argument where an atom is
    required). Used to solve for multipliers and to classify F6."""
    if fn == 0:
        return 1
    if any(l is None for l in lens):
        return None
    if fn == 1:
        c = 99
        acc = 0
        for l in lens:
            if ncm:
                acc = max(acc, l)
                c += 500 + 4 * acc
            else:
                c += 320 + 3 * l
        return c
    if fn == 2:
        c = 2000 if ncm else 92
        div = 16 if ncm else 128
        if lens:
            l0 = lens[0]
            if ncm:
                c += l0 * 6
            for l in lens[1:]:
                c += 885 + (l0 + l) * 6 + (l0 * l) // div
                l0 += l
        return c
    c = 142
    for l in lens:
        c += 135 + 3 * l
    return c


def unknown_opcode(r, fn=None, mult=None, nbytes=None):
    fn = r.randrange(4) if fn is None else fn
    last = (fn << 6) | r.getrandbits(6)
    if mult is None:
        mult = r.choice([0, 0, 1, 2, 0xff, 0x100, 1 << 16, (1 << 16) - 1, 1 << 24, (1 << 24) - 1, 0xfffeffff, 0xffff0000,
                         r.getrandbits(8), r.getrandbits(16), r.getrandbits(24), r.getrandbits(31), r.getrandbits(32),
                         (1 << 32) - 1] if r.random() < 0.5 else [0, 1, r.getrandbits(8), r.getrandbits(16), r.getrandbits(24)])
    mb = mult.to_bytes(4, "big").lstrip(b"\x00")
    if nbytes is not None:
        mb = mb.rjust(nbytes, b"\x00") if nbytes >= len(mb) else mb
    elif r.random() < 0.2:
        mb = b"\x00" * r.randrange(1, 4 - len(mb) + 1) + mb if len(mb) < 4 else mb
    return mb + bytes([last])


def unknown_len_cases(r, n, thorough=False):
    """`ul` lines: (opcode, flags, budget, lens) with argument lengths up to 2^24 (2^26 thorough)"""
    maxe = 26 if thorough else 22
    out = []
    for _ in range(n):
        ncm = r.random() < 0.4
        flags = (NEW_COST_MODEL if ncm else 0) | r.choice([0, 0, 0, LIMITS, MALACHITE, ENABLE_GC])
        fn = r.choice([0, 1, 2, 2, 2, 3])
        nargs = r.choice([0, 1, 2, 2, 3, 4, 8])
        lens = []
        for _ in range(nargs):
            k = r.random()
            if k < 0.25:
                lens.append(r.choice([0, 1, 2, 127, 128, 255, 256]))
            elif k < 0.6:
                e = r.randrange(8, maxe + 1)
                lens.append(min((1 << e) + r.choice([-1, 0, 1]), 1 << maxe))
            elif k < 0.9:
                lens.append(r.randrange(0, 1 << r.randrange(1, maxe + 1)))
            else:
                lens.append(None)
        if r.random() < 0.85:
            lens = [l for l in lens if l is not None] if r.random() < 0.7 else lens
        base = py_unknown_base(fn, lens, ncm)
        mult = None
        if base is not None and r.random() < 0.6:
            k = r.random()
            if base > (1 << 32) and k < 0.7:
                # multipliers with base * (m+1) = j * 2^64 + small
                j = r.randrange(1, max(2, (base >> 32) + 1))
                m1 = ((j << 64) + base - 1) // base
                m1 += r.choice([0, 0, 0, 1, -1])
                if 1 <= m1 <= (1 << 32):
                    mult = m1 - 1
            elif k < 0.9 and base <= 0xffffffff:
                # products around the 32-bit cap
                m1 = 0xffffffff // base + r.choice([0, 0, 1, 1, -1])
                if 1 <= m1 <= (1 << 32):
                    mult = m1 - 1
        op = unknown_opcode(r, fn, mult)
        if r.random() < 0.06:
            op = r.choice([b"", b"\xff\xff", b"\xff\xff" + op, b"\xff" + op[-1:], op + b"\x00" * r.randrange(1, 4),
                           bytes(r.getrandbits(8) for _ in range(6)), b"\x00" * 5 + op[-1:]])
        budget = HUGE
        if base is not None:
            budget = r.choice([HUGE, HUGE, 11000000000, base, base - 1, base + 1, (1 << 64) - 1, max(0, base // 2)])
        ls = ",".join("p" if l is None else str(l) for l in lens) or "-"
        out.append("ul %s %d %d %s" % (op.hex() or "-", flags, max(0, budget), ls))
    return out


def unknown_tree_cases(r, n, strict_share=0.2):
    """`op unknown:<opcode>` / `op strict:<opcode>` lines on real argument trees"""
    out = []
    for _ in range(n):
        ncm = r.random() < 0.4
        flags = (NEW_COST_MODEL if ncm else 0) | r.choice([0, 0, NO_UNKNOWN_OPS, LIMITS, CANONICAL_INTS])
        fn = r.randrange(4)
        nargs = r.choice([0, 1, 2, 3, 4, 6])
        args = [blob(r) if r.random() < 0.97 else gen.Rep(0x41, r.choice([100000, 100000, 1 << 20])) for _ in range(nargs)]
        if r.random() < 0.25 and args:
            args[r.randrange(len(args))] = small_tree(r)
        term = b"" if r.random() < 0.8 else r.choice([b"\x01", b"\xff\xff", gen.Rep(0x41, 77)])
        lens = [None if isinstance(a, tuple) else len(a) for a in args]
        base = py_unknown_base(fn, lens, ncm)
        mult = None
        if base is not None and r.random() < 0.4:
            m1 = 0xffffffff // base + r.choice([0, 1, -1])
            if 1 <= m1 <= (1 << 32):
                mult = m1 - 1
        op = unknown_opcode(r, fn, mult)
        k = r.random()
        if k < 0.10:
            op = r.choice([b"", b"\xff\xff", b"\xff\xff" + op, b"\xff" + op[-1:], b"\xff\x00\xff" + op[-1:], op + b"\x00\x00",
                           bytes(r.getrandbits(8) for _ in range(6)), bytes(r.getrandbits(8) for _ in range(5))])
        budget = HUGE
        if base is not None:
            budget = r.choice([HUGE, HUGE, base, base - 1, base + 1, max(0, base - r.randrange(1, 400))])
        kind = "strict" if (flags & NO_UNKNOWN_OPS or r.random() < strict_share) else "unknown"
        out.append("op %s:%s %d %d %s" % (kind, op.hex() or "-", flags, max(0, budget), gen.tt(mklist(args, term))))
    return out
