"""Generators for the cryptographic operators (C32): argument lists that are mostly valid, plus a
separate malformed stream. Every random choice comes from the rng passed in. Points, scalars and
signatures are produced with the independent reference lib/ec_ref.py (never with /repo)."""
import ec_ref as E

F_RELAXED_BLS = 0x0008
F_LIMITS = 0x0040
F_NEW_COST_MODEL = 0x2000
BIG = 10 ** 15


def lst(items, term=b""):
    t = term
    for x in reversed(items):
        t = (x, t)
    return t


def int_atom(v):
    if v == 0:
        return b""
    n = (v.bit_length() + 8) // 8 if v > 0 else ((-v - 1).bit_length() + 8) // 8
    return v.to_bytes(n, "big", signed=True)


class Pools:
    """valid / invalid encodings of G1 and G2 points with what the reference says about them"""

    def __init__(self, r, n_valid=6):
        self.r = r
        self.k1 = [1, 2, E.BLS_R - 1] + [r.randrange(1, E.BLS_R) for _ in range(n_valid)]
        self.g1 = [E.g1_encode(E.G1C.mul(E.G1C.g, k)) for k in self.k1]
        self.k2 = [1, 2, E.BLS_R - 1] + [r.randrange(1, E.BLS_R) for _ in range(max(2, n_valid // 2))]
        self.g2 = [E.g2_encode(E.g2_mul(E.G2_GEN, k)) for k in self.k2]
        self.g1_bad = self._bad_g1()
        self.g2_bad = self._bad_g2()

    def _curve_point_g1(self):
        """a point of E(Fp) that is (with overwhelming probability, and checked) outside G1"""
        r = self.r
        while True:
            x = r.randrange(E.BLS_P)
            y = E.G1C.sqrt((x ** 3 + 4) % E.BLS_P)
            if y is not None and E.G1C.mul((x, y), E.BLS_R) is not None:
                return (x, y)

    def _curve_point_g2(self):
        r = self.r
        while True:
            x = (r.randrange(E.BLS_P), r.randrange(E.BLS_P))
            y = E.f2sqrt(E.f2add(E.f2mul(E.f2mul(x, x), x), E.G2_B))
            if y is not None and E.g2_mul((x, y), E.BLS_R) is not None:
                return (x, y)

    def _bad_g1(self):
        r = self.r
        g = bytearray(self.g1[0])
        out = []
        out.append(("nonsubgroup", E.g1_encode(self._curve_point_g1())))
        out.append(("nonsubgroup", E.g1_encode(self._curve_point_g1())))
        # x with no square root of x^3+4
        while True:
            x = r.randrange(E.BLS_P)
            if E.G1C.sqrt((x ** 3 + 4) % E.BLS_P) is None:
                b = bytearray(x.to_bytes(48, "big")); b[0] |= 0x80
                out.append(("offcurve", bytes(b)))
                break
        b = bytearray((E.BLS_P + 1).to_bytes(48, "big")); b[0] |= 0x80
        out.append(("x>=p", bytes(b)))
        b = bytearray(E.BLS_P.to_bytes(48, "big")); b[0] |= 0x80
        out.append(("x>=p", bytes(b)))
        b = bytearray(g); b[0] &= 0x7f
        out.append(("uncompressed-flag", bytes(b)))
        b = bytearray(g); b[0] |= 0x40
        out.append(("inf-flag-nonzero", bytes(b)))
        out.append(("inf-with-sign", bytes([0xe0]) + bytes(47)))
        out.append(("inf-trailing", bytes([0xc0]) + bytes(46) + b"\x01"))
        out.append(("zero", bytes(48)))
        out.append(("x=0-flagged", bytes([0x80]) + bytes(47)))
        out.append(("ff", b"\xff" * 48))
        b = bytearray(g); b[r.randrange(1, 48)] ^= 1 << r.randrange(8)
        out.append(("bitflip", bytes(b)))
        return out

    def _bad_g2(self):
        r = self.r
        g = bytearray(self.g2[0])
        out = []
        out.append(("nonsubgroup", E.g2_encode(self._curve_point_g2())))
        b = bytearray(g); b[0] &= 0x7f
        out.append(("uncompressed-flag", bytes(b)))
        b = bytearray(g); b[0] |= 0x40
        out.append(("inf-flag-nonzero", bytes(b)))
        out.append(("inf-with-sign", bytes([0xe0]) + bytes(95)))
        out.append(("inf-trailing", bytes([0xc0]) + bytes(94) + b"\x01"))
        out.append(("zero", bytes(96)))
        b = bytearray(g); b[48:] = E.BLS_P.to_bytes(48, "big")
        out.append(("x0>=p", bytes(b)))
        b = bytearray(g); b[r.randrange(1, 96)] ^= 1 << r.randrange(8)
        out.append(("bitflip", bytes(b)))
        return out

    def any_g1(self, bad=0.25):
        r = self.r
        if r.random() < bad:
            c = r.random()
            if c < 0.6:
                return r.choice(self.g1_bad)[1]
            if c < 0.8:
                return r.choice([b"", b"\x01", self.g1[0][:47], self.g1[0] + b"\x00", self.g2[0], bytes(r.getrandbits(8) for _ in range(48))])
            return (self.g1[0], b"")      # a pair
        return r.choice(self.g1 + [E.G1_INF])

    def any_g2(self, bad=0.25):
        r = self.r
        if r.random() < bad:
            c = r.random()
            if c < 0.6:
                return r.choice(self.g2_bad)[1]
            if c < 0.8:
                return r.choice([b"", b"\x01", self.g2[0][:95], self.g2[0] + b"\x00", self.g1[0], bytes(r.getrandbits(8) for _ in range(96))])
            return (self.g2[0], b"")
        return r.choice(self.g2 + [E.G2_INF])


def scalars(r):
    R = E.BLS_R
    out = [b"", b"\x01", b"\xff", b"\x00\x01", b"\xff\xff", b"\x00", int_atom(R), int_atom(R - 1), int_atom(R + 1),
           int_atom(-R), int_atom(-R - 1), int_atom(1 - R), int_atom(2 * R + 5), int_atom(-2), int_atom(-(1 << 255)),
           int_atom((1 << 256) - 1), b"\x7f" + bytes(r.getrandbits(8) for _ in range(39)),
           b"\x80" + bytes(r.getrandbits(8) for _ in range(39))]
    out += [int_atom(r.randrange(-(1 << 260), 1 << 260)) for _ in range(6)]
    return out


def amounts(r):
    """coinid amounts: (bytes, accepted by the statement's rule)"""
    def rule(b):
        # canonical encoding of an integer 0 <= v < 2^64
        v = int.from_bytes(b, "big", signed=True) if b else 0
        return 0 <= v < (1 << 64) and int_atom(v) == b
    vals = [0, 1, 0x7f, 0x80, 0xff, 0x100, 0x7fff, 0x8000, (1 << 32) - 1, 1 << 32, (1 << 63) - 1, 1 << 63,
            (1 << 64) - 1, 1 << 64, (1 << 64) + 1, (1 << 71) - 1, -1, -128, -(1 << 63)]
    out = [int_atom(v) for v in vals]
    out += [b"\x00", b"\x00\x00", b"\x00\x01", b"\x00\x7f", b"\x00\x80", b"\x00\x00\x80", b"\xff", b"\xff\x7f",
            b"\x00" + b"\xff" * 8, b"\x00" + b"\x7f" + b"\xff" * 7, b"\x01" + b"\x00" * 8, b"\x00" * 9, b"\x7f" * 9,
            b"\x00\x80" + b"\x00" * 8, b"\xff" * 8, b"\x7f" + b"\xff" * 7, b"\x80" + b"\x00" * 7]
    out += [int_atom(r.randrange(1 << r.choice([8, 16, 40, 56, 63, 64, 65]))) for _ in range(10)]
    return [(b, rule(b)) for b in out]
