"""Case lines of family `fastops` (harness/src/fam_fastops.rs, ocaml/fam_fastops.ml): argument
lists for op_add / op_subtract / op_multiply / op_gr / op_sha256 in which every operand has a
chosen allocator representation (s<dec> inline, b<hex> heap, p pair), concentrated on what the
no-fastpath regions of src/more_ops.rs look at:
  * all-inline lists, and the same list with ONE operand moved to the heap / replaced by a
    non-small heap atom / replaced by a pair, at every position (fall-back from every prefix);
  * heap atoms holding small canonical integers (new_concat / new_substr produce them), their
    non-canonical spellings (leading zeros), negative and > 2^26 values;
  * running totals leaving the u32 range with inline operands only (65+ operands of 2^26 - 1)
    and crossing 2^63, 2^64, i64::MIN/MAX through heap operands;
  * budgets at every check_cost point of the call +-1 (the closure returns CostExceeded, the
    generic loop of op_subtract checks twice per operand);
  * (sha256 1 n), n = 0..40, every representation of both operands, argument counts 0..3, the
    NIL / non-NIL terminators; * with operand sizes 255/256/257 and products around 1024 limbs
    with and without LIMITS, old and new cost model."""

SMALL_MAX = (1 << 26) - 1
NCM = 0x2000
LIMITS = 0x40


def canon(v):
    """canonical CLVM bytes of the integer v"""
    if v == 0:
        return b""
    n = (v.bit_length() + 8) // 8 if v > 0 else ((-v - 1).bit_length() + 8) // 8
    return v.to_bytes(n, "big", signed=True)


def s(v):
    assert 0 <= v <= SMALL_MAX
    return "s%d" % v


def b(x):
    if isinstance(x, int):
        x = canon(x)
    return "b" + (x.hex() if x else "-")


def val_of(spec):
    if spec[0] == "s":
        return int(spec[1:])
    if spec[0] == "b":
        body = spec[1:]
        return int.from_bytes(bytes.fromhex(body) if body != "-" else b"", "big", signed=True)
    return None


def len_of(spec):
    if spec[0] == "s":
        return len(canon(int(spec[1:])))
    body = spec[1:]
    return 0 if body == "-" else len(body) // 2


def limbs(z):
    return (abs(z).bit_length() + 7) // 8


SMALLS = [0, 1, 2, 0x7f, 0x80, 0xff, 0x100, 0x7fff, 0x8000, 0xffff, 0x10000, 0x7fffff, 0x800000,
          0xffffff, 0x1000000, SMALL_MAX - 1, SMALL_MAX]
BIGS = [SMALL_MAX + 1, 2 ** 31 - 1, 2 ** 31, 2 ** 32 - 1, 2 ** 32, 2 ** 62, 2 ** 63 - 1, 2 ** 63, 2 ** 63 + 1,
        2 ** 64 - 1, 2 ** 64, 2 ** 64 + 1, -1, -0x80, -0x81, -2 ** 31, -2 ** 32, -2 ** 63, -2 ** 63 - 1, -2 ** 63 + 1,
        -2 ** 64, 2 ** 100]
NONCANON = [b"\x00", b"\x00\x00", b"\x00\x05", b"\x00\x7f", b"\x00\x00\x80", b"\x00\x00\x00\x01", b"\xff\xff",
            b"\xff\x80", b"\x00\x03\xff\xff\xff", b"\x04\x00\x00\x00", b"\x03\xff\xff\xff", b"\x00\xff\xff\xff\xff"]


def arith_budgets(name, flags, args):
    """the running cost after every check_cost point of op_add / op_subtract (both cost models)"""
    ncm = bool(flags & NCM)
    per_arg, per_byte = (500, 4) if ncm else (320, 3)
    cost, acc, first, pts = 99, 0, True, []
    for a in args:
        cost += per_arg
        pts.append(cost)
        if a == "p":
            break
        ln = len_of(a)
        cost += (max(limbs(acc), ln) if ncm else ln) * per_byte
        pts.append(cost)
        v = val_of(a)
        acc = acc + v if (first or name == "op_add") else acc - v
        first = False
    return pts


def mul_budgets(flags, args):
    ncm = bool(flags & NCM)
    cost = 2000 if ncm else 92
    div = 16 if ncm else 128
    pts = []
    if not args or args[0] == "p":
        return pts
    l0, total = len_of(args[0]), val_of(args[0])
    if ncm:
        cost += l0 * 6
        pts.append(cost)
    for a in args[1:]:
        cost += 885
        if a == "p":
            break
        l1 = len_of(a)
        cost += (l0 + l1) * 6 + (l0 * l1) // div
        pts.append(cost)
        total *= val_of(a)
        l0 = limbs(total)
    return pts


def around(r, pts):
    out = [0, 1, 10 ** 12]
    for p in pts:
        out += [p - 1, p, p + 1]
    return [x for x in out if x >= 0]


def heapify(r, spec, mode):
    """another operand at the same position: the same number on the heap / non-canonical / big / pair"""
    v = val_of(spec)
    if mode == 0:
        return b(v)
    if mode == 1:
        return b(b"\x00" + canon(v)) if v >= 0 else b(b"\xff" + canon(v))
    if mode == 2:
        return b(r.choice(BIGS))
    if mode == 3:
        return "p"
    return b(r.choice(NONCANON))


def cases(ctx):
    r = ctx.rng
    out = []          # (name, flags, max_cost, term, [args])
    scale = ctx.scale(1, 6)

    def emit(name, flags, args, term="s0", budgets=None, nb=2):
        if budgets is None:
            if name in ("op_add", "op_subtract"):
                pts = arith_budgets(name, flags, args)
            elif name == "op_multiply":
                pts = mul_budgets(flags, args)
            else:
                pts = []
            cand = around(r, pts)
            budgets = [10 ** 12] + [r.choice(cand) for _ in range(nb)]
        for m in budgets:
            out.append((name, flags, m, term, list(args)))

    def rflags():
        return r.choice([0, 0, NCM, NCM, LIMITS, NCM | LIMITS, r.getrandbits(14)])

    terms = ["s0", "s0", "s0", "s1", "b-", "b05", "s5", b(2 ** 40)]

    # ---- op_add / op_subtract --------------------------------------------------------------
    for name in ("op_add", "op_subtract"):
        emit(name, 0, [])
        emit(name, NCM, [], term="b-")
        for _ in range(120 * scale):
            k = r.choice([1, 1, 2, 2, 3, 3, 4, 5, 6, 9])
            base = [s(r.choice(SMALLS) if r.random() < 0.8 else r.randrange(SMALL_MAX + 1)) for _ in range(k)]
            f = rflags()
            emit(name, f, base, term=r.choice(terms))
            # one operand changed, at every position
            for pos in range(k):
                alt = list(base)
                alt[pos] = heapify(r, base[pos], r.randrange(5))
                emit(name, f, alt, term=r.choice(terms), nb=2)
            # several changed
            alt = [heapify(r, x, r.randrange(5)) if r.random() < 0.4 else x for x in base]
            emit(name, f, alt)
        # totals leaving u32 with inline operands only; the heap operand after a long inline prefix
        for n in (63, 64, 65, 66, 130, 300):
            for f in (0, NCM):
                emit(name, f, [s(SMALL_MAX)] * n, nb=3)
                emit(name, f, [s(SMALL_MAX)] * n + [b(1)], nb=3)
                emit(name, f, [s(1)] + [s(SMALL_MAX)] * n + [s(0x80)], nb=2)
        # i64 / u64 boundaries through heap operands mixed with inline ones
        for big in BIGS:
            for sm in (0, 1, 2, 0x80, SMALL_MAX):
                for f in (0, NCM):
                    emit(name, f, [b(big), s(sm)], nb=1)
                    emit(name, f, [s(sm), b(big)], nb=1)
                    emit(name, f, [s(sm), s(1), b(big), s(sm)], nb=1)
        for nc in NONCANON:
            for f in (0, NCM):
                emit(name, f, [s(3), b(nc), s(4)], nb=1)
                emit(name, f, [b(nc)], nb=1)

    # ---- op_multiply -----------------------------------------------------------------------
    emit("op_multiply", 0, [])
    emit("op_multiply", NCM | LIMITS, [], term="b-")
    for _ in range(150 * scale):
        k = r.choice([1, 2, 2, 3, 3, 4, 6])
        base = [s(r.choice(SMALLS) if r.random() < 0.8 else r.randrange(SMALL_MAX + 1)) for _ in range(k)]
        f = rflags()
        emit("op_multiply", f, base, term=r.choice(terms))
        for pos in range(k):
            alt = list(base)
            alt[pos] = heapify(r, base[pos], r.randrange(5))
            emit("op_multiply", f, alt, term=r.choice(terms), nb=1)
    for size in (255, 256, 257):
        blob = b"\x01" + bytes(r.getrandbits(8) for _ in range(size - 1))
        z = b"\x00" * (size - 1) + b"\x02"
        for f in (0, LIMITS, NCM, NCM | LIMITS):
            emit("op_multiply", f, [b(blob), s(3)], nb=1)
            emit("op_multiply", f, [s(3), b(blob)], nb=1)
            emit("op_multiply", f, [s(3), s(5), b(z)], nb=1)
            emit("op_multiply", f, [b(z), s(3)], nb=1)
            emit("op_multiply", f, [s(SMALL_MAX), b(blob), s(SMALL_MAX), b(blob)], nb=1)
    full = b"\x7f" + b"\xff" * 255
    for f in (0, LIMITS, NCM | LIMITS):
        emit("op_multiply", f, [b(full)] * 4, nb=1)                       # 1024 limbs
        emit("op_multiply", f, [b(full)] * 4 + [s(2)], nb=1)
        emit("op_multiply", f, [b(full)] * 4 + [s(0x100), s(1)], nb=1)    # 1025 limbs
        emit("op_multiply", f, [b(full)] * 4 + [b(0x100), s(1)], nb=1)
        emit("op_multiply", f, [b(full)] * 3 + [b(full[:255]), s(0xffff), s(0xffff)], nb=1)

    # ---- op_gr -----------------------------------------------------------------------------
    vals = [s(v) for v in SMALLS] + [b(v) for v in SMALLS] + [b(v) for v in BIGS[:8] + BIGS[12:16]] + \
           [b(x) for x in NONCANON] + ["p"]
    grf = (0, NCM, LIMITS)
    for x in vals:
        for y in vals:
            if r.random() < (0.25 if scale == 1 else 1.0) or (x[0] != y[0] and r.random() < 0.5):
                emit("op_gr", r.choice(grf), [x, y], term=r.choice(terms), budgets=[r.choice([0, 10 ** 9])])
    for sv in SMALLS:                      # equal and neighbouring values, every representation pair
        for d in (-1, 0, 1):
            w = sv + d
            if 0 <= w <= SMALL_MAX:
                for mk1 in (s, b):
                    for mk2 in (s, b):
                        emit("op_gr", r.choice(grf), [mk1(sv), mk2(w)], budgets=[0])
    for k in (0, 1, 3, 4):
        emit("op_gr", 0, [s(5)] * k, budgets=[0])
        emit("op_gr", NCM, [b(5)] * k, term="b-", budgets=[0])

    # ---- op_sha256 -------------------------------------------------------------------------
    shab = [0, 1, 220, 221, 222, 223, 355, 356, 357, 358, 359, 360, 361, 1159, 1160, 1161, 1165, 1166, 1167,
            1325, 1326, 1327, 1331, 1332, 1333, 10 ** 9]
    ones = [s(1), b(1), b(b"\x00\x01"), s(0), s(2), b(b"\x01\x00"), "p"]
    for n in list(range(0, 41)) + [0x7f, 0x80, 0xff, 0x100, SMALL_MAX]:
        seconds = [s(n), b(n), b(b"\x00" + canon(n)), b(canon(n) + b"\x00")]
        for o in ones:
            for y in seconds:
                keep = o in (s(1), b(1)) or r.random() < 0.3
                if not keep:
                    continue
                for f in (0, NCM):
                    bs = [10 ** 9] + [r.choice(shab) for _ in range(2 if n in (0, 1, 35, 36, 37) else 1)]
                    emit("op_sha256", f, [o, y], term=r.choice(terms), budgets=bs)
        emit("op_sha256", r.choice((0, NCM)), [s(1), s(n), s(1)], budgets=[10 ** 9])
        emit("op_sha256", r.choice((0, NCM)), [s(n)], budgets=[10 ** 9])
    for n in (0, 1, 36, 37):               # every budget around the two check points
        for f in (0, NCM):
            for o, y in ((s(1), s(n)), (b(1), b(n)), (s(1), b(b"\x00" + canon(n)))):
                emit("op_sha256", f, [o, y], budgets=shab)
    for t in terms + ["b00"]:
        for f in (0, NCM):
            emit("op_sha256", f, [], term=t, budgets=[0, 86, 87, 999, 1000, 10 ** 9])
    emit("op_sha256", 0, [s(1), "p"], budgets=[10 ** 9])
    emit("op_sha256", 0, ["p", s(1)], budgets=[10 ** 9])
    emit("op_sha256", 0, [b(bytes(range(200))), s(1), b(2 ** 70)], budgets=[10 ** 9, 700])
    return out


def line(mode, c):
    name, flags, m, term, args = c
    return "fo %s %s %d %d %s %s" % (mode, name, flags, m, term, ",".join(args) if args else "-")
