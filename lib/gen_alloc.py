"""Allocator histories (family "alloc"): an independent Python reference of the accounting the
properties C12-C14 describe (every atom a separately stored byte string, a node is its tree),
and the history generator built on it.

Case-line syntax: see harness/src/fam_alloc.rs.  PyRef.step(token) predicts the observation of one
step in the *normalised* syntax (norm_step below): representation details the statement does not
fix (maybe_restore's outcome, Buffer vs U32, which InternalError message) are erased."""
import re
import sys
if hasattr(sys, "set_int_max_str_digits"):
    sys.set_int_max_str_digits(0)

MAX_ATOMS = 62_500_000
MAX_PAIRS = 62_500_000
SMALL = 1 << 26


def int_bytes(z):
    """minimal two's-complement big-endian encoding; 0 is the empty string"""
    if z == 0:
        return b""
    n = 1
    while True:
        try:
            return z.to_bytes(n, "big", signed=True)
        except OverflowError:
            n += 1


def bytes_int(b):
    return int.from_bytes(b, "big", signed=True) if b else 0


def small_view(b):
    """the small-integer view exists iff b is the minimal encoding of a value in [0, 2^26)"""
    z = bytes_int(b)
    if 0 <= z < SMALL and int_bytes(z) == b:
        return z
    return None


def hx(b):
    return b.hex() if b else "-"


def show_tree(t):
    out = []
    st = [t]
    while st:
        v = st.pop()
        if v[0] == "p":
            out.append("p")
            st.append(v[2])
            st.append(v[1])
        else:
            out.append("a" + v[1].hex() + ";")
    return "".join(out)


def fnv64(bs, h=0xcbf29ce484222325):
    for x in bs:
        h ^= x
        h = (h * 0x100000001b3) & 0xFFFFFFFFFFFFFFFF
    return h


def show_tree_short(t):
    s = show_tree(t)
    return s if len(s) <= 200 else "T#%d:%016x" % (len(s), fnv64(s.encode()))


def tsize(t):
    return t[3] if t[0] == "p" else 1


def mkpair(l, r):
    return ("p", l, r, tsize(l) + tsize(r) + 1)


class PyRef:
    def __init__(self, limit):
        self.na, self.np, self.nh, self.limit = 2, 0, 1, limit
        self.nodes = []
        self.cps = []      # oldest first: ("k", (na,np,nh), nl) | ("t", None, nl)
        self.dead = limit > 0xFFFFFFFF

    # -- helpers
    def get(self, i):
        i = int(i)
        return self.nodes[i] if 0 <= i < len(self.nodes) else None

    def _atom(self, b, heap=None, count_heap=True):
        """allocate an atom of bytes b whose heap charge is `heap` (default len b): heap cap first"""
        h = len(b) if heap is None else heap
        if self.nh + h > self.limit:
            return "e:OutOfMemory"
        if self.na == MAX_ATOMS:
            return "e:TooManyAtoms"
        self.na += 1
        self.nh += h
        t = ("a", bytes(b))
        self.nodes.append(t)
        return "n:" + show_tree_short(t)

    def digest(self):
        h = 0xcbf29ce484222325
        for n in self.nodes:
            h = fnv64((show_tree(n) + "|").encode(), h)
        return "%016x" % h

    def counts(self):
        return "%d,%d,%d" % (self.na, self.np, self.nh)

    # -- one step; returns the normalised result string, or "P" for a panic (API misuse)
    def step(self, tok):
        f = tok.split(",")
        o = f[0]
        if o == "a":
            return self._atom(bytes.fromhex(f[1]) if f[1] != "-" else b"")
        if o == "s":
            v = int(f[1])
            if v >= SMALL:
                return "P"
            return self._atom(int_bytes(v))
        if o in ("u", "i", "n", "m"):
            return self._atom(int_bytes(int(f[1])))
        if o == "p":
            x, y = self.get(f[1]), self.get(f[2])
            if x is None or y is None:
                return "skip"
            if self.np >= MAX_PAIRS:
                return "e:TooManyPairs"
            self.np += 1
            t = mkpair(x, y)
            self.nodes.append(t)
            return "n:" + show_tree_short(t)
        if o == "b":
            x = self.get(f[1])
            if x is None:
                return "skip"
            s, e = int(f[2]), int(f[3])
            if self.na == MAX_ATOMS:
                return "e:TooManyAtoms"
            if x[0] == "p":
                return "e:InternalError"
            n = len(x[1])
            if s > n:
                return "e:InvalidAllocArg[1]"
            if e > n:
                return "e:InvalidAllocArg[2]"
            if e < s:
                return "e:InvalidAllocArg[3]"
            self.na += 1
            t = ("a", x[1][s:e])
            self.nodes.append(t)
            return "n:" + show_tree_short(t)
        if o == "c":
            size = int(f[1])
            xs = [self.get(i) for i in f[2:]]
            if any(x is None for x in xs):
                return "skip"
            if self.na == MAX_ATOMS:
                return "e:TooManyAtoms"
            if self.nh + size > self.limit:
                return "e:OutOfMemory"
            if len(xs) == 1 and xs[0][0] == "p":
                return "P"
            if any(x[0] == "p" for x in xs):
                return "e:InternalError"
            b = b"".join(x[1] for x in xs)
            if len(b) != size:
                return "e:InternalError"
            self.na += 1
            self.nh += size
            t = xs[0] if len(xs) == 1 else ("a", b)
            self.nodes.append(t)
            return "n:" + show_tree_short(t)
        if o == "ga":
            n = int(f[1])
            if self.na + n > MAX_ATOMS:
                return "e:TooManyAtoms"
            self.na += n
            return "u"
        if o == "gp":
            n = int(f[1])
            if self.np + n > MAX_PAIRS:
                return "e:TooManyPairs"
            self.np += n
            return "u"
        if o == "rp":
            n = int(f[1])
            if n > self.np:
                return "P"
            self.np -= n
            return "u"      # (the arena panics when fewer than n of the pairs are ghosts)
        if o == "k":
            self.cps.append(("k", (self.na, self.np, self.nh), len(self.nodes)))
            return "u"
        if o == "t":
            self.cps.append(("t", None, len(self.nodes)))
            return "u"
        if o in ("r", "rt", "mr"):
            k = int(f[1])
            if k >= len(self.cps):
                return "skip"
            pos = len(self.cps) - 1 - k
            kind, c, nl = self.cps[pos]
            if kind != ("k" if o == "r" else "t"):
                return "skip"
            x = None
            if o == "mr":
                x = self.get(f[2])
                if x is None:
                    return "skip"
            del self.nodes[nl:]
            del self.cps[pos + 1:]
            if o == "r":
                self.na, self.np, self.nh = c
            if o == "mr":
                self.nodes.append(x)
                return "m:" + show_tree_short(x)
            return "u"
        x = self.get(f[1])
        if x is None:
            return "skip"
        if o == "A":
            return "P" if x[0] == "p" else "b:" + hx(x[1])
        if o == "L":
            return "P" if x[0] == "p" else "l:%d" % len(x[1])
        if o == "E":
            y = self.get(f[2])
            if y is None:
                return "skip"
            if x[0] == "p" or y[0] == "p":
                return "P"
            return "q:%d" % (1 if x[1] == y[1] else 0)
        if o == "S":
            if x[0] == "p":
                return "o:none"
            v = small_view(x[1])
            return "o:none" if v is None else "o:%d" % v
        if o == "N":
            return "P" if x[0] == "p" else "z:%d" % bytes_int(x[1])
        if o == "X":
            return "xa" if x[0] == "a" else "xp:%s,%s" % (show_tree_short(x[1]), show_tree_short(x[2]))
        if o == "V":
            return "vb:" + hx(x[1]) if x[0] == "a" else "xp:%s,%s" % (show_tree_short(x[1]), show_tree_short(x[2]))
        raise ValueError(tok)


def norm_step(s):
    """erase what the statement does not fix from one step observation of the harness/model"""
    if s == "P":
        return s
    r, c, d = s.rsplit("/", 2)
    r = re.sub(r"^m[012]:", "m:", r)
    r = re.sub(r"InternalError\[\d+\]", "InternalError", r)
    if r.startswith("vu:"):
        r = "vb:" + hx(int_bytes(int(r[3:])))
    return "%s/%s/%s" % (r, c, d)


def ref_line(limit, toks):
    """the reference's prediction of a whole observation line (normalised)"""
    st = PyRef(limit)
    if st.dead:
        return ["P"]
    out = []
    for t in toks:
        r = st.step(t)
        if r == "P":
            out.append("P")
            break
        out.append("%s/%s/%s" % (r, st.counts(), st.digest()))
    return out


# ---------------------------------------------------------------------------------------------
# generator
# ---------------------------------------------------------------------------------------------

INT_EDGES = [0, 1, 0x7f, 0x80, 0xff, 0x100, 0x7fff, 0x8000, 0xffff, 0x10000, 0x7fffff, 0x800000,
             0xffffff, 0x1000000, SMALL - 1, SMALL, SMALL + 1, 0x7fffffff, 0x80000000, 0xffffffff, 0x100000000,
             0x7fffffffff, 0x8000000000, 0x7fffffffffff, 0x800000000000, 0x7fffffffffffff, 0x80000000000000,
             0x7fffffffffffffff, 0x8000000000000000, 0xffffffffffffffff, 1 << 64, (1 << 64) + 1, 1 << 127, 1 << 128]

ATOM_POOL = ["-", "00", "01", "7f", "80", "ff", "0000", "0001", "007f", "0080", "00ff", "0100", "7fff", "8000",
             "ff7f", "ff80", "ffff", "00ffff", "000080", "010000", "7fffff", "800000", "03ffffff", "04000000",
             "0400000000", "0000000001", "ff800000", "00800000", "01020304", "0102030405", "000000"]


def rand_int(r, lo=None, hi=None):
    k = r.random()
    if k < 0.6:
        v = r.choice(INT_EDGES) + r.choice([-1, 0, 0, 1])
        if r.random() < 0.4:
            v = -v
    elif k < 0.8:
        v = r.randrange(-300, 300)
    else:
        v = r.getrandbits(r.choice([8, 16, 24, 26, 27, 32, 40, 63, 64, 65, 100])) * r.choice([1, -1])
    if lo is not None:
        v = max(lo, v)
    if hi is not None:
        v = min(hi, v)
    return v


def rand_atom_hex(r):
    k = r.random()
    if k < 0.5:
        return r.choice(ATOM_POOL)
    if k < 0.7:
        return hx(int_bytes(rand_int(r)))
    n = r.choice([1, 2, 3, 4, 5, 8, 16, 32, 47, 48, 49, 96, 200])
    return bytes(r.getrandbits(8) for _ in range(n)).hex()


PROFILES = ["general", "heapcap", "atomcap", "paircap", "ints", "gc", "gccap", "f2", "substr", "misuse"]


def gen_history(r, profile=None, length=None, allow_f2=True):
    """returns (limit, tokens). Indices are chosen against a PyRef simulation so that they are
    mostly valid; bounds are in-range or off by one; caps are approached by pre-loading."""
    profile = profile or r.choice(PROFILES)
    n = length or r.choice([3, 8, 20, 40, 80, 150])
    limit = {"heapcap": r.choice([0, 1, 2, 3, 5, 8, 13, 20, 40, 100]),
             "f2": r.choice([4, 6, 10, 30, 1000]),
             "gc": r.choice([3000, 5000, 100000]),
             "gccap": 4294967295,
             "misuse": r.choice([50, 4294967295, 4294967296])}.get(profile, r.choice([200, 5000, 1000000, 4294967295]))
    st = PyRef(limit)
    toks = []

    def emit(t):
        toks.append(t)
        if not st.dead:
            if st.step(t) == "P":
                st.dead = True

    for _ in range(r.choice([0, 1, 2, 3])):
        emit("a," + rand_atom_hex(r))
    if profile == "atomcap":
        emit("ga,%d" % (MAX_ATOMS - 2 - r.choice([0, 1, 2, 3, 5, 9])))
    if profile == "paircap":
        emit("gp,%d" % (MAX_PAIRS - r.choice([0, 1, 2, 3, 5])))

    def node_idx(pred=None, bias_new=True):
        m = len(st.nodes)
        if m == 0 or r.random() < 0.02:
            return m + r.choice([0, 1, 5])          # invalid on purpose
        for _ in range(6):
            i = m - 1 - min(int(r.expovariate(0.35)), m - 1) if bias_new and r.random() < 0.6 else r.randrange(m)
            if pred is None or pred(st.nodes[i]):
                return i
        return r.randrange(m)

    if profile == "gccap":
        # a GC roll-back at a cap: transparent checkpoint, >= 1 KiB of garbage, a fresh small heap atom that
        # survives; the heap limit (or the atom count) is placed within the survivor's size of the cap, where
        # the roll-back must still succeed because it only gives memory back
        emit("t")
        for _ in range(r.choice([1, 1, 2])):
            emit("a," + bytes([r.getrandbits(8)] * r.choice([1100, 1100, 2500])).hex())
        ln = r.choice([1, 2, 5, 31, 32, 47, 48])
        emit("a," + bytes([0x81 + r.getrandbits(6)] * ln).hex())
        keep = len(st.nodes) - 1
        if r.random() < 0.7:
            limit = st.nh + r.choice([0, 0, 1, ln - 1, ln, ln + 1, 2 * ln])
            st.limit = limit
        else:
            room = MAX_ATOMS - st.na
            emit("ga,%d" % (room - r.choice([0, 0, 1, 2])))
        emit("mr,0,%d" % keep)
        profile = "gc"
    is_atom = lambda t: t[0] == "a"
    weights = {
        "general": dict(a=10, s=3, u=2, i=2, n=3, m=1, p=8, b=8, c=6, ga=1, gp=1, k=2, t=2, r=2, rt=2, mr=2, read=10),
        "heapcap": dict(a=10, s=4, u=2, n=2, p=2, b=6, c=8, k=1, r=1, t=1, rt=1, read=3),
        "atomcap": dict(a=6, s=4, n=2, p=2, b=6, c=6, ga=3, k=2, r=2, t=1, rt=1, mr=1, read=2),
        "paircap": dict(a=3, p=12, gp=4, rp=2, k=2, r=2, t=1, rt=1, read=2),
        "ints": dict(s=4, u=8, i=8, n=8, m=8, a=3, read=14),
        "gc": dict(a=8, big=5, p=4, b=5, c=4, t=4, mr=8, rt=2, k=1, r=1, n=2, read=5),
        "f2": dict(s=6, a=4, n=2, b=14, c=3, t=1, mr=1, big=1, read=5),
        "substr": dict(a=8, s=3, b=14, c=10, p=1, read=8),
        "misuse": dict(a=5, s=3, p=5, b=3, c=3, rp=3, gp=1, read=10, badsmall=1, readpair=4),
    }[profile]
    ops = list(weights)
    ws = [weights[o] for o in ops]
    for _ in range(n):
        o = r.choices(ops, ws)[0]
        if o == "a":
            emit("a," + rand_atom_hex(r))
        elif o == "big":
            emit("a," + bytes([r.getrandbits(8)] * r.choice([300, 1100, 1100, 2500])).hex())
        elif o == "s":
            emit("s,%d" % max(0, min(SMALL - 1, rand_int(r, 0))))
        elif o == "badsmall":
            emit("s,%d" % r.choice([SMALL, SMALL + 1, 0xFFFFFFFF]))
        elif o == "u":
            emit("u,%d" % rand_int(r, 0, (1 << 64) - 1))
        elif o == "i":
            emit("i,%d" % rand_int(r, -(1 << 63), (1 << 63) - 1))
        elif o in ("n", "m"):
            emit("%s,%d" % (o, rand_int(r)))
        elif o == "p":
            i, j = node_idx(), node_idx()
            x, y = st.get(i), st.get(j)
            if x is not None and y is not None and tsize(x) + tsize(y) > 400:
                continue
            emit("p,%d,%d" % (i, j))
        elif o == "b":
            i = node_idx(is_atom if r.random() < 0.95 else None)
            x = st.get(i)
            ln = len(x[1]) if x is not None and x[0] == "a" else 3
            k = r.random()
            if k < 0.75:
                s = r.randrange(ln + 1)
                e = r.randrange(s, ln + 1)
            elif k < 0.9:
                s, e = r.choice([(0, ln + 1), (ln + 1, ln + 1), (ln + 1, ln + 2), (ln, ln - 1 if ln else 0), (1, 0)])
            else:
                s, e = r.randrange(ln + 3), r.randrange(ln + 3)
            emit("b,%d,%d,%d" % (i, s, e))
        elif o == "c":
            cnt = r.choice([0, 1, 1, 2, 2, 2, 3, 4])
            idxs = [node_idx(is_atom if r.random() < 0.97 else None) for _ in range(cnt)]
            tot = sum(len(st.get(i)[1]) if st.get(i) is not None and st.get(i)[0] == "a" else 0 for i in idxs)
            size = tot + (r.choice([-1, 1, 2]) if r.random() < 0.1 else 0)
            emit("c," + ",".join(str(v) for v in [max(0, size)] + idxs))
        elif o == "ga":
            room = MAX_ATOMS - st.na
            emit("ga,%d" % r.choice([0, 1, 2, max(0, room - 1), room, room + 1] if profile == "atomcap" else [0, 1, 2, 7]))
        elif o == "gp":
            room = MAX_PAIRS - st.np
            emit("gp,%d" % r.choice([0, 1, 2, max(0, room - 1), room, room + 1] if profile == "paircap" else [0, 1, 2, 7]))
        elif o == "rp":
            emit("rp,%d" % r.choice([0, 1, 1, 2, 3]))
        elif o in ("k", "t"):
            emit(o)
        elif o in ("r", "rt", "mr"):
            want = "k" if o == "r" else "t"
            cand = [len(st.cps) - 1 - p for p, c in enumerate(st.cps) if c[0] == want]
            if not cand or r.random() < 0.03:
                k = r.choice([0, 1, len(st.cps), len(st.cps) + 1])
            else:
                k = min(cand) if r.random() < 0.7 else r.choice(cand)
            if o == "mr":
                emit("mr,%d,%d" % (k, node_idx()))
            else:
                emit("%s,%d" % (o, k))
        elif o == "readpair":
            i = node_idx(lambda t: t[0] == "p")
            emit(r.choice(["A,%d", "L,%d", "N,%d", "E,%d,0", "c,0,%d"]) % i)
        elif o == "read":
            i = node_idx(is_atom if r.random() < 0.9 else None)
            kind = r.choice("ALESNXVSNE")
            x = st.get(i)
            if kind == "N" and x is not None and x[0] == "a" and len(x[1]) > 40:
                kind = "A"      # keep decimal renderings short
            if kind == "E":
                emit("E,%d,%d" % (i, node_idx(is_atom)))
            elif kind in "XV":
                emit("%s,%d" % (kind, node_idx()))
            else:
                emit("%s,%d" % (kind, i))
    return limit, toks


def case_line(f2fix, limit, toks, cmd="run"):
    return "%s %d %d %s" % (cmd, 1 if f2fix else 0, limit, " ".join(toks))
