"""Shared machinery for the per-property checks (see DESIGN.md section 2.4).

Every check:
  1. regenerates coq/Gen/*.v from /repo (translator), rebuilds the Coq cone of the property,
     re-reads `Print Assumptions` of every theorem in Props/<id>.v and compares with the allow-list;
  2. rebuilds the Rust harness against /repo's working tree and the OCaml-extracted model;
  3. runs corpus + generated cases through model and implementation and diffs the observations;
  4. runs the property-level search on the implementation;
  5. decides, matches violations against known_findings.json, writes evidence/<id>.json.
"""
import fcntl
import hashlib
import json
import os
import random
import re
import subprocess
import sys
import time

VERIF = os.path.dirname(os.path.dirname(os.path.abspath(__file__)))
REPO = os.environ.get("VERIF_REPO", "/repo")
BUILD = os.path.join(VERIF, ".build")
COQ = os.path.join(VERIF, "coq")
NPROC = min(16, os.cpu_count() or 4)

ENV = dict(os.environ)
ENV.update({"CARGO_NET_OFFLINE": "true", "GOPROXY": "off", "PIP_NO_INDEX": "1"})

# axioms from the standard library that a theorem may depend on (none are needed so far)
AXIOM_ALLOWLIST = set()

NOTE_COMMON = 'Trusted: Coq 8.16.1 kernel (+vm_compute), no axioms; the hand-written Gallina model is tied to /repo only by the correspondence run (OCaml extraction with ExtrOcamlBasic vs the Rust harness on generated inputs) and the translator; see DESIGN.md section 4.'

TRUSTED_BASE = [
    "Coq 8.16.1 kernel (coqc); vm_compute used for finite-domain obligations; native_compute not used",
    "axioms: none (every property theorem prints 'Closed under the global context')",
    "hand-written Gallina model coq/Model/*.v of the Rust/Python source, tied to /repo by the correspondence run",
    "translator translator/gen.py (regex over named source regions -> coq/Gen/*.v), fails closed",
    "extraction: ExtrOcamlBasic only (bool, option, unit, list, prod, sumbool, comparison mapped to OCaml's); N/Z/positive/nat stay Coq's inductive types",
    "correspondence harness: harness/ (Rust, clvmr by path from /repo), ocaml/driver.ml, lib/*.py generators and diffing",
]


def log(*a):
    print(*a, file=sys.stderr, flush=True)


def sh(cmd, cwd=None, timeout=None, env=None, input=None, check=False):
    e = dict(ENV)
    if env:
        e.update(env)
    p = subprocess.run(cmd, cwd=cwd, timeout=timeout, env=e, input=input,
                       stdout=subprocess.PIPE, stderr=subprocess.STDOUT, text=True,
                       shell=isinstance(cmd, str))
    if check and p.returncode != 0:
        raise RuntimeError("command failed (%s): %s\n%s" % (p.returncode, cmd, p.stdout[-4000:]))
    return p.returncode, p.stdout


class Lock:
    def __init__(self, name="build"):
        os.makedirs(BUILD, exist_ok=True)
        self.path = os.path.join(BUILD, name + ".lock")

    def __enter__(self):
        self.f = open(self.path, "w")
        fcntl.flock(self.f, fcntl.LOCK_EX)
        return self

    def __exit__(self, *a):
        fcntl.flock(self.f, fcntl.LOCK_UN)
        self.f.close()


# ---------------------------------------------------------------------------------------------
# builds
# ---------------------------------------------------------------------------------------------

def run_translator():
    """Regenerate coq/Gen/*.v from /repo. Returns (ok, message)."""
    rc, out = sh([sys.executable, os.path.join(VERIF, "translator", "gen.py"), REPO,
                  os.path.join(COQ, "Gen")], timeout=120)
    return rc == 0, out


def translator_outputs():
    """generator file name -> set of Gen module names it writes (scanned from its source)"""
    d = os.path.join(VERIF, "translator")
    res = {}
    for f in os.listdir(d):
        if f.startswith("gen_") and f.endswith(".py"):
            res[f] = set(re.findall(r'"(\w+)\.v"', open(os.path.join(d, f)).read()))
    return res


def coq_cone(roots):
    """transitive `Require`-closure of the given .v files (paths relative to coq/) as a set of
    logical names without the Clvm prefix, e.g. {"Gen.OpConsts", "Model.Machine", ...}"""
    seen, todo = set(), [r[:-2].replace("/", ".") for r in roots]
    while todo:
        m = todo.pop()
        if m in seen:
            continue
        seen.add(m)
        path = os.path.join(COQ, m.replace(".", "/") + ".v")
        if not os.path.exists(path):
            continue
        txt = re.sub(r"\(\*.*?\*\)", " ", open(path).read(), flags=re.S)
        for stmt in re.findall(r"\bRequire\b(.*?)\.(?=\s|$)", txt, flags=re.S):
            for name in stmt.split():
                name = name.strip()
                if name.startswith("Clvm."):
                    name = name[5:]
                if re.fullmatch(r"(Gen|Model|Proofs|Props|Pins|Extract)\.\w+", name):
                    todo.append(name)
    return seen


def translator_failures_in_cone(out, roots):
    """Which failed generators matter to the Coq cone of `roots`? -> (relevant, irrelevant) lists of
    generator names; a failure that cannot be attributed to a generator is relevant to everything."""
    failed = re.findall(r"translator \((gen_\w+\.py)\)", out)
    if not failed:
        return ["?"], []
    outs = translator_outputs()
    cone = coq_cone(roots)
    rel, irr = [], []
    for g in sorted(set(failed)):
        mods = outs.get(g) or None
        if mods is None or any(("Gen." + m) in cone for m in mods):
            rel.append(g)
        else:
            irr.append(g)
    return rel, irr


def coq_makefile():
    sh([sys.executable, os.path.join(VERIF, "tools", "mkproject.py")], timeout=60, check=True)
    mk = os.path.join(COQ, "Makefile")
    cp = os.path.join(COQ, "_CoqProject")
    if not os.path.exists(mk) or os.path.getmtime(mk) < os.path.getmtime(cp):
        sh("coq_makefile -f _CoqProject -o Makefile", cwd=COQ, timeout=120, check=True)


def coq_make(targets, timeout=3000):
    """make the given .vo targets (full .vo build). Returns (ok, output)."""
    coq_makefile()
    rc, out = sh(["make", "-j%d" % NPROC] + list(targets), cwd=COQ, timeout=timeout)
    return rc == 0, out


def coq_assumptions(prop_file):
    """Re-run coqc on Props/<id>.v (its dependencies are up to date) and parse what each
    `Print Assumptions` printed. Returns (ok, {theorem: [axioms]}, raw)."""
    rc, out = sh(["coqc", "-Q", ".", "Clvm", "-w", "-deprecated-hint-without-locality", prop_file],
                 cwd=COQ, timeout=1200)
    src = open(os.path.join(COQ, prop_file)).read()
    names = re.findall(r"^Print Assumptions\s+(\w+)\.", src, re.M)
    # split output into blocks, one per Print Assumptions, in order
    blocks = []
    cur = None
    for line in out.splitlines():
        if line.startswith("Closed under the global context"):
            blocks.append([])
            cur = None
        elif line.startswith("Axioms:"):
            cur = []
            blocks.append(cur)
        elif cur is not None and line.strip():
            m = re.match(r"^(\S+)\s*:", line)
            if m:
                cur.append(m.group(1))
    res = {}
    ok = rc == 0 and len(blocks) == len(names)
    for n, b in zip(names, blocks):
        res[n] = b
    return ok, res, out


FORBIDDEN = re.compile(r"\b(Admitted|admit|Axiom|Parameter|Conjecture|Admit Obligations)\b|Unset Guard|bypass_check|type-in-type|impredicative-set|Unset Universe Checking|Unset Positivity")


def grep_forbidden():
    bad = []
    for root, _, files in os.walk(COQ):
        for f in files:
            if f.endswith(".v"):
                p = os.path.join(root, f)
                txt = open(p).read()
                # strip comments (non-nested is enough for our sources)
                txt2 = re.sub(r"\(\*.*?\*\)", "", txt, flags=re.S)
                for m in FORBIDDEN.finditer(txt2):
                    bad.append("%s: %s" % (os.path.relpath(p, VERIF), m.group(0)))
    return bad


def build_model():
    """Extract the model to OCaml and build the driver (only when the Coq sources changed)."""
    stamp = os.path.join(BUILD, "ocaml", "stamp")
    h = hashlib.sha256()
    for root, _, files in sorted(os.walk(COQ)):
        if os.path.basename(root) in ("Proofs", "Props", "Pins"):
            continue
        for f in sorted(files):
            if f.endswith(".v"):
                h.update(open(os.path.join(root, f), "rb").read())
    for f in sorted(os.listdir(os.path.join(VERIF, "ocaml"))):
        if f.endswith(".ml") or f == "build.sh":
            h.update(open(os.path.join(VERIF, "ocaml", f), "rb").read())
    dig = h.hexdigest()
    if os.path.exists(stamp) and open(stamp).read() == dig and os.path.exists(os.path.join(BUILD, "ocaml", "model")):
        return True, "cached"
    ok, out = coq_make(["Extract/Extract.vo"])  # builds dependencies
    gen = os.path.join(VERIF, "ocaml", "gen")
    os.makedirs(gen, exist_ok=True)
    for f in os.listdir(gen):
        os.unlink(os.path.join(gen, f))
    rc, out2 = sh(["coqc", "-Q", COQ, "Clvm", os.path.join(COQ, "Extract", "Extract.v")], cwd=gen, timeout=900)
    if rc != 0:
        return False, out + out2
    rc, out3 = sh(["sh", os.path.join(VERIF, "ocaml", "build.sh")], timeout=900)
    if rc != 0:
        return False, out3
    open(stamp, "w").write(dig)
    return True, "built"


VARIANTS = {
    "default": [],
    "nofast": ["--features", "nofast"],
    "instr": ["--features", "instr"],
    "release": ["--release"],
}


def _repo_tag():
    """'' for /repo itself; a short tag for an alternative tree given in VERIF_REPO (mutation
    testing from a scratch worktree: its own harness copy and cargo target directory)."""
    if os.path.abspath(REPO) == "/repo":
        return ""
    return "-alt" + hashlib.sha256(os.path.abspath(REPO).encode()).hexdigest()[:8]


def harness_bin(variant="default"):
    prof = "release" if variant == "release" else "debug"
    return os.path.join(BUILD, "cargo-" + variant + _repo_tag(), prof, "vharness")


def build_harness(variant="default"):
    """cargo build of the harness against /repo's current working tree (incremental, offline)."""
    import shutil
    hd = os.path.join(VERIF, "harness")
    if _repo_tag():
        alt = os.path.join(BUILD, "harness" + _repo_tag())
        if os.path.exists(alt):
            shutil.rmtree(alt)
        shutil.copytree(hd, alt, ignore=shutil.ignore_patterns("target"))
        ct = open(os.path.join(alt, "Cargo.toml")).read().replace('"/repo', '"' + os.path.abspath(REPO))
        open(os.path.join(alt, "Cargo.toml"), "w").write(ct)
        hd = alt
        # start from the dependency artefacts of the main build (a cold cargo build takes minutes)
        tgt = os.path.join(BUILD, "cargo-" + variant + _repo_tag())
        src = os.path.join(BUILD, "cargo-" + variant)
        if not os.path.exists(tgt) and os.path.exists(src):
            sh(["cp", "-r", src, tgt], timeout=600)
    lock_src = os.path.join(REPO, "Cargo.lock")
    lock_dst = os.path.join(hd, "Cargo.lock")
    if not os.path.exists(lock_dst):
        shutil.copy(lock_src, lock_dst)
    rc, out = sh(["cargo", "build", "--offline", "-q"] + VARIANTS[variant], cwd=hd, timeout=3000,
                 env={"CARGO_TARGET_DIR": os.path.join(BUILD, "cargo-" + variant + _repo_tag()),
                      "RUSTFLAGS": "--cfg clvm_rs_verif"})
    return rc == 0, out


# ---------------------------------------------------------------------------------------------
# running cases
# ---------------------------------------------------------------------------------------------

def _run_once(argv, lines, timeout, shards):
    """one pass: -> list of observation | ("crash", text) for the line a process died on |
    ("slow",) for the line a process was working on when the time ran out | ("notrun",)"""
    n = shards or min(NPROC, max(1, len(lines) // 200))
    n = max(1, min(n, len(lines)))
    chunks = [lines[i::n] for i in range(n)]
    procs = []
    for ch in chunks:
        p = subprocess.Popen(argv, stdin=subprocess.PIPE, stdout=subprocess.PIPE, stderr=subprocess.PIPE,
                             text=True, env=ENV)
        procs.append((p, ch))
    import threading
    outs = [None] * n
    timed_out = [False] * n

    def work(i):
        p, ch = procs[i]
        try:
            o, e = p.communicate("\n".join(ch) + "\n", timeout=timeout)
        except subprocess.TimeoutExpired:
            p.kill()
            o, e = p.communicate()
            o = (o or "")
            timed_out[i] = True
        outs[i] = (o.splitlines(), p.returncode, e)

    ths = [threading.Thread(target=work, args=(i,)) for i in range(n)]
    for t in ths:
        t.start()
    for t in ths:
        t.join()
    res = [None] * len(lines)
    for i in range(n):
        ol, rc, err = outs[i]
        idxs = list(range(i, len(lines), n))
        for j, idx in enumerate(idxs):
            if j < len(ol):
                res[idx] = ol[j]
            elif j == len(ol):
                res[idx] = ("slow",) if timed_out[i] else ("crash", "crash rc=%s %s" % (rc, (err or "").strip().splitlines()[-1:] or ""))
            else:
                res[idx] = ("notrun",)
    return res


def _run_sharded(argv, lines, timeout, shards=None, on_timeout=None):
    """Run the case lines through `argv` processes. A process that dies takes only the line it was working
    on with it (reported as `crash ...`); the lines behind it are run again in a fresh process. A process
    that runs out of wall-clock time (a loaded machine, a huge tier) has its unfinished lines run again;
    the line it was working on is given a process of its own, and only if that does not answer either is
    it reported (`on_timeout` if given - the model's "not evaluated" - else `crash timeout`)."""
    if not lines:
        return []
    res = _run_once(argv, lines, timeout, shards)
    for _ in range(4):
        pend = [i for i, r in enumerate(res) if r == ("notrun",)]
        if not pend:
            break
        sub = _run_once(argv, [lines[i] for i in pend], timeout, shards)
        for i, r in zip(pend, sub):
            res[i] = r
    slow = [i for i, r in enumerate(res) if r == ("slow",)]
    if slow:
        sub = _run_once(argv, [lines[i] for i in slow], min(timeout, 600), len(slow) if len(slow) <= NPROC else NPROC)
        for i, r in zip(slow, sub):
            res[i] = r
    out = []
    for r in res:
        if isinstance(r, tuple):
            if r[0] == "crash":
                out.append(r[1])
            else:
                out.append(on_timeout or "crash timeout (no answer)")
        else:
            out.append(r)
    return out


def run_model(fam, lines, timeout=1500, line_timeout=None):
    """line_timeout (seconds): the driver gives up on a case after that long and answers
    `skip model-timeout` - only for callers that treat such an answer as 'not evaluated'"""
    pre = ("MODEL_LINE_TIMEOUT=%d " % line_timeout) if line_timeout else ""
    return _run_sharded(["sh", "-c", "ulimit -s unlimited 2>/dev/null || ulimit -s 1000000; %sexec %s %s" % (pre, os.path.join(BUILD, "ocaml", "model"), fam)], lines, timeout,
                        on_timeout="skip model-shard-timeout")


def run_impl(fam, lines, variant="default", timeout=1500, shards=None):
    return _run_sharded([harness_bin(variant), fam], lines, timeout, shards)


def canon_default(s):
    if s is None:
        return "none"
    if s.startswith("panic"):
        return "panic"
    # error kinds are compared by variant; the message of the two String-carrying variants is
    # compared only where a property asks for it
    return re.sub(r"\[[^\]]*\]", "", s)


# ---------------------------------------------------------------------------------------------
# known findings
# ---------------------------------------------------------------------------------------------

def load_known():
    p = os.path.join(VERIF, "known_findings.json")
    if not os.path.exists(p):
        return []
    return json.load(open(p)).get("findings", [])


# ---------------------------------------------------------------------------------------------
# the check context
# ---------------------------------------------------------------------------------------------

class Check:
    def __init__(self, pid, tier, seed, level="proof"):
        self.pid = pid
        self.tier = tier
        self.seed = seed
        self.level = level
        self.rng = random.Random((seed * 1000003) ^ int(hashlib.sha256(pid.encode()).hexdigest()[:8], 16))
        self.t0 = time.time()
        self.obligations = 0
        self.discharged = 0
        self.theorems = {}
        self.broken = []          # list of (kind, name, detail): broken proof obligations / correspondence families
        self.violations = []      # list of dicts (concrete failing inputs)
        self.known_hits = []      # list of (finding, what)
        self.evaluations = 0
        self.distinct = set()
        self.nontrivial = 0
        self.samples = []
        self.dist = {}
        self.assumptions = []
        self.notes = []
        self.rule = ""
        self.explanation = ""
        self.extra_cov = {}
        self.programs = 0
        self.disagreements_checked = 0
        self.known = [k for k in load_known() if k.get("property") == pid and k.get("status") == "known"]

    thorough = property(lambda self: self.tier == "thorough")

    def scale(self, quick, thorough):
        return thorough if self.thorough else quick

    # -- proofs ------------------------------------------------------------------------------
    def proofs(self, prop_file=None, extra_targets=()):
        """Build the property's Coq cone; check Print Assumptions and forbidden constructs."""
        prop_file = prop_file or "Props/%s.v" % self.pid
        if os.environ.get("VERIF_DEV_SKIP_PROOFS"):     # development aid only; never set by a registered command
            self.notes.append("proof step skipped (VERIF_DEV_SKIP_PROOFS)")
            return True
        with Lock():
            ok, out = run_translator()
            if not ok:
                # a generator that fails closed leaves its Gen file stale; that breaks the tie only for
                # properties whose Coq cone imports that file
                roots = [prop_file] + (["Pins/%s.v" % self.pid] if os.path.exists(os.path.join(COQ, "Pins/%s.v" % self.pid)) else [])
                rel, irr = translator_failures_in_cone(out, roots)
                if rel:
                    self.broken.append(("translator", "translator/gen.py", out[-3000:]))
                    log("[%s] translator FAILED:\n%s" % (self.pid, out[-2000:]))
                else:
                    self.notes.append("translator: %s failed, but no file it generates is in this property's Coq cone" % ", ".join(irr))
                    log("[%s] translator: %s failed (outside this property's cone)" % (self.pid, ", ".join(irr)))
            if self.thorough:
                # rebuild the cone from clean: remove the property's own .vo and everything in Proofs/Props
                sh("find . -name '*.vo' -delete -o -name '*.glob' -delete -o -name '*.vos' -delete -o -name '*.vok' -delete -o -name '.*.aux' -delete", cwd=COQ)
            targets = [prop_file[:-2] + ".vo"] + list(extra_targets)
            pin = "Pins/%s.v" % self.pid
            if os.path.exists(os.path.join(COQ, pin)):
                targets.append(pin[:-2] + ".vo")
            t = time.time()
            ok, out = coq_make(targets)
            log("[%s] coq make %s: %s in %.1fs" % (self.pid, " ".join(targets), "ok" if ok else "FAILED", time.time() - t))
            src = open(os.path.join(COQ, prop_file)).read()
            names = re.findall(r"^Print Assumptions\s+(\w+)\.", src, re.M)
            self.obligations += len(names)
            if not ok:
                m = re.findall(r'File "\./([^"]+)", line (\d+)[^\n]*\n(?:[^\n]*\n){0,12}', out)
                first = re.search(r'File "[^"]+", line \d+.*?(?=\nmake|\Z)', out, re.S)
                self.broken.append(("proof", prop_file, (first.group(0) if first else out)[-3000:]))
                log(out[-3000:])
                return False
            ok2, res, raw = coq_assumptions(prop_file)
            if not ok2:
                self.broken.append(("proof", prop_file, "Print Assumptions output could not be matched:\n" + raw[-2000:]))
                return False
            allok = True
            for n in names:
                ax = res.get(n, ["?"])
                bad = [a for a in ax if a not in AXIOM_ALLOWLIST]
                self.theorems[n] = ax
                if bad:
                    allok = False
                    self.broken.append(("axioms", n, "depends on non-allow-listed axioms: %s" % bad))
                else:
                    self.discharged += 1
            bad = grep_forbidden()
            if bad:
                allok = False
                self.broken.append(("forbidden", "coq/", "; ".join(bad[:10])))
            if self.thorough:
                t = time.time()
                rc, o = sh(["coqchk", "-o", "-silent", "-Q", ".", "Clvm", "Clvm." + prop_file[:-2].replace("/", ".")],
                           cwd=COQ, timeout=3000)
                log("[%s] coqchk rc=%s in %.1fs" % (self.pid, rc, time.time() - t))
                self.extra_cov["coqchk"] = o[-1500:]
                if rc != 0:
                    allok = False
                    self.broken.append(("coqchk", prop_file, o[-2000:]))
            return allok

    def extra_props(self, prop_file):
        """count the theorems of a second statement file (already built as an extra target of proofs())"""
        if os.environ.get("VERIF_DEV_SKIP_PROOFS"):
            return
        ok2, res, raw = coq_assumptions(prop_file)
        if not ok2:
            self.broken.append(("proof", prop_file, "Print Assumptions output could not be matched:\n" + raw[-2000:]))
        for name, ax in res.items():
            self.obligations += 1
            self.theorems[name] = ax
            if [a for a in ax if a not in AXIOM_ALLOWLIST]:
                self.broken.append(("axioms", name, "depends on non-allow-listed axioms: %s" % ax))
            else:
                self.discharged += 1

    # -- builds ------------------------------------------------------------------------------
    def build(self, variants=("default",), model=True):
        with Lock():
            if model:
                t = time.time()
                ok, out = build_model()
                log("[%s] model build: %s (%.1fs)" % (self.pid, "ok" if ok else "FAILED", time.time() - t))
                if not ok:
                    self.broken.append(("model-build", "ocaml", out[-3000:]))
            for v in variants:
                t = time.time()
                ok, out = build_harness(v)
                log("[%s] harness build [%s]: %s (%.1fs)" % (self.pid, v, "ok" if ok else "FAILED", time.time() - t))
                if not ok:
                    self.broken.append(("harness-build", v, out[-3000:]))
                    log(out[-3000:])
        return not any(b[0] in ("model-build", "harness-build") for b in self.broken)

    # -- correspondence ----------------------------------------------------------------------
    def correspond(self, fam, cases, variant="default", canon=canon_default, name=None, nontrivial=None,
                   skip=lambda m: m.startswith("skip")):
        """Run the same case lines through model and implementation, diff. Returns list of
        (case, model_obs, impl_obs) disagreements."""
        name = name or fam
        m = run_model(fam, cases, line_timeout=60)
        i = run_impl(fam, cases, variant)
        dis = []
        skipped = 0
        for c, a, b in zip(cases, m, i):
            self.evaluations += 1
            if a is not None and (a.startswith("skip model-") or skip(a)):   # model gave up on the line (time limit): not evaluated
                skipped += 1
                continue
            if c not in self.distinct:
                self.distinct.add(c)
                if nontrivial is None or nontrivial(c, a, b):
                    self.nontrivial += 1
            ca, cb = canon(a), canon(b)
            if ca != cb:
                dis.append((c, a, b))
        self.dist.setdefault("families", {})[name + ":" + variant] = {
            "cases": len(cases), "skipped_by_model": skipped, "disagreements": len(dis)}
        self.programs += len(cases)
        self.disagreements_checked += len(dis)
        if dis:
            self.broken.append(("correspondence", name + ":" + variant,
                                "\n".join("%s\n  model: %s\n  impl : %s" % d for d in dis[:10])))
        if len(self.samples) < 12 and cases:
            k = self.rng.randrange(len(cases))
            self.samples.append({"family": name, "case": cases[k][:300], "model": (m[k] or "")[:300], "impl": (i[k] or "")[:300]})
        return dis

    def histogram(self, key, value):
        d = self.dist.setdefault(key, {})
        d[value] = d.get(value, 0) + 1

    # -- violations --------------------------------------------------------------------------
    def violation(self, what, replay):
        """A concrete input on which the property itself fails (observed on the implementation)."""
        for k in self.known:
            if _match_known(k, what, replay):
                self.known_hits.append((k, what))
                return
        self.violations.append({"what": what, "replay": replay})

    def finish(self):
        wall = time.time() - self.t0
        # runs against an alternative tree (VERIF_REPO, mutation testing) never touch the
        # evidence/replays of the real tree
        EV = os.path.join(VERIF, "evidence" if not _repo_tag() else ".build/evidence" + _repo_tag())
        RP = os.path.join(VERIF, "replays" if not _repo_tag() else ".build/replays" + _repo_tag())
        os.makedirs(EV, exist_ok=True)
        os.makedirs(RP, exist_ok=True)
        exit_code = 0
        lines = []
        seen = set()
        for k, what in self.known_hits:
            if k["id"] not in seen:
                seen.add(k["id"])
                lines.append("KNOWN-FINDING: property=%s %s" % (self.pid, k["what"]))
        # findings listed as known are always reported (they are re-confirmed by the check itself
        # via ctx.violation; a listed finding that no longer reproduces is noted in the evidence)
        not_repro = [k["id"] for k in self.known if k["id"] not in seen]
        if self.violations:
            exit_code = 1
            for n, v in enumerate(self.violations[:5]):
                path = os.path.join(RP, "%s-%d.json" % (self.pid, n))
                json.dump({"property": self.pid, "seed": self.seed, "tier": self.tier, "what": v["what"],
                           "replay": v["replay"], "broken": [list(b) for b in self.broken]}, open(path, "w"), indent=1)
                lines.append("VIOLATION property=%s replay=%s" % (self.pid, path))
        elif self.broken:
            exit_code = 1
            path = os.path.join(RP, "%s-broken.json" % self.pid)
            json.dump({"property": self.pid, "seed": self.seed, "tier": self.tier,
                       "what": "a proof obligation or the model/implementation correspondence no longer checks; "
                               "the search found no input on which the property itself fails",
                       "broken": [{"kind": b[0], "name": b[1], "detail": b[2]} for b in self.broken]},
                      open(path, "w"), indent=1)
            lines.append("VIOLATION property=%s replay=%s no-failing-input-found" % (self.pid, path))
        cov = {
            "obligations": self.obligations,
            "discharged": self.discharged,
            "checker_cmd": "cd /verif/coq && make Props/%s.vo && coqc -Q . Clvm Props/%s.v  (Print Assumptions per theorem; coqchk -o in the thorough tier)" % (self.pid, self.pid),
            "trusted_base": TRUSTED_BASE + self.assumptions,
            "theorems": self.theorems,
            "evaluations": self.evaluations,
            "distinct_nontrivial": self.nontrivial,
            "rule": self.rule,
            "samples": self.samples[:12],
            "programs": self.programs,
            "disagreements_checked": self.disagreements_checked,
            "input_distribution": self.dist,
            "explanation": self.explanation,
            "known_findings_reported": sorted(seen),
            "known_findings_not_reproduced": not_repro,
            "broken": [{"kind": b[0], "name": b[1]} for b in self.broken],
            "notes": self.notes,
        }
        cov.update(self.extra_cov)
        ev = {"property_id": self.pid, "tier": self.tier, "seed": self.seed, "level": self.level,
              "coverage": cov, "assumptions": self.assumptions, "wall_s": round(wall, 2),
              "violations": len(self.violations) + (1 if (self.broken and not self.violations) else 0)}
        json.dump(ev, open(os.path.join(EV, "%s.json" % self.pid), "w"), indent=1)
        for l in lines:
            print(l, flush=True)
        log("[%s] tier=%s seed=%s obligations=%d/%d evaluations=%d nontrivial=%d broken=%d violations=%d known=%d wall=%.1fs" % (
            self.pid, self.tier, self.seed, self.discharged, self.obligations, self.evaluations, self.nontrivial,
            len(self.broken), len(self.violations), len(seen), wall))
        return exit_code


def _match_known(k, what, replay):
    """A known finding is identified by a class predicate over the replay (match dict: every key
    must be equal, or for key 'what_re' the violation text must match the regex)."""
    m = k.get("match", {})
    for key, val in m.items():
        if key == "what_re":
            if not re.search(val, what):
                return False
        elif isinstance(replay, dict) and replay.get(key) != val:
            return False
    return True
