"""Input generators shared by the property checks. Every random choice comes from the rng passed in.

Trees are Python values: bytes (atom) or (left, right) tuples. The transport format understood by
both the Rust harness and the OCaml driver is produced by `tt`.
"""

BOUNDARY_LENS = [0, 1, 2, 0x3f, 0x40, 0x41, 0x1fff, 0x2000, 0x2001]
BIG_BOUNDARY_LENS = [0xfffff, 0x100000, 0x100001]


class Rep:
    """an atom consisting of one repeated byte (kept symbolic so that large atoms are cheap)"""
    __slots__ = ("byte", "n")

    def __init__(self, byte, n):
        self.byte = byte
        self.n = n

    def bytes(self):
        return bytes([self.byte]) * self.n

    def __len__(self):
        return self.n


def atom_bytes(a):
    return a.bytes() if isinstance(a, Rep) else a


def tt(t):
    """tree -> transport string (iterative)"""
    out = []
    st = [t]
    while st:
        v = st.pop()
        if isinstance(v, tuple):
            out.append("p")
            st.append(v[1])
            st.append(v[0])
        elif isinstance(v, Rep):
            out.append("z%02x*%d;" % (v.byte, v.n))
        else:
            out.append("a" + v.hex() + ";")
    return "".join(out)


def from_tt(s):
    i = 0
    st = []
    while True:
        c = s[i]
        if c == "p":
            st.append("P")
            i += 1
            continue
        j = s.index(";", i)
        body = s[i + 1:j]
        i = j + 1
        if c == "a":
            cur = bytes.fromhex(body)
        else:
            h, n = body.split("*")
            cur = bytes([int(h, 16)]) * int(n)
        while True:
            if not st:
                return cur
            top = st.pop()
            if top == "P":
                st.append("P")
                st.append(("N", cur))
                break
            left = top[1]
            st.pop()
            cur = (left, cur)


def int_to_bytes(v):
    if v == 0:
        return b""
    n = (v.bit_length() + 8) // 8
    b = v.to_bytes(n, "big", signed=True)
    while len(b) > 1 and ((b[0] == 0 and b[1] < 0x80) or (b[0] == 0xff and b[1] >= 0x80)):
        b = b[1:]
    return b


def int_from_bytes(b):
    return int.from_bytes(b, "big", signed=True) if b else 0


INTERESTING_INTS = [0, 1, -1, 2, 10, 0x7f, 0x80, -0x80, -0x81, 0xff, 0x100, 0x7fff, 0x8000, -0x8000, 0xffff,
                    0x7fffff, 0x800000, 0x3ffffff, 0x4000000, 0x7fffffff, 0x80000000, 0xffffffff, 0x100000000,
                    2**63 - 1, 2**63, 2**64 - 1, 2**64, -2**63, -2**63 - 1, 2**127, -2**127, 2**255, 2**256 - 1]


def gen_atom(r, big=False):
    k = r.random()
    if k < 0.12:
        return b""
    if k < 0.30:
        return bytes([r.choice([0, 1, 2, 5, 0x7f, 0x80, 0x81, 0xfe, 0xff, r.getrandbits(8)])])
    if k < 0.50:
        v = r.choice(INTERESTING_INTS)
        if r.random() < 0.5:
            v += r.choice([-1, 0, 1])
        return int_to_bytes(v)
    if k < 0.58:   # non-canonical integers
        b = int_to_bytes(r.choice(INTERESTING_INTS))
        pad = (b"\xff" if (b and b[0] >= 0x80) else b"\x00") * r.randrange(1, 4)
        return pad + b
    if k < 0.70:
        return bytes(r.getrandbits(8) for _ in range(r.choice([2, 3, 4, 5, 8, 16])))
    if k < 0.80:
        return bytes(r.getrandbits(8) for _ in range(r.choice([32, 48, 96])))
    if k < 0.92:
        n = r.choice(BOUNDARY_LENS) + r.choice([0, 0, 0, 1, -1])
        n = max(0, n)
        if n > 64:
            return Rep(r.choice([0, 1, 0x7f, 0x80, 0xff, r.getrandbits(8)]), n)
        return bytes(r.getrandbits(8) for _ in range(n))
    if big and k < 0.96:
        return Rep(r.getrandbits(8), r.choice(BIG_BOUNDARY_LENS))
    return bytes(r.getrandbits(8) for _ in range(r.randrange(0, 70)))


def gen_tree(r, size=None, big=False, pool=None, share=0.0):
    """random tree with about `size` nodes; shapes: random, left/right list, complete;
    `share` = probability of reusing an earlier sub-tree (DAG sharing by value)."""
    if size is None:
        size = r.choice([1, 1, 2, 3, 5, 8, 13, 30, 80])
    shape = r.choice(["rand", "rand", "list", "llist", "complete"])
    made = []

    def atom():
        if pool and r.random() < 0.6:
            return r.choice(pool)
        return gen_atom(r, big)

    def build(n, depth=0):
        if made and r.random() < share:
            return r.choice(made)
        if n <= 1 or depth > 200:
            t = atom()
        elif shape == "list":
            t = (build(1, depth + 1) if r.random() < 0.8 else build(min(n // 2, 5), depth + 1), build(n - 2, depth + 1))
        elif shape == "llist":
            t = (build(n - 2, depth + 1), build(1, depth + 1))
        elif shape == "complete":
            t = (build((n - 1) // 2, depth + 1), build((n - 1) // 2, depth + 1))
        else:
            k = r.randrange(1, n)
            t = (build(k, depth + 1), build(n - 1 - k, depth + 1))
        if isinstance(t, tuple):
            made.append(t)
        return t

    import sys
    sys.setrecursionlimit(10000)
    return build(size)


def tiny_atom(r):
    k = r.random()
    if k < 0.3:
        return b""
    if k < 0.7:
        return bytes([r.choice([0, 1, 0x7f, 0x80, 0xff, r.getrandbits(8)])])
    return bytes(r.getrandbits(8) for _ in range(r.choice([2, 3, 8])))


def deep_list(r, n, right=True):
    """a list/left-spine of depth n; atoms are tiny so that the (quadratic, list-append based)
    model stays fast: depth is what these cases are about"""
    t = tiny_atom(r)
    for _ in range(n):
        t = (tiny_atom(r), t) if right else (t, tiny_atom(r))
    return t


# ---- a plain Python classic serializer, used only to produce valid encodings to mutate ----

def atom_prefix(b):
    size = len(b)
    if size == 0:
        return b"\x80"
    if size == 1 and b[0] < 0x80:
        return b""
    if size < 0x40:
        return bytes([0x80 | size])
    if size < 0x2000:
        return bytes([0xc0 | (size >> 8), size & 0xff])
    if size < 0x100000:
        return bytes([0xe0 | (size >> 16), (size >> 8) & 0xff, size & 0xff])
    if size < 0x8000000:
        return bytes([0xf0 | (size >> 24), (size >> 16) & 0xff, (size >> 8) & 0xff, size & 0xff])
    return bytes([0xf8 | (size >> 32), (size >> 24) & 0xff, (size >> 16) & 0xff, (size >> 8) & 0xff, size & 0xff])


def py_ser(t):
    out = bytearray()
    st = [t]
    while st:
        v = st.pop()
        if isinstance(v, tuple):
            out.append(0xff)
            st.append(v[1])
            st.append(v[0])
        else:
            b = atom_bytes(v)
            out += atom_prefix(b) + b
    return bytes(out)


def noncanonical_prefix(r, size):
    """a length prefix for `size` in a larger class than necessary (zero padded)"""
    classes = [(1, 0x80, 6), (2, 0xc0, 13), (3, 0xe0, 20), (4, 0xf0, 27), (5, 0xf8, 34), (6, 0xfc, 41), (7, 0xfe, 48)]
    ok = [c for c in classes if size < (1 << c[2])]
    n, tag, bits = r.choice(ok)
    raw = size.to_bytes(n, "big")
    return bytes([tag | raw[0]]) + raw[1:]


def gen_bytes_classic(r, backrefs=False):
    """mostly-valid byte strings: serialize a tree, then mutate."""
    k = r.random()
    if k < 0.08:
        return bytes(r.getrandbits(8) for _ in range(r.randrange(0, 12)))
    t = gen_tree(r, r.choice([1, 1, 2, 3, 5, 8, 20]))
    if k < 0.25:
        # non-canonical size prefixes on some atoms
        out = bytearray()
        st = [t]
        while st:
            v = st.pop()
            if isinstance(v, tuple):
                out.append(0xff)
                st.append(v[1])
                st.append(v[0])
            else:
                b = atom_bytes(v)
                if r.random() < 0.5:
                    out += noncanonical_prefix(r, len(b)) + b
                else:
                    out += atom_prefix(b) + b
        b = bytes(out)
    else:
        b = py_ser(t)
    m = r.random()
    if m < 0.35:
        pass
    elif m < 0.5:
        b = b[:r.randrange(0, len(b) + 1)]                       # truncate
    elif m < 0.6:
        b = b + bytes(r.getrandbits(8) for _ in range(r.randrange(1, 4)))   # trailing garbage
    elif m < 0.8 and b:
        i = r.randrange(len(b))
        b = b[:i] + bytes([r.choice([0xff, 0xfe, 0x80, 0x81, 0xbf, 0xc0, 0xe0, 0xf0, 0xf8, 0xfc, 0xfb, 0x7f, 0, b[i] ^ (1 << r.randrange(8))])]) + b[i + 1:]
    elif m < 0.9 and b:
        i = r.randrange(len(b))
        ins = r.choice([b"\xff", b"\xfe", b"\xfe\x02", b"\xfd\xff\x32\x30\x32\x36", b"\x80", b"\xfc\x00\x00\x00\x00\x01", b"\xfe\x00\x00\x00\x00\x00\x01", b"\xfb\xff\xff\xff\xff"])
        b = b[:i] + ins + b[i:]
    else:
        b = b * 2
    return b


def all_bytes_upto(n):
    from itertools import product
    for ln in range(0, n + 1):
        for tup in product(range(256), repeat=ln):
            yield bytes(tup)


def hx(b):
    return b.hex() if b else "-"
