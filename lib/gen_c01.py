"""Generators for C01 (interpreter vs. the reference CLVM on the classic operator set).

  * vector_programs: EVERY line of the classic op-tests files (nested lists included) turned into
    the program `(op (q . a1) ... (q . ak))` together with the vector's own expectation
    (result tree and cost, shifted by the evaluator's 1 + 20 k);
  * directed programs around every adapter of RefClvm.v (negative division, softfork shapes,
    terminators of operand lists and of the ((X) . args) head), non-canonical integers,
    leading-zero paths, unknown opcodes of every length and cost function;
  * random compositions of classic operators over an environment (typed just enough that most
    of them succeed).
Programs are Python trees (bytes | (l, r)); strings are gen.tt transport strings.
"""
import os
import re

import gen
import gen_prog
import vlib
from gen_prog import i2a, lst, q, op

CLASSIC_VECTOR_FILES = ["test-core-ops.txt", "test-more-ops.txt", "test-sha256.txt", "test-unknown-ops.txt"]

# names of src/test_ops.rs parse_atom / funs that belong to the classic set (+ the synthetic
# unknown-operator names)
VEC_OPCODES = {
    "q": b"\x01", "a": b"\x02",
    "i": b"\x03", "c": b"\x04", "f": b"\x05", "r": b"\x06", "l": b"\x07", "x": b"\x08", "=": b"\x09", ">s": b"\x0a",
    "sha256": b"\x0b", "substr": b"\x0c", "strlen": b"\x0d", "concat": b"\x0e", "+": b"\x10", "-": b"\x11",
    "*": b"\x12", "/": b"\x13", "divmod": b"\x14", ">": b"\x15", "ash": b"\x16", "lsh": b"\x17", "logand": b"\x18",
    "logior": b"\x19", "logxor": b"\x1a", "lognot": b"\x1b", "not": b"\x20", "any": b"\x21", "all": b"\x22",
    "softfork": b"\x24",
    "unknown": b"\x00", "unknown_add": b"\x40", "unknown_mul": b"\x80", "unknown_concat": b"\xc0",
    "unknown_x2": b"\x01\x00", "unknown_add_x2": b"\x01\x40", "unknown_mul_x2": b"\x01\x80", "unknown_concat_x2": b"\x01\xc0",
}
NON_CLASSIC_NAMES = {"point_add", "pubkey_for_exp", "coinid", "%", "modpow", "keccak256", "sha256tree"}

_TOK = re.compile(r'"[^"]*"|\(|\)|[^\s()]+')


class VecError(Exception):
    pass


def vec_atom(tok):
    """src/test_ops.rs parse_atom"""
    if tok == "0":
        return b""
    if tok.startswith("0x"):
        return bytes.fromhex(tok[2:])
    if tok.startswith('"'):
        if not tok.endswith('"') or len(tok) < 2:
            raise VecError("bad string " + tok)
        return tok[1:-1].encode()
    if re.fullmatch(r"-?\d+", tok):
        return i2a(int(tok))
    t = tok[1:] if tok.startswith("#") else tok
    if t in VEC_OPCODES:
        return VEC_OPCODES[t]
    raise VecError("atom not supported " + tok)


def vec_parse_exp(toks, i):
    """one expression starting at toks[i] -> (tree, next index)"""
    if toks[i] != "(":
        if toks[i] in (")", "."):
            raise VecError("unexpected " + toks[i])
        return vec_atom(toks[i]), i + 1
    i += 1
    items = []
    term = b""
    while True:
        if i >= len(toks):
            raise VecError("unbalanced")
        if toks[i] == ")":
            i += 1
            break
        if toks[i] == ".":
            term, i = vec_parse_exp(toks, i + 1)
            if toks[i] != ")":
                raise VecError("bad dotted tail")
            i += 1
            break
        t, i = vec_parse_exp(toks, i)
        items.append(t)
    return lst(*items, term=term), i


def fnv64(b):
    h = 0xcbf29ce484222325
    for x in b:
        h ^= x
        h = (h * 0x100000001b3) & 0xFFFFFFFFFFFFFFFF
    return h


def show_short(tt_s):
    """util.rs / util.ml show_tree_short"""
    if len(tt_s) <= 200:
        return tt_s
    return "T#%d:%016x" % (len(tt_s), fnv64(tt_s.encode()))


_VECTORS = None


def vectors(repo=None):
    """-> list of dicts {file, line, name, program (tt), env (tt), expect: 'FAIL' | ('ok', cost, short tree)}
    for every classic line of the classic vector files. Raises VecError on a line it cannot read
    (fails closed: the vectors are part of the tie to the repository)."""
    global _VECTORS
    if _VECTORS is not None:
        return _VECTORS
    repo = repo or vlib.REPO
    out = []
    for fn in CLASSIC_VECTOR_FILES:
        path = os.path.join(repo, "op-tests", fn)
        for ln, line in enumerate(open(path), 1):
            t = line.strip()
            if not t or t.startswith(";"):
                continue
            name, _, rest = t.partition(" ")
            if name in NON_CLASSIC_NAMES:
                continue
            if name not in VEC_OPCODES:
                raise VecError("%s:%d unknown operator name %r" % (fn, ln, name))
            if "=>" not in rest:
                raise VecError("%s:%d no =>" % (fn, ln))
            lhs, rhs = rest.split("=>", 1)
            toks = _TOK.findall(lhs)
            args = []
            i = 0
            while i < len(toks):
                a, i = vec_parse_exp(toks, i)
                args.append(a)
            rhs = rhs.strip()
            if rhs.startswith("FAIL"):
                expect = "FAIL"
            else:
                val, _, cost = rhs.partition("|")
                vt = _TOK.findall(val)
                tree, j = vec_parse_exp(vt, 0)
                if j != len(vt):
                    raise VecError("%s:%d trailing tokens in result" % (fn, ln))
                cost = int(cost.strip() or "0")
                expect = ("ok", cost + 1 + 20 * len(args), show_short(gen.tt(tree)))
            prog = op(VEC_OPCODES[name], *[q(a) for a in args])
            out.append({"file": fn, "line": ln, "name": name, "program": gen.tt(prog), "env": gen.tt(b""),
                        "expect": expect, "bytes": sum(len(gen.tt(a)) for a in args)})
    _VECTORS = out
    return out


# ---------------------------------------------------------------------------------------------
# classic filter (static, on the text): no atom that is a non-classic opcode
# ---------------------------------------------------------------------------------------------
_NONCLASSIC_ATOM = re.compile(r"a(1d|1e|3[0-9a-f]|40|41|13d61f00|1c3a8f00);")


def mentions_non_classic(p_tt):
    return bool(_NONCLASSIC_ATOM.search(p_tt))


# ---------------------------------------------------------------------------------------------
# directed programs
# ---------------------------------------------------------------------------------------------
def noncanon(r, b):
    """the same integer with redundant sign bytes in front"""
    if not b:
        return b"\x00" * r.randrange(1, 4)
    pad = b"\xff" if b[0] & 0x80 else b"\x00"
    return pad * r.randrange(1, 4) + b


def int_atoms(r):
    vals = [0, 1, -1, 2, 3, 7, -7, 127, 128, -128, -129, 255, 256, 32767, 32768, -32768, 65535, 65536, -65535, -65536,
            2 ** 31 - 1, 2 ** 31, -2 ** 31, 2 ** 32, 2 ** 63, 2 ** 64 - 1, 2 ** 64, -2 ** 64, 10 ** 30, -10 ** 30,
            r.getrandbits(r.randrange(1, 400)), -r.getrandbits(r.randrange(1, 400))]
    return [i2a(v) for v in vals]


def operator_programs(r, n):
    """operators on (mostly non-canonical) integer / byte atoms, quoted arguments"""
    P = []
    ia = int_atoms(r)

    def A():
        b = r.choice(ia)
        return noncanon(r, b) if r.random() < 0.5 else b

    two = [16, 17, 18, 19, 20, 21, 9, 10, 24, 25, 26, 14, 11]
    for _ in range(n):
        k = r.random()
        if k < 0.45:
            o = r.choice(two)
            args = [A() for _ in range(r.choice([2, 2, 2, 0, 1, 3, 5]))]
        elif k < 0.6:
            o = r.choice([22, 23])
            cnt = r.choice([0, 1, -1, 7, 8, -8, 63, 64, 65, -65, 255, 256, 65535, -65535, 65536, -65536, 2 ** 31 - 1, -2 ** 31, 2 ** 32])
            c = i2a(cnt)
            if r.random() < 0.4:
                c = noncanon(r, c)
            args = [A(), c]
        elif k < 0.75:
            s = bytes(r.getrandbits(8) for _ in range(r.randrange(0, 12)))
            L = len(s)
            idx = [0, 1, L - 1, L, L + 1, -1, 2, 3, 256, 2 ** 31 - 1, -2 ** 31, 2 ** 32]
            a1 = i2a(r.choice(idx))
            a2 = i2a(r.choice(idx))
            if r.random() < 0.4:
                a1 = noncanon(r, a1)
            if r.random() < 0.3:
                a2 = noncanon(r, a2)
            o = 12
            args = [s, a1] if r.random() < 0.3 else [s, a1, a2]
        elif k < 0.85:
            o = r.choice([13, 27, 32, 7, 5, 6])
            args = [A()] if r.random() < 0.8 else [A(), A()]
        else:
            o = r.choice([33, 34, 3, 4])
            args = [r.choice([b"", b"\x00", b"\x01", (b"", b"")]) for _ in range(r.choice([0, 1, 2, 3, 4]))]
        qa = [q(a) for a in args]
        if r.random() < 0.1 and qa:
            qa[r.randrange(len(qa))] = q((A(), A()))           # a pair where an atom is expected
        P.append((gen.tt(op(o, *qa)), gen.tt(b""), "operator"))
    return P


def adapter_programs(r):
    """programs around every named adapter of the reference"""
    P = []
    E = b""
    # ad_div: negative operands, quotient -1 with remainder, exact, zero divisor
    for a, b in [(-1, 2), (1, -2), (-3, 2), (3, -2), (-4, 2), (-7, 7), (7, -8), (-1, 10 ** 20), (10 ** 20, -3), (-5, -2),
                 (0, -1), (1, 0), (-1, 0), (-2 ** 63, 3), (2 ** 64, -2 ** 32)]:
        for o in (19, 20):
            P.append((op(o, q(i2a(a)), q(i2a(b))), E, "adapter:div"))
            P.append((op(o, q(noncanon(r, i2a(a))), q(noncanon(r, i2a(b)))), E, "adapter:div"))
    # ad_softfork_guard: argument-list shapes of softfork (guard entered only with 4 arguments and extension 0/1)
    body = q(i2a(1))                       # costs 20 -> declared 160
    for decl in (160, 159, 161, 1, 0, -1, 2 ** 64 - 1, 2 ** 64, 140, 139):
        for ext in (0, 1, 2, -1, 2 ** 32 - 1, 2 ** 32):
            P.append((gen_prog.guard(body, E, decl, ext), E, "adapter:softfork"))
    P.append((gen_prog.guard(body, E, b"\x00\x00\xa0", b"\x00\x00"), E, "adapter:softfork"))      # padded cost / extension
    P.append((gen_prog.guard(body, E, b"\x00" * 8 + b"\xa0", 0), E, "adapter:softfork"))           # 9 bytes, value fits
    P.append((gen_prog.guard(body, E, 160, b"\x00\x00\x00\x00\x01"), E, "adapter:softfork"))       # 5-byte extension
    for k in range(0, 7):                   # 0..6 arguments
        args = [q(i2a(160)), q(i2a(0)), q(body), q(E), q(i2a(5)), q(i2a(6))][:k]
        P.append((op(36, *args), E, "adapter:softfork"))
    P.append((op(36, q((i2a(1), i2a(2)))), E, "adapter:softfork"))                                 # cost is a pair
    P.append((op(36, q(i2a(160)), q((b"", b"")), q(body), q(E)), E, "adapter:softfork"))           # extension is a pair
    # body that fails / body whose cost is above the declared cost before it fails / nested guard / keccak inside ext 1
    P.append((gen_prog.guard(op(8), E, 1000, 0), E, "adapter:softfork"))
    P.append((gen_prog.guard(op(4, op(16, q(i2a(1)), q(i2a(2))), op(8)), E, 200, 0), E, "adapter:softfork"))
    inner = gen_prog.guard(body, E, 160, 0)                       # costs 1 + 4*20 + 160 = 241
    P.append((gen_prog.guard(inner, E, 241 + 140, 1), E, "adapter:softfork"))
    P.append((gen_prog.guard(inner, E, 241 + 141, 1), E, "adapter:softfork"))
    P.append((op(4, gen_prog.guard(body, E, 160, 0), op(16, q(i2a(3)), q(i2a(4)))), E, "adapter:softfork"))
    # ((36) . literal operands)
    P.append(((lst(i2a(36)), lst(i2a(160), b"", body, E)), E, "adapter:softfork"))
    P.append(((lst(i2a(36)), lst(i2a(160), b"", body, E, term=i2a(7))), E, "adapter:softfork"))
    # ad_nil_terminator: evaluated operand lists ending in a non-nil atom, for many operators
    for o in (3, 4, 5, 9, 11, 14, 16, 17, 18, 21, 24, 32, 33, 36, 2, 0x40, 0x3f):
        for term in (i2a(1), b"\x00", b"ab"):
            P.append((op(o, q(i2a(3)), q(i2a(4)), term=term), E, "adapter:nil-terminator"))
            P.append((op(o, term=term), E, "adapter:nil-terminator"))
    # ad_literal_operands_any_terminator / ad_head_any_terminator: ((X . t) . operands)
    for o in (3, 4, 5, 6, 7, 9, 10, 11, 12, 13, 14, 16, 17, 18, 19, 20, 21, 22, 23, 24, 25, 26, 27, 32, 33, 34, 1, 2, 0x40, 0x80, 0xc0):
        for t in (b"", i2a(9), b"\x00"):
            for term in (b"", i2a(5)):
                P.append((((i2a(o), t), lst(i2a(3), i2a(2), term=term)), lst(i2a(11), i2a(12)), "adapter:head/literal"))
    P.append((((i2a(16), (b"", b"")), lst(i2a(3))), E, "adapter:head/literal"))         # ((X . pair) ..)
    P.append(((((i2a(16), b""), b""), lst(i2a(3))), E, "adapter:head/literal"))         # (((X)) ..)
    # ad_unknown_u32_cap: products around 2^32, opcode lengths 5 and 6
    for oc in ("ffffff00", "ffffffff00", "0100000000", "00ffffffff00", "ffff", "ffff00", "fffe00", "00ffff00",
               "ffffffbf", "ffffff7f", "0155555540", "0155555640"):
        P.append((op(bytes.fromhex(oc), q(b"abc"), q(b"")), E, "adapter:unknown-cap"))
        P.append((op(bytes.fromhex(oc)), E, "adapter:unknown-cap"))
    return [(gen.tt(p), gen.tt(e), tag) for p, e, tag in P]


def path_programs(r, n):
    """environment lookups: every small path on a fixed tree, leading zero bytes, long paths"""
    env = lst(i2a(5), lst(i2a(7), (i2a(8), i2a(9))), (i2a(10), lst(b"x", b"y")), b"hello", term=i2a(99))
    P = []
    for v in list(range(0, 70)) + [127, 128, 129, 255, 256, 257, 0x7fff, 0x8000, 0xffff, 0x10000, 2 ** 31, 2 ** 32 + 1]:
        b = i2a(v)
        P.append((b, env))
        if b and b[0] == 0:
            P.append((b[1:], env))               # the same number without its sign byte (top bit set)
        P.append((b"\x00" * r.randrange(1, 4) + b, env))
    deep = b""
    for i in range(40):
        deep = (deep, i2a(i)) if i % 3 else (i2a(i), deep)
    for _ in range(n):
        if r.random() < 0.3:
            nb = r.randrange(1, 45)                      # arbitrary bits: mostly runs into an atom
            v = (1 << nb) | r.getrandbits(nb)
        else:
            bits = []                                    # a walk that stays inside the tree
            t = deep
            while isinstance(t, tuple) and r.random() < 0.93:
                b = r.getrandbits(1)
                bits.append(b)
                t = t[1] if b else t[0]
            v = 1 << len(bits)
            for i, b in enumerate(bits):
                v |= b << i
        raw = v.to_bytes((v.bit_length() + 7) // 8, "big")
        P.append((b"\x00" * r.choice([0, 0, 1, 2]) + raw, deep))
    return [(gen.tt(p), gen.tt(e), "path") for p, e in P]


def unknown_programs(r, n):
    """unknown opcodes of every length 0..6, every cost function, 0..4 arguments (atoms of mixed size, sometimes a pair)"""
    P = []
    ocs = list(gen_prog.unknown_opcodes(r, n))
    for ln in range(1, 7):
        for fn in (0, 0x40, 0x80, 0xc0):
            for pre in (b"\x00" * (ln - 1), b"\x01" * (ln - 1), bytes(r.getrandbits(8) for _ in range(ln - 1))):
                ocs.append(pre + bytes([fn | r.choice([0, 1, 0x25, 0x3f])]))
    for oc in ocs:
        k = r.randrange(0, 5)
        args = []
        for _ in range(k):
            x = r.random()
            if x < 0.1:
                args.append(q((gen.gen_atom(r), b"")))
            elif x < 0.2:
                args.append(q(gen.Rep(r.getrandbits(8), r.choice([1000, 65536, 300000]))))
            else:
                args.append(q(gen.gen_atom(r)))
        P.append((gen.tt(op(oc, *args)), gen.tt(b""), "unknown"))
    return P


def compose_programs(r, n):
    """random compositions of classic operators over an environment of integers and strings,
    typed just enough (int / bytes / any) that most of them evaluate"""
    envl = [i2a(r.choice([0, 1, -1, 5, 300, -70000, 2 ** 70])) for _ in range(4)] + [b"hello", b"", b"\x00\x01", (i2a(1), i2a(2))]
    env = lst(*envl)

    def path(i):                      # the i-th element of the environment list
        return i2a((1 << (i + 1)) | ((1 << i) - 1))      # i rests then a first

    def e_int(d):
        k = r.random()
        if d <= 0 or k < 0.25:
            return q(i2a(r.choice([0, 1, 2, -1, 3, 255, -256, 10 ** 12]))) if r.random() < 0.5 else path(r.randrange(0, 4))
        if k < 0.5:
            return op(r.choice([16, 17, 18]), *[e_int(d - 1) for _ in range(r.choice([0, 1, 2, 2, 3]))])
        if k < 0.6:
            return op(r.choice([19]), e_int(d - 1), e_int(d - 1))
        if k < 0.68:
            return op(r.choice([24, 25, 26]), *[e_int(d - 1) for _ in range(r.choice([1, 2, 3]))])
        if k < 0.74:
            return op(27, e_int(d - 1))
        if k < 0.8:
            return op(r.choice([22, 23]), e_int(d - 1), q(i2a(r.choice([1, 3, 8, -1, -3, -9, 70]))))
        if k < 0.86:
            return op(13, e_bytes(d - 1))
        if k < 0.92:
            return op(3, e_bool(d - 1), e_int(d - 1), e_int(d - 1))
        if k < 0.96:
            return op(5, op(20, e_int(d - 1), e_int(d - 1)))
        return op(2, q(e_int(d - 1)), i2a(1))

    def e_bytes(d):
        k = r.random()
        if d <= 0 or k < 0.3:
            return q(bytes(r.getrandbits(8) for _ in range(r.randrange(0, 6)))) if r.random() < 0.5 else path(r.randrange(4, 7))
        if k < 0.55:
            return op(14, *[e_bytes(d - 1) for _ in range(r.choice([0, 1, 2, 3]))])
        if k < 0.7:
            return op(11, *[e_bytes(d - 1) for _ in range(r.choice([0, 1, 2]))])
        if k < 0.85:
            return op(12, e_bytes(d - 1), q(i2a(r.choice([0, 1, 2]))))
        return e_int(d - 1)

    def e_bool(d):
        k = r.random()
        if d <= 0 or k < 0.2:
            return q(r.choice([b"", b"\x01"]))
        if k < 0.4:
            return op(r.choice([21, 9]), e_int(d - 1), e_int(d - 1))
        if k < 0.5:
            return op(10, e_bytes(d - 1), e_bytes(d - 1))
        if k < 0.65:
            return op(32, e_bool(d - 1))
        if k < 0.85:
            return op(r.choice([33, 34]), *[e_bool(d - 1) for _ in range(r.choice([0, 1, 2, 3]))])
        return op(7, r.choice([path(7), e_int(d - 1)]))

    def e_any(d):
        k = r.random()
        if k < 0.4:
            return e_int(d)
        if k < 0.6:
            return e_bytes(d)
        if k < 0.75:
            return e_bool(d)
        if k < 0.9:
            return op(4, e_any(d - 1), e_any(d - 1)) if d > 0 else i2a(1)
        return op(r.choice([5, 6]), path(7))

    P = []
    for _ in range(n):
        P.append((gen.tt(e_any(r.choice([1, 2, 3, 4]))), gen.tt(env), "compose"))
    return P
