"""C14 — allocated nodes are immutable and integers are canonically encoded."""
import vlib, alloc_common

LEVEL = "other"
FAMILY = "alloc"

MANIFEST = {
 "level": "other",
 "text": "Proved (Coq, no axioms) about the Gallina model of src/allocator.rs and number.rs: across any history every node that a restore does not declare dead keeps its denotation (bytes / children), including across restores to checkpoints taken after its creation and across maybe_restore_with_node (same F2 proviso as C13); small_number exists exactly when the bytes are the minimal encoding of a value below 2^26, for all byte strings and both representations; number()/atom() return the value/bytes of the denotation; new_number, new_malachite_number, new_u64, new_i64 (and new_small_number) store bytes_of_int z and read back z; bytes_of_int is the unique canonical, minimal-length two's-complement encoding for all integers. atom_eq = equality of the denoted bytes in all four representation cases (C14_atom_eq). Short byte strings are also run exhaustively on model and implementation: 1-byte strings and boundary 2-byte strings (quick) / all strings of <= 2 bytes and structured 3-byte strings (thorough).",
 "note": vlib.NOTE_COMMON + " Level 'other': the immutability theorem is unconditional only for new_substr with the heap-limit check (finding F2; otherwise it excludes histories taking that branch); the bignum libraries' to_signed_bytes_be / from_signed_bytes_be are modelled (trusted), compared at every boundary by the correspondence run.",
 "technique": "Coq proof (history invariant + stability of the denotation under extension/truncation; arithmetic of two's-complement encodings for all Z) + model/implementation differential run with read-back of every live node after every step + exhaustive short byte strings",
}


def run(ctx):
    ctx.rule = alloc_common.RULE + "; plus every 1-byte string and every 2-byte string with a boundary first byte (thorough: every string of <= 2 bytes and structured 3-byte strings) through new_atom and all read APIs"
    ctx.explanation = ("Theorems (Props/C14.v): immutability over histories, atom_eq / small_number / number / atom against the denotation, the four integer "
                       "constructors, round trip / canonicity / minimality of the encoding for all Z. Explored: a digest of the trees of ALL live "
                       "nodes after every step (implementation vs model vs the Python reference in which nodes are values), all read APIs, "
                       "atom_eq in the four representation pairs, integers at every boundary 0x7f..2^64, exhaustive short byte strings.")
    ctx.proofs()
    if not ctx.build():
        return
    fx, cases = alloc_common.make_cases(ctx, ctx.scale(1200, 50000), exhaustive=ctx.scale(1, 3),
                                        profiles=["general", "ints", "ints", "gc", "gc", "substr", "f2", "misuse", "heapcap"])
    alloc_common.run_all(ctx, cases, "contents")
