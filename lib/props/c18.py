"""C18 — back-reference decoders agree with each other and with the length probe."""
import vlib, gen, gen_br

LEVEL = "proof"
FAMILY = "br"

MANIFEST = {
 "level": 'proof',
 "text": "Proved for every byte string about the Gallina models of de_br.rs (current decoder with traverse_path_with_vec and ghost-pair accounting; legacy decoder) and of tools.rs serialized_length_from_bytes: both decoders refine the recursive grammar of the compressed format (same accept set, same tree, same consumed length; the only differing error kind is PathIntoAtom vs SerializationBackrefError, as in the Rust), pair_vec.len()+ghost_pairs of the current decoder equals the legacy decoder's pair count on accepted and on rejected inputs, the length probe returns the consumed length exactly on the accepted inputs and the decoder's error otherwise, no panic site (empty pop, args[arg_index], remove_ghost_pair underflow, the legacy panic!s) is reachable and the loop bound 2|b|+2 is never exhausted. Outside the model: allocator caps, the byte/bit loop of traverse_path (abstracted to the bit list of the path value, as in Model/Path.v), memory use. The model is compared with the implementation on all strings of <= 2 bytes, mutated compressed serializations and stack-aware generated streams (tree, consumed bytes, pair count after the run, error kind), and the implementation is searched for cross-decoder disagreements.",
 "note": vlib.NOTE_COMMON + " Every conjunct of the statement is a theorem about the model for all byte strings (Props/C18.v). As for C15/C16/C20 (DESIGN.md section 3) the allocator caps are not part of the model: the two decoders hit the pair cap at the same step because their pair counts agree at every step, but the probe's private allocator holds no atoms, so beyond 62.5 million atoms the probe and the decoders can differ. The byte/bit loop shared by traverse_path and traverse_path_with_vec is represented, as in Model/Path.v, by the bit list of the path value.",
 "technique": 'Coq proof (stack machines refine the recursive grammar of the compressed format; lock-step simulation between vector stack and list stack) + model/implementation differential run + implementation cross-decoder search',
}


def gen_strings(ctx):
    """the byte strings of one run: (bytes, origin) pairs"""
    r = ctx.rng
    out = []
    # 1. exhaustive short strings
    for b in gen.all_bytes_upto(2):
        out.append((b, "exhaustive<=2"))
    if ctx.thorough:
        import itertools
        # all 3-byte strings over the bytes that matter for the grammar and the path arithmetic
        alpha = [0x00, 0x01, 0x02, 0x03, 0x04, 0x05, 0x06, 0x07, 0x08, 0x7f, 0x80, 0x81, 0x82, 0xbf, 0xc0, 0xfe, 0xff]
        for f in (0xff, 0xfe):
            for t in itertools.product(range(256), repeat=2):
                out.append((bytes((f,) + t), "exhaustive-3"))
        for t in itertools.product(alpha, repeat=4):
            out.append((bytes(t), "alphabet-4"))
    # 2. valid compressed serializations from the implementation itself, then mutated
    trees = [gen_br.shared_tree(r) for _ in range(ctx.scale(400, 6000))]
    outs = vlib.run_impl("br", ["serhex " + gen.tt(t) for t in trees])
    valid = []
    for o in outs:
        if o and o.startswith("ok "):
            h = o.split()[1]
            valid.append(b"" if h == "-" else bytes.fromhex(h))
    ctx.histogram("sources", "implementation-serialized")
    for b in valid:
        out.append((b, "impl-valid"))
        for _ in range(ctx.scale(3, 8)):
            out.append((gen_br.mutate(r, b), "impl-mutated"))
    # 3. grammar-aware streams generated while tracking the decoder's stack
    for _ in range(ctx.scale(2500, 60000)):
        b, t, kinds = gen_br.gen_stream(r, p_backref=r.choice([0.2, 0.35, 0.45]), bad=r.choice([0.0, 0.05, 0.2]))
        for k in kinds:
            ctx.histogram("path_kinds", k)
        out.append((b, "grammar"))
        if r.random() < 0.3:
            out.append((gen_br.mutate(r, b), "grammar-mutated"))
    # 4. directed
    for h in ("fe", "fe01", "fe02", "fe80", "fe00", "fe8100", "fe820000", "fffe0100", "ff01fe02", "ff01fe03", "ff01fe04",
              "ff01fe05", "ff01fe06", "ff01fe07", "ffff0102fe02", "ffff0102fe04", "ffff0102fe06", "ffff0102fe05",
              "ff86666f6f626172fe01", "ff86666f6f626172fe02", "ffff01ff02ff03ff0480fe02", "fffe01fe01", "fffe01fe02",
              "fffe01fe03", "ffff0203fffe02fe02", "ffff0203fffe01fe01", "ffff0203fffe03fe03", "ff01fffe01fffe01fe01",
              "ff01ff02fffe01fffe03fe01", "fefe", "feff", "fefc0400000000", "fefb00000001", "fe8200", "ff" * 12 + "01" + "fe01" * 12, "ff" * 40 + "01" + "fe01" * 40,
              "ff01" * 30 + "fe" + "bf" + "ff" * 63, "ff80fe8101", "ff80fe820001", "ff80fe83000001"):
        out.append((bytes.fromhex(h), "directed"))
    # 5. random
    for _ in range(ctx.scale(500, 20000)):
        n = r.choice([3, 3, 4, 5, 6, 8, 12])
        out.append((bytes(r.choice([0xff, 0xfe, 0x01, 0x02, 0x03, 0x80, 0x81, 0x00, r.getrandbits(8)]) for _ in range(n)), "random"))
    return out


def run(ctx):
    ctx.rule = ("all byte strings of <= 2 bytes (thorough: also all 3-byte strings starting with ff/fe and all 4-byte strings over "
                "a 17-letter alphabet of grammar-relevant bytes); compressed serializations produced by node_to_bytes_backrefs "
                "for DAG-shared trees, unchanged and mutated (truncation, trailing bytes, byte substitution, inserted "
                "back-references, rewritten path bytes); streams generated while tracking the decoder's stack with "
                "back-reference paths onto the stack spine, into items, into atoms, past the end, with leading zero bytes, "
                "all-zero, empty, with non-canonical / rejected size prefixes, truncated; random strings over a biased "
                "alphabet. non-trivial = distinct string that contains a 0xfe byte and has >= 2 bytes")
    ctx.explanation = ("Theorems (Props/C18.v, all for every byte string, no hypotheses): C18_old_refines_spec, C18_new_refines_spec (both decoders = recursive grammar de_br_spec), "
                       "C18_decoders_agree (same accept set, tree, remaining input, and equal pair counts also on rejected inputs), C18_probe_agrees / C18_probe_accepts_iff "
                       "(serialized_length_from_bytes = consumed length exactly on accepted inputs), C18_no_panic (no panic site, fuel 2|b|+2 suffices). "
                       "Proof: frame lemmas for the ParseOp loop with the stack threaded, and a lock-step simulation whose relation says that the vector denotes the list stack, "
                       "cached entries are the stack lists, ghost_pairs >= uncached entries and pairs+ghost = legacy pairs. "
                       "Correspondence: model vs implementation on 'new' (tree, consumed bytes, pair_count after), 'old' (same), 'probe'; "
                       "property search: 'agree' runs both decoders (fresh allocators and, like the upstream fuzz target, one shared allocator) and the probe on the implementation. "
                       "Consumed bytes of the decoders are observed through the public slice API (least accepted prefix length) because the stream entry points are private.")
    ctx.proofs()
    if not ctx.build():
        return
    strings = gen_strings(ctx)
    seen = set()
    uniq = []
    for b, o in strings:
        if b not in seen:
            seen.add(b)
            uniq.append((b, o))
            ctx.histogram("origin", o)
            ctx.histogram("length", "0-2" if len(b) <= 2 else "3-8" if len(b) <= 8 else "9-40" if len(b) <= 40 else "41+")
    cases = []
    for b, _ in uniq:
        h = gen.hx(b)
        cases += ["new " + h, "old " + h, "probe " + h]
    ctx.correspond("br", cases, nontrivial=lambda c, a, b: "fe" in c.split()[1] and len(c.split()[1]) >= 4)
    # property-level search on the implementation alone
    lines = ["agree " + gen.hx(b) for b, _ in uniq]
    outs = vlib.run_impl("br", lines)
    for l, o in zip(lines, outs):
        ctx.evaluations += 1
        ctx.histogram("agree", " ".join((o or "none").split()[:2]))
        if not (o or "").startswith("ok"):
            ctx.violation("back-reference decoders / length probe disagree, or one of them panicked: " + (o or "none")[:200],
                          {"case": l, "family": "br", "impl": o})
