"""C31 — softfork guards are isolated and always yield nil."""
import vlib, gen, gen_prog, runlib
from gen_prog import FLAG, run_line, parse_obs, head

LEVEL = "other"
FAMILY = "run"

MANIFEST = {
 "level": "other",
 "text": "Proved for every dialect record, guard body, environment, flag set, budget and enclosing machine state about the Gallina model of run_program.rs (Props/C31.v, via the frame lemma of Proofs/MachineFrame.v): from the step that applies the softfork operator to well-formed arguments with a known extension, if the run ever returns to the enclosing operation-stack level (the guard completes) it first reaches exactly the state with nil in place of the operator and its arguments and the environment, operation and guard stacks as they were (C31_guard; C31_guard_run for runs that succeed as a whole), and - unless the operator set is the cost-exempt PreHardFork one (extensions 0/1 under NEW_COST_MODEL) - the cost there is exactly cost-before + declared cost; guard entry fails with SoftforkStackDepth iff LIMIT_SOFTFORK is set and 20 guards are open (C31_depth; 20 nested calibrated guards succeed and the 21st level fails, by computation on the model of ChiaDialect, C31_nested, and on the implementation). The loop's cost constants and the limit 20 are re-read from src/run_program.rs by the translator and pinned. Allocator counters do not exist on the tree-store model; that the real allocator's atom/pair/heap counts (ghost counters included) return to their entry values is proved on the allocator models of C12 for every history enter (checkpoint) - any body of allocator operations that restores only checkpoints newer than the guard's (nested guards, GC roll-backs) - leave (full restore) (C31_counters, through the whole-history simulation C12_history; run_program.rs' checkpoint-at-entry and unconditional restore-at-exit sites are pinned by the translator); the composition of the two models is not proved and is observed on the implementation by comparing the counts of every guarded run with the same run on the extension-hiding dialect, which never executes the body.",
 "note": vlib.NOTE_COMMON + " Level 'other' because the counter clause is proved on the allocator model and observed, not proved for the composed system.",
 "technique": "Coq proof (frame lemma for the stack machine: execution between guard entry and exit) + model/implementation differential run + implementation search (aware vs hiding dialect counters, nesting 19..22, both cost models)",
}


def run(ctx):
    r = ctx.rng
    ctx.rule = ("calibrated guards (declared cost exact / +-1 / garbage / zero / zero-padded) around generated programs and operator "
                "vectors, extensions 0, 1, >= 2, both cost models, random further flags; nesting depth 1..22 with and without "
                "LIMIT_SOFTFORK; each run on ChiaDialect and on the hiding dialect; non-trivial = distinct guarded program whose "
                "aware run succeeds")
    ctx.explanation = "see MANIFEST level text"
    ctx.proofs()
    if not ctx.build():
        return
    n = ctx.scale(250, 4000)
    fz = gen_prog.fuzz_programs(r, n)
    ot = gen_prog.optest_programs(r, ctx.scale(150, 1500))
    bodies = fz + [(p, e) for p, e, _ in ot]
    cases = []     # (p_tt, e_tt, flags, meta)
    # SHA256_TREE / SECP_OPS change what opcodes 63 / 64 / 65 mean (and cost), so they are fixed BEFORE a guard is
    # calibrated (a guard calibrated without them is not "exact" any more once they are added); the flags added
    # afterwards change neither the meaning nor the cost of any operator
    for f0 in (0, FLAG["NEW_COST_MODEL"]):
        for sem in (0, 0, 0, 0, FLAG["SHA256_TREE"], FLAG["SECP_OPS"], FLAG["SHA256_TREE"] | FLAG["SECP_OPS"]):
            for p, e, meta in gen_prog.guarded_programs(r, bodies, f0 | sem, n=max(1, ctx.scale(200, 3000) // 7)):
                f = f0 | sem | sum(b for b in (FLAG["ENABLE_GC"], FLAG["MALACHITE"], FLAG["LIMIT_SOFTFORK"]) if r.random() < 0.15)
                cases.append((p, e, f, meta))
    outs = vlib.run_impl("run", [run_line(p, e, f=f) for p, e, f, _ in cases])
    hide = vlib.run_impl("run", [run_line(p, e, f=f, d="hide") for p, e, f, _ in cases])
    for (p, e, f, meta), o, oh in zip(cases, outs, hide):
        l = run_line(p, e, f=f)
        k, c, v, rest = parse_obs(o)
        runlib.count_case(ctx, l, nontrivial=(k == "ok"))
        ctx.histogram("guard_kind", meta.split()[0] + ("/new" if f & FLAG["NEW_COST_MODEL"] else "/old") + " -> " + k.split()[-1])
        rep = {"family": "run", "case": l[:3000], "impl": o, "hiding": oh, "meta": meta}
        exact_ok = meta.startswith("exact") or meta.startswith("padded")
        unknown_ext = ("ext=2" in meta or "ext=5" in meta)
        new = bool(f & FLAG["NEW_COST_MODEL"])
        if k == "ok":
            # counts must equal those of the run that never executes the body
            kh, ch, vh, resth = parse_obs(oh)
            if kh == "ok" and rest != resth:
                ctx.violation("a completed guard left a trace in the allocator counts (aware %s vs hiding %s)" % (rest, resth), rep)
            if kh == "ok" and v != vh:
                ctx.violation("a completed guard yields a value other than the hiding dialect's nil", rep)
            if kh == "ok" and not new and c != ch:
                ctx.violation("a completed non-exempt guard consumed a cost other than its declared cost", rep)
        elif exact_ok and not unknown_ext and k != "err SoftforkStackDepth":
            if not (meta.startswith("padded") and (f & FLAG["CANONICAL_INTS"])):
                ctx.violation("an exactly calibrated guard around a succeeding body fails", rep)
        if (meta.startswith("minus1") or meta.startswith("plus1")) and not unknown_ext and not new and k == "ok":
            ctx.violation("a guard whose declared cost is off by one succeeds", rep)
    # nesting limit
    for f0 in (0, FLAG["NEW_COST_MODEL"]):
        for depth in (1, 2, 19, 20, 21, 22):
            for ext in (0, 1):
                ng = gen_prog.nested_guards(f0, depth, ext)
                if not ng:
                    ctx.violation("could not calibrate %d nested guards" % depth, {"family": "run", "case": "nested %d %d %d" % (f0, depth, ext), "impl": "none"})
                    continue
                for lim in (0, FLAG["LIMIT_SOFTFORK"]):
                    l = run_line(ng[0], ng[1], f=f0 | lim)
                    o = vlib.run_impl("run", [l], shards=1)[0]
                    k = parse_obs(o)[0]
                    runlib.count_case(ctx, l)
                    cases.append((ng[0], ng[1], f0 | lim, "nested"))
                    want_ok = not (lim and depth >= 21)
                    if want_ok and (k != "ok" or parse_obs(o)[2] != "a;"):
                        ctx.violation("%d nested guards fail (LIMIT_SOFTFORK=%s)" % (depth, bool(lim)), {"family": "run", "case": l[:3000], "impl": o})
                    if not want_ok and k != "err SoftforkStackDepth":
                        ctx.violation("%d nested guards do not fail with the stack-depth error under LIMIT_SOFTFORK" % depth, {"family": "run", "case": l[:3000], "impl": o})
    lines = [run_line(p, e, f=f) for p, e, f, _ in cases]
    runlib.check_no_panic(ctx, lines, vlib.run_impl("run", lines))
    runlib.correspond_run(ctx, lines, name="run:guards")
