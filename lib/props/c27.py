"""C27 — clvm_tree_to_lazy_node preserves any CLVM object."""
import re
import vlib, gen, gen_py, pywheel

LEVEL = "proof"
FAMILY = "py27"

MANIFEST = {
 "level": 'proof',
 "text": 'Proved about the Gallina transcription of wheel/src/api.rs clvm_tree_to_lazy_node (work stack, memo keyed by Python object address) over a model of Python objects with addresses, `.pair` accessors that either return retained children or build fresh ones, and an address oracle constrained only by "never hands out the address of a live object": C27_stable (objects whose children stay alive convert to their own tree, with sharing), C27_refuted (finding F3: there is a valid oracle and a 5-node object with a fresh-children accessor whose conversion yields a different tree -- the unchanged code), C27_fixed (the algorithm that keeps every visited object alive until it returns converts EVERY object to its own tree under every valid oracle). The translator reads from api.rs which of the two algorithms the source has. The model is replayed against the wheel with the allocation traces (object addresses) recorded from CPython, which also checks the liveness model: a recorded address must never be live in the model.',
 "note": vlib.NOTE_COMMON + " Implementation side: the wheel (cdylib built from /repo's working tree) under python3. Premise visible in the theorems: py_alloc_valid (the Python allocator never returns the address of a live object); reference counting is modelled by ownership (root, current object, Visit items, keep-alive vector). Interning maps (atom_map/pair_map) are not modelled: a NodePtr is the tree it denotes.",
 "technique": 'Coq proof (loop invariant over an explicit heap-ownership model, vm_compute witness) + translator pin of the algorithm variant + trace-replay differential run against the wheel',
}

KINDS_STABLE = ["prog", "progto", "progb", "tree", "plain", "shared", "to2026"]


def run(ctx):
    r = ctx.rng
    ctx.rule = ("random/list/complete/shared trees (atoms at prefix boundaries, repeated atoms so that equal sub-trees occur) wrapped "
                "as Program (new_pair / Program.to / from_bytes), CLVMTree, LazyNode, test classes with retained children (with and "
                "without object sharing) and a test class whose .pair builds fresh children on every call and records their "
                "addresses; ser_2026(clvm_tree_to_lazy_node(obj)) is decoded and compared with the source tree; the model is "
                "replayed with the recorded allocation trace. non-trivial = distinct (kind, tree) with at least two pairs")
    ctx.explanation = ("Proof: Props/C27.v (C27_stable, C27_refuted, C27_fixed; closed under the global context). Correspondence: stable "
                       "kinds model vs wheel; fresh-children objects are replayed in the model with the addresses CPython handed out "
                       "(model result must equal the wheel's result, and no recorded address may be live in the model). Property on "
                       "the implementation: the decoded result equals the source tree for every kind.")
    ctx.proofs()
    ok = ctx.build(variants=())      # the Rust harness is not needed: the implementation side is the wheel
    okw = pywheel.build(ctx)
    if not (ok and okw):
        return
    keepalive = _source_keepalive()
    ctx.notes.append("translator: api.rs keeps visited objects alive = %s" % keepalive)

    n = ctx.scale(250, 5000)
    pool = [b"", b"\x01", b"\x02", b"\x80", b"ab", b"\xff" * 3]
    trees = []
    for i in range(n):
        t = gen.gen_tree(r, r.choice([1, 2, 3, 5, 8, 13, 30, 60]), pool=pool if i % 2 else None, share=r.choice([0, 0.2, 0.5]))
        if _size(t) < 20000:
            trees.append(t)
    trees += [(b"\x01", (b"\x02", b"\x03")), ((b"\x02", b"\x03"), b"\x01"), b"", b"\x05", (b"", b"")]
    trees += [gen.deep_list(r, d, right=(d % 2 == 0)) for d in (50, 400)]

    def nontrivial(c, a, b):
        return c.count("p") >= 2

    # stable kinds: model vs wheel, and the property on the wheel
    cases = ["conv %s %s" % (k, gen.tt(t)) for t in trees for k in (KINDS_STABLE if len(gen.tt(t)) < 4000 else ["prog", "plain"])]
    dis, m, py = pywheel.correspond(ctx, "py27", cases, name="py27-stable", nontrivial=nontrivial)
    pywheel.record_broken(ctx, "py27-stable", dis)
    for c, p in zip(cases, py):
        _, kind, tt = c.split()
        ctx.histogram("kind", kind)
        want = "ok " + _short(_full(gen.from_tt(tt)))
        if p != want:
            ctx.violation("clvm_tree_to_lazy_node changed the tree of a %s object" % kind,
                          {"case": c[:2000], "family": "py27", "runner": "pywheel", "impl": p, "expected": want})

    # fresh-children kinds: property on the wheel; replay in the model with the recorded trace
    cases = ["conv %s %s" % (k, gen.tt(t)) for t in trees for k in ("lazy", "fresh")]
    py = pywheel.run_py("py27", cases)
    replays, expect, deferred = [], [], []
    for c, p in zip(cases, py):
        ctx.evaluations += 1
        _, kind, tt = c.split()
        ctx.histogram("kind", kind)
        if c not in ctx.distinct:
            ctx.distinct.add(c)
            if nontrivial(c, None, None):
                ctx.nontrivial += 1
        want = "ok " + _short(_full(gen.from_tt(tt)))
        got = " ".join(p.split()[:2])
        ctx.histogram("fresh_outcome", "same" if got == want else "different")
        if got != want:
            deferred.append(("clvm_tree_to_lazy_node changed the tree of a %s object (children built fresh by every .pair call)" % kind,
                             {"case": c[:2000], "family": "py27", "runner": "pywheel", "impl": p[:300], "expected": want,
                              "class": "F3-fresh-children-address-reuse"}))
        mm = re.search(r" root=(\d+) trace=(\S+)$", p)
        if kind == "fresh" and mm:
            replays.append("replay %d %s %s %s" % (1 if keepalive else 0, mm.group(1), mm.group(2), tt))
            expect.append(got)
    mo = vlib.run_model("py27", replays)
    bad = []
    for c, a, b in zip(replays, mo, expect):
        ctx.evaluations += 1
        if a != b:
            bad.append((c, a, b))
    ctx.dist.setdefault("families", {})["py27-replay:wheel"] = {"cases": len(replays), "disagreements": len(bad)}
    pywheel.record_broken(ctx, "py27-replay", bad)
    # the F3 class is reported last (smallest inputs first) so that any other failure gets the replay files
    deferred.sort(key=lambda d: len(d[1]["case"]))
    for what, rep in deferred[:20]:
        ctx.violation(what, rep)


def _source_keepalive():
    import os
    txt = open(os.path.join(vlib.COQ, "Gen", "PyConsts.v")).read()
    m = re.search(r"Definition api_src_keepalive : bool := (true|false)\.", txt)
    return bool(m) and m.group(1) == "true"


def _size(t):
    n = 0
    st = [t]
    while st:
        v = st.pop()
        if isinstance(v, tuple):
            st.append(v[0]); st.append(v[1]); n += 1
        else:
            n += len(v) + 6
    return n


def _full(t):
    out = []
    st = [t]
    while st:
        v = st.pop()
        if isinstance(v, tuple):
            out.append("p"); st.append(v[1]); st.append(v[0])
        else:
            out.append("a" + gen.atom_bytes(v).hex() + ";")
    return "".join(out)


def _short(s):
    if len(s) <= 200:
        return s
    h = 0xcbf29ce484222325
    for x in s.encode():
        h ^= x
        h = (h * 0x100000001b3) & 0xFFFFFFFFFFFFFFFF
    return "T#%d:%016x" % (len(s), h)
