"""C12 — allocator resource accounting is representation-independent."""
import vlib, alloc_common

LEVEL = "other"
FAMILY = "alloc"

MANIFEST = {
 "level": "other",
 "text": "work in progress",
 "note": vlib.NOTE_COMMON,
 "technique": "Coq proof + model/implementation differential run over operation histories + reference accounting on the implementation",
}


def run(ctx):
    ctx.rule = ("operation histories of 3..150 steps over an allocator created with new_limited(L): directed histories "
                "for every branch + random histories from 9 profiles (general, heap cap, atom cap, pair cap, integers, gc, "
                "F2, substr/concat, misuse); arguments index earlier results; non-trivial = history with >= 3 observed steps")
    ctx.explanation = "see Props/C12.v"
    ctx.proofs()
    if not ctx.build():
        return
    fx, cases = alloc_common.make_cases(ctx, ctx.scale(1500, 60000))
    alloc_common.run_all(ctx, cases, "counts")
