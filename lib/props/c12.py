"""C12 — allocator resource accounting is representation-independent."""
import vlib, alloc_common

LEVEL = "other"
FAMILY = "alloc"

MANIFEST = {
 "level": "other",
 "text": "Proved (Coq, no axioms) about the Gallina model of src/allocator.rs, for every allocator state satisfying the invariant that Props/C13 shows to hold after every history: the accounting rule of the statement per operation and per representation of the arguments (new atom +1 atom +len bytes also when stored inline; integers +1 atom + minimal-encoding bytes; pair +1; substring +1 atom and no bytes; concat +1 atom +new_size bytes also when optimised away; full restore = counts recorded by the checkpoint; transparent restore and every outcome of maybe_restore_with_node leave the counts unchanged). The composition over whole histories against the reference AllocRef is checked by differential runs, not proved. The statement as written is refuted by finding F2 (C12_refuted): new_substr on an inline small atom whose slice is not a canonical small integer counts the slice's bytes; the theorems exclude exactly that branch and the check reports it as KNOWN-FINDING.",
 "note": vlib.NOTE_COMMON + " Level 'other': per-operation accounting proved, the fold over histories against the reference is explored (model = extracted reference = independent Python reference = implementation, step by step).",
 "technique": "Coq proof of the per-operation accounting rule + model/implementation differential run over operation histories + reference accounting (extracted AllocRef and an independent Python reference) on the implementation's own counters",
}


def run(ctx):
    ctx.rule = alloc_common.RULE
    ctx.explanation = ("Part proof, part exploration. Theorems (Props/C12.v): per-operation accounting for every public operation, every "
                       "argument representation and every outcome (incl. optimised-away allocations and maybe_restore_with_node); "
                       "C12_refuted = finding F2. Explored: whole histories, implementation counters vs the Coq model, vs the extracted "
                       "reference AllocRef and vs an independent Python reference after every step.")
    ctx.proofs()
    if not ctx.build():
        return
    fx, cases = alloc_common.make_cases(ctx, ctx.scale(1500, 60000))
    alloc_common.run_all(ctx, cases, "counts")
