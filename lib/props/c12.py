"""C12 — allocator resource accounting is representation-independent."""
import vlib, alloc_common

LEVEL = "other"
FAMILY = "alloc"

MANIFEST = {
 "level": "other",
 "text": "Proved (Coq, no axioms) about the Gallina model of src/allocator.rs and the reference AllocRef (every atom a separately stored byte string; the only state is the three counts): the WHOLE-HISTORY theorem C12_history - for every limit >= 1 and every finite list of public allocator operations with arguments of the API's types, run from the initial states on both sides, if on the arena side no operation panicked and new_substr never took finding F2's branch (neither its copy nor, in the repaired code, that branch's OutOfMemory), then atom_count, pair_count and heap_size equal the reference's counts, the reference did not panic either, the limits agree and every live node denotes the reference's tree (lock-step simulation Proofs/AllocSim.v, one case per operation and outcome: new atom +1 atom +len bytes also when stored inline; integers +1 atom + minimal-encoding bytes; pair +1; substring +1 atom and no bytes; concat +1 atom +new_size bytes also when optimised away; full restore = the counts recorded by the checkpoint; transparent restore and every outcome of maybe_restore_with_node leave the counts unchanged); plus the invariant that no atom straddles the heap mark of a live checkpoint (C12_no_straddle), from which maybe_restore_with_node never reports 'invalid atom byte range' (C12_maybe_restore_total), and the per-operation accounting theorems for every allocator state satisfying the invariant. The statement as written is refuted by finding F2 (C12_refuted): new_substr on an inline small atom whose slice is not a canonical small integer counts the slice's bytes; the theorems exclude exactly that branch and the check reports it as KNOWN-FINDING.",
 "note": vlib.NOTE_COMMON + " Level 'other': the statement as written is refuted (F2); outside F2's branch the whole-history equality is proved; histories are also explored (model = extracted reference = independent Python reference = implementation, step by step).",
 "technique": "Coq proof (invariant + lock-step simulation of the arena model against the reference over operation histories) + model/implementation differential run over operation histories + reference accounting (extracted AllocRef and an independent Python reference) on the implementation's own counters",
}


def run(ctx):
    ctx.rule = alloc_common.RULE
    ctx.explanation = ("Proof + exploration. Theorems (Props/C12.v): C12_history = counts of arena and reference agree after every history "
                       "outside F2's branch (lock-step simulation + no-straddle invariant; premises: no arena panic, F2 branch not taken); "
                       "per-operation accounting for every public operation, every argument representation and "
                       "every outcome; C12_refuted = finding F2. Explored: whole histories, implementation counters vs the Coq model, vs "
                       "the extracted reference AllocRef and vs an independent Python reference after every step.")
    ctx.proofs()
    if not ctx.build():
        return
    fx, cases = alloc_common.make_cases(ctx, ctx.scale(1500, 60000))
    alloc_common.run_all(ctx, cases, "counts")
