"""C11 — operator results do not depend on the cost model."""
import vlib, gen, gen_prog, runlib
from gen_prog import FLAG, run_line, parse_obs, head

LEVEL = "proof"
FAMILY = "run"

MANIFEST = {
 "level": "proof",
 "text": "Proved about the Gallina model (Props/C11.v), for every program, environment, flag set F, every two budgets, every set of cryptographic primitives: if the run on ChiaDialect succeeds under F and under F|NEW_COST_MODEL the two result trees are equal (C11_run; C11_run_general for any two flag sets that differ in NEW_COST_MODEL and LIMITS only, C11_run_runtime for RuntimeDialect). The proof goes through a recursive big-step evaluator (Model/BigStep.v) that is proved equivalent to the stack machine of run_program.rs (Proofs/BigStepEquiv.v, both directions, same cost and value): paths, quote and apply do not read the cost model, every operator of the dispatch tables returns the same value when both calls succeed (C11_op, C11_unknown, C11_dispatch - the operator clause of the property), and a completed softfork guard yields nil under both models whatever its body computes (inside a guard the two models run different operator sets, so nothing is claimed there). The check additionally runs every generated program under F and F|NEW_COST_MODEL on the implementation and compares the result trees, and compares model and implementation on both runs.",
 "note": vlib.NOTE_COMMON,
 "technique": "Coq proof (big-step evaluator proved equivalent to the machine; induction over evaluations with per-operator cost-model independence contracts; guards as black boxes) + model/implementation differential run + implementation search over (F, F|NEW_COST_MODEL) pairs",
}


def run(ctx):
    r = ctx.rng
    ctx.rule = ("generated programs (incl. calibrated guards for both models, operator vectors with BLS/keccak/secp calls) under "
                "F and F|NEW_COST_MODEL with an unlimited or generous budget; non-trivial = distinct pair where both runs succeed")
    ctx.explanation = "see MANIFEST level text"
    ctx.proofs()
    if not ctx.build():
        return
    n = ctx.scale(500, 8000)
    pool = runlib.program_pool(ctx, n, n_unknown=ctx.scale(40, 300), flags_for_guards=(0, FLAG["NEW_COST_MODEL"]))
    lines = []
    for p, e, tag in pool:
        f = gen_prog.random_flags(r, 0.15, exclude=FLAG["NEW_COST_MODEL"])
        m = r.choice([0, 0, 11000000000])
        lines.append((run_line(p, e, f=f, m=m), run_line(p, e, f=f | FLAG["NEW_COST_MODEL"], m=m)))
    a = vlib.run_impl("run", [x[0] for x in lines])
    b = vlib.run_impl("run", [x[1] for x in lines])
    both = 0
    for (l0, l1), o0, o1 in zip(lines, a, b):
        k0, c0, v0, _ = parse_obs(o0)
        k1, c1, v1, _ = parse_obs(o1)
        ok = (k0 == "ok" and k1 == "ok")
        runlib.count_case(ctx, l1, nontrivial=ok)
        ctx.histogram("pair_outcome", "%s/%s" % (k0.split()[0], k1.split()[0]))
        if ok and v0 != v1:
            ctx.violation("the result tree depends on the cost model",
                          {"family": "run", "case": l1[:3000], "impl": o1, "old_model_case": l0[:3000], "old_model": o0})
    runlib.check_no_panic(ctx, [x[1] for x in lines], b)
    runlib.correspond_run(ctx, [x[1] for x in lines], name="run:new-cost-model")
    runlib.correspond_run(ctx, [x[0] for x in lines[::2]], name="run:old-cost-model")
