"""C01 — the interpreter agrees with the reference CLVM on the classic operator set."""
import gen
import gen_c01
import gen_prog
import runlib
import vlib
from gen_prog import run_line, parse_obs, head

LEVEL = "other"
FAMILY = "run"

ADAPTERS = {
 "ad_div = DivFloor": "`/` rounds towards minus infinity for every sign of the operands (the package reported 0 for a quotient of -1 with a remainder; clvm_rs rejected negative operands before the fixed-div hard fork)",
 "ad_softfork_guard": "opcode 36 with four arguments and extension 0/1 evaluates its program argument under a guard: cost + 140 must equal the declared cost (u64, non-zero), result nil; every other argument shape costs the declared cost and returns nil (the package: always that)",
 "ad_nil_terminator": "an evaluated operand list must end in nil (the same in the package; earlier clvm_rs releases stopped at any atom)",
 "ad_literal_operands_any_terminator": "operators reached through ((X) . operands) ignore a non-nil terminator of the literal operand list (the package's as_iter-based readers fail on it) - found by reading op_utils.rs, not announced by a source comment",
 "ad_head_any_terminator": "in ((X . t) . operands) t may be any atom (the package requires nil) - found by reading run_program.rs eval_pair / get_args::<1>, not announced by a source comment",
 "ad_unknown_u32_cap": "unknown operators fail when base * (multiplier + 1) >= 2^32 or the opcode has more than 5 bytes (the same in the package)",
 "within_limits (not executable)": "STACK_SIZE_LIMIT and the allocator's atom / pair / heap caps do not exist in the reference: runs on which the implementation reports OutOfMemory, TooManyAtoms, TooManyPairs, ValueStackLimit or EnvStackLimit are outside the comparison",
}

MANIFEST = {
 "level": "other",
 "text": ("Reference: coq/Model/RefClvm.v, a big-step evaluator ref_eval over closed-form operator semantics ref_op, its own path lookup and "
          "unknown-operator rule, the historical cost table as literals, written from the published definition of CLVM (the Python clvm "
          "package is not installable offline: stated gap) and validated against every classic line of op-tests/*.txt. Deviations of today's "
          "consensus rules from the package are the named adapters: " + "; ".join("%s: %s" % kv for kv in ADAPTERS.items()) + ". "
          "PROVED (Props/C01.v, closed under the global context): C01_refines - for all programs, environments, budgets below 2^64, primitives and "
          "every sound comparison domain (operator applications with an atom of 2^31 bytes or more, or an unknown operator in C09's class wraps64, are "
          "outside), if the reference never answers Unsupported (the program is classic) then run_program under ChiaDialect with no flags (stack "
          "machine of Model/Machine.v, through its big-step form BigStep.v/BigStepEquiv.v) succeeds exactly when ref_run current_adapters succeeds, with "
          "the same cost and tree (both directions: C01_refines_complete, C01_refines_sound); C01_operators - ChiaDialect::op with no flags equals "
          "ref_op for every operator atom, argument tree and covering budget (dispatch + per-operator loop-vs-closed-form equalities for i c f r l x = >s "
          "sha256 substr strlen concat + - * / divmod > ash lsh logand logior logxor lognot not any all + the unknown-operator rule via C09); C01_path "
          "(traverse_path = ref_path); C01_costs_literal (every literal of the reference's cost table = the constant re-read from the Rust source); "
          "C01_dom_classic_sound / C01_dom_const_sound (executable sound domains: classic opcodes; plus the constant-cost unknown operators); C01_refuted_F6 (with the full domain the statement is FALSE: F6 through run_program). "
          "NOT PROVED / outside the theorems: the F6 wrap class and >= 2^31-byte atoms (excluded by the domain), the allocator caps and STACK_SIZE_LIMIT "
          "(not in the tree-store machine), the reference's fidelity to the Python package (not installable offline). EXPLORED on the implementation: three "
          "voices (implementation, machine model, reference with the full domain) on every classic vector line as a program, on generated programs "
          "(clvm-fuzzing's generator, random operator compositions, hand-shaped evaluator cases, directed cases for every adapter, unknown opcodes of "
          "every length, non-canonical integers, leading-zero paths) under budgets 0, C, C-1, C+1 and random ones, and on cost-calibrated softfork "
          "guards; any implementation-vs-reference difference is a violation with the program as replay."),
 "note": vlib.NOTE_COMMON + " The reference's fidelity to the Python package cannot be checked offline; F6 (pre-hard-fork wrapping_mul in op_unknown) is a real difference from the published rule and is reported as a KNOWN-FINDING.",
 "technique": "Coq proofs (big-step/big-step simulation in both directions over the proved stack-machine/big-step equivalence; loop-to-closed-form equalities per operator, lia/induction) + pins of the cost table against the re-read source + three-way differential run (implementation, machine model, independent reference) + vector validation of the reference",
}

LIMIT_ERRORS = ("err OutOfMemory", "err TooManyAtoms", "err TooManyPairs", "err ValueStackLimit", "err EnvStackLimit")
F6_KNOWN = {"id": "F6-C01", "property": "C01", "status": "known", "match": {"class": "F6"},
            "what": "known: pre-hard-fork op_unknown multiplies the base cost with wrapping_mul (more_ops.rs:522): the program "
                    "(0x7fd0110580 (q . <1 MiB atom>) (q . <1 MiB atom>)) succeeds with cost 2375088143 although the published unknown-operator "
                    "rule (and the reference) make it fail: base * (multiplier + 1) >= 2^64 wraps below the 2^32 cap (same defect as F6 of C09; "
                    "consensus-critical, not repaired)"}


def compare(ctx, line, impl, ref, what, extra=None):
    """the property itself: implementation vs reference on one line. Returns a class string."""
    hi = head(impl)
    rep = {"family": "run", "case": line[:6000], "impl": impl, "reference": ref}
    if extra:
        rep.update(extra)
    if ref is None or ref.startswith("crash"):
        ctx.broken.append(("reference-run", what, "the extracted reference did not answer: %s\n%s" % (ref, line[:500])))
        return "ref-crash"
    if ref == "skip":
        return "non-classic"
    if hi.startswith("panic") or hi.startswith("crash"):
        ctx.violation("run_program panicked or crashed on a classic program", rep)
        return "panic"
    if hi.startswith(LIMIT_ERRORS):
        return "outside-limits"
    if ref == "err OutOfFuel":
        return "ref-out-of-fuel"
    if hi.startswith("ok"):
        if hi != ref:
            ctx.violation("%s: implementation %s, reference %s" % (what, hi[:120], ref[:120]), rep)
            return "DIFF"
        return "ok"
    if not ref.startswith("err"):
        ctx.violation("%s: implementation fails (%s), reference %s" % (what, hi[:80], ref[:120]), rep)
        return "DIFF"
    return "fail"


def run(ctx):
    import time
    r = ctx.rng
    t0 = time.time()

    def lap(what):
        vlib.log("[C01] %s: %.1fs" % (what, time.time() - t0))
    if not any(k["id"] == "F6-C01" for k in ctx.known):
        ctx.known.append(F6_KNOWN)      # until the coordinator lists it in known_findings.json
    ctx.rule = ("three voices per line (implementation = ChiaDialect with no flags; machine model; reference ref_run current_adapters): "
                "(i) every classic line of op-tests/{core-ops,more-ops,sha256,unknown-ops}.txt as the program (op (q . a1) ...), also compared "
                "with the vector's own result and cost; (ii) clvm-fuzzing programs, random compositions of classic operators over an environment, "
                "hand-shaped evaluator cases, directed cases per adapter, operators on non-canonical integers, leading-zero / long paths, unknown "
                "opcodes of length 0-6 and every cost function, each under budget 0 and, when it succeeds with cost C, under C, C-1, C+1 and random "
                "budgets; (iii) softfork guards calibrated with the implementation (exact, off by one, garbage, nested). Lines on which the "
                "reference meets an operator outside the classic set are skipped. Non-trivial = distinct line on which the implementation succeeds, "
                "or fails with cost exceeded / a softfork error")
    ctx.explanation = ("Proof + exploration. Proved (Props/C01.v): C01_refines (run_program model = reference on classic programs inside any sound "
                       "domain, both directions), C01_operators, C01_path, C01_costs_literal, C01_refuted_F6. The check ties the model to the code "
                       "(model vs implementation on every line), validates the reference against the repository's vectors, and compares "
                       "implementation and reference directly: a difference is a violation of C01 with the program as replay; a "
                       "reference-vs-vector difference is a broken reference. Level other: F6 is a genuine exception and the reference's "
                       "fidelity to the Python package cannot be checked offline.")
    ctx.proofs()
    if not ctx.build():
        return

    # ---- (i) the repository's vectors: validation of the reference, and of the implementation through it
    try:
        vecs = gen_c01.vectors()
    except Exception as ex:  # fails closed
        ctx.broken.append(("vectors", "op-tests", "cannot read the classic vector files: %r" % (ex,)))
        vecs = []
    if not ctx.thorough:
        big = [v for v in vecs if v["bytes"] > 1500]
        sha = [v for v in vecs if v["bytes"] <= 1500 and v["name"] == "sha256"]
        small = [v for v in vecs if v["bytes"] <= 1500 and v["name"] != "sha256"]
        vecs = small + r.sample(sha, min(len(sha), 100)) + r.sample(big, min(len(big), 15))
    vlines = [run_line(v["program"], v["env"]) for v in vecs]
    vi = vlib.run_impl("run", vlines)
    vr = vlib.run_model("ref", vlines)
    runlib.correspond_run(ctx, vlines, name="run:vectors")
    for v, l, i, rf in zip(vecs, vlines, vi, vr):
        ctx.histogram("vector_op", v["name"])
        where = "%s:%d" % (v["file"], v["line"])
        cls = compare(ctx, l, i, rf, "vector " + where, {"vector": where})
        ctx.histogram("vector_outcome", cls)
        exp = v["expect"]
        want = "FAIL" if exp == "FAIL" else "ok %d %s" % (exp[1], exp[2])
        for voice, o in (("reference", rf), ("implementation", head(i))):
            got = "FAIL" if (o or "").startswith("err") else o
            if got != want:
                if voice == "reference":
                    ctx.broken.append(("reference-validation", where, "vector expects %s, reference gives %s\n%s" % (want[:200], o, l[:400])))
                else:
                    ctx.violation("vector %s expects %s, run_program gives %s" % (where, want[:120], (o or "")[:120]),
                                  {"family": "run", "case": l[:6000], "impl": i, "vector": where})

    lap("vectors")
    # ---- (ii) generated programs
    n = ctx.scale(350, 12000)
    pool = []
    fz = gen_prog.fuzz_programs(r, n)
    pool += [(p, e, "fuzz") for p, e in fz]
    pool += [(p, e, "shape") for p, e in gen_prog.small_programs(r)]
    pool += gen_c01.adapter_programs(r)
    pool += gen_c01.operator_programs(r, ctx.scale(400, 6000))
    pool += gen_c01.path_programs(r, ctx.scale(60, 1500))
    pool += gen_c01.unknown_programs(r, ctx.scale(60, 1500))
    pool += gen_c01.compose_programs(r, ctx.scale(400, 8000))
    # values computed by one operator (empty views, heap copies of small integers, ...) read by another
    pool += [(p, e, "composed") for p, e in gen_prog.composed_programs(r, ctx.scale(500, 100000))]
    # directed: finding F6 reached through run_program (two 1 MiB atoms)
    f6 = gen_prog.op(bytes.fromhex("7fd0110580"), gen_prog.q(gen.Rep(0x41, 1 << 20)), gen_prog.q(gen.Rep(0x42, 1 << 20)))
    pool.append((gen.tt(f6), gen.tt(b""), "directed-F6"))
    for _, _, tag in pool:
        ctx.histogram("program_source", tag.split(":")[0])
    lines0 = [run_line(p, e) for p, e, _ in pool]
    i0 = vlib.run_impl("run", lines0)
    r0 = vlib.run_model("ref", lines0)
    runlib.correspond_run(ctx, lines0, name="run:unlimited")
    classic_pool = []
    sweep = []
    for (p, e, tag), l, i, rf in zip(pool, lines0, i0, r0):
        cls = compare(ctx, l, i, rf, "program (%s)" % tag,
                      {"class": "F6" if ("a7fd0110580;" in p and "z41*1048576" in p) else "other"})
        ctx.histogram("outcome:" + tag.split(":")[0], cls)
        ctx.histogram("static_classic", "no" if gen_c01.mentions_non_classic(p) else "yes")
        k, c, v, _ = parse_obs(i)
        ctx.evaluations += 1
        if cls == "ok":
            classic_pool.append((p, e))
            if c > 0 and (tag not in ("fuzz", "compose", "operator") or r.random() < ctx.scale(0.2, 0.35)):
                bs = {c, c - 1, c + 1, max(1, c // 2), r.randrange(1, c + 1), 1}
                bs.discard(0)
                for b in sorted(bs):
                    sweep.append((run_line(p, e, m=b), c, b, tag))
    # the adapters at work: the same directed programs through the reference with the historical
    # switches; every named adapter must change the outcome of some program (else it names nothing)
    ad = [(p, e, tag) for p, e, tag in pool if tag.startswith("adapter:")]
    cur_o = vlib.run_model("ref", [run_line(p, e) for p, e, _ in ad])
    hist_o = vlib.run_model("ref", [run_line(p, e, ad="hist") for p, e, _ in ad])
    seen = {}
    for (p, e, tag), a, b in zip(ad, cur_o, hist_o):
        ctx.evaluations += 1
        k = "differs" if a != b else "same"
        ctx.histogram("adapter_effect:" + tag.split(":")[1], k)
        seen.setdefault(tag.split(":")[1], set()).add(k)
    for name, ks in seen.items():
        if "differs" not in ks and name not in ("nil-terminator", "unknown-cap"):   # those two are equal in both adapter sets
            ctx.notes.append("no directed program distinguishes current from historical adapters for " + name)
    lap("unlimited runs")
    # budgets: C, C-1, C+1, C/2, random, 1
    slines = [s[0] for s in sweep]
    si = vlib.run_impl("run", slines)
    sr = vlib.run_model("ref", slines)
    runlib.correspond_run(ctx, slines, name="run:budgets")
    for (l, c, b, tag), i, rf in zip(sweep, si, sr):
        cls = compare(ctx, l, i, rf, "program (%s) under budget %d (cost %d)" % (tag, b, c))
        ctx.histogram("budget_outcome", ("C<=M " if c <= b else "C>M ") + cls)
        ctx.evaluations += 1

    lap("budget sweep")
    # ---- (iii) calibrated softfork guards around classic programs
    glines = []
    if classic_pool:
        gp = gen_prog.guarded_programs(r, classic_pool, 0, n=ctx.scale(120, 3000))
        for depth in (1, 2, 3, 5):
            for ext in (0, 1):
                ng = gen_prog.nested_guards(0, depth, ext)
                if ng:
                    gp.append((ng[0], ng[1], "nested depth=%d ext=%d" % (depth, ext)))
        gmeta = []
        for p, e, meta in gp:
            glines.append(run_line(p, e))
            gmeta.append(meta)
            if r.random() < 0.3:
                glines.append(run_line(p, e, m=r.choice([1, 200, 1000, 10 ** 6])))
                gmeta.append(meta + " budget")
        gi = vlib.run_impl("run", glines)
        gr = vlib.run_model("ref", glines)
        runlib.correspond_run(ctx, glines, name="run:guards")
        for l, meta, i, rf in zip(glines, gmeta, gi, gr):
            cls = compare(ctx, l, i, rf, "guard (%s)" % meta)
            ctx.histogram("guard_outcome", meta.split()[0] + " " + cls)
            ctx.evaluations += 1
    lap("guards")
    ctx.programs = len(vlines) + len(lines0) + len(slines) + len(glines)
