"""C26 — the Python bindings reproduce the Rust core."""
import vlib, gen, gen_py, pywheel

LEVEL = "translation_validation"
FAMILY = "run26"

MANIFEST = {
 "level": 'translation_validation',
 "text": 'The glue logic of wheel/src/api.rs and adapt_response.rs is modelled in Gallina (Model/PyGlue.v) with the interpreter and the non-classic decoders as parameters, and proved: ClvmFlags::from_bits_truncate lets exactly the defined bits of the 32-bit word reach the dialect; LIMIT_HEAP selects a 500 000 000 byte heap limit, otherwise u32::MAX; on classic-serialized program and environment the API result is the adapted answer of the core run with those flags and that limit; undecodable input raises without running; deser_auto dispatches on the magic prefix. The literals are pinned to what the translator reads from api.rs / allocator.rs / chia_dialect.rs / serde_2026. Everything the theorems do not cover -- that the native functions agree with the Rust functions they wrap, error strings, LazyNode views -- is decided by a differential run: the wheel (cdylib built from the current tree, under python3) against a Rust harness calling run_program / the serializers directly with the flag bits and heap limit the MODEL computes from the flag word, including programs calibrated to end exactly at the heap limit.',
 "note": vlib.NOTE_COMMON + " Level translation_validation: the theorem is about the composition (what the bindings pass to the core and do with its answer), the tie of each wrapped function to the Rust function is the differential run. pyo3 (argument conversion, GIL release, class machinery) is outside the model.",
 "technique": 'Coq proof of the glue composition + translator pins + three-way differential run (wheel / Rust harness / glue model)',
}

DEFINED = [0x1, 0x2, 0x4, 0x8, 0x10, 0x20, 0x40, 0x100, 0x200, 0x400, 0x800, 0x1000, 0x2000]
MEMPOOL = 0x2 | 0x4 | 0x200 | 0x1 | 0x10


def flag_word(r):
    k = r.random()
    if k < 0.2:
        return 0
    if k < 0.3:
        return MEMPOOL
    if k < 0.5:
        w = 0
        for b in DEFINED:
            if r.random() < 0.3:
                w |= b
        return w
    if k < 0.7:   # defined bits plus undefined ones
        w = r.choice([0, MEMPOOL, r.choice(DEFINED)])
        for b in (0x80, 0x4000, 0x8000, 0x10000, 0x40000000, 0x80000000):
            if r.random() < 0.4:
                w |= b
        return w
    if k < 0.8:
        return r.choice([0xFFFFFFFF, 0x80000000, 0xFFFFC080, 0x3F7F, 0x4, 0xFFFFFFFB])
    return r.getrandbits(32)


def run(ctx):
    r = ctx.rng
    ctx.rule = ("programs hand-assembled over the core/arith/string/softfork/unknown operators with paths, quoted constants and "
                "nested applies, environments of small trees; budgets 0 (unlimited), generous, and cut to the measured cost "
                "+-1; flag words: 0, MEMPOOL_MODE, random subsets of the defined bits, the same with undefined bits set, "
                "0xFFFFFFFF, random 32-bit words; malformed program/environment bytes; every ser_*/deser_* function on "
                "generated trees and on mutated encodings of all three formats; LazyNode views; heap-limit calibrated "
                "programs. non-trivial = distinct case whose program has at least one operator application")
    ctx.explanation = ("Glue theorems in Props/C26.v (closed under the global context); the Rust reference is driven with the flag bits "
                       "and heap limit computed by the extracted glue model from the same flag word the wheel receives, so a "
                       "difference in truncation or limit choice shows as a wheel/Rust disagreement.")
    ctx.proofs()
    ok = ctx.build()
    okw = pywheel.build(ctx)
    if not (ok and okw):
        return

    # ------------------------------------------------------------------ run_serialized_chia_program
    n = ctx.scale(700, 20000)
    progs = []
    for i in range(n):
        p, e = gen_py.gen_program(r), gen_py.gen_env(r)
        progs.append((gen.py_ser(p), gen.py_ser(e)))
    # malformed inputs
    for i in range(ctx.scale(60, 1000)):
        progs.append((gen.gen_bytes_classic(r), gen.py_ser(gen_py.gen_env(r))))
        progs.append((gen.py_ser(gen_py.gen_program(r)), gen.gen_bytes_classic(r)))
    words = [flag_word(r) for _ in progs]
    budgets = [r.choice([0, 0, 11000000000, 11000000000, 100, 1000, 5000]) for _ in progs]
    glue = vlib.run_model("py26", ["glue %d" % w for w in words])

    def cases_for(budgets):
        py, rs = [], []
        for (p, e), w, b, g in zip(progs, words, budgets, glue):
            py.append("run %s %s %d %d" % (gen.hx(p), gen.hx(e), b, w))
            rs.append("run %s %s %d %s" % (gen.hx(p), gen.hx(e), b, g))
        return py, rs

    def compare(py_cases, rs_cases, what):
        po = pywheel.run_py("py26", py_cases)
        ro = vlib.run_impl("run26", rs_cases)
        for c, c2, a, b in zip(py_cases, rs_cases, po, ro):
            ctx.evaluations += 1; ctx.programs += 1
            if len(ctx.samples) < 12 and ctx.rng.random() < 0.02:
                ctx.samples.append({"family": "py26/run26:" + what, "case": c[:300], "model": (b or "")[:300], "impl": (a or "")[:300]})
            if c not in ctx.distinct:
                ctx.distinct.add(c)
                if len(c) > 30:
                    ctx.nontrivial += 1
            ctx.histogram(what, (a.split()[0] if a else "none") + (" " + a.split()[1][:28] if a and a.startswith("err") else ""))
            if a != b:
                ctx.violation("%s: the wheel and the Rust core disagree (cost / result / error message)" % what,
                              {"case": c[:3000], "family": "py26", "runner": "pywheel", "impl": a, "rust_case": c2[:3000], "rust": b})
        return po

    py_cases, rs_cases = cases_for(budgets)
    po = compare(py_cases, rs_cases, "run")
    for w in words[:200]:
        ctx.histogram("flag_word_class", "zero" if w == 0 else "undefined-bits" if w & ~0x3F7F else "defined-only")
    # budgets cut to the measured cost and cost-1 (exactly at the limit)
    b2 = []
    for o, b in zip(po, budgets):
        if o.startswith("ok ") and int(o.split()[1]) > 1:
            b2.append(int(o.split()[1]) - r.choice([0, 1]))
        else:
            b2.append(b)
    py_cases, rs_cases = cases_for(b2)
    compare(py_cases, rs_cases, "run-at-budget")

    # ------------------------------------------------------------------ the heap limit itself
    hp, meta = heap_limit_cases(ctx)
    hg = vlib.run_model("py26", ["glue %d" % w for _, w in meta])
    hr = [c.rsplit(" ", 1)[0] + " " + g for c, g in zip(hp, hg)]
    po = pywheel.run_py("py26", hp, shards=min(8, len(hp)))
    ro = vlib.run_impl("run26", hr, shards=min(8, len(hr)))
    for c, c2, a, b, (t, w) in zip(hp, hr, po, ro, meta):
        ctx.evaluations += 1; ctx.programs += 1
        ctx.histogram("heap_limit", "word=%#x %s" % (w, " ".join(a.split()[:2])[:24]))
        if a != b:
            ctx.violation("heap limit: the wheel and the Rust core with the model's heap limit disagree (filler %d bytes, flag word %#x)" % (t, w),
                          {"case": c[:300] + "...", "family": "py26", "runner": "pywheel", "impl": a, "rust": b,
                           "regenerate": "lib/props/c26.py heap_limit_cases: filler=%d word=%d" % (t, w)})
    outs = {(t, w): a for (t, w), a in zip(meta, po)}
    t_lo, t_hi = meta[0][0], meta[len(meta) // (2 if not ctx.thorough else 4)][0]
    if not (outs[(t_lo, 4)].startswith("ok") and outs[(t_hi, 4)].startswith("err Out_of_Memory") and outs[(t_hi, 0)].startswith("ok")):
        ctx.notes.append("heap-limit calibration did not bracket the limit: %s" % {k: v[:30] for k, v in outs.items()})

    # ------------------------------------------------------------------ ser_* / deser_* / views
    trees = [gen.gen_tree(r, r.choice([1, 2, 3, 5, 8, 13, 30]), share=r.choice([0, 0.3])) for _ in range(ctx.scale(250, 5000))]
    trees = [t for t in trees if _size(t) < 100000]
    sc = []
    for t in trees:
        for fmt in ("legacy", "backrefs", "2026"):
            sc.append("ser %s %s" % (fmt, gen.tt(t)))
    sc += ["ser 2026 %s %d" % (gen.tt(t), lvl) for t in trees[:40] for lvl in (0, 1, 7, 4294967295)]
    po = pywheel.run_py("py26", sc)
    ro = vlib.run_impl("run26", sc)
    blobs = {"legacy": [], "backrefs": [], "2026": []}
    for c, a, b in zip(sc, po, ro):
        ctx.evaluations += 1; ctx.programs += 1
        if a != b:
            ctx.violation("ser_%s differs from the Rust serializer" % c.split()[1],
                          {"case": c[:3000], "family": "py26", "runner": "pywheel", "impl": a, "rust": b})
    # decoders: valid encodings of each format (produced by small Python reference encoders for
    # classic, by the wheel itself for the other two and then checked against Rust), mutated
    enc = []
    for t in trees:
        b = gen.py_ser(t)
        enc.append(("legacy", b))
        enc.append(("backrefs", b))
        enc.append(("auto", b))
    tcases = ["enc %s" % gen.tt(t) for t in trees[:150]]
    eo = pywheel.run_py("py26enc", tcases)
    for o in eo:
        parts = o.split()
        if len(parts) == 3 and parts[0] == "ok":
            br, s26 = bytes.fromhex(parts[1]), bytes.fromhex(parts[2])
            enc += [("backrefs", br), ("auto", br), ("2026", s26), ("auto", s26), ("2026", s26[6:]), ("legacy", s26)]
    mutated = []
    for fmt, b in enc:
        mutated.append((fmt, b))
        if r.random() < 0.7 and b:
            i = r.randrange(len(b))
            m = r.choice([b[:i], b[:i] + bytes([b[i] ^ (1 << r.randrange(8))]) + b[i + 1:], b + b"\x00", b[:i] + b"\xfe" + b[i:],
                          b"\xfd\xff\x32\x30\x32\x36" + b, b[1:]])
            mutated.append((fmt, m))
    dc_py, dc_rs, automodel = [], [], []
    for fmt, b in mutated:
        opt = r.choice(["", "", " 1048576 1", " 1048576 0", " 3 1", " 0 1"]) if fmt in ("2026", "auto") else ""
        dc_py.append("de %s %s%s" % (fmt, gen.hx(b), opt))
        automodel.append("auto " + gen.hx(b))
    am = vlib.run_model("py26", automodel)
    for c, a in zip(dc_py, am):
        t = c.split()
        if t[1] == "auto":
            opts = (" " + " ".join(t[3:])) if len(t) > 3 else ""
            if a.startswith("2026body"):
                dc_rs.append("de 2026body %s%s" % (a.split()[1], opts))
            else:
                dc_rs.append("de backrefs %s" % t[2])
        else:
            dc_rs.append(c)
    po = pywheel.run_py("py26", dc_py)
    ro = vlib.run_impl("run26", dc_rs)
    for c, c2, a, b in zip(dc_py, dc_rs, po, ro):
        ctx.evaluations += 1; ctx.programs += 1
        t = c.split()
        ctx.histogram("deser", t[1] + " " + (a.split()[0] if a else "none"))
        want = b
        if t[1] == "2026" and b.startswith("err") and not bytes.fromhex(t[2] if t[2] != "-" else "").startswith(b"\xfd\xff2026"):
            want = "err deser_2026:_blob_is_missing_the_serde_2026_magic_prefix"     # api.rs: documented friendlier message
        if a != want:
            ctx.violation("deser_%s differs from the Rust decoder" % t[1],
                          {"case": c[:3000], "family": "py26", "runner": "pywheel", "impl": a, "rust_case": c2[:3000], "rust": b})
    # LazyNode views and the clvm_rs.serde wrappers
    vc = ["view " + gen.hx(gen.py_ser(t)) for t in trees[:200]]
    po = pywheel.run_py("py26", vc)
    ro = vlib.run_impl("run26", vc)
    for c, a, b in zip(vc, po, ro):
        ctx.evaluations += 1; ctx.programs += 1
        if len(ctx.samples) < 12:
            ctx.samples.append({"family": "py26/run26:view", "case": c[:300], "model": (b or "")[:300], "impl": (a or "")[:300]})
        if a != b:
            ctx.violation("LazyNode atom/pair view differs from the Rust tree",
                          {"case": c[:3000], "family": "py26", "runner": "pywheel", "impl": a, "rust": b})
    wc = ["serde %s %s" % (fmt, gen.hx(b)) for fmt, b in mutated[:600]]
    for c, a in zip(wc, pywheel.run_py("py26", wc)):
        ctx.evaluations += 1; ctx.programs += 1
        if a.startswith("MISMATCH") or a.startswith("crash"):
            ctx.violation("clvm_rs.serde wrapper differs from the direct call",
                          {"case": c[:3000], "family": "py26", "runner": "pywheel", "impl": a})


def _heap_prog(k):
    """(strlen (concat 2 2)) wrapped k times in (a (q . P) (c (concat 2 2) 3)): doubles the first
    environment item k+1 times; the second environment item only occupies heap"""
    I = gen.int_to_bytes
    L = gen_py._list
    p = L([b"\x0d", L([b"\x0e", I(2), I(2)])])
    for _ in range(k):
        p = L([b"\x02", (b"\x01", p), L([b"\x04", L([b"\x0e", I(2), I(2)]), I(3)])])
    return gen.py_ser(p)


def heap_limit_cases(ctx):
    """programs that end just below / just above the 500 000 000 byte heap limit. The doubling
    chain allocates 1907 * (2^18 - 1) = 499 902 901 bytes plus a small constant; the filler atom
    moves the total across the limit. Quick tier: +-2000 bytes around the limit; thorough tier:
    the exact threshold is found on the Rust harness by bisection and the wheel is run at the
    threshold and one byte above."""
    k, s0, L = 16, 1907, 500000000
    base = L - s0 * (2 ** (k + 2) - 1)          # 97099: filler size at which the total is about L
    prog = gen.hx(_heap_prog(k))

    def env(t):
        return gen.hx(gen.py_ser((gen.Rep(0x41, s0), gen.Rep(0x42, t))))
    pts = [base - 2200, base + 2000]
    if ctx.thorough:
        lo, hi = base - 2200, base + 2000
        while lo < hi:
            mid = (lo + hi + 1) // 2
            o = vlib.run_impl("run26", ["run %s %s 0 4 %d" % (prog, env(mid), L)], shards=1)[0]
            if o.startswith("ok"):
                lo = mid
            else:
                hi = mid - 1
        pts += [lo, lo + 1]
        ctx.notes.append("heap-limit threshold (filler bytes) found on the Rust harness: %d" % lo)
    words = [4, 0x80000004, 0, 0xFFFFFFFB]
    py, meta = [], []
    for t in pts:
        for w in words:
            py.append("run %s %s 0 %d" % (prog, env(t), w))
            meta.append((t, w))
    return py, meta


def _size(t):
    n = 0
    st = [t]
    while st:
        v = st.pop()
        if isinstance(v, tuple):
            st.append(v[0]); st.append(v[1]); n += 1
        else:
            n += len(v) + 6
    return n
