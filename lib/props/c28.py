"""C28 — the wheel's pure-Python helpers agree with the Rust core."""
import vlib, gen, gen_py, pywheel

LEVEL = "proof"   # every conjunct is proved (Props/C28.v); the curried run on the interpreter model (C28_curried_run)
FAMILY = "py28"

MANIFEST = {
 "level": 'proof',
 "text": 'Proved for all inputs, about the Gallina transcription of wheel/python/clvm_rs/{ser,casts,curry_and_treehash,program}.py against the classic codec model (C15/C16) and the interpreter model (Model/Machine.v = run_program.rs, C11): sexp_to_bytes = the recursive ser; the stream decoder with the size-field check `bit_count > 6` (what the translator reads from ser.py today; C28_decoder_current has it as its premise) accepts exactly what node_from_stream accepts, with the same tree and the same remaining input, raising only ValueError; the decoder WITHOUT the check is refuted on fe 00 00 00 00 00 01 61 (finding F4, repaired in /repo) and agrees on every input without a 0xfe byte; int_from_bytes = int_of_bytes and int_to_bytes = bytes_of_int (the canonical encoding) for every integer; curry_hash(treehash m, map treehash args) = treehash(curry m args) for every 32-byte hash function; uncurry(curry m args) = (m, args); and the curried run (C28_curried_run): for every dialect whose quote/apply keywords are 1/2 and whose operator 4 is cons (ChiaDialect under every flag word, its extension-hiding variant, RuntimeDialect: C28_curry_dialects), every module m, arguments a1..an, environment e and every outcome R (cost and value, or error kind; the model\'s fuel exhaustion excluded), run_program(curry m args, e) with K more budget has outcome R with K added to the cost iff run_program(m, (a1 ... an . e)) has outcome R, where K = 155 + 71 n = OP+QUOTE+APPLY + 44 (path lookup of 1) + n (OP+QUOTE+CONS) (C28_curry_cost); the proof goes through the big-step evaluator (equivalent to run_program for all those outcomes) and a cost-shift lemma (C28_cost_shift). Scope conventions: with the SAME finite budget the two runs can differ when the budget is within K of the module\'s cost (C28_run_witness); the interpreter model does not have the allocator caps or the stack limit; `Program != bytes` is structural inequality; the `_cached_serialization` shortcut of the Python serializer (bytes a tree was parsed from) is not modelled. The model is run against the wheel (python3 + the cdylib built from the current tree) and its literals are pinned to what the translator re-reads from the Python sources; the curried run is also observed on the implementation (same value / error through the wheel\'s run API and Rust run_program, cost difference = 155 + 71 n).',
 "note": vlib.NOTE_COMMON + " For this property the implementation side of the correspondence is the wheel: wheel/python/clvm_rs plus the native module built by cargo from /repo's working tree, run under python3 by pyharness/driver.py.",
 "technique": 'Coq proof (explicit-stack/fuel refinement onto the classic codec model, finite byte sweeps by vm_compute; big-step evaluator + cost-shift invariance for the curried run) + translator pins + model/wheel/Rust three-way differential run',
}


def _known_class(case, py_obs, rust_obs, fixed_obs):
    """F4's class: the wheel accepts, Rust rejects, and the model of the decoder WITH the
    `bit_count > 6` check behaves like Rust on this very input."""
    return py_obs.startswith("ok") and rust_obs.startswith("err") and fixed_obs.startswith("err")


def run(ctx):
    r = ctx.rng
    ctx.rule = ("trees: random/list/complete/shared with atoms at every length-prefix boundary; byte strings: every size "
                "zero-padded into every size-field class 1..7 (with body, short body, trailing byte, inside pairs), sizes "
                "around 2^34, truncated size fields, mutated valid encodings, random bytes; integers: 2^n+d and -2^n+d for "
                "n<80 and selected n up to 1024, random up to 400 bits; curry: generated modules and 0..4 arguments, "
                "near-curried shapes for uncurry; curried runs: hand-assembled programs over the core operators. "
                "non-trivial = distinct case whose input is not a single byte / zero")
    ctx.explanation = ("Proof (Props/C28.v: every conjunct, the curried run on the interpreter model; every theorem closed under the "
                       "global context). Three-way differential run: Gallina model (OCaml extraction) vs the wheel under python3 vs "
                       "the Rust harness, on the same case lines. F4 (7-byte size field accepted by the pure-Python decoder) is "
                       "C28_refuted; C28_decoder_fixed is the agreement theorem for the repaired decoder.")
    ctx.proofs()
    ok = ctx.build()
    okw = pywheel.build(ctx)
    if not (ok and okw):
        return

    def nontrivial(c, a, b):
        return len(c) > 12

    import time
    t0 = [time.time()]

    def lap(what):
        vlib.log("[C28] %s: %.1fs" % (what, time.time() - t0[0]))
        t0[0] = time.time()

    # ---------------- serializer: model vs wheel, wheel vs Rust node_to_bytes
    n = ctx.scale(400, 4000)
    trees = [gen.gen_tree(r, big=(i % 50 == 0), share=r.choice([0, 0, 0.2])) for i in range(n)]
    trees += [gen.deep_list(r, d, right=(d % 2 == 0)) for d in (100, 1000, 3000)]
    trees += [gen.Rep(b, ln) for ln in (0x3f, 0x40, 0x1fff, 0x2000, 0xfffff, 0x100000) for b in (0x00, 0x80)]
    trees += [bytes([b]) for b in (0, 1, 0x7f, 0x80, 0x81, 0xff)]
    trees = [t for t in trees if _size(t) < 1900000]     # Rust node_to_bytes has a 2 000 000 byte cap
    cases = ["ser " + gen.tt(t) for t in trees]
    dis, m, py = pywheel.correspond(ctx, "py28", cases, name="py28-ser", nontrivial=nontrivial)
    pywheel.record_broken(ctx, "py28-ser", dis)
    rs = vlib.run_impl("classic", cases)
    for c, p, q in zip(cases, py, rs):
        ctx.evaluations += 1
        if p != q:
            ctx.violation("pure-Python sexp_to_bytes differs from Rust node_to_bytes",
                          {"case": c[:2000], "family": "py28", "runner": "pywheel", "impl": p, "rust": q})

    lap('serializer')
    # ---------------- decoder: model (current variant) vs wheel; wheel vs Rust node_from_stream
    bs = gen_py.padded_atoms(r, ctx.thorough)
    ctx.histogram("decoder_inputs", "zero-padded size fields")
    bs += [gen.gen_bytes_classic(r) for _ in range(ctx.scale(1500, 40000))]
    bs += [bytes(r.choice([0xff, 0xff, 0x80, 0x81, 0x82, 0xc0, 0xe0, 0xf0, 0xf8, 0xfc, 0xfe, 0, 1, 0x7f, r.getrandbits(8)])
                 for _ in range(r.randrange(1, 12))) for _ in range(ctx.scale(1500, 40000))]
    if ctx.thorough:
        bs += list(gen.all_bytes_upto(2))
    bs = [b for b in bs if len(b) < 200000]
    cases = ["de " + gen.hx(b) for b in bs]
    deferred = []
    dis, m, py = pywheel.correspond(ctx, "py28", cases, name="py28-de", nontrivial=nontrivial)
    pywheel.record_broken(ctx, "py28-de", dis)
    rs = vlib.run_impl("classic", cases)
    fixed = vlib.run_model("py28", ["defix " + c[3:] for c in cases])
    for c, p, q, fx in zip(cases, py, rs, fixed):
        ctx.evaluations += 1
        ctx.histogram("decoder_outcome", (p.split()[0] if p else "none") + "/" + (q.split()[0] if q else "none"))
        same = (p == q) if (p.startswith("ok") or q.startswith("ok")) else (p.startswith("err ValueError") and q.startswith("err"))
        if not same:
            rep = {"case": c[:2000], "family": "py28", "runner": "pywheel", "impl": p, "rust": q}
            what = "pure-Python sexp_from_stream and Rust node_from_stream disagree (accept set / tree / consumed bytes)"
            if _known_class(c, p, q, fx):
                rep["class"] = "F4-seven-byte-size-field"
                deferred.append((what, rep))      # reported after everything else, so that other failures get the replay files
            else:
                ctx.violation(what, rep)
        # the repaired-decoder model must agree with Rust everywhere (C28_decoder_fixed, re-checked on the implementation)
        fsame = (fx == q) if (fx.startswith("ok") or q.startswith("ok")) else (fx.startswith("err") and q.startswith("err"))
        if not fsame:
            ctx.broken.append(("correspondence", "py28-defix:rust", "%s\n  model(fixed): %s\n  rust: %s" % (c[:600], fx, q)))

    lap('decoder')
    # ---------------- integer casts: model vs wheel, wheel vs Rust new_number / number()
    ints = gen_py.boundary_ints() + [gen_py.gen_int(r) for _ in range(ctx.scale(600, 20000))]
    cases = ["i2b %d" % v for v in ints]
    atoms = [gen.atom_bytes(gen.gen_atom(r)) for _ in range(ctx.scale(500, 10000))] + [gen.int_to_bytes(v) for v in ints[:400]]
    atoms = [a for a in atoms if len(a) < 5000]
    cases += ["b2i " + gen.hx(a) for a in atoms]
    dis, m, py = pywheel.correspond(ctx, "py28", cases, name="py28-int", nontrivial=lambda c, a, b: len(c) > 6)
    pywheel.record_broken(ctx, "py28-int", dis)
    rs = vlib.run_impl("py28", cases)
    for c, p, q in zip(cases, py, rs):
        ctx.evaluations += 1
        if p != q:
            ctx.violation("int_to_bytes / int_from_bytes differs from the Rust canonical integer encoding",
                          {"case": c[:2000], "family": "py28", "runner": "pywheel", "impl": p, "rust": q})
    for v in ints[:50]:
        ctx.histogram("int_bits", str(abs(v).bit_length() // 8 * 8))

    lap('integers')
    # ---------------- curry / uncurry / curry hash
    cases = []
    specs = []
    for i in range(ctx.scale(120, 1500)):
        # small atoms: the extracted SHA-256 of the model costs ~25 ms per KB
        mod = _small(r, None)
        args = [_small(r, r.choice([1, 1, 2, 5])) for _ in range(r.randrange(0, 5))]
        cases.append("curry %d %s %s" % (len(args), gen.tt(mod), " ".join(gen.tt(a) for a in args)))
        specs.append((_curry_spec(mod, args), mod, args))
        ctx.histogram("curry_args", str(len(args)))
    ucases = ["uncurry " + gen.tt(gen_py.near_curried(r)) for _ in range(ctx.scale(300, 5000))]
    dis, m, py = pywheel.correspond(ctx, "py28", cases + ucases, name="py28-curry", nontrivial=nontrivial)
    pywheel.record_broken(ctx, "py28-curry", dis)
    # property on the implementation: curry_hash == Rust tree hash of the curried tree (built by the
    # three-line reference _curry_spec), uncurry gives back module and arguments
    rs = vlib.run_impl("classic", ["th " + gen.hx(gen.py_ser(s[0])) for s in specs])
    for c, p, q, (s, mod, args) in zip(cases, py, rs, specs):
        ctx.evaluations += 1
        f = dict(x.split("=", 1) for x in p.split()[1:] if "=" in x) if p.startswith("ok") else {}
        want_u = "um=%s ua=%d:%s" % (_short(_full(mod)), len(args), ",".join(_short(_full(x)) for x in args))
        rust_h = q.split()[1] if q.startswith("ok") else None
        bad = []
        if not p.startswith("ok"):
            bad.append("raised")
        else:
            if f.get("ch") != rust_h:
                bad.append("curry_hash != Rust tree hash of the curried program")
            if f.get("th") != rust_h:
                bad.append("Python tree hash of the curried program != Rust tree hash")
            if f.get("c") != _short(_full(s)):
                bad.append("curried program differs from (a (q . mod) (c (q . arg) ... 1))")
            if p.split(" um=", 1)[-1] != want_u.split("um=", 1)[-1]:
                bad.append("uncurry(curry(m, args)) != (m, args)")
        if bad:
            ctx.violation("; ".join(bad), {"case": c[:2000], "family": "py28", "runner": "pywheel", "impl": p, "rust": q})

    lap('curry')
    # ---------------- running a curried program = running the module on the prepended environment
    cases = []
    for i in range(ctx.scale(300, 6000)):
        mod = gen_py.gen_program(r)
        k = r.randrange(0, 4)
        args = [r.choice([gen.int_to_bytes(gen_py.gen_int(r) % 10 ** 6), gen.tiny_atom(r), gen_py.small_tree(r, 3)]) for _ in range(k)]
        env = gen_py.gen_env(r)
        cases.append("crun 11000000000 %d %s %s %s" % (k, gen.tt(mod), " ".join(gen.tt(a) for a in args), gen.tt(env)))
    py = pywheel.run_py("py28", cases)
    rs = vlib.run_impl("py28", cases)
    for c, p, q in zip(cases, py, rs):
        ctx.evaluations += 1
        if c not in ctx.distinct:
            ctx.distinct.add(c)
            ctx.nontrivial += 1
        ctx.histogram("crun_outcome", " ".join(p.split()[:2])[:12] + ("/val" if " val:" in p else "/err" if " err:" in p else ""))
        # the closed-form cost difference of C28_curried_run: 155 + 71 per curried argument
        dc = None
        if " dc=" in p:
            p, dc = p.rsplit(" dc=", 1)
            dc = int(dc)
        k = int(c.split()[2])
        if dc is not None and dc != 155 + 71 * k:
            ctx.violation("cost(curried program) - cost(module on the prepended environment) = %d, C28_curry_cost says %d"
                          % (dc, 155 + 71 * k),
                          {"case": c[:2000], "family": "py28", "runner": "pywheel", "impl": p + " dc=%d" % dc, "rust": q})
        elif not p.startswith("ok same"):
            ctx.violation("curried program and module on the prepended environment give different results (wheel run API)",
                          {"case": c[:2000], "family": "py28", "runner": "pywheel", "impl": p, "rust": q})
        elif p != q:
            ctx.violation("wheel run of the module on the prepended environment differs from Rust run_program",
                          {"case": c[:2000], "family": "py28", "runner": "pywheel", "impl": p, "rust": q})
    lap('curried runs')
    for what, rep in deferred[:20]:
        ctx.violation(what, rep)


def _small(r, size):
    while True:
        t = gen_py.small_tree(r, size)
        if _size(t) < 400:
            return t


def _curry_spec(mod, args):
    fixed = b"\x01"
    for a in reversed(args):
        fixed = (b"\x04", ((b"\x01", a), (fixed, b"")))
    return (b"\x02", ((b"\x01", mod), (fixed, b"")))


def _full(t):
    """transport string with repeated-byte atoms written out (what the drivers print)"""
    out = []
    st = [t]
    while st:
        v = st.pop()
        if isinstance(v, tuple):
            out.append("p"); st.append(v[1]); st.append(v[0])
        else:
            out.append("a" + gen.atom_bytes(v).hex() + ";")
    return "".join(out)


def _short(s):
    if len(s) <= 200:
        return s
    h = 0xcbf29ce484222325
    for x in s.encode():
        h ^= x
        h = (h * 0x100000001b3) & 0xFFFFFFFFFFFFFFFF
    return "T#%d:%016x" % (len(s), h)


def _size(t):
    n = 0
    st = [t]
    while st:
        v = st.pop()
        if isinstance(v, tuple):
            st.append(v[0]); st.append(v[1]); n += 1
        else:
            n += len(v) + 6
    return n
