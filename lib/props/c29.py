"""C29 — size-limited serializers fail exactly at the limit with out-of-memory."""
import vlib, gen

LEVEL = "proof"
FAMILY = "classic"


MANIFEST = {
 "level": "proof",
 "text": "Both halves are proved for every tree and every limit about the Gallina models. Classic (Props/C29.v, model of ser.rs/write_atom.rs): node_to_bytes_limit t L = Ok (ser t) when |ser t| <= L and Err OutOfMemory otherwise, wherever the limit is crossed (marker, prefix or body), and the same law for the LimitedWriter under any sequence of write_all chunks. Back-references (Props/C29br.v, model of ser_br.rs + read_cache_lookup.rs writing through the same LimitedWriter): whenever the unlimited node_to_bytes_backrefs returns bs, node_to_bytes_backrefs_limit t L = if |bs| <= L then Ok bs else Err OutOfMemory, with no premise on the hash function. Model vs implementation on every limit 0..len+1 of small trees and windows around chunk boundaries of larger ones, for both serializers; the implementation is also searched against the statement directly.",
 "note": vlib.NOTE_COMMON,
 "technique": "Coq proof (fuelled explicit-stack loops = recursive serializers under a limit; one LimitedWriter lemma for any chunk sequence) + model/implementation differential run over all limits + implementation search",
}


def run(ctx):
    r = ctx.rng
    ctx.rule = ("for each generated tree every limit 0..len+1 (all of them for small trees, a window around every chunk "
                "boundary plus random ones for larger trees) through node_to_bytes_limit (model vs implementation) and "
                "node_to_bytes_backrefs_limit (implementation vs the statement); non-trivial = distinct (tree, limit) "
                "with limit < len")
    ctx.explanation = ("Proof + differential run. Theorems (Props/C29.v and Props/C29br.v): node_to_bytes_limit t L = if |ser t| <= L then Ok (ser t) else OutOfMemory for every tree and limit; the LimitedWriter obeys the same law for any chunk sequence. The back-reference serializer's chunk sequence is not modelled: node_to_bytes_backrefs_limit is compared with its own unlimited output on the implementation for every limit 0..len+1 (all limits for outputs <= 60 bytes, boundary + random limits above).")
    ctx.proofs(extra_targets=["Props/C29br.vo", "Pins/C29br.vo"])
    ctx.extra_props("Props/C29br.v")
    if not ctx.build():
        return
    n = ctx.scale(250, 8000)
    cases = []
    brcases = []
    for i in range(n):
        t = gen.gen_tree(r, r.choice([1, 2, 3, 5, 8, 20]), share=r.choice([0, 0.3, 0.6]))
        s = gen.tt(t)
        L = len(gen.py_ser(t))
        if L <= 120:
            lims = range(0, L + 2)
        else:
            lims = sorted(set([0, 1, 2, L - 2, L - 1, L, L + 1] + [r.randrange(0, L + 2) for _ in range(40)]))
        for lim in lims:
            cases.append("serl %d %s" % (lim, s))
        brcases.append((s, L))
    dis = ctx.correspond("classic", cases, nontrivial=lambda c, a, b: b is not None and b.startswith("err"))
    # property-level search on the implementation: result must be the unlimited serialization or OutOfMemory
    full = {}
    outs = vlib.run_impl("classic", ["ser " + s for s, _ in brcases])
    for (s, L), o in zip(brcases, outs):
        full[s] = o
    impl = vlib.run_impl("classic", cases)
    for c, o in zip(cases, impl):
        ctx.evaluations += 1
        _, lim, s = c.split()
        want = full[s]
        L = dict(brcases)[s]
        if want.startswith("ok"):
            exp = want if L <= int(lim) else "err OutOfMemory"
            if o != exp:
                ctx.violation("node_to_bytes_limit: expected %s" % exp[:80], {"case": c, "impl": o, "serialized_len": L})
    # back-reference serializer with a limit (its unlimited length comes from the implementation itself)
    brfull = vlib.run_impl("classic", ["serb " + s for s, _ in brcases])
    lines = []
    meta = []
    for (s, _), o in zip(brcases, brfull):
        if not o.startswith("ok"):
            ctx.violation("node_to_bytes_backrefs failed", {"case": s, "impl": o})
            continue
        d = o.split()[1]
        L = int(d[1:].split(":")[0]) if d.startswith("#") else (0 if d == "-" else len(d) // 2)
        lims = range(0, L + 2) if L <= 60 else sorted(set([0, 1, L - 1, L, L + 1] + [r.randrange(0, L + 2) for _ in range(25)]))
        for lim in lims:
            lines.append("serbl %d %s" % (lim, s))
            meta.append((L, lim, o))
    outs = vlib.run_impl("classic", lines)
    for l, (L, lim, want), o in zip(lines, meta, outs):
        ctx.evaluations += 1
        exp = want if L <= lim else "err OutOfMemory"
        if l not in ctx.distinct:
            ctx.distinct.add(l)
            if lim < L:
                ctx.nontrivial += 1
        if o != exp:
            ctx.violation("node_to_bytes_backrefs_limit: expected %s" % exp[:80], {"case": l, "impl": o, "serialized_len": L})
