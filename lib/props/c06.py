"""C06 — the MALACHITE bignum backend is unobservable."""
import gen_ops
import ops_common
import vlib

LEVEL = "other"
FAMILY = "ops"

MANIFEST = {
 "level": "other",
 "text": "Proved about the Gallina model, which transcribes op_div/op_divmod/op_mod/op_modpow and their _malachite twins separately: for every bignum library L computing the same integer functions (lib_ok: decode, minimal encode, sign tests, floor div/mod, modpow for exponent >= 0 and modulus != 0) the malachite wrapper equals the num-bigint wrapper for every flag set, argument tree and budget (C06_div, C06_divmod, C06_mod, C06_modpow), hence the exported operators do not depend on the MALACHITE flag (C06_*_flag = op_malachite_indep); the model's modpow is (b^e) mod m (C06_modpow_meaning). Level other because the premise lib_ok about the two Rust crates (num-bigint, malachite-bigint) is not provable here: it is tested by running both flag values against the model and against each other on argument lists with 0-4 arguments, pairs, negative/zero/padded operands, sizes around 256/1024/2048 and every budget boundary.",
 "note": vlib.NOTE_COMMON + " The bignum crates themselves are outside the model (premise lib_ok, tested).",
 "technique": "Coq proof (wrapper equality under an explicit library premise) + model/implementation differential run under both flag values + implementation-level metamorphic search (MALACHITE vs not)",
}

OPS = ["op_div", "op_divmod", "op_mod", "op_modpow"]


def run(ctx):
    r = ctx.rng
    ctx.rule = ("op_div/op_divmod/op_mod/op_modpow called directly with every case under flags F and F^MALACHITE "
                "(F from {0, LIMITS, DISABLE_OP, NEW_COST_MODEL, CANONICAL_INTS, mempool...}); argument lists: 0-4 "
                "arguments, pairs at each position, improper terminators, integers at every encoding boundary, "
                "negative/zero/00- and ff-padded operands, sizes 255..257, 1023..1025, 2047..2049, repeated-byte "
                "atoms up to 1 MiB (budget-cut); budgets: huge, exact cost c, c-1, the last checked cost (c - malloc) "
                "+-1, random below c; atoms built by new_atom, as substring views and by concatenation. Non-trivial "
                "= distinct case that reaches the bignum library (ok) or fails after argument parsing")
    ctx.explanation = ("Wrapper equality is proved for any library satisfying lib_ok; the run tests lib_ok on the real "
                       "crates: model (one integer semantics) vs implementation under both flag values, plus a direct "
                       "comparison of the two implementation runs.")
    ctx.proofs()
    if not ctx.build():
        return
    thr = gen_ops.thresholds_from_source(vlib.REPO)
    ctx.extra_cov["thresholds_in_source"] = thr
    if thr:
        gen_ops.THRESHOLDS[:] = sorted(set(thr) | set(gen_ops.THRESHOLDS))
    items = gen_ops.gen_items(r, OPS, ctx.scale(220, 40000), ctx.thorough)
    lines, meta = ops_common.build_cases(ctx, items, extra_flags=lambda it: [it["flags"] ^ gen_ops.MALACHITE])

    def nontrivial(c, a, b):
        ops_common.op_histograms(ctx, c, b)
        p = gen_ops.parse_obs(b)
        return p[0] == "ok" or (p[0] == "err" and p[1] in ("DivisionByZero", "CostExceeded"))
    ctx.correspond("ops", lines, nontrivial=nontrivial)
    # implementation-level search: the same case with the MALACHITE bit flipped
    flipped = []
    for l in lines:
        t = l.split()
        k = 2 if t[0] == "op" else 3
        t[k] = str(int(t[k]) ^ gen_ops.MALACHITE)
        flipped.append(" ".join(t))
    a = vlib.run_impl("ops", lines)
    b = vlib.run_impl("ops", flipped)
    for l, l2, x, y in zip(lines, flipped, a, b):
        ctx.evaluations += 1
        if vlib.canon_default(x) != vlib.canon_default(y):
            ctx.violation("MALACHITE changes the outcome: %s vs %s" % (x, y),
                          {"case": l, "family": "ops", "impl": x, "flipped_case": l2, "flipped_impl": y})
