"""C07 — restriction flags only remove successes."""
import vlib, gen, gen_prog, runlib
from gen_prog import FLAG, run_line, parse_obs, head

LEVEL = "other"
FAMILY = "run"

MANIFEST = {
 "level": "other",
 "text": "Proved for every program, environment, budget and pair of flag sets F <= F' (F' adds restriction flags NO_UNKNOWN_OPS, CANONICAL_INTS, DISABLE_OP, LIMIT_SOFTFORK, LIMITS, LIMIT_HEAP and/or drops RELAXED_BLS) about the Gallina model of run_program.rs + ChiaDialect: a run that succeeds under F' succeeds under F with the same result and cost - outside one recorded class (finding F8: CANONICAL_INTS added without NO_UNKNOWN_OPS turns a non-canonical softfork extension argument into an 'unknown extension', which is skipped instead of entered; C07_refuted exhibits it). MEMPOOL_MODE => consensus is the corollary C07_mempool. LIMIT_HEAP acts only through the allocator's heap limit (the core ignores the flag; the wheel builds a limited allocator), which the tree-store model does not have: on the allocator models a lower heap limit only removes successes (C13_limit_monotone: a history without OutOfMemory under limit L has the same observations, counts and node contents under every L' >= L); the composition with the interpreter model is not proved and that flag is otherwise covered by the implementation search. The model is run against the implementation on (F, F') pairs; the search compares the pairs on the implementation itself.",
 "note": vlib.NOTE_COMMON + " Level 'other' because of the excluded class (a known finding) and because LIMIT_HEAP is outside the model.",
 "technique": "Coq proof (lock-step simulation of the runs under two flag sets; per-operator restriction contracts) + model/implementation differential run + implementation search over (F, F u R) pairs",
}

KNOWN_F8 = "F8"


def is_f8_class(p_tt, f, f2):
    """CANONICAL_INTS added without NO_UNKNOWN_OPS on a program that contains a softfork"""
    return bool(f2 & FLAG["CANONICAL_INTS"]) and not (f & FLAG["CANONICAL_INTS"]) and not (f2 & FLAG["NO_UNKNOWN_OPS"]) and runlib.has_softfork(p_tt)


def run(ctx):
    r = ctx.rng
    ctx.rule = ("generated programs under a random flag set F and under F plus a random non-empty set of restriction flags "
                "(or all of MEMPOOL_MODE), and under F plus RELAXED_BLS; LIMIT_HEAP selects the wheel's 500,000,000-byte heap "
                "limit; non-trivial = distinct pair where the restricted run succeeds")
    ctx.explanation = ("Proof (Props/C07.v) + differential run + implementation search; the recorded class F8 is excluded in the "
                       "theorem and reported as KNOWN-FINDING when the search meets it (a directed case is always included).")
    ctx.proofs()
    if not ctx.build():
        return
    n = ctx.scale(500, 8000)
    pool = runlib.program_pool(ctx, n, n_unknown=ctx.scale(60, 300), flags_for_guards=(0, FLAG["NEW_COST_MODEL"]))
    # directed: guards whose extension / cost argument is a non-canonical integer (finding F8's class and its neighbours)
    body = gen_prog.q(gen_prog.i2a(1))
    for ext in (b"\x00\x00", b"\x00\x01", b"\x00", b"\x00\x00\x00\x00\x01"):
        for cost in (gen_prog.i2a(160), b"\x00" + gen_prog.i2a(160), gen_prog.i2a(1000)):
            pool.append((gen.tt(gen_prog.guard(body, b"", cost, ext)), gen.tt(b""), "directed-noncanonical-guard"))
    lines = []
    jobs = []
    for p, e, tag in pool:
        bit = int(tag.split("=")[1].split()[0]) if tag.startswith("flagsens[f=") else 0
        if bit in gen_prog.RESTRICTION_BITS:
            # a program whose outcome hinges on one restriction bit: F without it, F u R with it, under
            # both cost models (the bit often only matters under one of them)
            base = gen_prog.random_flags(r, 0.15) & ~bit & ~FLAG["NEW_COST_MODEL"]
            for ncm in (0, FLAG["NEW_COST_MODEL"]):
                jobs.append((p, e, tag, base | ncm, bit | sum(b for b in gen_prog.RESTRICTION_BITS if r.random() < 0.1)))
            continue
        f = runlib.pick_flags(r, tag, 0.15)
        add = 0
        while add == 0:
            add = gen_prog.MEMPOOL_MODE if r.random() < 0.25 else sum(b for b in gen_prog.RESTRICTION_BITS if r.random() < 0.3)
        jobs.append((p, e, tag, f, add))
    for p, e, tag, f, add in jobs:
        if tag == "directed-noncanonical-guard":
            f &= ~(FLAG["CANONICAL_INTS"] | FLAG["NO_UNKNOWN_OPS"])
            add = FLAG["CANONICAL_INTS"] | (FLAG["NO_UNKNOWN_OPS"] if r.random() < 0.4 else 0)
        f2 = f | add
        m = r.choice([0, 0, 11000000000, r.randrange(1, 10 ** 6)])

        def ln(flags):
            kw = {"lim": 500000000} if flags & FLAG["LIMIT_HEAP"] else {}
            return run_line(p, e, f=flags, m=m, **kw)
        lines.append((ln(f), ln(f2), ln(f | FLAG["RELAXED_BLS"]), p, f, f2))
    o0 = vlib.run_impl("run", [x[0] for x in lines])
    o1 = vlib.run_impl("run", [x[1] for x in lines])
    o2 = vlib.run_impl("run", [x[2] for x in lines])
    runlib.note_outcomes(ctx, o1, "restricted_outcome")
    for (l0, l1, l2, p, f, f2), a, b, c in zip(lines, o0, o1, o2):
        kb = parse_obs(b)[0]
        runlib.count_case(ctx, l1, nontrivial=(kb == "ok"))
        if kb == "ok" and head(a) != head(b):
            what = "a run succeeds under F u R (flags %d) but differs under F (flags %d)" % (f2, f)
            rep = {"family": "run", "case": l1[:3000], "impl": b, "lenient_case": l0[:3000], "lenient": a,
                   "class": "F8" if is_f8_class(p, f, f2) else "other"}
            ctx.violation(what, rep)
        ka = parse_obs(a)[0]
        runlib.count_case(ctx, l2, nontrivial=(ka == "ok"))
        if ka == "ok" and head(c) != head(a):
            ctx.violation("adding RELAXED_BLS changed a successful run",
                          {"family": "run", "case": l2[:3000], "impl": c, "strict_case": l0[:3000], "strict": a})
    runlib.check_no_panic(ctx, [x[1] for x in lines], o1)
    runlib.correspond_run(ctx, [x[1] for x in lines], name="run:restricted")
    runlib.correspond_run(ctx, [x[0] for x in lines[::3]], name="run:lenient")
