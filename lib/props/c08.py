"""C08 — soft-fork safety: nodes unaware of an extension accept what aware nodes accept."""
import vlib, gen, gen_prog, runlib
from gen_prog import FLAG, run_line, parse_obs, head

LEVEL = "other"
FAMILY = "run"

MANIFEST = {
 "level": "other",
 "text": "Proved about the Gallina model of run_program.rs + ChiaDialect (Props/C08.v), for every program, environment, budget, set of cryptographic primitives and every flag set without NEW_COST_MODEL and NO_UNKNOWN_OPS: whenever the run on ChiaDialect succeeds, the run on the extension-hiding dialect (softfork_extension always Default, 4-byte opcodes unknown) succeeds with the same cost and the same result (C08_run). Ingredients, each a theorem: the unknown-operator cost rule charges the opcodes 13d61f00 / 1c3a8f00 exactly SECP256K1_VERIFY_COST / SECP256R1_VERIFY_COST for every argument list (constants and opcodes re-read from the source by the translator and pinned, so retuning one breaks the obligation) and a successful secp call returns nil (C08_secp_cost, C08_secp_value, C08_op); the hiding dialect skips a softfork call for any extension in one step with nil and the declared cost (C08_hiding_guard); on the aware dialect a guard that completes ends in exactly that state at exactly that cost (C08_guard_agree, from the guard frame theorem shared with C31). The allocator-counter clause is proved on the allocator models of C12 (C08_counters = C31_counters: after enter - any body restoring only its own checkpoints - leave, the arena's three counts are those at guard entry, which is what the unaware node has since it skips the guard without allocating); the composition of the tree-store interpreter model with the allocator model is not proved. That clause is also decided by running every generated program on ChiaDialect and on an extension-hiding wrapper dialect on the implementation, comparing result, cost and the three counts whenever the aware run succeeds.",
 "note": vlib.NOTE_COMMON + " Level 'other': the counter clause is observed, not proved.",
 "technique": "Coq proof (run-level simulation aware => hiding with completed guards as black boxes via the frame lemma; secp cost = unknown-op cost over translated constants) + model/implementation differential run on both dialects + implementation search aware vs hiding dialect incl. allocator counters",
}

# consensus mode, pre-hard-fork cost model: none of the mempool restriction flags, no NEW_COST_MODEL
ALLOWED = [FLAG["ENABLE_GC"], FLAG["KECCAK_OUTSIDE"], FLAG["SHA256_TREE"], FLAG["SECP_OPS"], FLAG["MALACHITE"], FLAG["RELAXED_BLS"]]


def run(ctx):
    r = ctx.rng
    ctx.rule = ("generated programs with calibrated guards for extensions 0 (BLS), 1 (keccak), >= 2, nested and malformed guards, "
                "valid and invalid secp256k1/r1 signatures through the 4-byte opcodes (from the repository's vectors), under "
                "consensus flag sets without NEW_COST_MODEL; each runs on ChiaDialect and on the hiding dialect; non-trivial = "
                "distinct program containing a softfork or a 4-byte opcode whose aware run succeeds")
    ctx.explanation = "see MANIFEST level text"
    ctx.proofs()
    if not ctx.build():
        return
    n = ctx.scale(350, 6000)
    pool = runlib.program_pool(ctx, n, n_unknown=ctx.scale(40, 300), flags_for_guards=(0, FLAG["KECCAK_OUTSIDE"]),
                               n_optest=ctx.scale(150, 1500))
    sec = gen_prog.optest_programs(r, ctx.scale(120, 600), only=["secp256k1_verify", "secp256r1_verify", "keccak256", "g1_multiply", "bls_verify", "g2_add"])
    # the same calls inside calibrated guards (keccak only exists inside extension 1)
    pool += [(p, e, "optest:" + nm) for p, e, nm in sec]
    # opcode neighbours of the 4-byte extension opcodes: same cost-multiplier prefix, other low byte (other
    # cost function / alias). Both dialects must treat them as unknown operators, whatever the arguments
    # (in particular with a VALID signature triple, which a sloppy opcode match would accept as secp).
    for p, e, nm in list(sec):
        for code in ("13d61f00", "1c3a8f00"):
            if p.startswith("pa%s;" % code):
                for low in r.sample(["01", "3f", "40", "41", "7f", "80", "bf", "c0", "ff"], 3):
                    pool.append(("pa%s%s;" % (code[:6], low) + p[len(code) + 3:], e, "secp-neighbour:" + nm))
    for f in (0,):
        for p, e, meta in gen_prog.guarded_programs(r, [(p, e) for p, e, _ in sec], f, n=ctx.scale(80, 600)):
            pool.append((p, e, "guard[f=%d %s]" % (f, meta)))
    for d in (1, 2, 3, 19, 20, 21):
        for ext in (0, 1):
            ng = gen_prog.nested_guards(0, d, ext)
            if ng:
                pool.append((ng[0], ng[1], "nested-%d" % d))
    lines = []
    for p, e, tag in pool:
        f = sum(b for b in ALLOWED if r.random() < 0.2)
        m = r.choice([0, 0, 11000000000])
        lines.append((run_line(p, e, f=f, m=m, d="chia"), run_line(p, e, f=f, m=m, d="hide"), p))
    a = vlib.run_impl("run", [x[0] for x in lines])
    b = vlib.run_impl("run", [x[1] for x in lines])
    for (l0, l1, p), o0, o1 in zip(lines, a, b):
        k0 = parse_obs(o0)[0]
        interesting = runlib.has_softfork(p) or "a13d61f" in p or "a1c3a8f" in p
        runlib.count_case(ctx, l1, nontrivial=(k0 == "ok" and interesting))
        ctx.histogram("aware/hiding", "%s/%s" % (k0.split()[0], parse_obs(o1)[0].split()[0]))
        if k0 == "ok" and o0 != o1:
            ctx.violation("a program accepted by the aware dialect is rejected or evaluated differently by the hiding dialect",
                          {"family": "run", "case": l1[:3000], "impl": o1, "aware_case": l0[:3000], "aware": o0})
    runlib.check_no_panic(ctx, [x[1] for x in lines], b)
    runlib.correspond_run(ctx, [x[1] for x in lines], name="run:hiding")
    runlib.correspond_run(ctx, [x[0] for x in lines], name="run:aware")
