"""C32 — cryptographic operators agree with independent implementations."""
import hashlib, os, re
import vlib, gen
import ec_ref as E
import gen_crypto as G
from gen_crypto import lst, int_atom, BIG, F_RELAXED_BLS, F_LIMITS, F_NEW_COST_MODEL

LEVEL = "other"
FAMILY = "crypto"

MANIFEST = {
 "level": "other",
 "text": ("Partial by nature: that blst/k256/p256/sha2/sha3 implement their standards cannot be a theorem about clvm_rs. "
          "Proved in Coq for ALL primitives, argument trees, flags and budgets: each operator's Gallina model "
          "(Model/OpsCrypto.v) is exactly the composition of the primitive with the operator's argument rules "
          "(C32_wrap_*: success sets, values, costs, error kinds; coinid accepts exactly 32-byte ids and the canonical "
          "encodings of 0 <= v < 2^64; exponents/scalars are reduced modulo the group order re-read from op_utils.rs). "
          "Executable specifications: SHA-256 and Keccak-256 in Gallina (vm_compute vectors). Decided by running: the "
          "extracted model, instantiated with an INDEPENDENT implementation of the primitives (Gallina SHA-256/Keccak-256; "
          "lib/ec_ref.py: secp256k1/secp256r1 ECDSA, BLS12-381 G1/G2 decoding with subgroup check, add, negate, scalar "
          "multiply), is compared with the implementation on every generated argument list; pairing, aggregate-verify and "
          "hash-to-curve values come from chia_bls called directly (wrapper check only) and are additionally tested "
          "through bilinearity relations on points with known discrete logarithms and signatures built with the "
          "reference arithmetic."),
 "note": vlib.NOTE_COMMON + " Level 'other': the pairing and hash-to-curve have no independent specification here.",
 "technique": "Coq proof of the wrappers + executable Gallina hash specifications + differential run of the model over an independent primitive implementation + algebraic relations on the implementation",
}

G1OPS = ("point_add", "g1_subtract")
G2OPS = ("g2_add", "g2_subtract")


# ------------------------------------------------------------------------------------------------
# primitive oracle: the independent reference where it exists, else the library through the harness
# ------------------------------------------------------------------------------------------------
def _unhex(s):
    return b"" if s == "-" else bytes.fromhex(s)


def _hx(b):
    return b.hex() if b else "-"


def ref_prim(key):
    """value of a primitive according to lib/ec_ref.py, or None when the reference has no opinion"""
    p = key.split(":")
    k = p[0]
    if k == "keccak":
        return _hx(E.keccak256(_unhex(p[1])))
    if k == "g1v":
        return "1" if E.g1_decode(_unhex(p[1]))[0] == "ok" else "0"
    if k == "g2v":
        return "1" if E.g2_decode(_unhex(p[1]))[0] == "ok" else "0"
    if k in ("g1add", "g1neg", "g1mul"):
        a = E.g1_decode(_unhex(p[1]), subgroup=False)
        if a[0] != "ok":
            return None
        if k == "g1neg":
            return _hx(E.g1_encode(E.G1C.neg(a[1])))
        if k == "g1mul":
            return _hx(E.g1_encode(E.G1C.mul(a[1], int(p[2]))))
        b = E.g1_decode(_unhex(p[2]), subgroup=False)
        return _hx(E.g1_encode(E.G1C.add(a[1], b[1]))) if b[0] == "ok" else None
    if k == "g1gen":
        return _hx(E.g1_encode(E.G1C.mul(E.G1C.g, int(p[1]))))
    if k in ("g2add", "g2neg", "g2mul"):
        a = E.g2_decode(_unhex(p[1]), subgroup=False)
        if a[0] != "ok":
            return None
        if k == "g2neg":
            return _hx(E.g2_encode(E.g2_neg(a[1])))
        if k == "g2mul":
            return _hx(E.g2_encode(E.g2_mul(a[1], int(p[2]))))
        b = E.g2_decode(_unhex(p[2]), subgroup=False)
        return _hx(E.g2_encode(E.g2_add(a[1], b[1]))) if b[0] == "ok" else None
    for pre, S in (("k1", E.SECP_K1), ("r1", E.SECP_R1)):
        if k == pre + "pk":
            q = S.decode_pubkey(_unhex(p[1]))
            return None if q == "other" else ("1" if q is not None else "0")
        if k == pre + "sig":
            return "1" if S.decode_sig(_unhex(p[1])) is not None else "0"
        if k == pre + "ver":
            v = S.verify(_unhex(p[1]), _unhex(p[2]), _unhex(p[3]))
            return "1" if v is True else ("0" if v is False else None)
    return None


class Oracle:
    def __init__(self, ctx):
        self.ctx = ctx
        self.cache = {}
        self.src = {}

    def get_many(self, keys):
        need_lib = []
        for k in keys:
            if k in self.cache:
                continue
            v = ref_prim(k)
            if v is not None:
                self.cache[k] = v
                self.src[k] = "ref"
                self.ctx.histogram("primitive_source", "reference:" + k.split(":")[0])
            else:
                need_lib.append(k)
        if need_lib:
            outs = vlib.run_impl("crypto", ["prim " + k for k in need_lib])
            for k, o in zip(need_lib, outs):
                self.cache[k] = o[2:] if o and o.startswith("= ") else None
                self.src[k] = "lib"
                self.ctx.histogram("primitive_source", "library:" + k.split(":")[0])


def resolve(oracle, lines, rounds=60):
    """add to every 'ops' line the primitive table the model needs (iteratively: the model names the
    next missing primitive call)"""
    tables = [[] for _ in lines]
    pending = list(range(len(lines)))
    final = list(lines)
    for _ in range(rounds):
        if not pending:
            break
        cur = [lines[i] + (" | " + " ".join(tables[i]) if tables[i] else "") for i in pending]
        outs = vlib.run_model("crypto", cur)
        needs = {}
        nxt = []
        for i, c, o in zip(pending, cur, outs):
            final[i] = c
            if o and o.startswith("need ") and o != "need not-modelled-here":
                needs.setdefault(o[5:], []).append(i)
        oracle.get_many(list(needs))
        for k, idxs in needs.items():
            v = oracle.cache.get(k)
            if v is None:
                continue            # unresolvable: the case stays "need ..." and is skipped
            for i in idxs:
                tables[i].append(k + "=" + v)
                nxt.append(i)
        pending = sorted(set(nxt))
    return final


def ops(calls, max_cost=BIG):
    return "ops %d " % max_cost + " ".join("%d %s %s" % (fl, name, gen.tt(tree)) for fl, name, tree in calls)


def parse_obs(o):
    """'ok <cost> <tree>' -> ('ok', cost, atom-bytes or tree string); 'err K' -> ('err', K, None)"""
    if o is None:
        return ("none", None, None)
    t = o.split()
    if t[0] == "ok":
        tr = t[2]
        if tr.startswith("a") and tr.endswith(";") and "p" not in tr:
            return ("ok", int(t[1]), bytes.fromhex(tr[1:-1]))
        return ("ok", int(t[1]), tr)
    if t[0] == "err":
        return ("err", re.sub(r"\[.*", "", t[1]), None)
    return (t[0], o, None)


MALLOC = {"point_add": 480, "g1_subtract": 480, "g1_multiply": 480, "g1_negate": 480, "pubkey_for_exp": 480, "g1_map": 480,
          "g2_add": 960, "g2_subtract": 960, "g2_multiply": 960, "g2_negate": 960, "g2_map": 960,
          "coinid": 320, "keccak256": 320, "sha256": 320}


def run(ctx):
    r = ctx.rng
    E.selftest()
    ctx.rule = ("per operator: argument lists drawn from pools of valid points (k*G with known k, infinity), invalid ones "
                "(non-subgroup curve points, off-curve x, x >= p, wrong flag bits, non-canonical infinity, bit flips, wrong "
                "sizes, pairs), scalars around 0, +-1, +-r, 2^255, 1024/1025-byte scalars, every coinid amount class, "
                "ECDSA signatures made by the reference signer with single-bit mutations of key/message/signature, high-S "
                "and out-of-range r/s; wrong argument counts and improper terminators; budgets at cost-1/cost and random; "
                "flag sets {0, RELAXED_BLS, LIMITS, NEW_COST_MODEL, ...}; sequences of calls in one allocator (validated-"
                "point cache). Non-trivial = a distinct case in which at least one primitive was evaluated.")
    ctx.explanation = ("Part proof, part exploration. Theorems (Props/C32.v): the wrappers, for all primitives. The run: the "
                       "extracted model with independent primitives (Gallina SHA-256/Keccak-256, lib/ec_ref.py for ECDSA and "
                       "G1/G2) against the implementation, observation by observation (cost, value, error kind); pairing / "
                       "aggregate-verify / hash-to-curve values are taken from chia_bls directly (so only the wrapper is "
                       "compared there) and checked through bilinearity relations and reference-built signatures; hashlib "
                       "for sha256 and coinid.")
    ctx.proofs()
    if not ctx.build():
        return
    oracle = Oracle(ctx)
    pools = G.Pools(r, n_valid=ctx.scale(5, 14))
    scal = G.scalars(r)
    cases = []

    def add(calls, max_cost=BIG, tag=None):
        cases.append(ops(calls, max_cost))
        if tag:
            ctx.histogram("case_kind", tag)

    flagsets = [0, 0, F_NEW_COST_MODEL, F_LIMITS, F_RELAXED_BLS, F_RELAXED_BLS | F_NEW_COST_MODEL, F_LIMITS | F_NEW_COST_MODEL, 0x1fff]
    terms = [b"", b"", b"", b"\x01", b"\x00"]
    n = ctx.scale(1, 8)

    # ---- G1 / G2 addition and subtraction
    for _ in range(30 * n):
        for name in G1OPS:
            k = r.choice([0, 1, 1, 2, 2, 3, 4])
            add([(r.choice(flagsets), name, lst([pools.any_g1(0.15) for _ in range(k)], r.choice(terms)))], tag=name)
    for _ in range(12 * n):
        for name in G2OPS:
            k = r.choice([0, 1, 2, 2, 3])
            add([(r.choice(flagsets), name, lst([pools.any_g2(0.15) for _ in range(k)], r.choice(terms)))], tag=name)
    # P + (-P), P - P, infinity operands
    for p in pools.g1[:3]:
        q = E.g1_encode(E.G1C.neg(E.g1_decode(p)[1]))
        add([(0, "point_add", lst([p, q]))]); add([(0, "g1_subtract", lst([p, p]))])
        add([(0, "point_add", lst([p, E.G1_INF]))]); add([(0, "g1_subtract", lst([E.G1_INF, p]))]); add([(0, "point_add", lst([p, p]))])
    for p in pools.g2[:2]:
        add([(0, "g2_add", lst([p, E.g2_encode(E.g2_neg(E.g2_decode(p)[1]))]))]); add([(0, "g2_subtract", lst([p, p]))])
        add([(0, "g2_subtract", lst([E.G2_INF, p]))]); add([(0, "g2_add", lst([p, p]))])
    # every invalid encoding alone and after a valid one
    for kind, b in pools.g1_bad:
        add([(0, "point_add", lst([b]))], tag="g1bad:" + kind); add([(0, "g1_subtract", lst([pools.g1[0], b]))])
        add([(0, "g1_multiply", lst([b, b"\x02"]))]); add([(0, "g1_negate", lst([b]))]); add([(F_RELAXED_BLS, "g1_negate", lst([b]))])
        add([(0, "pairing_identity", lst([b, pools.g2[0]]))]); add([(0, "bls_verify", lst([E.G2_INF, b, b"m"]))])
    for kind, b in pools.g2_bad:
        add([(0, "g2_add", lst([b]))], tag="g2bad:" + kind); add([(0, "g2_subtract", lst([pools.g2[0], b]))])
        add([(0, "g2_multiply", lst([b, b"\x02"]))]); add([(0, "g2_negate", lst([b]))]); add([(F_RELAXED_BLS, "g2_negate", lst([b]))])
        add([(0, "pairing_identity", lst([pools.g1[0], b]))]); add([(0, "bls_verify", lst([b, pools.g1[0], b"m"]))])

    # ---- multiply / pubkey_for_exp
    for s in scal:
        add([(r.choice(flagsets), "pubkey_for_exp", lst([s]))], tag="pubkey_for_exp")
        add([(r.choice(flagsets), "g1_multiply", lst([r.choice(pools.g1), s]))], tag="g1_multiply")
    for s in r.sample(scal, ctx.scale(6, len(scal))):
        add([(r.choice(flagsets), "g2_multiply", lst([r.choice(pools.g2), s]))], tag="g2_multiply")
    for ln in (1024, 1025):
        big = gen.Rep(0x01, ln)
        for fl in (0, F_LIMITS, F_LIMITS | F_NEW_COST_MODEL):
            add([(fl, "g1_multiply", lst([pools.g1[1], big]))], tag="limits"); add([(fl, "g2_multiply", lst([pools.g2[1], big]))])
    add([(0, "pubkey_for_exp", lst([gen.Rep(0xff, 2000)]))]); add([(0, "pubkey_for_exp", lst([gen.Rep(0x7f, 300)]))])
    for name in ("g1_multiply", "g2_multiply", "pubkey_for_exp", "g1_negate", "g2_negate"):
        for k in (0, 1, 2, 3):
            add([(0, name, lst([pools.any_g1(0) if "g1" in name or name == "pubkey_for_exp" else pools.any_g2(0)] * k, r.choice(terms)))], tag="argcount")
        add([(0, name, lst([(b"\x01", b""), (b"\x01", b"")]))]); add([(0, name, lst([(b"\x01", b"")]))])
    add([(0, "g1_multiply", lst([pools.g1[0], (b"", b"")]))]); add([(0, "g1_multiply", lst([E.G1_INF, int_atom(7)]))])

    # ---- negate
    for p in pools.g1 + [E.G1_INF]:
        for fl in (0, F_RELAXED_BLS):
            add([(fl, "g1_negate", lst([p]))], tag="g1_negate")
    for p in pools.g2[:3] + [E.G2_INF]:
        for fl in (0, F_RELAXED_BLS):
            add([(fl, "g2_negate", lst([p]))], tag="g2_negate")
    for _ in range(10 * n):
        add([(r.choice([0, F_RELAXED_BLS]), "g1_negate", lst([pools.any_g1(0.7)]))]); add([(r.choice([0, F_RELAXED_BLS]), "g2_negate", lst([pools.any_g2(0.7)]))])
    # relaxed negate of arbitrary 48/96-byte strings with every top-3-bit pattern
    for top in range(8):
        b1 = bytes([top << 5 | 0x11]) + bytes(r.getrandbits(8) for _ in range(47))
        b2 = bytes([top << 5 | 0x05]) + bytes(r.getrandbits(8) for _ in range(95))
        add([(F_RELAXED_BLS, "g1_negate", lst([b1]))], tag="relaxed-negate"); add([(F_RELAXED_BLS, "g2_negate", lst([b2]))])
    # ---- the validated-point cache: earlier calls in the same allocator must not change later outcomes
    bad1 = pools.g1_bad[0][1]
    bad2 = pools.g2_bad[0][1]
    flip = lambda b: bytes([b[0] ^ 0x20]) + b[1:]
    seqs = [
        [(F_RELAXED_BLS, "g1_negate", lst([bad1])), (0, "g1_negate", lst([flip(bad1)])), (0, "g1_negate", lst([bad1])), (0, "point_add", lst([flip(bad1)]))],
        [(F_RELAXED_BLS, "g2_negate", lst([bad2])), (0, "g2_negate", lst([flip(bad2)])), (0, "g2_negate", lst([bad2]))],
        [(0, "point_add", lst([pools.g1[3]])), (0, "g1_negate", lst([pools.g1[3]])), (0, "g1_negate", lst([flip(pools.g1[3])]))],
        [(0, "g1_negate", lst([bad1])), (F_RELAXED_BLS, "g1_negate", lst([bad1])), (0, "g1_negate", lst([bad1]))],
        [(0, "g1_negate", lst([pools.g1[4]])), (0, "g1_negate", lst([pools.g1[4]])), (0, "g1_subtract", lst([pools.g1[4], pools.g1[4]])), (0, "g1_negate", lst([E.G1_INF]))],
        [(0, "pubkey_for_exp", lst([b"\x05"])), (0, "g1_negate", lst([E.g1_encode(E.G1C.mul(E.G1C.g, 5))]))],
    ]
    for s in seqs:
        add(s, tag="sequence")

    # ---- hash to curve (values from chia_bls: wrapper check only)
    msgs = [b"", b"a", b"hello", bytes(range(64)), gen.Rep(0x61, 1000)]
    for name in ("g1_map", "g2_map"):
        for m in msgs[:ctx.scale(3, 5)]:
            add([(r.choice(flagsets), name, lst([m]))], tag=name); add([(r.choice(flagsets), name, lst([m, b"CUSTOM_DST_"]))])
        add([(0, name, lst([]))]); add([(0, name, lst([b"a", b"b", b"c"]))]); add([(0, name, lst([(b"a", b"")]))]); add([(0, name, lst([b"a", (b"b", b"")]))])
        add([(0, name, lst([b"a"], b"\x01"))]); add([(0, name, lst([b"a", b""]))])
    add([(0, "g1_map", lst([b"abc", b"BLS_SIG_BLS12381G1_XMD:SHA-256_SSWU_RO_AUG_"])), (0, "g1_map", lst([b"abc"]))], tag="default-dst")
    add([(0, "g2_map", lst([b"abc", b"BLS_SIG_BLS12381G2_XMD:SHA-256_SSWU_RO_AUG_"])), (0, "g2_map", lst([b"abc"]))], tag="default-dst")

    # ---- pairing identity on points with known discrete logarithms (sum a_i b_i = 0 mod r <=> identity)
    R = E.BLS_R
    def g1k(k): return E.g1_encode(E.G1C.mul(E.G1C.g, k % R))
    def g2k(k): return E.g2_encode(E.g2_mul(E.G2_GEN, k % R))
    pair_cases = []
    for _ in range(ctx.scale(12, 60)):
        a, b, c = r.randrange(1, R), r.randrange(1, R), r.randrange(1, 50)
        good = [(a, b), (-a * b * pow(c, -1, R), c)]
        kind = r.choice(["good", "good", "bad", "three", "swapped", "withinf"])
        if kind == "bad":
            good = [(a, b), (a * b * pow(c, -1, R) + 1, c)]
        elif kind == "three":
            d = r.randrange(1, R)
            good = [(a, b), (d, 1), (-(a * b + d), 1)]
        elif kind == "withinf":
            good = good + [(0, r.randrange(1, R))]
        items = []
        for x, y in good:
            items += [g1k(x), g2k(y)] if kind != "swapped" else [g2k(y), g1k(x)]
        expect = (sum(x * y for x, y in good) % R == 0) and kind != "swapped"
        pair_cases.append((items, expect, kind))
        add([(r.choice([0, F_NEW_COST_MODEL]), "pairing_identity", lst(items))], tag="pairing:" + kind)
    add([(0, "pairing_identity", lst([]))]); add([(0, "pairing_identity", lst([pools.g1[0]]))]); add([(0, "pairing_identity", lst([], b"\x01"))])
    add([(0, "pairing_identity", lst([pools.g1[0], pools.g2[0]], b"\x01"))]); add([(0, "pairing_identity", lst([E.G1_INF, E.G2_INF]))])
    add([(0, "pairing_identity", lst([pools.g1[0], pools.g2[0], pools.g1[1]]))]); add([(0, "pairing_identity", lst([(b"", b""), pools.g2[0]]))])

    # ---- bls_verify argument shapes (signatures are tested below, on the implementation)
    add([(0, "bls_verify", lst([]))]); add([(0, "bls_verify", lst([E.G2_INF]))]); add([(0, "bls_verify", lst([pools.g2[0]]))])
    add([(0, "bls_verify", lst([E.G2_INF, pools.g1[0]]))]); add([(0, "bls_verify", lst([E.G2_INF], b"\x01"))]); add([(0, "bls_verify", b"\x01")])
    add([(0, "bls_verify", lst([pools.g2[0], pools.g1[0], b"msg"]))]); add([(0, "bls_verify", lst([pools.g2[0], pools.g1[0], (b"m", b"")]))])
    add([(0, "bls_verify", lst([pools.g2[0], pools.g1[0], b"msg", pools.g1[1]]))]); add([(F_NEW_COST_MODEL, "bls_verify", lst([pools.g2[0], pools.g1[0], b"msg", pools.g1[1], gen.Rep(0x41, 500)]))])

    # ---- coinid
    amts = G.amounts(r)
    pid, ph = bytes(r.getrandbits(8) for _ in range(32)), bytes(r.getrandbits(8) for _ in range(32))
    coin_cases = []
    for b, ok in amts:
        c = [(r.choice([0, F_NEW_COST_MODEL]), "coinid", lst([pid, ph, b]))]
        coin_cases.append((ops(c), pid, ph, b, ok))
        add(c, tag="coinid-amount")
    for bad_id in (pid[:31], pid + b"\x00", b"", (pid, b"")):
        for pos in (0, 1):
            args = [pid, ph, b"\x01"]
            args[pos] = bad_id
            c = [(0, "coinid", lst(args))]
            coin_cases.append((ops(c), None, None, None, False))
            add(c, tag="coinid-size")
    add([(0, "coinid", lst([pid, ph]))]); add([(0, "coinid", lst([pid, ph, b"\x01", b"\x01"]))]); add([(0, "coinid", lst([pid, ph, (b"", b"")]))])
    add([(0, "coinid", lst([pid, ph, b"\x01"], b"\x07"))])

    # ---- keccak256 and sha256 (the sha256 OPERATOR's model belongs to another work-stream: implementation vs hashlib only)
    hash_cases = []
    for _ in range(ctx.scale(40, 400)):
        k = r.choice([0, 1, 1, 2, 3, 5])
        chunks = [bytes(r.getrandbits(8) for _ in range(r.choice([0, 1, 31, 32, 55, 56, 64, 135, 136, 137, 272, r.randrange(400)]))) for _ in range(k)]
        fl = r.choice([0, F_NEW_COST_MODEL])
        c = [(fl, "keccak256", lst(chunks, r.choice(terms)))]
        add(c, tag="keccak256")
        hash_cases.append((ops(c), "keccak256", b"".join(chunks)))
        c = [(fl, "sha256", lst(chunks))]
        hash_cases.append((ops(c), "sha256", b"".join(chunks)))
    add([(0, "keccak256", lst([b"a", (b"b", b"")]))]); add([(0, "keccak256", lst([gen.Rep(0x00, 100000)]))])

    # ---- secp256k1 / secp256r1
    secp_cases = []
    for name, S, pre in (("secp256k1_verify", E.SECP_K1, "k1"), ("secp256r1_verify", E.SECP_R1, "r1")):
        for _ in range(ctx.scale(6, 40)):
            sk = r.randrange(1, S.c.n)
            z = bytes(r.getrandbits(8) for _ in range(32))
            Q = S.c.mul(S.c.g, sk)
            pk = S.encode_pubkey(Q, compressed=r.random() < 0.7)
            sig = S.sign(sk, z, r.randrange(1, S.c.n))
            add([(r.choice(flagsets), name, lst([pk, z, sig]))], tag=name + ":valid")
            secp_cases.append((name, S, pk, z, sig))
            rr, ss = int.from_bytes(sig[:32], "big"), int.from_bytes(sig[32:], "big")
            highs = sig[:32] + (S.c.n - ss).to_bytes(32, "big")
            muts = [("high-s", pk, z, highs)]
            for which in range(3):
                f = [bytearray(pk), bytearray(z), bytearray(sig)]
                i = r.randrange(len(f[which])); f[which][i] ^= 1 << r.randrange(8)
                muts.append(("bitflip%d" % which, bytes(f[0]), bytes(f[1]), bytes(f[2])))
            muts += [("sig63", pk, z, sig[:63]), ("sig65", pk, z, sig + b"\x00"), ("msg31", pk, z[:31], sig), ("msg33", pk, z + b"\x00", sig),
                     ("r=0", pk, z, bytes(32) + sig[32:]), ("s=0", pk, z, sig[:32] + bytes(32)), ("r=n", pk, z, S.c.n.to_bytes(32, "big") + sig[32:]),
                     ("s=n", pk, z, sig[:32] + S.c.n.to_bytes(32, "big")), ("pk-empty", b"", z, sig), ("pk-id", b"\x00", z, sig),
                     ("pk-x>=p", b"\x02" + S.c.p.to_bytes(32, "big"), z, sig), ("pk-tag5", b"\x05" + pk[1:33], z, sig),
                     ("pk-hybrid", bytes([6 + (Q[1] & 1)]) + S.encode_pubkey(Q, False)[1:], z, sig), ("pk-32", pk[1:33], z, sig),
                     ("other-key", S.encode_pubkey(S.c.mul(S.c.g, sk + 1)), z, sig)]
            for kind, a, b, c in r.sample(muts, ctx.scale(8, len(muts))):
                add([(0, name, lst([a, b, c]))], tag=name + ":" + kind)
                secp_cases.append((name, S, a, b, c))
        add([(0, name, lst([pk, z]))]); add([(0, name, lst([pk, z, sig, sig]))]); add([(0, name, lst([(pk, b""), z, sig]))])
        add([(0, name, lst([pk, (z, b""), sig]))]); add([(0, name, lst([pk, z, (sig, b"")]))]); add([(0, name, lst([pk, z, sig], b"\x01"))])
        add([(0, name, lst([pk, z, sig]))], max_cost=1299999 if pre == "k1" else 1849999); add([(0, name, lst([pk]))], max_cost=5)

    # ---- first pass (unlimited budget) to learn costs, then budget boundaries
    first = resolve(oracle, cases)
    impl_first = vlib.run_impl("crypto", first)
    extra = []
    for c, o in zip(first, impl_first):
        t = c.split()
        if t[1] != str(BIG) or " / " in (o or "") or not (o or "").startswith("ok"):
            continue
        if r.random() > ctx.scale(0.35, 0.8):
            continue
        cost = int(o.split()[1])
        inner = cost - MALLOC.get(t[3], 0)
        body = c.split(" | ")[0].split(" ", 2)[2]
        for m in sorted(set([inner - 1, inner, r.randrange(0, cost + 1), r.choice([0, 1, cost - 1, cost])])):
            if m >= 0:
                extra.append("ops %d %s" % (m, body))
                ctx.histogram("case_kind", "budget")
    allc = first + resolve(oracle, extra)

    def nontriv(c, a, b):
        return " | " in c or c.split()[3] in ("coinid", "keccak256")
    dis = ctx.correspond("crypto", allc, nontrivial=nontriv, skip=lambda m: m.startswith("need") or m.startswith("skip"))
    # the model runs over independent primitives: a disagreement is a concrete failing input
    for c, a, b in dis[:20]:
        src = sorted(set(oracle.src.get(kv.split("=")[0], "?") for kv in (c.split(" | ")[1].split() if " | " in c else [])))
        ctx.violation("operator result differs from the model over independent primitives (primitive sources: %s)" % ",".join(src),
                      {"case": c.split(" | ")[0], "family": "crypto", "impl": b, "model": a, "primitive_table": c.split(" | ")[1] if " | " in c else ""})

    # ---- reference primitives vs library primitives, key by key (what the tables were built from)
    refkeys = [k for k, s in oracle.src.items() if s == "ref"]
    libv = vlib.run_impl("crypto", ["prim " + k for k in refkeys])
    for k, o in zip(refkeys, libv):
        ctx.evaluations += 1
        want = "= " + oracle.cache[k]
        if o != want and not (o or "").startswith("panic"):
            name = k.split(":")[0]
            ctx.violation("library primitive %s differs from the independent reference" % name,
                          {"case": "prim " + k, "family": "crypto", "impl": o, "reference": want})

    # ---- hashlib / reference Keccak against the operators
    impl = vlib.run_impl("crypto", [c for c, _, _ in hash_cases])
    for (c, name, data), o in zip(hash_cases, impl):
        ctx.evaluations += 1
        st, cost, val = parse_obs(o)
        want = hashlib.sha256(data).digest() if name == "sha256" else E.keccak256(data)
        if c not in ctx.distinct:
            ctx.distinct.add(c); ctx.nontrivial += 1
        if st != "ok" or val != want:
            ctx.violation("%s differs from %s" % (name, "hashlib.sha256" if name == "sha256" else "the reference Keccak-256"),
                          {"case": c, "family": "crypto", "impl": o, "expected": want.hex()})
    impl = vlib.run_impl("crypto", [c[0] for c in coin_cases])
    for (c, a, b, amt, ok), o in zip(coin_cases, impl):
        ctx.evaluations += 1
        st, cost, val = parse_obs(o)
        if ok:
            want = hashlib.sha256(a + b + amt).digest()
            if st != "ok" or val != want:
                ctx.violation("coinid differs from sha256(parent || puzzle || amount)", {"case": c, "family": "crypto", "impl": o, "expected": want.hex()})
        elif st != "err" or cost != "InvalidOpArg":
            ctx.violation("coinid accepted arguments outside its domain", {"case": c, "family": "crypto", "impl": o, "expected": "err InvalidOpArg"})
    # the model's hashes on their own against hashlib / the reference
    hl = []
    for _ in range(ctx.scale(30, 300)):
        d = bytes(r.getrandbits(8) for _ in range(r.choice([0, 1, 55, 56, 63, 64, 65, 119, 120, 135, 136, 137, 271, 272, 273, r.randrange(600)])))
        hl.append(("hash sha256 " + _hx(d), "= " + hashlib.sha256(d).hexdigest()))
        hl.append(("hash keccak " + _hx(d), "= " + E.keccak256(d).hex()))
    mo = vlib.run_model("crypto", [c for c, _ in hl])
    for (c, want), o in zip(hl, mo):
        ctx.evaluations += 1
        if o != want:
            ctx.broken.append(("correspondence", "gallina-hash", "%s\n  model: %s\n  want : %s" % (c, o, want)))

    # ---- pairing: the implementation's decision against the discrete logarithms
    lines = [ops([(0, "pairing_identity", lst(items))]) for items, _, _ in pair_cases]
    for (items, expect, kind), c, o in zip(pair_cases, lines, vlib.run_impl("crypto", lines)):
        ctx.evaluations += 1
        st, x, _ = parse_obs(o)
        good = (st == "ok") if expect else (st == "err")
        if kind == "swapped":
            good = st == "err" and x == "InvalidAllocArg"
        if not good:
            ctx.violation("pairing_identity disagrees with the discrete logarithms (sum a_i*b_i %s 0 mod r)" % ("==" if expect else "!="),
                          {"case": c, "family": "crypto", "impl": o, "expected": "ok" if expect else "err"})

    # ---- bls_verify: signatures sk * H(pk || msg), scalar multiplication by the reference
    nsig = ctx.scale(4, 24)
    sks = [r.randrange(1, R) for _ in range(nsig)]
    ms = [bytes(r.getrandbits(8) for _ in range(r.choice([0, 1, 32, 100]))) + (bytes([i]) if i else b"") for i in range(nsig)]   # pairwise distinct
    pks = [g1k(s) for s in sks]
    hm = vlib.run_impl("crypto", [ops([(0, "g2_map", lst([pk + m]))]) for pk, m in zip(pks, ms)])
    sigs = []
    for s, o in zip(sks, hm):
        st, _, val = parse_obs(o)
        if st != "ok":
            ctx.violation("g2_map failed on a plain message", {"case": "g2_map", "family": "crypto", "impl": o})
            return
        sigs.append(E.g2_mul(E.g2_decode(val)[1], s))
    vcases = []
    for i in range(nsig):
        sig = E.g2_encode(sigs[i])
        vcases.append(([sig, pks[i], ms[i]], True, "single"))
        vcases.append(([sig, pks[i], ms[i] + b"x"], False, "wrong-msg"))
        vcases.append(([sig, pks[(i + 1) % nsig], ms[i]], False, "wrong-key"))
        vcases.append(([E.g2_encode(E.g2_neg(sigs[i])), pks[i], ms[i]], False, "negated-sig"))
        j = (i + 1) % nsig
        agg = E.g2_encode(E.g2_add(sigs[i], sigs[j]))
        vcases.append(([agg, pks[i], ms[i], pks[j], ms[j]], True, "aggregate"))
        vcases.append(([agg, pks[j], ms[j], pks[i], ms[i]], True, "aggregate-reordered"))
        vcases.append(([agg, pks[i], ms[i]], False, "aggregate-missing"))
        vcases.append(([agg, pks[i], ms[j], pks[j], ms[i]], False, "aggregate-crossed"))
    vcases.append(([E.G2_INF], True, "empty"))
    vcases.append(([g2k(5)], False, "empty-nonidentity"))
    lines = [ops([(r.choice([0, F_NEW_COST_MODEL]), "bls_verify", lst(a))]) for a, _, _ in vcases]
    for (a, expect, kind), c, o in zip(vcases, lines, vlib.run_impl("crypto", lines)):
        ctx.evaluations += 1
        ctx.histogram("bls_verify", kind)
        st, x, _ = parse_obs(o)
        if (st == "ok") != expect or (not expect and x != "BLSVerifyFailed"):
            ctx.violation("bls_verify %s a %s signature built with the reference arithmetic" % ("rejected" if expect else "accepted", kind),
                          {"case": c, "family": "crypto", "impl": o, "expected": "ok" if expect else "err BLSVerifyFailed"})
        if c not in ctx.distinct:
            ctx.distinct.add(c); ctx.nontrivial += 1

    # ---- ECDSA: the reference's verdict on every generated case, and the repository's vectors with bit flips
    vec = []
    for fn, name, S in (("test-secp256k1.txt", "secp256k1_verify", E.SECP_K1), ("test-secp256r1.txt", "secp256r1_verify", E.SECP_R1)):
        p = os.path.join(vlib.REPO, "op-tests", fn)
        if not os.path.exists(p):
            continue
        rows = [l.split() for l in open(p) if l.startswith(name)]
        rows = [w for w in rows if len(w) >= 6 and all(x.startswith("0x") for x in w[1:4])]
        for w in r.sample(rows, min(len(rows), ctx.scale(8, 40))):
            pk, z, sig = (bytes.fromhex(x[2:]) for x in w[1:4])
            secp_cases.append((name, S, pk, z, sig))
            for which in range(3):
                f = [bytearray(pk), bytearray(z), bytearray(sig)]
                i = r.randrange(len(f[which])); f[which][i] ^= 1 << r.randrange(8)
                secp_cases.append((name, S, bytes(f[0]), bytes(f[1]), bytes(f[2])))
    lines = [ops([(0, name, lst([a, b, c]))]) for name, S, a, b, c in secp_cases]
    for (name, S, a, b, c), line, o in zip(secp_cases, lines, vlib.run_impl("crypto", lines)):
        ctx.evaluations += 1
        st, x, _ = parse_obs(o)
        v = S.verify(a, b, c) if len(b) == 32 else "badmsg"
        if v == "badpk" and len(b) != 32:
            v = "badpk"
        if v == "other":
            continue
        ctx.histogram("ecdsa_reference_verdict", str(v))
        want = "ok" if v is True else ("err Secp256Failed" if v is False else "err InvalidOpArg")
        got = "ok" if st == "ok" else "err %s" % x
        if line not in ctx.distinct:
            ctx.distinct.add(line); ctx.nontrivial += 1
        if got != want:
            ctx.violation("%s: implementation says %s, the reference ECDSA says %s" % (name, got, want),
                          {"case": line, "family": "crypto", "impl": o, "expected": want})

    # ---- the Gallina ECDSA specification (Model/Ecdsa.v, extracted; ~5-10 s per verification, so few cases)
    #      against the implementation's library calls and the Python reference
    el = []
    for name, S, a, b, c in secp_cases:
        if len(b) != 32:
            continue
        v = S.verify(a, b, c)
        if v == "other":
            continue
        el.append(("ecdsa %s %s %s %s" % ("k1" if S is E.SECP_K1 else "r1", _hx(a), _hx(b), _hx(c)), v))
    slow = [x for x in el if x[1] in (True, False)]
    fast = [x for x in el if x[1] not in (True, False)]
    pick = r.sample(slow, min(len(slow), ctx.scale(6, 32))) + r.sample(fast, min(len(fast), ctx.scale(10, 60)))
    lines = [x[0] for x in pick]
    margv = ["sh", "-c", "ulimit -s unlimited 2>/dev/null || ulimit -s 1000000; exec %s crypto" % os.path.join(vlib.BUILD, "ocaml", "model")]
    mo = vlib._run_sharded(margv, lines, 1500, shards=max(1, min(vlib.NPROC, len(lines))))
    io = vlib.run_impl("crypto", lines)
    for (line, v), m_, i_ in zip(pick, mo, io):
        ctx.evaluations += 1
        ctx.histogram("gallina_ecdsa", str(v))
        want = "= 1 1 1" if v is True else ("= 1 1 0" if v is False else ("= 0 %s 0" % (m_ or "= 0 0 0").split()[2] if v == "badpk" else "= 1 0 0"))
        if m_ != want:
            ctx.broken.append(("correspondence", "gallina-ecdsa-vs-reference", "%s\n  model: %s\n  reference: %s" % (line, m_, v)))
        if m_ != i_:
            ctx.violation("ECDSA: the libraries disagree with the Gallina specification (Model/Ecdsa.v)",
                          {"case": line, "family": "crypto", "impl": i_, "model": m_, "reference": str(v)})
        if line not in ctx.distinct:
            ctx.distinct.add(line); ctx.nontrivial += 1

    # ---- algebraic relations on the implementation alone (large random scalars)
    rel = []
    for _ in range(ctx.scale(4, 40)):
        a, b = r.randrange(-(1 << 300), 1 << 300), r.randrange(-(1 << 300), 1 << 300)
        P = r.choice(pools.g1)
        Q = r.choice(pools.g2)
        rel.append(("g1 a*P + b*P = (a+b)*P", [(0, "g1_multiply", lst([P, int_atom(a)])), (0, "g1_multiply", lst([P, int_atom(b)])), (0, "g1_multiply", lst([P, int_atom(a + b)]))], "sum"))
        rel.append(("g2 a*Q + b*Q = (a+b)*Q", [(0, "g2_multiply", lst([Q, int_atom(a)])), (0, "g2_multiply", lst([Q, int_atom(b)])), (0, "g2_multiply", lst([Q, int_atom(a + b)]))], "sum2"))
        rel.append(("pubkey_for_exp(a) = g1_multiply(G, a)", [(0, "pubkey_for_exp", lst([int_atom(a)])), (0, "g1_multiply", lst([E.g1_encode(E.G1C.g), int_atom(a)]))], "eq"))
        rel.append(("r*P = infinity", [(0, "g1_multiply", lst([P, int_atom(R)])), (0, "point_add", lst([]))], "eq"))
        rel.append(("r*Q = infinity", [(0, "g2_multiply", lst([Q, int_atom(R)])), (0, "g2_add", lst([]))], "eq"))
        rel.append(("negate twice = identity", [(0, "g1_negate", lst([P])), (0, "point_add", lst([P]))], "neg2"))
    lines = [ops(c) for _, c, _ in rel]
    outs = vlib.run_impl("crypto", lines)
    follow = []
    for (what, calls, kind), line, o in zip(rel, lines, outs):
        ctx.evaluations += 1
        parts = [parse_obs(x) for x in (o or "").split(" / ")]
        if any(p[0] != "ok" for p in parts):
            ctx.violation("relation '%s': an operator failed on valid arguments" % what, {"case": line, "family": "crypto", "impl": o})
            continue
        if kind == "eq" and parts[0][2] != parts[1][2]:
            ctx.violation("relation '%s' fails" % what, {"case": line, "family": "crypto", "impl": o})
        if kind in ("sum", "sum2"):
            follow.append((what, ops([(0, "point_add" if kind == "sum" else "g2_add", lst([parts[0][2], parts[1][2]]))]), parts[2][2], line))
        if kind == "neg2":
            follow.append((what, ops([(0, "g1_negate", lst([parts[0][2]]))]), parts[1][2], line))
    outs = vlib.run_impl("crypto", [f[1] for f in follow])
    for (what, line, want, src), o in zip(follow, outs):
        ctx.evaluations += 1
        st, _, val = parse_obs(o)
        if st != "ok" or val != want:
            ctx.violation("relation '%s' fails" % what, {"case": line, "family": "crypto", "impl": o, "expected": want.hex(), "from": src})
