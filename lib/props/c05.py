"""C05 — fast paths and diagnostic build features are unobservable."""
import vlib, gen, gen_prog, runlib, gen_fastops
from gen_prog import FLAG, run_line, parse_obs, head

LEVEL = "other"
FAMILY = "run"

MANIFEST = {
 "level": "other",
 "text": "Partly proved, partly explored. Proved (Props/C05.v), all on the model: (1) the inline small-integer path lookup (traverse_path_fast) equals the generic byte-string lookup (traverse_path) on the canonical encoding - node, cost and error - for every index below 2^32 (inline atoms are below 2^26) and every environment, incl. the extra leading-zero byte at 7/15/23/31 path bits, and in the form the evaluator uses it; (2) the precomputed sha256(1 || n) table re-read from more_ops.rs by the translator has 37 entries, each equal to the Gallina SHA-256 of (1 :: canonical bytes of n) (finite, complete, by computation); (3) the five operator bodies of more_ops.rs that contain a no-fastpath region (op_sha256, op_add, op_subtract, op_multiply, op_gr) are transcribed twice in Model/OpsFast.v - as the default build compiles them and as the no-fastpath build does - over argument lists in which every operand carries its allocator representation (inline small atom below 2^26 / heap atom holding ANY bytes, small canonical integers included / pair), with the u64 checked_add and i64 checked_sub totals, the limbs of the u64/i64 total, new_u64/new_i64, len_for_value, the table index and the order of cost accumulation, budget checks (a CostExceeded inside the fast closure is returned) and fall-back (restart of the generic loop from the saved input with the base cost) written out; each of the ten transcriptions equals the single tree-store operator of the model on the denoted argument list - same cost and atom or same error - for every flag set, budget, argument list and terminator, so the two builds agree on every operator call (C05_*_fast, C05_*_nofast); new_u64/new_i64 and new_number leave the allocator model in the same state (C05_new_u64, C05_new_i64). Not proved: that the transcriptions are what rustc compiles from more_ops.rs under either feature set (tied by the correspondence run `fastops`: the real operator functions of the default and the no-fastpath binaries on arguments built inline or on the heap, against both transcriptions, plus the translator re-reading the table and the literal of op_sha256's NIL return); u64 cost arithmetic is on unbounded naturals; whole runs and the counters / pre-eval features are not modelled - decided by building the harness three times (default, no-fastpath, counters+pre-eval with an observe-only callback) from the current source and comparing every run and every operator call across the binaries (result, cost, error, allocator counts) and with the model.",
 "note": vlib.NOTE_COMMON + " Level 'other': see text.",
 "technique": "Coq proof (fast path lookup = generic lookup; representation-level transcriptions of the default and no-fastpath operator bodies = the generic operator, by induction over the argument list; finite table check by vm_compute) + three separately built harness binaries compared with each other and with the model, on whole runs and on direct operator calls with chosen argument representations",
}


def _strip(o):
    """the part of a fastops observation that the model also produces"""
    return vlib.canon_default(None if o is None else o.split(" | ")[0])


def run_fastops(ctx):
    """direct operator calls with chosen argument representations: default vs no-fastpath vs
    counters+pre-eval binaries (everything observed, incl. allocator counter growth and whether
    the result node is inline), and each binary against its transcription in Model/OpsFast.v"""
    cs = gen_fastops.cases(ctx)
    fast = [gen_fastops.line("fast", c) for c in cs]
    nofast = [gen_fastops.line("nofast", c) for c in cs]
    d = vlib.run_impl("fastops", fast, "default")
    nf = vlib.run_impl("fastops", fast, "nofast")
    ins = vlib.run_impl("fastops", fast, "instr")
    for c, l, a, b, e in zip(cs, fast, d, nf, ins):
        ok = (a or "").startswith("ok")
        ctx.histogram("fastops_operator", c[0])
        ctx.histogram("fastops_outcome", (a or "none").split(" | ")[0].split(" ")[0] + ("" if ok else " " + (a or "none").split(" ")[1].split("[")[0]))
        reprs = "".join(sorted(set(x[0] for x in c[4]))) or "-"
        ctx.histogram("fastops_operand_representations", reprs)
        for name, o in (("no-fastpath", b), ("counters+pre-eval features", e)):
            if o != a:
                ctx.violation("the %s build gives a different result for a direct operator call" % name,
                              {"family": "fastops", "case": l[:3000], "impl": o, "default_build": a, "variant": name})
        if (a or "").startswith("panic"):
            ctx.violation("operator call panics", {"family": "fastops", "case": l[:3000], "impl": a})
    nt = lambda c, m, i: (i or "").startswith("ok")
    ctx.correspond("fastops", fast, variant="default", canon=_strip, name="fastops:fast", nontrivial=nt)
    ctx.correspond("fastops", nofast, variant="nofast", canon=_strip, name="fastops:nofast", nontrivial=nt)
    ctx.correspond("fastops", [gen_fastops.line("gen", c) for c in cs[::2]], variant="default", canon=_strip,
                   name="fastops:generic", nontrivial=nt)


def run(ctx):
    r = ctx.rng
    ctx.rule = ("generated programs concentrated on all-small-integer argument lists, sums/products crossing 2^31, 2^32, 2^63, 2^64, "
                "(sha256 1 n) for n around 36/37, path atoms at every bit length 1..33 in inline and heap form; every line runs on "
                "the default, no-fastpath and counters+pre-eval builds; non-trivial = distinct line that succeeds. Family fastops: "
                "direct calls of op_add/op_subtract/op_multiply/op_gr/op_sha256 on argument lists whose operands are built inline or "
                "on the heap (all-inline lists with one operand moved to the heap / made non-small / a pair at every position, heap "
                "atoms holding small canonical integers and their non-canonical spellings, totals leaving u32 and crossing 2^63/2^64/"
                "i64 min/max, budgets at every check point +-1, (sha256 1 n) n=0..40 in every representation, sizes 255/256/257 and "
                "1024/1025 limbs for * with and without LIMITS); non-trivial = distinct call that succeeds")
    ctx.explanation = "see MANIFEST level text"
    ctx.proofs()
    if not ctx.build(variants=("default", "nofast", "instr")):
        return
    run_fastops(ctx)
    from gen_prog import q, op, i2a, lst
    n = ctx.scale(400, 6000)
    pool = runlib.program_pool(ctx, n, n_unknown=ctx.scale(20, 100), flags_for_guards=(0,))
    P = []
    ints = [0, 1, 2, 0x7f, 0x80, 0xff, 0x100, 0x7fff, 0x8000, 0x7fffff, 0x800000, 0x3ffffff, 0x4000000, 2 ** 31 - 1, 2 ** 31,
            2 ** 32 - 1, 2 ** 32, 2 ** 62, 2 ** 63 - 1, 2 ** 63, 2 ** 64 - 1, 2 ** 64, -1, -0x80, -0x81, -2 ** 31, -2 ** 63, -2 ** 63 - 1]
    for _ in range(ctx.scale(400, 6000)):
        k = r.choice([0, 1, 2, 2, 3, 5, 9])
        args = [q(i2a(r.choice(ints) + r.choice([-1, 0, 0, 1]))) if r.random() < 0.85 else q(gen.gen_atom(r)) for _ in range(k)]
        code = r.choice([16, 17, 18, 21, 11, 16, 17, 19, 20, 61, 22, 23, 24, 25, 26, 27, 10, 9, 13, 14])
        P.append((gen.tt(op(code, *args)), gen.tt(b"")))
    for nn in list(range(0, 45)) + [0x7f, 0x80, 0xff, 0x100, 0x3ffffff, 0x4000000]:
        P.append((gen.tt(op(11, q(i2a(1)), q(i2a(nn)))), gen.tt(b"")))
        P.append((gen.tt(op(11, q(i2a(nn)))), gen.tt(b"")))
        P.append((gen.tt(op(11, q(b"\x01" + i2a(nn)))), gen.tt(b"")))
    deep = b"leaf"
    for i in range(40):
        deep = (deep, i2a(i)) if i % 3 else (i2a(i), deep)
    for bits in range(1, 36):
        for _ in range(2):
            v = (1 << (bits - 1)) | r.getrandbits(bits - 1) if bits > 1 else 1
            P.append((gen.tt(i2a(v)), gen.tt(deep)))
            P.append((gen.tt(b"\x00" + i2a(v)), gen.tt(deep)))
    # paths that follow the spine of `deep` (so the lookup SUCCEEDS and its cost is observed) with
    # 0..36 path bits, incl. the 7/15/23/31-bit paths whose canonical encoding carries a zero byte;
    # stepping off the spine at the last bit reaches an atom (also a success)
    for k in range(0, 37):
        v = 1 << k
        for j in range(k):
            if (39 - j) % 3 == 0:
                v |= 1 << j
        for w in (v, v ^ (1 << (k - 1))) if k else (v,):
            P.append((gen.tt(i2a(w)), gen.tt(deep)))
            P.append((gen.tt(b"\x00" + i2a(w)), gen.tt(deep)))
            P.append((gen.tt(op(16, i2a(w), q(i2a(1)))), gen.tt(deep)))
    lines = []
    for p, e, tag in [(p, e, "") for p, e in P] + pool:
        for f in runlib.flag_variants(r, tag, 0.12):
            m = r.choice([0, 0, 11000000000, r.randrange(1, 10 ** 5)])
            kw = {"enc": r.randrange(1, 10 ** 6)} if r.random() < 0.3 else {}
            lines.append(run_line(p, e, f=f, m=m, **kw))
    d = vlib.run_impl("run", lines, "default")
    nf = vlib.run_impl("run", lines, "nofast")
    ins = vlib.run_impl("run", lines, "instr")
    pre = vlib.run_impl("run", [l.replace("run d=chia", "run pre=1 d=chia", 1) for l in lines], "instr")
    runlib.note_outcomes(ctx, d)
    for l, a, b, c, e in zip(lines, d, nf, ins, pre):
        runlib.count_case(ctx, l, nontrivial=(a or "").startswith("ok"))
        for name, o in (("no-fastpath", b), ("counters+pre-eval features", c), ("pre-eval callback", e)):
            if o != a:
                ctx.violation("the %s build observes a different run" % name,
                              {"family": "run", "case": l[:3000], "impl": o, "default_build": a, "variant": name})
    runlib.check_no_panic(ctx, lines, d)
    runlib.correspond_run(ctx, lines, name="run:fastpath", variant="default")
    runlib.correspond_run(ctx, lines[::3], name="run:nofast", variant="nofast")
