"""C25 — the interpreter is total: no panics, no internal errors."""
import vlib, gen, gen_prog, runlib
from gen_prog import FLAG, run_line, parse_obs, head

LEVEL = "other"
FAMILY = "run"

MANIFEST = {
 "level": "other",
 "text": "Proved for every program, environment, flag set, budget and fuel about the Gallina model of run_program.rs (Props/C25.v): the stack discipline invariant (value, environment, operation and guard stacks are consistent at every step) makes every InternalError site (value stack empty, environment stack empty, allocator checkpoint stack empty) and every expect()/unwrap() of the loop unreachable, so the model's run returns a result or a user-level error provided the dialect's operators do (operator contract op_total, proved per operator under the stated size bounds). What a Gallina model cannot exhibit - native stack depth, the memory allocator aborting, wall-clock time, the arena-level InternalError sites of allocator.rs - is observed only: every generated program and every direct operator call on arbitrary argument trees runs under catch_unwind in a separate process with all flag sets and budgets, and any panic, crash or InternalError is a violation.",
 "note": vlib.NOTE_COMMON + " Level 'other': runtime resources are outside the model.",
 "technique": "Coq proof (stack-discipline invariant over the machine; per-operator totality contracts) + model/implementation differential run + crash/panic/internal-error search on the implementation (programs and direct operator calls)",
}


import re
_TOK = re.compile(r"a([0-9a-f]*);|z[0-9a-f]{2}\*(\d+);")


def tree_needs(tt):
    """(atoms, pairs, heap bytes) the harness needs to build a transport tree (upper bounds)"""
    atoms = heap = 0
    for m in _TOK.finditer(tt):
        atoms += 1
        heap += len(m.group(1)) // 2 if m.group(2) is None else int(m.group(2))
    return atoms, tt.count("p"), heap


def run(ctx):
    r = ctx.rng
    ctx.rule = ("generated programs (all sources, incl. arbitrary trees used as programs, deep lists, improper lists, huge shift "
                "counts, big operands) x random flag sets x budgets {0, tiny, random}; fresh and pre-populated allocators, "
                "allocators pre-loaded to within a few nodes of the atom and pair caps and with a small heap limit; "
                "non-trivial = every distinct line (the property is about every input)")
    ctx.explanation = "see MANIFEST level text"
    ctx.proofs()
    if not ctx.build():
        return
    n = ctx.scale(700, 12000)
    pool = runlib.program_pool(ctx, n, n_unknown=ctx.scale(80, 500), flags_for_guards=(0, FLAG["NEW_COST_MODEL"]))
    # arbitrary trees as programs
    for _ in range(ctx.scale(300, 5000)):
        t = gen.gen_tree(r, r.choice([1, 2, 3, 5, 8, 20, 60]), share=r.choice([0, 0.3]))
        e = gen.gen_tree(r, r.choice([1, 3, 8]))
        pool.append((gen.tt(t), gen.tt(e), "tree"))
    for d in (1000, 20000):
        pool.append((gen.tt(gen.deep_list(r, d)), gen.tt(b""), "deep"))
        pool.append((gen.tt(gen.deep_list(r, d, right=False)), gen.tt(b""), "deep"))
        # deep nesting of quotes / applies
        t = gen_prog.q(gen_prog.i2a(1))
        for _ in range(d // 10):
            t = gen_prog.op(gen_prog.A, gen_prog.q(t), gen_prog.q(b""))
        pool.append((gen.tt(t), gen.tt(b""), "deep-apply"))
    # programs on which the ENABLE_GC roll-back has real work to do (it must never surface an internal error)
    pool += gen_prog.gc_directed_programs()
    lines = []
    for p, e, tag in pool:
        f = runlib.pick_flags(r, tag, 0.2, include=FLAG["ENABLE_GC"] if tag.startswith("directed-gc") else 0)
        m = r.choice([0, 0, 1, 50, r.randrange(1, 10 ** 4), r.randrange(1, 10 ** 7), 11000000000])
        kw = {}
        k = r.random()
        if k < 0.15:
            kw["h"] = r.randrange(1, 10 ** 6)
        elif k < 0.3:
            kw["enc"] = r.randrange(1, 10 ** 6)
        na, np_, nh = [x + y for x, y in zip(tree_needs(p), tree_needs(e))]
        # the allocator is pre-loaded so that building the inputs still fits (the harness unwraps
        # there) and the RUN starts within a few nodes / bytes of a cap
        if k < 0.3:
            pass
        elif k < 0.4:
            kw["ga"] = 62500000 - 2 - na - r.randrange(1, 60)
        elif k < 0.5:
            kw["gp"] = 62500000 - np_ - r.randrange(0, 60)
        elif k < 0.6:
            kw["lim"] = nh + 1 + r.randrange(0, 3000)
        lines.append(run_line(p, e, f=f, m=m, **kw))
        ctx.histogram("allocator_setup", next(iter(kw), "fresh"))
    outs = vlib.run_impl("run", lines)
    runlib.note_outcomes(ctx, outs)
    for l, o in zip(lines, outs):
        runlib.count_case(ctx, l)
    runlib.check_no_panic(ctx, lines, outs)
    plain = [l for l in lines if " ga=" not in l and " gp=" not in l and " lim=" not in l]
    runlib.correspond_run(ctx, plain, name="run:totality")
