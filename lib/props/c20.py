"""C20 — serde_2026 round-trips, is total, and is recognisable."""
import itertools
import subprocess
import vlib, gen, gen_dag, gen_s2026

LEVEL = "proof"
FAMILY = "s2026"

MANIFEST = {
 "level": 'proof',
 "text": "Every conjunct of the statement is a Coq theorem about the Gallina model (coq/Props/C20.v): round trip in strict and lenient mode (C20_roundtrip, C20_roundtrip_stream), probe = blob length (C20_len), the serializer returns normally and fails exactly on its MAX_INDEX check (C20_serializer_total; all three in C20_serialize_all), decoder and probe total on every byte string and every max_atom_len (C20_decoder_total, C20_probe_total, C20_alloc_bounded), probe = bytes consumed (C20_probe_consumed), classic and both back-reference decoders reject the magic prefix (C20_magic_classic, C20_magic_backref, C20_magic_backref_probe). Limits of the round-trip theorems, stated in the header of Props/C20.v: atoms are byte strings shorter than 2^55 (the 56-bit varint range; the allocator cannot hold such an atom), max_atom_len >= every atom length, blob shorter than 2^64. The model covers the serializer byte for byte (interning, reference counts, the atom sort, grouping, instruction emission, varints), the decoder in strict and lenient mode with max_atom_len, and the length probe; it is compared with the implementation on trees x levels and on exhaustive short / grammar-mutated / random byte strings x max_atom_len in {0,1,2^20,2^63,...}. Every relation of the statement is also searched on the implementation alone.",
 "note": vlib.NOTE_COMMON + " Real memory use is outside the model: the only allocation whose size comes from the input is bounded by max_atom_len by construction. The allocator's limits (atom/pair counts, heap size) are outside the model: decoded values are built in a free value algebra.",
 "technique": 'Coq proof (varint round trip composed over the length-grouped atom table and the instruction list; instruction semantics rebuilds the interned tree; sort = permutation; emit fuel by a once-per-pair expansion invariant; fuel/consumption invariants for decoder totality; lock-step simulation decoder/probe; first-byte dispatch of the classic and back-reference decoders) + model/implementation differential run (exhaustive <= 2-byte bodies, grammar-aware mutations) + implementation search',
}

MAXES = [0, 1, 2**20, 2**63]
LEVELS = [0, 0, 1, 2, 7, 2**32 - 1]
ALLOC_CAP = 2**22     # declared atom lengths above this are not handed to the decoder with a larger max_atom_len


def run(ctx):
    r = ctx.rng
    ctx.rule = ("trees: DAGs of 1..120 nodes (shared NodePtrs and equal copies, atoms inline and on the heap, pools with many atoms of equal length, "
                "> 62 atoms / pairs so that indices need 2-byte varints) x levels {0,1,2,7,2^32-1}, serializer bytes and all round-trip relations; "
                "byte strings: every body of <= 2 bytes and every 3-byte body starting 00/01 after the magic prefix, grammar-built valid blobs (groups in any "
                "order, negative length with count 1, -1 cons opcodes, pair back-references) and 32 kinds of grammar-aware mutation (length 0 / huge, count 0 / huge / "
                "negative, group and instruction counts off by one / huge / negative, atom and pair indices out of range, forward pair reference, stack underflow, "
                "left-over stack, overlong varints, truncation, trailing bytes, bit flips, 0xff, missing or damaged magic), each with strict and lenient and "
                "max_atom_len in {0, 1, 2^20, 2^63, longest declared length, that - 1}; non-trivial = a tree with a pair, or a byte string of >= 9 bytes")
    ctx.explanation = ("Model vs implementation on every case (serializer output bytes; decoder result tree digest + bytes consumed or error kind; probe value or error kind; "
                       "classic decoder's verdict). Search on the implementation alone: round trip strict and lenient, probe = blob length, classic and both back-reference decoders and the back-reference length probe "
                       "reject every magic-prefixed blob (the latter three also model vs implementation, family br), decode ok => probe ok with the bytes consumed, strict ok => lenient ok with the same result, no panic.")
    ctx.proofs()
    if not ctx.build():
        return
    # ---------------------------------------------------------------- trees
    dags = []
    for _ in range(ctx.scale(500, 20000)):
        dags.append(gen_dag.gen_dag(r, max_expanded=1500))
    for _ in range(ctx.scale(100, 4000)):
        dags.append(gen_dag.from_tree(gen.gen_tree(r, share=r.choice([0.0, 0.3]))))
    for n in ctx.scale([100, 400], [100, 400, 1500]):
        dags.append(gen_dag.from_tree(gen.deep_list(r, n, right=True)))
        dags.append(gen_dag.from_tree(gen.deep_list(r, n, right=False)))
    # many distinct atoms of few lengths (groups with count > 1, > 62 atoms: 2-byte atom indices)
    for k in ctx.scale([3, 70, 140], [3, 70, 140, 600]):
        nodes = [("a", bytes([1 + (i % 250)]) * (1 + i % 3) + bytes([i // 250]) * (i // 250 > 0), "a") for i in range(k)]
        cur = 0
        for i in range(1, k):
            nodes.append(("p", i, cur))
            cur = len(nodes) - 1
        # reference every pair again so that pair back-references with 2-byte varints occur
        base = len(nodes)
        for i in range(k, base):
            nodes.append(("p", i, cur))
            cur = len(nodes) - 1
        dags.append(gen_dag.Dag(nodes, cur))
    tree_cases = []
    impl_tree = []
    for d in dags:
        s = d.emit(r, ref_prob=r.choice([0.0, 0.5, 1.0]))
        lv = r.choice(LEVELS)
        tree_cases.append("ser %d %s" % (lv, s))
        tree_cases.append("rt %d %s" % (lv, s))
        impl_tree.append("rtbr %d %s" % (lv, s))
        ctx.histogram("tree-nodes", "<=3" if d.expanded() <= 3 else "<=30" if d.expanded() <= 30 else "<=300" if d.expanded() <= 300 else ">300")
    ctx.correspond("s2026", tree_cases, name="s2026-trees", nontrivial=lambda c, a, b: "p" in c.split()[2])
    # search: every relation on the implementation
    lines = [c for c in tree_cases if c.startswith("rt ")]
    outs = vlib.run_impl("s2026", lines)
    for l, o in zip(lines, outs):
        ctx.evaluations += 1
        f = dict(x.split("=", 1) for x in o.split()[1:]) if o.startswith("ok ") else {}
        if not f:
            ctx.violation("serialize_2026 failed or panicked: " + o[:200], {"case": l, "family": "s2026", "impl": o})
            continue
        toks = o.split()
        # ok len=N strict=B probe=P lenient=B probe=P classic=E
        ln = toks[1].split("=")[1]
        if toks[2] != "strict=true" or toks[4] != "lenient=true":
            ctx.violation("deserialize_2026(serialize_2026(t)) is not t (%s %s)" % (toks[2], toks[4]), {"case": l, "family": "s2026", "impl": o})
        if toks[3] != "probe=" + ln or toks[5] != "probe=" + ln:
            ctx.violation("serialized_length_serde_2026 of serializer output is not the blob length", {"case": l, "family": "s2026", "impl": o})
        if toks[6] == "classic=ACCEPT":
            ctx.violation("the classic decoder accepts a serde_2026 blob", {"case": l, "family": "s2026", "impl": o})
    outs = vlib.run_impl("s2026", impl_tree)
    for l, o in zip(impl_tree, outs):
        ctx.evaluations += 1
        if not o.startswith("ok ") or "ACCEPT" in o:
            ctx.violation("a back-reference decoder accepts a serde_2026 blob (or failed abnormally): " + o[:200], {"case": l, "family": "s2026", "impl": o})
    # ---------------------------------------------------------------- byte strings
    blobs = []   # (bytes, tag)
    for ln in (0, 1, 2):
        for tup in itertools.product(range(256), repeat=ln):
            blobs.append((gen_s2026.MAGIC + bytes(tup), "short"))
    firsts = ctx.scale([0, 1], [0, 1, 2, 0x7f, 0x80, 0xff])
    for f in firsts:
        for tup in itertools.product(range(256), repeat=2):
            blobs.append((gen_s2026.MAGIC + bytes((f,) + tup), "short3"))
    for i in range(7):
        blobs.append((gen_s2026.MAGIC[:i], "prefix"))
    nvalid = ctx.scale(1500, 60000)
    structured = []
    for _ in range(nvalid):
        b = gen_s2026.gen_valid(r)
        data = b.encode()
        structured.append((data, "valid", b.max_len()))
        for _ in range(3):
            k, m = gen_s2026.mutate(r, b)
            structured.append((m, "mut-" + k, b.max_len()))
    for _ in range(ctx.scale(500, 20000)):
        body = bytes(r.getrandbits(8) for _ in range(r.randrange(0, 14)))
        structured.append(((gen_s2026.MAGIC if r.random() < 0.9 else b"") + body, "random", 0))
    cases = []
    for data, tag in blobs:
        h = gen.hx(data)
        # the exhaustive blocks: strict and lenient, one max_atom_len each (no atom is declared in <= 3 bytes that could be read)
        for s in "10":
            cases.append("de %s %d %s" % (s, 2**20, h))
            cases.append("probe %s %d %s" % (s, 2**20, h))
        ctx.histogram("bytes", tag)
    for data, tag, ml in structured:
        h = gen.hx(data)
        decl = gen_s2026.declared_lengths(data)
        for s in "10":
            mx = r.choice(MAXES + [ml, max(0, ml - 1)])
            cases.append("probe %s %d %s" % (s, mx, h))
            if any(ALLOC_CAP < x <= mx for x in decl):
                mx = 2**20          # the decoder would really allocate a declared length up to max_atom_len
            cases.append("de %s %d %s" % (s, mx, h))
        ctx.histogram("bytes", tag)
    ctx.correspond("s2026", cases, name="s2026-bytes", nontrivial=lambda c, a, b: len(c.split()[3]) >= 18)
    cl = ["cl " + gen.hx(data) for data, tag, ml in structured if data[:6] == gen_s2026.MAGIC]
    ctx.correspond("s2026", cl, name="s2026-classic", nontrivial=lambda c, a, b: len(c.split()[1]) >= 18)
    # search on the implementation: relations between the observations
    outs = vlib.run_impl("s2026", cases)
    obs = dict(zip(cases, outs))
    for c, o in obs.items():
        ctx.evaluations += 1
        if o.startswith("panic") or o.startswith("crash"):
            ctx.violation("the decoder or the probe panicked: " + o[:200], {"case": c, "family": "s2026", "impl": o})
            continue
        t = c.split()
        if t[0] == "de":
            ctx.histogram("decode", " ".join(o.split()[:1] + (o.split()[1:2] if o.startswith("err") else [])))
            if o.startswith("ok "):
                consumed = o.split()[-1]
                p = obs.get("probe %s %s %s" % (t[1], t[2], t[3]))
                if p is not None and p != "ok " + consumed:
                    ctx.violation("decoding succeeds consuming %s bytes but the length probe says: %s" % (consumed, p),
                                  {"case": c, "family": "s2026", "impl": o, "probe": p})
                if t[1] == "1":
                    l = obs.get("de 0 %s %s" % (t[2], t[3]))
                    if l is not None and l != o:
                        ctx.violation("strict decoding succeeds but lenient decoding differs: " + l[:200], {"case": c, "family": "s2026", "impl": o})
    # the models of both back-reference decoders and of the back-reference length probe (Model/BackRef.v,
    # about which C20_magic_backref / C20_magic_backref_probe are stated) against the implementation on
    # magic-prefixed blobs (result, error kind and the pair count left behind), and the property itself
    brm = [k + " " + gen.hx(data) for data, tag, ml in structured if data[:6] == gen_s2026.MAGIC for k in ("new", "old", "probe")]
    brm += [k + " " + gen.hx(data) for data, tag in blobs if data[:6] == gen_s2026.MAGIC and tag != "short3" for k in ("new", "old", "probe")]
    ctx.correspond("br", brm, name="s2026-backref-magic", nontrivial=lambda c, a, b: len(c.split()[1]) >= 18)
    outs = vlib.run_impl("br", brm)
    for l, o in zip(brm, outs):
        ctx.evaluations += 1
        if not o.startswith("err "):
            ctx.violation("a back-reference decoder / length probe accepts a blob that starts with the 2026 magic prefix (or failed abnormally): " + o[:200],
                          {"case": l, "family": "br", "impl": o})
    clbr = ["clbr " + gen.hx(data) for data, tag, ml in structured if data[:6] == gen_s2026.MAGIC] + \
           ["clbr " + gen.hx(data) for data, tag in blobs if data[:6] == gen_s2026.MAGIC and tag != "short3"]
    outs = vlib.run_impl("s2026", cl + clbr)
    for l, o in zip(cl + clbr, outs):
        ctx.evaluations += 1
        if not o.startswith("ok ") or "ACCEPT" in o:
            ctx.violation("a classic / back-reference decoder accepts a blob that starts with the 2026 magic prefix (or failed abnormally): " + o[:200],
                          {"case": l, "family": "s2026", "impl": o})
    alloc_probe(ctx)


def alloc_probe(ctx):
    """Directed cases, part of the verdict: blobs of a few bytes that declare one atom of 2^32 .. 2^55
    bytes, decoded with max_atom_len = 2^63. Before the repair recorded as F9 in known_findings.json
    the decoder resized its buffer to the declared length up front, asked for up to petabytes and
    the process aborted (SIGABRT, not a catchable panic). Each case runs in its own process under
    an address-space limit; anything but a normal error return is a violation."""
    for ln in (2**32, 2**40, 2**47, 2**55 - 1):
        blob = gen_s2026.MAGIC + gen_s2026.wvar(1) + gen_s2026.wvar(ln) + b"abc" + gen_s2026.wvar(1) + gen_s2026.wvar(2)
        for strict in (1, 0):
            case = "de %d %d %s" % (strict, 2**63, blob.hex())
            ctx.evaluations += 1
            try:
                p = subprocess.run(["sh", "-c", "ulimit -v 4000000; exec %s s2026" % vlib.harness_bin()],
                                   input=case + "\n", capture_output=True, text=True, timeout=120)
                obs = {"case": case, "exit_status": p.returncode, "stdout": p.stdout.strip()[:200], "stderr": p.stderr.strip()[-200:]}
            except Exception as e:  # noqa
                obs = {"case": case, "error": repr(e)}
            ctx.extra_cov.setdefault("alloc_probes_max_atom_len_2^63", []).append(obs)
            if obs.get("exit_status") != 0 or not obs.get("stdout", "").startswith("err"):
                ctx.violation("the 2026 decoder does not return normally on a short blob that declares a huge atom "
                              "(max_atom_len 2^63): exit status %s, output %r" % (obs.get("exit_status"), obs.get("stdout") or obs.get("stderr")),
                              {"case": case, "family": "s2026", "impl": "exit=%s %s" % (obs.get("exit_status"), obs.get("stdout", ""))})
