"""C19 — incremental serializer histories produce valid serializations."""
import json, os
import vlib, gen, gen_incr as gi

LEVEL = "other"
FAMILY = "incr"

MANIFEST = {
 "level": 'other',
 "text": "Proved about the Gallina model of incremental.rs (Model/Incremental.v: read-op stack, write stack, the parse stack driven through push/pop2_and_cons, a Cursor<Vec<u8>> output with overwrite/zero-fill semantics, undo records; TreeCache's path search is an oracle that is a parameter of every add): (C19_undo) in every state reachable by add/restore calls with arbitrary oracles, restoring any undo state that is still live - not only the latest - gives back exactly the state in which it was taken (bytes, size and all later behaviour), the output is append-only under add and restore truncates it; (C19_decode) if every path returned by the oracle denotes, in the decoder's stack at that point, the tree of the node being written, then when add reports completion the bytes are an encoding (relation enc of C17) of the tree assembled from the retained additions, hence decode to it in the grammar, in both decoders and in the length probe; (C19_salt) add/restore use the oracle's answers only: two oracles that answer alike give the same bytes; (C19_add_total) in reachable states add passes no panic site of the model and never runs out of fuel, for any oracle, given atoms and paths below 2^34 bytes. NOT proved: anything about tree_cache.rs (path search, parent lists, salted hashing): the premise of C19_decode is checked on every run instead - and it FAILS on the unchanged code (finding F10: the sentinel's parent links are moved to the root of the next addition; this is wrong when an added tree holds the sentinel more than once, when the addition is undone, and when a NodePtr holding the sentinel is added or occurs more than once). Model vs implementation after every call of add/undo histories, the model driven with the implementation's own paths; implementation search for undo bytes, append-only output, the decoded tree (both decoders) against the tree assembled in Python, and salt independence (three serializers per history in one process, two processes).",
 "note": vlib.NOTE_COMMON + " Level 'other': the path search of tree_cache.rs is not modelled; its outputs are validated on every run.",
 "technique": 'Coq proof (state machine of incremental.rs with the path search as an oracle: undo = exact state restoration for every live undo state; completed output is an enc-encoding of the assembled tree when every emitted path is valid) + model/implementation run after every call with the implementation\'s own paths validated against the model stack + implementation search (undo bytes, decode = assembled tree, three salts per history)',
}

F10 = "F10-sentinel-parent-transfer"


def features(h):
    """which trigger of finding F10 a history has (empty = none: the parent transfer is sound there).
    Histories in upstream's shape - every addition is sentinel-free or a pair (sentinel-free . sentinel)
    - have none whatever they undo: no pair above a sentinel is completed before the very end."""
    nh = []
    uses = {}
    for i, d in enumerate(h["defs"]):
        if d[0] == "a":
            nh.append(0)
        else:
            g = lambda x: 1 if x == "s" else nh[x]
            nh.append(g(d[1]) + g(d[2]))
            for x in (d[1], d[2]):
                if x != "s":
                    uses[x] = uses.get(x, 0) + 1
    adds = [o[1] for o in h["ops"] if o[0] == "A"]

    def tail_shaped(i):
        if i == "s":
            return False
        if nh[i] == 0:
            return True
        d = h["defs"][i]
        return d[2] == "s" and d[1] != "s" and nh[d[1]] == 0
    if all(tail_shaped(i) for i in adds):
        return []
    f = []
    if gi.max_holes_per_add(h) >= 2:
        f.append("several-sentinels-in-one-addition")
    # an addition is undone and something is added afterwards
    seen_undo = False
    for o in h["ops"]:
        if o[0] == "U":
            seen_undo = True
        elif seen_undo:
            f.append("addition-after-undo")
            break
    # a NodePtr that holds the sentinel and is used more than once (as a child or as an addition)
    for i in adds:
        if i != "s":
            uses[i] = uses.get(i, 0) + 1
    if any(nh[i] > 0 and c > 1 for i, c in uses.items()):
        f.append("sentinel-holding-node-used-twice")
    return f


def judge(h, o):
    """the property on one implementation observation: list of (kind, text)"""
    bad = []
    if o is None or o.startswith("panic") or o.startswith("crash"):
        return [("panic", str(o)[:200])]
    main, _, salt = o.partition(" SALT-DIFF ")
    if salt:
        bad.append(("salt", "a second serializer over the same history gave other bytes: " + salt[:160]))
    items = main.split("|")
    acc = gi.replay(h)
    if len(items) != len(acc):
        bad.append(("short", "observed %d of %d calls" % (len(items), len(acc))))
    before = {}
    cur = "-"
    nadd = 0
    for op, it, (ret, open_) in zip(h["ops"], items, acc):
        f = it.split(":")
        if op[0] == "A":
            if f[1] == "err":
                bad.append(("add-err", it))
                break
            before[nadd] = cur
            nadd += 1
            hx = f[3]
            if not (hx if hx != "-" else "").startswith(cur if cur != "-" else ""):
                bad.append(("not-append-only", "add changed bytes already written: %s -> %s" % (cur[:80], hx[:80])))
            if int(f[2]) != (0 if hx == "-" else len(hx) // 2):
                bad.append(("size", "size() %s but get_ref() holds %d bytes" % (f[2], 0 if hx == "-" else len(hx) // 2)))
            done = f[1] == "1"
            if done != (open_ == 0):
                bad.append(("done-flag", "add returned done=%s with %d sentinel positions open" % (done, open_)))
            if done and open_ == 0:
                want = gi.assemble(ret)
                wt = gen.tt(want)
                dec, old = f[4][4:], f[5][4:]
                if dec != wt or old != wt:
                    bad.append(("decode", "completed bytes %s decode to %s (legacy decoder: %s), assembled tree is %s"
                                % (hx[:200], dec[:200], old[:200], wt[:200])))
            cur = hx
        else:
            hx = f[2]
            if hx != before[op[1]]:
                bad.append(("undo-bytes", "restore of the undo state of add #%d left %s, before that add the serializer held %s"
                            % (op[1], hx[:120], before[op[1]][:120])))
            if int(f[1]) != (0 if hx == "-" else len(hx) // 2):
                bad.append(("size", "after restore size() %s but get_ref() holds %d bytes" % (f[1], 0 if hx == "-" else len(hx) // 2)))
            cur = hx
    return bad


def oracle_of(o):
    main = (o or "").partition(" SALT-DIFF ")[0]
    out = []
    for it in main.split("|"):
        f = it.split(":")
        if f[0] == "a" and len(f) > 3:
            out.append(f[3])
    return out


def strip_flags(m):
    """model observation without its model-only flags"""
    items = []
    flags = []
    for it in (m or "").split("|"):
        k = it.find("!")
        if k >= 0:
            flags.append(it[k:])
            it = it[:k]
        items.append(it)
    return "|".join(items), flags


def run(ctx):
    r = ctx.rng
    ctx.rule = ("histories of add / restore over a node table (one NodePtr per entry, shared entries = a DAG): streams 'list' ((item . sentinel) per call, the "
                "upstream use), 'same' (one sentinel-holding NodePtr added again and again), 'single' (one sentinel at a random position per addition), 'readd', "
                "'multi' (0-3 sentinels per addition), 'dag' (a sentinel-holding sub-node used twice), 'whole' (the sentinel itself as an addition), 'nosent' "
                "(Serializer::new(None)); sentinel = fresh pair or fresh heap atom; undo with probability 0-0.5 per step, LIFO and non-LIFO (an older live undo "
                "state), the same state restored twice, several undos in a row, undo after a completed add, then other additions; atoms from a small pool "
                "(mostly 3-10 bytes so that back-references occur), sub-tree reuse 0-0.6; plus the upstream unit-test histories. "
                "non-trivial = distinct history with at least one undo or at least two additions whose completed output holds a back-reference")
    ctx.explanation = ("Theorems (Props/C19.v): C19_undo (every live undo state restores the exact state it was taken in, for all reachable states and all "
                       "oracles), C19_append_only, C19_decode (valid oracle answers => completed bytes are an enc-encoding of the assembled tree => decode in both "
                       "decoders), C19_salt (bytes are a function of trees, history and oracle answers), C19_add_total (no panic site / fuel exhaustion reachable). The path search of tree_cache.rs is not modelled: every "
                       "emitted path is validated against the model's stack on every run. Implementation search: restore gives back the bytes held before the "
                       "undone add; output append-only; size = length; done flag = no sentinel position open; completed bytes decode (both decoders) to the tree "
                       "assembled in Python; three serializers (three salts / hasher states) per history in one process and a second process give identical "
                       "observations. Model vs implementation after every call, the model answering find_path with the implementation's own paths.")
    # finding F10 (proposed entry for known_findings.json; consulted here until the coordinator merges it)
    prop = os.path.join(vlib.VERIF, "notes", "known_findings_proposed_c19.json")
    have = {k.get("id") for k in vlib.load_known()}
    if os.path.exists(prop):
        for k in json.load(open(prop)).get("findings", []):
            if k.get("property") == "C19" and k.get("status") == "known" and k.get("id") not in have:
                ctx.known.append(k)
    ctx.proofs()
    if not ctx.build():
        return
    n = ctx.scale(2500, 150000)
    hs = gi.fixed_histories() + [gi.history(r) for _ in range(n)]
    lines = [gi.line(h) for h in hs]
    o1 = vlib.run_impl("incr", lines)
    # a second process per shard: other hasher seeds, other salts
    o2 = vlib.run_impl("incr", lines, shards=max(2, min(vlib.NPROC, len(lines) // 300)))
    feats = [features(h) for h in hs]

    def report(h, l, o, kind, text, ft, model=None):
        cls = F10 if (ft and kind in ("decode", "invalid-path")) else kind
        rep = {"case": l, "family": "incr", "impl": o, "class": cls, "kind": kind, "stream": h["kind"], "f10_triggers": ft}
        if model is not None:
            rep["model"] = model
        ctx.violation("incremental serializer (%s; stream %s%s): %s" % (kind, h["kind"], ("; " + ",".join(ft)) if ft else "", text), rep)

    for h, l, a, b, ft in zip(hs, lines, o1, o2, feats):
        ctx.evaluations += 1
        ctx.histogram("stream", h["kind"])
        ctx.histogram("f10-trigger", ",".join(ft) or "none")
        nu = sum(1 for x in h["ops"] if x[0] == "U")
        ctx.histogram("undos", str(min(nu, 4)) + ("+" if nu >= 4 else ""))
        bad = judge(h, a)
        if a != b:
            bad.append(("salt", "another process gave another observation: %s" % (b or "none")[:200]))
        for kind, text in bad[:2]:
            ctx.histogram("violation", kind + ("/F10-trigger" if ft else ""))
            report(h, l, a, kind, text, ft)
        if l not in ctx.distinct:
            ctx.distinct.add(l)
            nadds = sum(1 for x in h["ops"] if x[0] == "A")
            last = (a or "").split("|")[-1]
            if nu or (nadds >= 2 and "fe" in (last.split(":")[3] if last.count(":") >= 3 else "")):
                ctx.nontrivial += 1
    # model vs implementation, the model answering find_path from the implementation's bytes;
    # the misuse histories (restore of a dead undo state) take part in this comparison only
    mis = gi.misuse_histories()
    mo1 = vlib.run_impl("incr", [gi.line(h) for h in mis], shards=1)
    hs = hs + mis
    lines = lines + [gi.line(h) for h in mis]
    o1 = o1 + mo1
    feats = feats + [["misuse"] for _ in mis]
    lines2 = [gi.line(h, oracle_of(a)) for h, a in zip(hs, o1)]
    m = vlib.run_model("incr", lines2)
    dis = []
    for h, l2, l, a, mo, ft in zip(hs, lines2, lines, o1, m, feats):
        ctx.evaluations += 1
        core, flags = strip_flags(mo)
        ia = (a or "none").partition(" SALT-DIFF ")[0]
        if core != ia:
            dis.append((l2, mo, a))
        for fl in ([] if h["kind"] == "misuse" else flags[:1]):
            kind = "invalid-path" if "path" in fl else "model-decode"
            ctx.histogram("violation", kind + ("/F10-trigger" if ft else ""))
            report(h, l, a, kind, "the path emitted at output position %s does not denote the node being written in the decoder's stack (premise of C19_decode)"
                   % fl.split("@")[-1] if kind == "invalid-path" else "model flag " + fl, ft, model=mo)
    ctx.dist.setdefault("families", {})["incr:default"] = {"cases": len(lines2), "skipped_by_model": 0, "disagreements": len(dis)}
    ctx.programs += len(lines2)
    ctx.disagreements_checked += len(dis)
    if dis:
        ctx.broken.append(("correspondence", "incr:default",
                           "\n".join("%s\n  model: %s\n  impl : %s" % d for d in dis[:10])))
    if lines2:
        k = r.randrange(len(lines2))
        ctx.samples.append({"family": "incr", "case": lines2[k][:300], "model": (m[k] or "")[:300], "impl": (o1[k] or "")[:300]})
