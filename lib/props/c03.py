"""C03 — evaluation is independent of heap history and atom representation."""
import vlib, gen, gen_prog, runlib
from gen_prog import FLAG, run_line, parse_obs, head

LEVEL = "other"
FAMILY = "run"

MANIFEST = {
 "level": "other",
 "text": "Partly proved, partly explored. Proved (Props/C03.v): the interpreter model is a function of the program and environment TREES, the flags and the budget only - its value type has no representation - and it agrees with the implementation observation by observation (correspondence); on the allocator model every read the interpreter performs on an atom (bytes, length, small_number, atom_eq, number) depends only on the atom's bytes, whatever its representation (inline, heap, substring view) and whatever was allocated before (theorems of C14 re-exported); the inline fast path of environment lookup equals the generic one on the canonical encoding (traverse_path_fast v = traverse_path (bytes v) for all v < 2^26, incl. the leading-zero-byte cost at 7/15/23/31 bits). Not proved: the store-refinement theorem composing these (DESIGN.md appendix B.1). Decided by exploration: every generated program is run in a fresh allocator with parser-made atoms and again after a random allocator history (junk nodes, a failed run, a cached validated BLS point) with every atom re-encoded at random; result tree, cost and error kind must be equal, and equal to the model's prediction.",
 "note": vlib.NOTE_COMMON + " Level 'other': see text.",
 "technique": "Coq proof (representation-independence of allocator reads; fast path = generic path) + model/implementation differential run + implementation search fresh vs pre-populated/re-encoded allocator",
}


def run(ctx):
    r = ctx.rng
    ctx.rule = ("generated programs (fuzz, operator vectors incl. BLS points, hand-shaped incl. keyword atoms in non-canonical "
                "form, unknown operators, guards) under random flags and budgets: fresh allocator vs 1-2 random (history seed, "
                "encoding seed) variants; non-trivial = distinct (program, variant) whose fresh run succeeds")
    ctx.explanation = "see MANIFEST level text"
    ctx.proofs()
    if not ctx.build():
        return
    n = ctx.scale(500, 8000)
    pool = runlib.program_pool(ctx, n, n_unknown=ctx.scale(40, 300), flags_for_guards=(0, FLAG["NEW_COST_MODEL"]))
    base, var = [], []
    for p, e, tag in pool:
        f = gen_prog.random_flags(r, 0.15)
        m = r.choice([0, 0, 11000000000, r.randrange(1, 10 ** 6)])
        l0 = run_line(p, e, f=f, m=m)
        for _ in range(r.choice([1, 2])):
            kw = {}
            mode = r.choice(["h", "enc", "both"])
            if mode in ("h", "both"):
                kw["h"] = r.randrange(1, 10 ** 9)
            if mode in ("enc", "both"):
                kw["enc"] = r.randrange(1, 10 ** 9)
            base.append(l0)
            var.append(run_line(p, e, f=f, m=m, **kw))
    a = vlib.run_impl("run", base)
    b = vlib.run_impl("run", var)
    runlib.note_outcomes(ctx, a)
    for l0, l1, o0, o1 in zip(base, var, a, b):
        runlib.count_case(ctx, l1, nontrivial=(o0 or "").startswith("ok"))
        if head(o0) != head(o1):
            ctx.violation("the outcome depends on heap history or atom representation",
                          {"family": "run", "case": l1[:3000], "impl": o1, "fresh_case": l0[:3000], "fresh": o0})
    runlib.check_no_panic(ctx, var, b)
    runlib.correspond_run(ctx, var, name="run:history+encoding")
