"""C03 — evaluation is independent of heap history and atom representation."""
import vlib, gen, gen_prog, runlib
from gen_prog import FLAG, run_line, parse_obs, head

LEVEL = "other"
FAMILY = "run"

MANIFEST = {
 "level": "other",
 "text": "Partly proved, partly explored. The interpreter model is by construction a function of the program and environment TREES, the flags and the budget (its value type has no representation), and it is compared with the implementation run in a fresh allocator and again after a random allocator history with every atom re-encoded (inline / heap / substring view). Proved about the allocator model (Props/C03.v): every read the interpreter performs through the allocator - small_number() used for keyword and opcode recognition and GC candidates, atom bytes, integer value, atom equality - is the tree-level function of the denoted tree whatever the representation; no later allocation, restore or failed operation changes what an existing node denotes (any history); the representation-dependent GC scheduling cannot change an outcome (C04). the BLS validated-point cache is unobservable over every history of cache operations from any sound cache (C03_bls_cache; Model/BlsCache.v transcribes validate_g1/g2, new_g1/g2, add_validated, clear and the translator pins their shape; premises about the curve library: results of group operations and sign flips of valid points are valid encodings), and an insert-before-validate cache is observable (C03_bls_cache_fragile). Not proved: the store-refinement theorem composing these into 'run on the arena = run on the denoted trees' and the representation-dependent operator fast paths (C05). The implementation search also re-runs each program after earlier runs of the same nodes in the same allocator (same or other flags).",
 "note": vlib.NOTE_COMMON + " Level 'other': see text.",
 "technique": "Coq proof (representation-independence of allocator reads; fast path = generic path) + model/implementation differential run + implementation search fresh vs pre-populated/re-encoded allocator",
}


def run(ctx):
    r = ctx.rng
    ctx.rule = ("generated programs (fuzz, operator vectors incl. BLS points, hand-shaped incl. keyword atoms in non-canonical "
                "form, unknown operators, guards) under random flags and budgets: fresh allocator vs 1-2 random (history seed, "
                "encoding seed, earlier runs of the same program under the same or other flags) variants; non-trivial = distinct (program, variant) whose fresh run succeeds")
    ctx.explanation = "see MANIFEST level text"
    ctx.proofs()
    if not ctx.build():
        return
    n = ctx.scale(350, 8000)
    pool = runlib.program_pool(ctx, n, n_unknown=ctx.scale(40, 300), flags_for_guards=(0, FLAG["NEW_COST_MODEL"]))
    base, var = [], []
    for p, e, tag in pool:
        f = runlib.pick_flags(r, tag, 0.15)
        m = r.choice([0, 0, 11000000000, r.randrange(1, 10 ** 6)])
        l0 = run_line(p, e, f=f, m=m)
        for _ in range(r.choice([1, 2])):
            kw = {}
            mode = r.choice(["h", "enc", "both", "rep", "rep"])
            if mode in ("h", "both"):
                kw["h"] = r.randrange(1, 10 ** 9)
            if mode in ("enc", "both"):
                kw["enc"] = r.randrange(1, 10 ** 9)
            if mode == "rep":
                # earlier runs of the very same nodes in the same allocator (successful or failed; what
                # they cached - e.g. BLS points they validated or rejected - must not matter), under the
                # same flags or under other flags
                kw["rep"] = r.choice([1, 1, 2])
                if r.random() < 0.4:
                    kw["rf"] = r.choice([0, FLAG["RELAXED_BLS"], FLAG["NEW_COST_MODEL"], FLAG["ENABLE_GC"],
                                         f ^ FLAG["RELAXED_BLS"], f ^ FLAG["ENABLE_GC"]])
                if r.random() < 0.3:
                    kw["enc"] = r.randrange(1, 10 ** 9)
            base.append(l0)
            var.append(run_line(p, e, f=f, m=m, **kw))
    a = vlib.run_impl("run", base)
    b = vlib.run_impl("run", var)
    runlib.note_outcomes(ctx, a)
    for l0, l1, o0, o1 in zip(base, var, a, b):
        runlib.count_case(ctx, l1, nontrivial=(o0 or "").startswith("ok"))
        if head(o0) != head(o1):
            ctx.violation("the outcome depends on heap history or atom representation",
                          {"family": "run", "case": l1[:3000], "impl": o1, "fresh_case": l0[:3000], "fresh": o0})
    runlib.check_no_panic(ctx, var, b)
    runlib.correspond_run(ctx, var, name="run:history+encoding")
