"""C15 — classic serialization round-trips and is canonical."""
import vlib, gen, gen_classic_nc

LEVEL = "proof"   # every conjunct of the statement has a theorem in Props/C15.v
FAMILY = "classic"


MANIFEST = {
 "level": 'proof',
 "text": 'Every conjunct is proved about the Gallina model of write_atom/ser/de/parse_atom/tools/serialized_length/object_cache, for every tree (any size, depth, sharing; atoms up to 2^34-1 bytes) and every byte string (Props/C15.v): node_to_bytes = the recursive ser whenever it fits the limit; node_from_stream(ser t ++ rest) = (t, rest); is_canonical_serialization(ser t) = true; the trusted length, the untrusted back-reference-aware length probe serialized_length_from_bytes (model in Model/BackRef.v) and the object-cache length (u32/saturating arithmetic, below 2^32-5) all equal the byte count, the two stream functions whatever follows the serialization; conversely, if node_from_stream decodes any byte string and is_canonical_serialization accepts the consumed prefix, then ser of the decoded tree is exactly that prefix (atom level: the canonical minimum per prefix length forces the encoder\'s prefix class; tree level: induction over the decoder run). The model is run against the implementation on trees with atoms at every prefix boundary and on byte strings (decode, canonical, both lengths), its literals are pinned to constants the translator re-reads from the source, and the implementation is searched against every relation of the statement.',
 "note": vlib.NOTE_COMMON + " Byte strings are lists of N with an explicit all-elements-below-256 hypothesis (wf_sexp / wf_bytes). The object-cache length theorem holds below 2^32-5 bytes (beyond the default 2,000,000-byte limit of the statement; above it serialized_length_atom's u32 arithmetic reports Overflow).",
 "technique": 'Coq proof (induction over trees and over decoder runs, explicit-stack/fuel refinement, finite byte-class sweep by vm_compute) + translator pins + model/implementation differential run + implementation search',
}

def run(ctx):
    r = ctx.rng
    ctx.rule = ("random/list/complete/shared trees with atoms at every length-prefix boundary (0,1,0x3f/0x40,0x1fff/0x2000, "
                "0xfffff/0x100000 as repeated-byte atoms), non-canonical integers, deep lists; per tree the model and the "
                "implementation are compared on ser / object-cache length / decode / canonical / trusted and untrusted length of the "
                "serialization; for the converse, mutated encodings plus directed atoms with every prefix length 1..6 and sizes around every prefix-class minimum (bare, in a pair, with a trailing byte); non-trivial = distinct tree with at least one pair or an atom of length >= 2")
    ctx.explanation = ("Proof + correspondence + search. Theorems (Props/C15.v, all closed under the global context, counted in obligations/discharged): node_to_bytes = ser, node_from_stream(ser t ++ rest) = (t, rest), is_canonical_serialization(ser t), trusted length, untrusted length (serialized_length_from_bytes), object-cache length, for every tree; the converse (decodes and judged canonical => ser of the decoded tree = the consumed bytes) for every byte string. Pins/C15.v freezes the statements and ties the model's literals to constants the translator re-reads from the source on every run; the correspondence families compare model and implementation observation by observation (ser, cache length, decode, canonical, trusted and untrusted length); the 'tree' and 'agree' families search the implementation against the statement's relations directly.")
    ctx.proofs()
    if not ctx.build():
        return
    n = ctx.scale(1500, 15000)
    trees = [gen.gen_tree(r, big=(i % 40 == 0), share=r.choice([0, 0, 0.2])) for i in range(n)]
    trees += [gen.deep_list(r, d, right=(d % 2 == 0)) for d in (100, 500, 2000, 5000)]
    trees += [gen.Rep(b, ln) for ln in (0x3f, 0x40, 0x1fff, 0x2000, 0xfffff, 0x100000) for b in (0x00, 0x80)]
    cases = []
    probes = []
    for t in trees:
        s = gen.tt(t)
        cases.append("ser " + s)
        cases.append("clen " + s)
        total = sum(len(a) for a in _atoms(t))
        ctx.histogram("tree_bytes_log2", str(max(total, 1).bit_length()))
        if total < 300000:
            b = gen.py_ser(t)
            h = gen.hx(b + bytes(r.getrandbits(8) for _ in range(r.choice([0, 0, 3]))))
            cases += ["de " + h, "canon " + gen.hx(b), "tlen " + h]
            if total < 20000:
                probes.append("probe " + h)      # serialized_length_from_bytes (model: Model/BackRef.v)

    def nontrivial(c, a, b):
        return "p" in c.split()[1][:2] or len(c) > 12
    ctx.correspond("classic", cases, nontrivial=nontrivial)
    ctx.correspond("br", probes, name="untrusted-length", nontrivial=lambda c, a, b: len(c) > 12)

    # property-level search on the implementation: every relation the statement names, per tree
    big = []
    if ctx.thorough or ctx.broken:   # a broken proof/pin widens the search to the 2^27 prefix boundary
        big = [gen.Rep(0x41, ln) for ln in (0x7ffffff, 0x8000000, 0x8000001)]
    lines = ["tree " + gen.tt(t) for t in trees + big]
    outs = vlib.run_impl("classic", lines, shards=4 if big else None)
    for l, o in zip(lines, outs):
        ctx.evaluations += 1
        if not o.startswith("ok"):
            if "SerializationError" in o and False:
                continue
            ctx.violation("serialization of a tree failed or crashed", {"case": l[:2000], "impl": o})
            continue
        f = dict(x.split("=") for x in o.split()[2:])
        ln = f["len"]
        want = {"rt": "true", "canon": "true", "tlen": "Some(%s)" % ln, "ulen": "Some(%s)" % ln, "clen": "Some(%s)" % ln}
        bad = {k: f[k] for k in want if f[k] != want[k]}
        if bad:
            ctx.violation("round trip / canonical / length relation fails for a tree: %s" % bad, {"case": l[:2000], "impl": o})
    # converse: decodes and judged canonical => re-serializes to the consumed bytes (inside "agree")
    bs = [gen.gen_bytes_classic(r) for _ in range(ctx.scale(3000, 100000))]
    # directed: over-long prefixes with sizes at the edges of every prefix-length class
    bs += [b for _, b in gen_classic_nc.boundary_strings(0x100001 if (ctx.thorough or ctx.broken) else 0x2001)]
    lines = ["agree " + gen.hx(b) for b in bs]
    # the same directed strings through model and implementation (decode, canonical, both lengths)
    small = [gen.hx(b) for _, b in gen_classic_nc.boundary_strings(0x2001)]
    ctx.correspond("classic", [c + h for h in small for c in ("de ", "canon ", "tlen ")], name="classic-boundaries", nontrivial=lambda c, a, b: len(c) > 12)
    ctx.correspond("br", ["probe " + h for h in small], name="untrusted-length-boundaries", nontrivial=lambda c, a, b: len(c) > 12)
    outs = vlib.run_impl("classic", lines)
    for l, o in zip(lines, outs):
        ctx.evaluations += 1
        ctx.histogram("agree", o.split()[0] + " " + (o.split()[1] if len(o.split()) > 1 else ""))
        if o.startswith("DISAGREE canonical") or o.startswith("panic") or o.startswith("crash"):
            ctx.violation("canonical judgement disagrees with re-serialization", {"case": l, "impl": o})


def _atoms(t):
    st = [t]
    while st:
        v = st.pop()
        if isinstance(v, tuple):
            st.append(v[0]); st.append(v[1])
        else:
            yield v
