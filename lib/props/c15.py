"""C15 — classic serialization round-trips and is canonical."""
import vlib, gen

LEVEL = "other"   # part of the statement is proved, the rest is decided on the implementation (see Props file)
FAMILY = "classic"


MANIFEST = {
 "level": 'other',
 "text": 'Partly proved, partly explored. Proved for every tree (any size, depth, sharing; atoms up to 2^34-1 bytes) about the Gallina model of write_atom/ser/de/parse_atom/tools/serialized_length: node_to_bytes = the recursive ser, node_from_stream(ser t ++ rest) = (t, rest), is_canonical_serialization(ser t) = true, trusted serialized length = byte count, object-cache length = byte count (u32/saturating arithmetic, below 2^32-5). Not proved: the converse direction (decodes + judged canonical => re-serializes to the consumed bytes) and the untrusted length function; those are decided by a search on the implementation (random/structured byte strings and trees). The model is run against the implementation on trees with atoms at every prefix boundary, and its literals are pinned to constants the translator re-reads from the source.',
 "note": vlib.NOTE_COMMON + " Level 'other' because the full conjunction is not proved (Props/C15.v names the missing conjuncts).",
 "technique": 'Coq proof (induction over trees, explicit-stack/fuel refinement) + translator pins + model/implementation differential run + implementation search',
}

def run(ctx):
    r = ctx.rng
    ctx.rule = ("random/list/complete/shared trees with atoms at every length-prefix boundary (0,1,0x3f/0x40,0x1fff/0x2000, "
                "0xfffff/0x100000 as repeated-byte atoms), non-canonical integers, deep lists; per tree the model and the "
                "implementation are compared on ser / object-cache length / decode / canonical / trusted length of the "
                "serialization; non-trivial = distinct tree with at least one pair or an atom of length >= 2")
    ctx.explanation = ("Part proof, part exploration. Theorems (Props/C15.v, all closed under the global context, counted in obligations/discharged): node_to_bytes = ser, node_from_stream(ser t ++ rest) = (t, rest), is_canonical_serialization(ser t), trusted length, object-cache length, for every tree. Not proved: the converse (decodes and judged canonical => re-serializes to the consumed bytes) and the untrusted length function; both are searched on the implementation ('agree' and 'tree' families counted in evaluations). Pins/C15.v ties the model's literals to constants the translator re-reads from the source on every run; the correspondence families compare model and implementation observation by observation.")
    ctx.proofs()
    if not ctx.build():
        return
    n = ctx.scale(1500, 15000)
    trees = [gen.gen_tree(r, big=(i % 40 == 0), share=r.choice([0, 0, 0.2])) for i in range(n)]
    trees += [gen.deep_list(r, d, right=(d % 2 == 0)) for d in (100, 500, 2000, 5000)]
    trees += [gen.Rep(b, ln) for ln in (0x3f, 0x40, 0x1fff, 0x2000, 0xfffff, 0x100000) for b in (0x00, 0x80)]
    cases = []
    for t in trees:
        s = gen.tt(t)
        cases.append("ser " + s)
        cases.append("clen " + s)
        total = sum(len(a) for a in _atoms(t))
        ctx.histogram("tree_bytes_log2", str(max(total, 1).bit_length()))
        if total < 300000:
            b = gen.py_ser(t)
            h = gen.hx(b + bytes(r.getrandbits(8) for _ in range(r.choice([0, 0, 3]))))
            cases += ["de " + h, "canon " + gen.hx(b), "tlen " + h]

    def nontrivial(c, a, b):
        return "p" in c.split()[1][:2] or len(c) > 12
    ctx.correspond("classic", cases, nontrivial=nontrivial)

    # property-level search on the implementation: every relation the statement names, per tree
    big = []
    if ctx.thorough or ctx.broken:   # a broken proof/pin widens the search to the 2^27 prefix boundary
        big = [gen.Rep(0x41, ln) for ln in (0x7ffffff, 0x8000000, 0x8000001)]
    lines = ["tree " + gen.tt(t) for t in trees + big]
    outs = vlib.run_impl("classic", lines, shards=4 if big else None)
    for l, o in zip(lines, outs):
        ctx.evaluations += 1
        if not o.startswith("ok"):
            if "SerializationError" in o and False:
                continue
            ctx.violation("serialization of a tree failed or crashed", {"case": l[:2000], "impl": o})
            continue
        f = dict(x.split("=") for x in o.split()[2:])
        ln = f["len"]
        want = {"rt": "true", "canon": "true", "tlen": "Some(%s)" % ln, "ulen": "Some(%s)" % ln, "clen": "Some(%s)" % ln}
        bad = {k: f[k] for k in want if f[k] != want[k]}
        if bad:
            ctx.violation("round trip / canonical / length relation fails for a tree: %s" % bad, {"case": l[:2000], "impl": o})
    # converse: decodes and judged canonical => re-serializes to the consumed bytes (inside "agree")
    bs = [gen.gen_bytes_classic(r) for _ in range(ctx.scale(3000, 100000))]
    lines = ["agree " + gen.hx(b) for b in bs]
    outs = vlib.run_impl("classic", lines)
    for l, o in zip(lines, outs):
        ctx.evaluations += 1
        ctx.histogram("agree", o.split()[0] + " " + (o.split()[1] if len(o.split()) > 1 else ""))
        if o.startswith("DISAGREE canonical") or o.startswith("panic") or o.startswith("crash"):
            ctx.violation("canonical judgement disagrees with re-serialization", {"case": l, "impl": o})


def _atoms(t):
    st = [t]
    while st:
        v = st.pop()
        if isinstance(v, tuple):
            st.append(v[0]); st.append(v[1])
        else:
            yield v
