"""C22 — all tree-hash implementations agree with the recursive definition."""
import hashlib, os, sys, types
import vlib, gen, gen_dag

LEVEL = "proof"
FAMILY = "hashes"

MANIFEST = {
 "level": 'proof',
 "text": "Proved for every tree and an arbitrary hash function H about the Gallina models: tree_hash_costed (the sha256tree operator's body, inline and heap atoms, with its cost and CostExceeded behaviour), ObjectCache+treehash on any arena, InternedTree::tree_hash, the Python Treehasher stack machine (with and without its per-object cache), tree_hash_from_stream and parse_triples (its hash array = the tree hash of every sub-tree in pre-order, entry 0 the tree itself; also its index/panic! sites unreachable) all return the recursive treehash; the 37 precomputed small-atom hashes the translator re-reads from more_ops.rs equal sha256(1 || canonical bytes of i) (decided by evaluating a Gallina SHA-256). All Rust hashers are run on the same trees and compared with each other, with the model, with hashlib, and with the pure-Python Treehasher loaded from the wheel's source.",
 "note": vlib.NOTE_COMMON + " The Python wheel's native sha256_treehash entry point is not built here; the pure-Python Treehasher (wheel/python/clvm_rs/tree_hash.py) is loaded standalone.",
 "technique": 'Coq proof (stack-machine simulation lemmas by induction over the tree; finite table decided by vm_compute over the translator-generated table) + model/implementation differential run + cross-implementation search with hashlib as independent reference',
}


def load_treehasher():
    """wheel/python/clvm_rs/tree_hash.py without the native module: a stub package whose __path__
    is the source directory, so that `from .clvm_storage import CLVMStorage` resolves"""
    d = os.path.join(vlib.REPO, "wheel", "python", "clvm_rs")
    pkg = types.ModuleType("clvm_rs")
    pkg.__path__ = [d]
    sys.modules["clvm_rs"] = pkg
    for k in [k for k in sys.modules if k.startswith("clvm_rs.")]:
        del sys.modules[k]
    import importlib
    return importlib.import_module("clvm_rs.tree_hash")


class Obj:
    def __init__(self, atom=None, pair=None):
        self.atom = atom
        self.pair = pair


class SlotObj:
    __slots__ = ("atom", "pair")      # refuses setattr of _cached_sha256_treehash

    def __init__(self, atom=None, pair=None):
        self.atom = atom
        self.pair = pair


def py_objects(d, cls):
    objs = [None] * len(d.nodes)
    reach = d.reachable()
    for i, nd in enumerate(d.nodes):
        if reach[i]:
            objs[i] = cls(atom=nd[1]) if nd[0] == "a" else cls(pair=(objs[nd[1]], objs[nd[2]]))
    return objs[d.root]


def native_cost(d, cpb):
    c = [0] * len(d.nodes)
    for i, nd in enumerate(d.nodes):
        c[i] = (len(nd[1]) + 1) * cpb if nd[0] == "a" else 460 + c[nd[1]] + c[nd[2]]
    return 270 + c[d.root] + 320


def run(ctx):
    r = ctx.rng
    ctx.rule = ("DAGs of 1..120 nodes with shared NodePtrs and equal copies, atom pools biased to the integers 0..40 and the small-atom boundaries, every "
                "atom randomly inline (new_atom) or forced onto the heap; every integer 0..40 (and 127,128,255,256,2^26-1,2^26) alone and in a pair, in both "
                "representations; deep left and right lists; the costed hasher with budgets exactly at / one below / one above its cost. Model cases keep the "
                "hashed bytes small (extracted SHA-256); the implementation-only search uses larger trees with hashlib as reference. non-trivial = at least one pair")
    ctx.explanation = ("Proof: Props/C22.v (every hasher of the statement, arbitrary H; the precomputed table by evaluation). Correspondence: hash and the two costs of "
                       "tree_hash_costed, model vs implementation, and CostExceeded at the budget boundary. Search: seven Rust hashers (tree_hash_costed and op_sha256_tree under both cost "
                       "models, ObjectCache, InternedTree::tree_hash, tree_hash_from_stream, parse_triples) must agree with each other, with hashlib's recursive sha256 tree hash, and "
                       "with the pure-Python Treehasher (objects with and without attribute caching).")
    ctx.proofs()
    if not ctx.build():
        return
    th = load_treehasher()
    small, big = [], []
    for v in list(range(0, 41)) + [127, 128, 255, 256, 2**26 - 1, 2**26]:
        b = gen.int_to_bytes(v)
        for rep in "ah":
            small.append(gen_dag.Dag([("a", b, rep)], 0))
        small.append(gen_dag.Dag([("a", b, "a"), ("a", b, "h"), ("p", 0, 1)], 2))
    for _ in range(ctx.scale(400, 6000)):
        d = gen_dag.gen_dag(r, n=r.choice([1, 2, 3, 5, 8, 13, 20]), max_expanded=60)
        (small if d.hashed_bytes() <= 1500 else big).append(d)
    for _ in range(ctx.scale(1500, 15000)):
        big.append(gen_dag.gen_dag(r, max_expanded=20000))
    for _ in range(ctx.scale(300, 3000)):
        big.append(gen_dag.from_tree(gen.gen_tree(r, share=r.choice([0.0, 0.3]))))
    for n in ctx.scale([300, 3000], [300, 3000, 30000]):
        big.append(gen_dag.from_tree(gen.deep_list(r, n, right=True)))
        big.append(gen_dag.from_tree(gen.deep_list(r, n, right=False)))
    small.append(gen_dag.from_tree(gen.deep_list(r, 12, right=True)))
    small.append(gen_dag.from_tree(gen.deep_list(r, 12, right=False)))
    cases = []
    for d in small:
        s = d.emit(r, ref_prob=r.choice([0.0, 0.5, 1.0]))
        cases.append("all " + s)
        for ncm, cpb in ((0, 2), (1, 6)):
            c = native_cost(d, cpb)
            for mx in (c, c - 1, c + 1, r.randrange(0, c)):
                cases.append("budget %d %d %s" % (ncm, mx, s))
    ctx.correspond("hashes", cases, nontrivial=lambda c, a, b: "p" in c.split()[-1])
    # search on the implementation: all hashers, hashlib, Python Treehasher
    lines = []
    for d in small + big:
        lines.append((d, "all " + d.emit(r, ref_prob=r.choice([0.0, 0.5, 1.0]))))
    outs = vlib.run_impl("hashes", [c for _, c in lines])
    hits = 0
    for (d, c), o in zip(lines, outs):
        ctx.evaluations += 1
        ctx.histogram("hashed-bytes", "<=100" if d.hashed_bytes() <= 100 else "<=1500" if d.hashed_bytes() <= 1500 else "<=50k" if d.hashed_bytes() <= 50000 else ">50k")
        ref = d.tree_hash().hex()
        if not o.startswith("ok "):
            ctx.violation("the Rust tree hashers disagree with each other (or one failed): " + o[:400], {"case": c, "family": "hashes", "impl": o})
            continue
        f = dict(x.split("=", 1) for x in o.split()[1:])
        if f["h"] != ref:
            ctx.violation("the Rust tree hashers agree on %s but sha256(1||atom)/sha256(2||l||r) gives %s" % (f["h"], ref), {"case": c, "family": "hashes", "impl": o})
        want = "%d,%d" % (native_cost(d, 2), native_cost(d, 6))
        if f["cost"] != want:
            ctx.notes.append("cost of tree_hash_costed %s differs from the closed form %s on %s" % (f["cost"], want, c[:80]))
        for cls in ((Obj, SlotObj) if d.expanded() <= 5000 else (Obj,)):   # without attribute caching the walk is the expanded tree
            hasher = th.Treehasher(th.CHIA_TREE_HASH_ATOM_PREFIX, th.CHIA_TREE_HASH_PAIR_PREFIX)
            got = hasher.sha256_treehash(py_objects(d, cls)).hex()
            hits += hasher.cache_hits
            if got != ref:
                ctx.violation("the Python Treehasher (%s objects) returns %s, expected %s" % (cls.__name__, got, ref),
                              {"case": c, "family": "hashes", "impl": o, "python": got})
    ctx.histogram("python-treehasher", "cache hits %s" % ("some" if hits else "none"))
    if th.sha256_treehash(Obj(atom=b"")).hex() != hashlib.sha256(b"\x01").hexdigest():
        ctx.violation("module-level sha256_treehash of nil is wrong", {"case": "python nil", "family": "hashes", "impl": "python"})
