"""C23 — native sha256tree never costs more than its ChiaLisp equivalent."""
import os, re
import vlib, gen
from gen_prog import FLAG

LEVEL = "proof"
FAMILY = "shatree"

MANIFEST = {
 "level": "proof",
 "text": "Proved for every tree, every flag word that enables the operator (both cost models, with or without ENABLE_GC and the other flags), every budget and every sufficient fuel about the Gallina model of run_program.rs under ChiaDialect (Props/C23.v): whenever the standard recursive ChiaLisp sha256tree program (the one in tools/src/bin/sha256tree-benching.rs, pinned to its hex string) run on the tree fits the budget, (sha256tree (q . tree)) succeeds too, both return the tree hash, and the native run is cheaper - by at least 1000 per atom and 500 per pair. The proof is a symbolic execution of the recursive program on the stack machine by induction on the tree (cost = a structural recurrence clvm_cost), the closed cost formula of the operator (native_cost, the C10 formula plus evaluator overhead), and an arithmetic induction native_cost < clvm_cost; the per-byte costs of sha256tree and sha256 are equal in both models, which is why the inequality survives arbitrarily large atoms. The only premise on the hash function is that its results are 32 bytes long (proved for the model's executable SHA-256). Every constant entering the two cost functions is compared with the source on every run (Pins/C23consts.v). On every run both programs are run on the implementation on generated trees (all shapes, atoms from the small integers to 10^6 bytes, built with and without shared sub-trees) under both cost models; native < clvm is checked on the implementation itself, both runs are compared with the extracted model, and both costs with the closed forms the theorem is about.",
 "note": vlib.NOTE_COMMON + " The allocator caps and STACK_SIZE_LIMIT are outside the tree-store machine, and a model tree has no sharing: the theorems are about runs that hit no cap; sharing is covered by the implementation runs (equal sub-trees built once).",
 "technique": "Coq proof (symbolic execution of the recursive program on the stack machine by induction over the tree; closed cost forms; arithmetic induction) + model/implementation differential run + implementation search (native vs ChiaLisp cost on generated trees, shared and unshared)",
}

EXTRA_FLAGS = [0x1, 0x2, 0x10, 0x20, 0x100, 0x200, 0x800, 0x1000]


def classic_tree(bs):
    """classic deserializer for the program literal (pairs, nil, one-byte atoms, short atoms)"""
    pos = [0]

    def rd():
        b = bs[pos[0]]
        pos[0] += 1
        if b == 0xff:
            l = rd()
            r = rd()
            return (l, r)
        if b == 0x80:
            return b""
        if b < 0x80:
            return bytes([b])
        if b < 0xc0:
            n = b & 0x3f
            v = bs[pos[0]:pos[0] + n]
            pos[0] += n
            return bytes(v)
        raise ValueError("unsupported atom prefix in the program literal")
    t = rd()
    if pos[0] != len(bs):
        raise ValueError("trailing bytes in the program literal")
    return t


def standard_program():
    """the program literal of the tool in the tree under test, as a transport string"""
    src = open(os.path.join(vlib.REPO, "tools", "src", "bin", "sha256tree-benching.rs")).read()
    src = re.sub(r"//[^\n]*", "", src)
    lits = re.findall(r"hex::decode\(\s*\"([0-9a-fA-F]+)\"\s*,?\s*\)", src)
    if len(lits) != 1:
        raise ValueError("expected one hex::decode literal in sha256tree-benching.rs")
    return gen.tt(classic_tree(bytes.fromhex(lits[0])))


def complete(depth, leaf):
    t = leaf
    for _ in range(depth):
        t = (t, t)
    return t


def leaf_atom(r, big):
    k = r.random()
    if k < 0.30:
        v = r.randrange(0, 41)                     # small integers: inline atoms, precomputed hashes 0..36
        return gen.int_to_bytes(v)
    if k < 0.40:
        return bytes([r.choice([0, 36, 37, 0x7f, 0x80, 0xff])])
    if k < 0.55:
        return bytes(r.getrandbits(8) for _ in range(r.choice([2, 3, 4, 5, 31, 32, 33, 55, 56, 64])))
    if k < 0.65:
        return gen.int_to_bytes(r.choice([0x3ffffff, 0x4000000, 0x7fffffff, 2 ** 32, 2 ** 64]))
    if k < 0.80:
        return gen.gen_atom(r)
    n = r.choice([100, 119, 120, 1000, 1023, 1024, 4096, 8191]) if not big else r.choice([20000, 100000, 1000000])
    return gen.Rep(r.choice([0, 0xff, r.getrandbits(8)]), n + r.choice([0, 0, 1]))


def size_of(t):
    """(nodes, atom bytes, SHA-256 blocks one tree hash takes) without recursion"""
    n = b = blocks = 0
    st = [t]
    while st:
        v = st.pop()
        n += 1
        if isinstance(v, tuple):
            st.append(v[0])
            st.append(v[1])
            blocks += 2
        else:
            b += len(v)
            blocks += (len(v) + 1 + 9 + 63) // 64
    return n, b, blocks


def correspond_sharded(ctx, fam, lines, shards, nontrivial):
    """ctx.correspond with the model run spread over `shards` processes whatever the number of
    lines (the extracted SHA-256 takes about 4 ms per block)"""
    import os as _os
    argv = ["sh", "-c", "ulimit -s unlimited 2>/dev/null || ulimit -s 1000000; exec %s %s" % (_os.path.join(vlib.BUILD, "ocaml", "model"), fam)]
    m = vlib._run_sharded(argv, lines, 2400, shards=max(1, min(shards, len(lines))))
    i = vlib.run_impl(fam, lines)
    dis = []
    skipped = 0
    for c, a, b in zip(lines, m, i):
        ctx.evaluations += 1
        if a is None or a.startswith("crash rc=-9") or a.startswith("crash rc=None"):
            skipped += 1          # the model process ran out of its time slice (machine load): no prediction
            continue
        if c not in ctx.distinct:
            ctx.distinct.add(c)
            if nontrivial(c, a, b):
                ctx.nontrivial += 1
        if vlib.canon_default(a) != vlib.canon_default(b):
            dis.append((c, a, b))
    ctx.dist.setdefault("families", {})[fam + ":default"] = {"cases": len(lines), "skipped_by_model": skipped, "disagreements": len(dis)}
    if skipped:
        ctx.notes.append("%d model cases unanswered (model process killed at its time limit)" % skipped)
    ctx.programs += len(lines)
    ctx.disagreements_checked += len(dis)
    if dis:
        ctx.broken.append(("correspondence", fam + ":default",
                           "\n".join("%s\n  model: %s\n  impl : %s" % (d[0][:600], d[1], d[2]) for d in dis[:10])))
    for k in range(min(4, len(lines))):
        j = ctx.rng.randrange(len(lines))
        ctx.samples.append({"family": fam, "case": lines[j][-300:], "model": (m[j] or "")[:300], "impl": (i[j] or "")[:300]})
    return dis


def gen_case(r, thorough):
    """-> (tree, shape tag)"""
    k = r.random()
    if k < 0.12:
        return leaf_atom(r, big=r.random() < 0.1), "atom"
    if k < 0.30:
        d = r.randrange(1, 9 if not thorough else 12)
        big = d <= 2 and r.random() < 0.2
        return complete(d, leaf_atom(r, big)), "complete"
    if k < 0.45:
        n = r.choice([1, 2, 3, 10, 50, 200] + ([2000] if thorough else []))
        t = leaf_atom(r, False) if r.random() < 0.5 else b""
        for _ in range(n):
            t = (leaf_atom(r, False), t)
        return t, "right-list"
    if k < 0.60:
        n = r.choice([1, 2, 3, 10, 50, 200] + ([2000] if thorough else []))
        t = leaf_atom(r, False)
        for _ in range(n):
            t = (t, leaf_atom(r, False))
        return t, "left-list"
    if k < 0.80:
        pool = [leaf_atom(r, False) for _ in range(r.randrange(1, 6))]
        t = gen.gen_tree(r, r.choice([2, 3, 5, 8, 13, 30, 80, 300]), pool=pool, share=r.choice([0, 0.2, 0.5]))
        return t, "random-shared"
    return gen.gen_tree(r, r.choice([2, 3, 5, 8, 13, 30, 80, 300])), "random"


def parse_both(o):
    """'<o1> ; <o2>' -> ((kind, cost, value), (kind, cost, value))"""
    if o is None or " ; " not in o:
        return None
    res = []
    for part in o.split(" ; "):
        t = part.split()
        if t and t[0] == "ok":
            res.append(("ok", int(t[1]), t[2]))
        else:
            res.append((" ".join(t[:2]), None, None))
    return tuple(res)


def run(ctx):
    r = ctx.rng
    ctx.rule = ("generated trees (single atoms, complete trees of depth 1..8/11, right and left lists up to 200/2000 elements, random "
                "trees with and without repeated sub-trees; atoms: the small integers 0..40, 1..64 random bytes, 100..8192 and up to "
                "10^6 repeated bytes), each under ENABLE_SHA256_TREE with and without NEW_COST_MODEL (+ random unrelated flags), "
                "built with and without sharing of equal sub-trees; `(sha256tree (q . T))` and the tool's ChiaLisp program are both "
                "run with run_program on the implementation; non-trivial = distinct (tree, flags, sharing) where both runs succeed")
    ctx.explanation = ("Proof + differential run. Theorems (Props/C23.v): C23 (both runs succeed with the same hash and the native one is "
                       "cheaper, for every tree, flag word with ENABLE_SHA256_TREE, fitting budget), C23_native_is_run, C23_clvm_is_run "
                       "(symbolic execution of the stack machine), C23_native_lt_clvm, C23_gap. The check asks the implementation for both "
                       "costs and compares them with each other (the property), with the extracted model's run of both programs, and "
                       "with the closed forms native_cost / clvm_cost the theorems are about.")
    ctx.proofs()
    if not ctx.build():
        return
    prog = standard_program()
    n = ctx.scale(450, 12000)
    cases = []          # (line, tree_tt, flags, small)
    seen = set()
    budget_model = ctx.scale(7000, 120000)   # SHA-256 blocks the extracted model may hash (about 4 ms per block)
    # directed: very large atoms (a per-byte rate that is off by a fraction only shows beyond tens of kilobytes,
    # where it outweighs the constant per-atom lead of the ChiaLisp program), alone and in short lists
    directed = []
    for nbig in (20000, 30000, 40000, 70000, 200000, 1000000):
        a = gen.Rep(r.choice([0, 0xff, 0x5a]), nbig + r.choice([0, 1, 63, 64]))
        directed += [(a, "big-atom"), ((a, (a, b"")), "big-list"), (((a, gen.int_to_bytes(1)), a), "big-tree")]
    for i in range(n + len(directed)):
        t, shape = gen_case(r, ctx.thorough) if i < n else directed[i - n]
        nodes, nbytes, blocks = size_of(t)
        if nbytes * 1 > 40000000 or nodes > 20000:
            continue
        s = gen.tt(t)
        ctx.histogram("shape", shape)
        ctx.histogram("nodes", "1" if nodes == 1 else "<=7" if nodes <= 7 else "<=63" if nodes <= 63 else "<=1023" if nodes <= 1023 else ">1023")
        ctx.histogram("atom_bytes", "0" if nbytes == 0 else "<=64" if nbytes <= 64 else "<=4096" if nbytes <= 4096 else ">4096")
        for ncm in (0, 1):
            f = FLAG["SHA256_TREE"] | (FLAG["NEW_COST_MODEL"] if ncm else 0)
            if r.random() < 0.3:
                for b in EXTRA_FLAGS:
                    if r.random() < 0.25:
                        f |= b
            share = 1 if r.random() < 0.5 else 0
            line = "both f=%d m=0 share=%d %s %s" % (f, share, prog, s)
            if line in seen:
                continue
            seen.add(line)
            small = blocks <= ctx.scale(120, 3000) and 2 * blocks <= budget_model
            if small:
                budget_model -= 2 * blocks
            cases.append((line, s, f, small))
    lines = [c[0] for c in cases]
    outs = vlib.run_impl("shatree", lines)
    # closed forms from the extracted model (one per distinct tree)
    trees = sorted(set(c[1] for c in cases))
    cl = vlib.run_model("shatree", ["cost " + s for s in trees])
    closed = {}
    for s, o in zip(trees, cl):
        t = (o or "").split()
        if len(t) == 5 and t[0] == "cost":
            closed[s] = tuple(int(x) for x in t[1:])
        elif (o or "").startswith("skip model-"):
            ctx.histogram("closed_forms", "not-evaluated(model time limit)")     # compared on the implementation only
        else:
            ctx.broken.append(("model", "shatree cost", "closed forms not computed: %s -> %s" % (s[:200], o)))
    formula_bad = []
    budget_lines = []
    for (line, s, f, small), o in zip(cases, outs):
        ctx.evaluations += 1
        p = parse_both(o)
        rep = {"family": "shatree", "case": line if len(line) < 200000 else line[:200000], "impl": o}
        if p is None:
            ctx.violation("the harness crashed or panicked on a sha256tree comparison", rep)
            continue
        (k1, c1, v1), (k2, c2, v2) = p
        ctx.histogram("outcome", k1 + " / " + k2)
        if k1 == "ok" and k2 == "ok":
            if line not in ctx.distinct:
                ctx.distinct.add(line)
                ctx.nontrivial += 1
            if not c1 < c2:
                ctx.violation("native sha256tree costs %d, the ChiaLisp program %d on the same tree and flags" % (c1, c2), rep)
            if s in closed:
                ncm = 1 if f & FLAG["NEW_COST_MODEL"] else 0
                want = (closed[s][2 * ncm], closed[s][2 * ncm + 1])
                if (c1, c2) != want:
                    formula_bad.append("%s\n  implementation (native, clvm) = (%d, %d); closed forms = (%d, %d)" % (line[:300], c1, c2, want[0], want[1]))
            if v1 != v2:
                formula_bad.append("%s\n  the two programs return different values: %s vs %s" % (line[:300], v1, v2))
            if r.random() < 0.15:
                for m in (c1, c2 - 1, c2, (c1 + c2) // 2):
                    if m > 0:
                        budget_lines.append((line.replace(" m=0 ", " m=%d " % m, 1), m, c1, c2))
        elif k2 == "ok":
            ctx.violation("native sha256tree fails (%s) where the ChiaLisp program succeeds with cost %d" % (k1, c2), rep)
    if formula_bad:
        ctx.broken.append(("correspondence", "shatree:closed-forms", "\n".join(formula_bad[:10])))
    ctx.extra_cov["closed_form_comparisons"] = len(cases)
    # under a budget: whenever the program fits, so does the operator
    bouts = vlib.run_impl("shatree", [b[0] for b in budget_lines])
    for (line, m, c1, c2), o in zip(budget_lines, bouts):
        ctx.evaluations += 1
        p = parse_both(o)
        if p is None:
            continue
        if p[1][0] == "ok" and p[0][0] != "ok":
            ctx.violation("under budget %d the ChiaLisp program succeeds but native sha256tree fails" % m,
                          {"family": "shatree", "case": line[:200000], "impl": o})
    # model vs implementation on the trees the extracted SHA-256 can hash in time
    small_lines = [c[0] for c in cases if c[3]] + [b[0] for b in budget_lines if len(b[0]) < 3000][:ctx.scale(60, 2000)]
    correspond_sharded(ctx, "shatree", small_lines, ctx.scale(8, 12), nontrivial=lambda c, a, b: b is not None and b.startswith("ok"))
