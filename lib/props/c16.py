"""C16 — classic decoders are total and agree with each other."""
import vlib, gen

LEVEL = "other"   # part of the statement is proved, the rest is decided on the implementation (see Props file)
FAMILY = "classic"


MANIFEST = {
 "level": 'other',
 "text": "Partly proved, partly explored. Proved for every byte string about the Gallina model: node_from_stream equals the recursive grammar, never reaches a panic site or runs out of its input-length fuel, and tree_hash_from_stream accepts the same strings with the same error, leaves the same remaining input and returns the tree hash of the same tree (for any hash function). Not proved: the same refinement for parse_triples (modelled and compared with the implementation only) and the canonical equivalence; those and memory use are decided by exploration: all strings of <= 2 bytes, structured mutations of valid encodings, random strings, through model vs implementation and the implementation's own cross-decoder comparison.",
 "note": vlib.NOTE_COMMON + " Level 'other' because the full conjunction is not proved (Props/C16.v names the missing conjuncts).",
 "technique": 'Coq proof (generic stack-decoder refinement lemma instantiated twice) + model/implementation differential run (exhaustive <= 2 bytes) + implementation search',
}

def run(ctx):
    r = ctx.rng
    ctx.rule = ("all byte strings of length <= 2, in the thorough tier also all 3-byte strings whose first byte is at a prefix-class boundary (18 first bytes, node_from_stream only), plus structured strings: valid "
                "encodings mutated by truncation, trailing bytes, byte substitution with prefix-class bytes, inserted "
                "0xfe/0xff/zero-padded size fields, non-canonical prefixes, and pure random; non-trivial = distinct "
                "string of >= 2 bytes")
    ctx.explanation = ("Part proof, part exploration. Theorems (Props/C16.v): node_from_stream = recursive grammar on every byte string, no panic site / fuel exhaustion reachable, tree_hash_from_stream agrees with node_from_stream on accept set, error, remaining input and hash, for any hash function. Not proved: parse_triples refinement and the canonical equivalence; they are covered by the model/implementation differential run (parse_triples is modelled) and by the implementation's cross-decoder comparison ('agree'). Memory use is outside the model.")
    ctx.proofs()
    if not ctx.build():
        return
    strings = list(gen.all_bytes_upto(2))
    strings += [gen.gen_bytes_classic(r) for _ in range(ctx.scale(6000, 40000))]
    strings += [bytes.fromhex(x) for x in ("fe00000000000161", "fc0000000001aa", "fb00000001bb", "fbffffffffff", "fc0400000000", "fe", "ff" * 50 + "80" * 51)]
    cases = []
    for n, b in enumerate(strings):
        h = gen.hx(b)
        cases += ["de " + h, "canon " + h, "tlen " + h]
        # the hashing decoders cost ~1 ms per case in the extracted model (SHA-256 over Coq's N):
        # in the quick tier the exhaustive 2-byte block takes every 4th string through them
        # and strings longer than 400 bytes every 16th
        if ctx.thorough or (len(b) != 2 and len(b) <= 400) or (len(b) == 2 and n % 4 == 0) or n % 16 == 0:
            cases += ["th " + h, "tr " + h]
    ctx.correspond("classic", cases, nontrivial=lambda c, a, b: len(c.split()[1]) >= 4)
    if ctx.thorough:
        import itertools
        # every 3-byte string whose first byte sits at a prefix-class boundary
        firsts = (0x00, 0x01, 0x7f, 0x80, 0x81, 0xbf, 0xc0, 0xdf, 0xe0, 0xef, 0xf0, 0xf7, 0xf8, 0xfb, 0xfc, 0xfd, 0xfe, 0xff)
        c3 = ["de %02x%02x%02x" % ((f,) + t) for f in firsts for t in itertools.product(range(256), repeat=2)]
        ctx.correspond("classic", c3, name="classic-3byte", nontrivial=lambda c, a, b: True)
    lines = ["agree " + gen.hx(b) for b in strings]
    outs = vlib.run_impl("classic", lines)
    for l, o in zip(lines, outs):
        ctx.evaluations += 1
        ctx.histogram("agree", " ".join(o.split()[:2]))
        if not o.startswith("ok"):
            ctx.violation("classic decoders disagree, or one of them panicked: " + o[:200], {"case": l, "impl": o})
