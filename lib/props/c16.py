"""C16 — classic decoders are total and agree with each other."""
import vlib, gen, gen_classic_nc

LEVEL = "proof"   # every conjunct of the statement has a theorem in Props/C16.v
FAMILY = "classic"


MANIFEST = {
 "level": 'proof',
 "text": "Every conjunct is proved for every byte string about the Gallina model of de.rs/de_tree.rs/tools.rs/parse_atom.rs (Props/C16.v; any function in place of sha256): node_from_stream equals the recursive grammar and never reaches a panic site or runs out of its input-length fuel; tree_hash_from_stream accepts the same strings with the same error, leaves the same remaining input and returns the tree hash of the same tree; parse_triples accepts the same strings and leaves the same remaining input, never reaches one of its index/panic! sites and ends within 4|b|+4 loop iterations, its triple array read back against the input (atom bytes = blob[start+atom_offset..end], left child = next index, right child = right_index) is exactly the tree node_from_stream builds, with one triple per node, the root spanning the consumed bytes, and its hash array is the tree hash of every sub-tree in pre-order (on a truncated atom body it reports InternalError where the other two report SerializationError: same accept set, different error kind); over-allocation in the form 'the decoded tree has at most one node and one atom byte per consumed input byte', so every allocation request, array and stack of the three decoders is linear in the input; and for every input node_from_stream accepts, is_canonical_serialization is true exactly when nothing is left over and ser of the decoded tree is the input (is_canonical_serialization itself returns true or false on every byte string: its panic! is unreachable). Model vs implementation on all strings of <= 2 bytes, structured mutations of valid encodings and random strings; the implementation's own cross-decoder comparison searches the statement directly.",
 "note": vlib.NOTE_COMMON + " Real memory use (Vec capacity growth, the allocator's own caps) is outside the model: 'no over-allocation' is the proved linear bound on what the decoders build. Byte strings are lists of N; the canonical equivalence carries the explicit all-elements-below-256 hypothesis (wf_bytes).",
 "technique": 'Coq proof (generic stack-decoder refinement lemma instantiated twice; a separate simulation of the parse_triples loop with its in-place array updates against an annotated grammar; induction over decoder runs for the canonical equivalence) + model/implementation differential run (exhaustive <= 2 bytes) + implementation search',
}

def run(ctx):
    r = ctx.rng
    ctx.rule = ("all byte strings of length <= 2, in the thorough tier also all 3-byte strings whose first byte is at a prefix-class boundary (18 first bytes, node_from_stream only), plus structured strings: valid "
                "encodings mutated by truncation, trailing bytes, byte substitution with prefix-class bytes, inserted "
                "0xfe/0xff/zero-padded size fields, non-canonical prefixes, and pure random; directed atoms with every prefix length 1..6 and sizes "
                "0,1,2 and m/2, m-1, m, m+1 around every prefix-class minimum m <= 0x2000 (bare, in a pair, with a trailing byte; up to 2^20 in the thorough tier); non-trivial = distinct "
                "string of >= 2 bytes")
    ctx.explanation = ("Proof + correspondence + search. Theorems (Props/C16.v): node_from_stream = recursive grammar on every byte string, no panic site / fuel exhaustion reachable; tree_hash_from_stream and parse_triples agree with node_from_stream on accept set and remaining input, tree_hash_from_stream also on the error and the hash, parse_triples on the tree its triple array describes and on the tree hash of every sub-tree (any hash function), no index/panic! site of parse_triples reachable; decoded output linear in the consumed input; is_canonical_serialization b <-> nothing left over and ser(decoded tree) = b, for every accepted b. The model/implementation differential run covers all five functions ('de', 'th', 'tr', 'canon', 'tlen'); the implementation's cross-decoder comparison ('agree') searches the statement directly. Real memory use is outside the model.")
    ctx.proofs()
    if not ctx.build():
        return
    strings = list(gen.all_bytes_upto(2))
    strings += [gen.gen_bytes_classic(r) for _ in range(ctx.scale(6000, 40000))]
    strings += [bytes.fromhex(x) for x in ("fe00000000000161", "fc0000000001aa", "fb00000001bb", "fbffffffffff", "fc0400000000", "fe", "ff" * 50 + "80" * 51)]
    # directed: every prefix length with sizes at the edges of every prefix-length class (canonical check)
    strings += [b for _, b in gen_classic_nc.boundary_strings(0x2001)]
    cases = []
    for n, b in enumerate(strings):
        h = gen.hx(b)
        cases += ["de " + h, "canon " + h, "tlen " + h]
        # the hashing decoders cost ~1 ms per case in the extracted model (SHA-256 over Coq's N):
        # in the quick tier the exhaustive 2-byte block takes every 4th string through them
        # and strings longer than 400 bytes every 16th
        if ctx.thorough or (len(b) != 2 and len(b) <= 400) or (len(b) == 2 and n % 4 == 0) or n % 16 == 0:
            cases += ["th " + h, "tr " + h]
    ctx.correspond("classic", cases, nontrivial=lambda c, a, b: len(c.split()[1]) >= 4)
    if ctx.thorough:
        import itertools
        # every 3-byte string whose first byte sits at a prefix-class boundary
        firsts = (0x00, 0x01, 0x7f, 0x80, 0x81, 0xbf, 0xc0, 0xdf, 0xe0, 0xef, 0xf0, 0xf7, 0xf8, 0xfb, 0xfc, 0xfd, 0xfe, 0xff)
        c3 = ["de %02x%02x%02x" % ((f,) + t) for f in firsts for t in itertools.product(range(256), repeat=2)]
        ctx.correspond("classic", c3, name="classic-3byte", nontrivial=lambda c, a, b: True)
    lines = ["agree " + gen.hx(b) for b in strings]
    if ctx.thorough or ctx.broken:   # a broken proof/pin widens the search to the 2^20 class boundary (1 MB atoms)
        lines += ["agree " + gen.hx(b) for l, b in gen_classic_nc.boundary_strings(0x100001) if len(b) > 0x2010]
    outs = vlib.run_impl("classic", lines)
    for l, o in zip(lines, outs):
        ctx.evaluations += 1
        ctx.histogram("agree", " ".join(o.split()[:2]))
        if not o.startswith("ok"):
            ctx.violation("classic decoders disagree, or one of them panicked: " + o[:200], {"case": l, "impl": o})
