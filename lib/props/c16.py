"""C16 — classic decoders are total and agree with each other."""
import vlib, gen

LEVEL = "proof"


def run(ctx):
    r = ctx.rng
    ctx.rule = ("all byte strings of length <= 2 (quick) / <= 3 (thorough, decoders only) plus structured strings: valid "
                "encodings mutated by truncation, trailing bytes, byte substitution with prefix-class bytes, inserted "
                "0xfe/0xff/zero-padded size fields, non-canonical prefixes, and pure random; non-trivial = distinct "
                "string of >= 2 bytes")
    ctx.proofs()
    if not ctx.build():
        return
    strings = list(gen.all_bytes_upto(2))
    strings += [gen.gen_bytes_classic(r) for _ in range(ctx.scale(6000, 400000))]
    strings += [bytes.fromhex(x) for x in ("fe00000000000161", "fc0000000001aa", "fb00000001bb", "fbffffffffff", "fc0400000000", "fe", "ff" * 50 + "80" * 51)]
    cases = []
    for b in strings:
        h = gen.hx(b)
        cases += ["de " + h, "th " + h, "tr " + h, "canon " + h, "tlen " + h]
    ctx.correspond("classic", cases, nontrivial=lambda c, a, b: len(c.split()[1]) >= 4)
    if ctx.thorough:
        import itertools
        c3 = ["de %02x%02x%02x" % t for t in itertools.product(range(256), repeat=3)]
        ctx.correspond("classic", c3, name="classic-3byte", nontrivial=lambda c, a, b: True)
    lines = ["agree " + gen.hx(b) for b in strings]
    outs = vlib.run_impl("classic", lines)
    for l, o in zip(lines, outs):
        ctx.evaluations += 1
        ctx.histogram("agree", " ".join(o.split()[:2]))
        if not o.startswith("ok"):
            ctx.violation("classic decoders disagree, or one of them panicked: " + o[:200], {"case": l, "impl": o})
