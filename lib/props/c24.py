"""C24 — interning preserves the tree and deduplicates maximally."""
import vlib, gen, gen_dag

LEVEL = "proof"
FAMILY = "intern"

MANIFEST = {
 "level": 'proof',
 "text": "Proved for every tree about the Gallina model of intern_tree (content-keyed atom table, child-keyed pair table, in the implementation's traversal order): the interned structure denotes the source tree (hence identical serialization and tree hash, for any hash function), its atoms are pairwise distinct byte strings, its pairs pairwise distinct sub-trees, the tables contain exactly the atom values / pair sub-trees of the source, their sizes equal the number of distinct ones and never exceed the source's; no hash premise. The model's tables are compared entry by entry with the implementation's on DAG-shared trees with equal atoms in inline and heap representation.",
 "note": vlib.NOTE_COMMON + " The source is modelled as a tree; the memo keyed by source NodePtr is proved unobservable (C24_memo_unobservable) and exercised by shared NodePtrs in the correspondence run. Allocator limits of the new allocator are outside the model.",
 "technique": 'Coq proof (state invariant over the two association lists, induction over the tree) + model/implementation differential run on the interned tables + independent Python hash-consing check of the implementation',
}


def check_full(ctx, d, case, obs):
    """property-level search: the implementation's InternedTree against an independent Python
    computation (hash-consing of the source DAG)."""
    def bad(what):
        ctx.violation(what, {"case": case, "family": "intern", "impl": obs})
    if not obs.startswith("ok "):
        bad("intern_tree failed or panicked on a small tree: " + obs[:200])
        return
    f = dict(x.split("=", 1) for x in obs.split()[1:])
    atoms = [] if f["A"] == "_" else [bytes.fromhex(x) if x != "-" else b"" for x in f["A"].split(",")]
    pairs = [] if f["P"] == "_" else [tuple(x.split(":")) for x in f["P"].split(",")]
    ids, cid = d.canon()
    if len(set(atoms)) != len(atoms):
        bad("interned atoms are not pairwise distinct byte strings")
        return
    # canonical id of every interned node
    node_id = {}
    for i, a in enumerate(atoms):
        k = ("a", a)
        if k not in ids:
            bad("interned atom %s does not occur in the source tree" % a.hex())
            return
        node_id["a%d" % i] = ids[k]
    for j, (l, rt) in enumerate(pairs):
        if l not in node_id or rt not in node_id:
            bad("pair %d refers to a node that is not an earlier entry of the vectors (%s,%s)" % (j, l, rt))
            return
        k = ("p", node_id[l], node_id[rt])
        if k not in ids:
            bad("interned pair %d is not a sub-tree of the source" % j)
            return
        node_id["p%d" % j] = ids[k]
    pid = [node_id["p%d" % j] for j in range(len(pairs))]
    if len(set(pid)) != len(pid):
        bad("interned pairs are not pairwise distinct sub-trees")
        return
    na, npairs = d.stats()
    if len(atoms) != na or len(pairs) != npairs:
        bad("interned counts atoms=%d pairs=%d, distinct in source atoms=%d pairs=%d" % (len(atoms), len(pairs), na, npairs))
        return
    src_atoms = sum(1 for i, rch in enumerate(d.reachable()) if rch and d.nodes[i][0] == "a")
    if f["R"] not in node_id or node_id[f["R"]] != cid[d.root]:
        bad("the interned root does not denote the source tree")
        return
    ser = d.classic_ser()
    if f["S"] != ser.hex() or f["SS"] != ser.hex():
        bad("serialization of the interned tree differs from the source's")
        return
    th = d.tree_hash().hex()
    if f["H"] != th or f["SH"] != th:
        bad("tree hash of the interned tree differs from sha256tree of the source (interned %s, source %s, expected %s)" % (f["H"], f["SH"], th))
        return
    ctx.histogram("dedup", "atoms %s pairs %s" % ("shrunk" if na < src_atoms else "same", "shrunk" if npairs * 2 + 1 < d.expanded() else "same"))


def run(ctx):
    r = ctx.rng
    ctx.rule = ("DAGs of 1..120 nodes (shapes: random, recent-biased, right/left lists, doubling (x . x) chains) over atom pools of 1..12 values "
                "(nil, ints 0..40 and boundaries, non-canonical forms, blobs), every atom randomly through new_atom (inline small int) or forced "
                "onto the heap, repeated nodes either the same NodePtr or a fresh equal copy; plus unshared trees from the shared generator and "
                "deep lists; non-trivial = at least one pair and some atom value or sub-tree occurring twice")
    ctx.explanation = ("Proof: Props/C24.v (all conjuncts of the statement, every tree, no hash premise). Correspondence: the model's atom vector, "
                       "pair vector (children by position) and root are compared with the implementation's InternedTree; serialization and tree hash "
                       "of the interned tree with the model's of the source. Search: the implementation's tables are checked against an independent "
                       "Python hash-consing of the source DAG (distinctness, exactness, counts, root, serialization, sha256 tree hash via hashlib).")
    ctx.proofs()
    if not ctx.build():
        return
    dags = []
    for _ in range(ctx.scale(1500, 20000)):
        dags.append(gen_dag.gen_dag(r))
    for _ in range(ctx.scale(300, 4000)):
        dags.append(gen_dag.from_tree(gen.gen_tree(r, share=r.choice([0.0, 0.3]))))
    for n in (ctx.scale([200, 1500], [200, 1500, 6000])):
        dags.append(gen_dag.from_tree(gen.deep_list(r, n, right=True)))
        dags.append(gen_dag.from_tree(gen.deep_list(r, n, right=False)))
    # every small int 0..40 in both representations next to each other
    for v in range(0, 41):
        b = gen.int_to_bytes(v)
        dags.append(gen_dag.Dag([("a", b, "a"), ("a", b, "h"), ("p", 0, 1), ("a", b, "h"), ("p", 2, 3)], 4))
    # near-collisions: atoms of the same length that differ in one bit (every bit of the first and last byte),
    # and atoms that differ only by a leading / trailing zero byte - any lossy key for the atom table
    # (packed words, length tags, truncated hashes) merges some of these
    for ln in (1, 2, 3, 4, 5, 7, 8, 9, 15, 16, 17, 31, 32, 33):
        base = bytes(r.getrandbits(8) for _ in range(ln))
        vs = [base]
        for pos in {0, ln - 1}:
            for bit in range(8):
                v = bytearray(base); v[pos] ^= 1 << bit; vs.append(bytes(v))
        vs += [b"\x00" + base, base + b"\x00", base[:-1], base[1:]]
        nodes = [("a", v, r.choice("ah")) for v in vs]
        top = 0
        for i in range(1, len(vs)):
            nodes.append(("p", top, i)); top = len(nodes) - 1
        dags.append(gen_dag.Dag(nodes, top))
    cases = []
    full = []
    for d in dags:
        s = d.emit(r, ref_prob=r.choice([0.0, 0.5, 0.9, 1.0]))
        na, npairs = d.stats()
        ctx.histogram("nodes", "<=3" if d.expanded() <= 3 else "<=30" if d.expanded() <= 30 else "<=300" if d.expanded() <= 300 else ">300")
        cases.append("tab " + s)
        # the extracted SHA-256 costs ~25 ms/KB: the model hashes only small trees (the search below checks
        # the tree hash of every tree against hashlib)
        if d.hashed_bytes() <= 2500 or (ctx.thorough and d.hashed_bytes() <= 8000 and r.random() < 0.3):
            cases.append("eq " + s)
        full.append((d, "tabfull " + s))
    def nontrivial(c, a, b):
        return "p" in c.split()[1] and c.count(";") >= 3
    ctx.correspond("intern", cases, nontrivial=nontrivial)
    outs = vlib.run_impl("intern", [c for _, c in full])
    for (d, c), o in zip(full, outs):
        ctx.evaluations += 1
        check_full(ctx, d, c, o)
