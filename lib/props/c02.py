"""C02 — cost budget is sound, monotone and tight."""
import vlib, gen, gen_prog, runlib
from gen_prog import FLAG, run_line, parse_obs, head

LEVEL = "proof"
FAMILY = "run"

MANIFEST = {
 "level": "proof",
 "text": "All six clauses (C <= M; same result under every succeeding budget; upward closed; smaller budgets fail with CostExceeded only; smallest succeeding budget = C when no cost-exempt guard can be entered; 0 = unlimited) are proved for every program, environment, pair of budgets and fuel about the Gallina model of run_program.rs (Model/Machine.v) under any dialect whose operators obey the budget contract, and the contract is proved for every operator of ChiaDialect/RuntimeDialect (all flag sets, arbitrary cryptographic primitives). The model is run against the implementation on generated programs x budget sweeps (exact cost, +-1, half, 1, double, 2^64-1), incl. cost-calibrated softfork guards (exempt and non-exempt).",
 "note": vlib.NOTE_COMMON + " The allocator caps and STACK_SIZE_LIMIT are outside the tree-store machine: the theorems are about runs that hit none of them (DESIGN.md section 3).",
 "technique": "Coq proof (lock-step simulation of the runs under two budgets over the stack machine; per-operator budget contracts) + model/implementation differential run over budget sweeps + implementation search",
}


def budgets(r, c):
    bs = {c, min(c + 1, 2 ** 64 - 1), min(c * 2, 2 ** 64 - 1), 2 ** 64 - 1, max(1, c - 1), max(1, c // 2), 1}
    if c > 2:
        bs.add(c - r.randrange(1, min(c, 5000)))
    bs.discard(0)
    return sorted(bs)


def run(ctx):
    r = ctx.rng
    ctx.rule = ("programs from clvm-fuzzing's typed generator, hand-shaped evaluator cases, unknown operators and "
                "cost-calibrated softfork guards, each under a random flag set; first run with budget 0 (unlimited) to learn "
                "the cost C, then under budgets {C, C+1, 2C, 2^64-1, C-1, C/2, 1, C-delta}; non-trivial = distinct "
                "(program, flags, budget) where the unlimited run succeeds")
    ctx.explanation = ("Proof + differential run. Theorems (Props/C02.v): C02_sound, C02_same, C02_upward, C02_fail_kind, C02_tight, "
                       "C02_zero for any dialect obeying the operator budget contract, and the contract for ChiaDialect and "
                       "RuntimeDialect. The check compares the model's prediction with the implementation on every (program, flags, "
                       "budget) line and searches the implementation alone for a pair of budgets violating a clause of the statement.")
    ctx.proofs()
    if not ctx.build():
        return
    n = ctx.scale(350, 6000)
    flagsets = [0, FLAG["NEW_COST_MODEL"], gen_prog.MEMPOOL_MODE]
    pool = runlib.program_pool(ctx, n, n_unknown=ctx.scale(40, 300), flags_for_guards=(0, FLAG["NEW_COST_MODEL"]))
    # directed: finding F6 (pre-hard-fork unknown-operator cost product wrapping 64 bits) also breaks
    # tightness: the reported cost is smaller than the base that is checked against the budget
    f6 = gen_prog.op(bytes.fromhex("7fd0110580"), gen_prog.q(gen.Rep(0x41, 1 << 20)), gen_prog.q(gen.Rep(0x42, 1 << 20)))
    pool.append((gen.tt(f6), gen.tt(b""), "directed-F6"))
    # directed: long argument lists / deep trees of (almost) empty atoms for the operators that check the budget
    # while they work; each runs under both cost models with its enabling flag
    base = []
    for p, e, bit, what in gen_prog.long_work_programs(r):
        for ncm in (0, FLAG["NEW_COST_MODEL"]):
            base.append((p, e, bit | ncm))
    # directed: costs at the top of the u64 range (a softfork with an unknown extension is skipped at its declared
    # cost): budget 0 must behave like 2^64-1 there too, and budgets just below such a cost must fail
    for declared in (2 ** 63 - 1, 2 ** 63, 2 ** 63 + 1, 2 ** 64 - 1000, 2 ** 64 - 1):
        for ext in (2, 5):
            g = gen.tt(gen_prog.guard(gen_prog.q(gen_prog.i2a(1)), b"", declared, ext))
            for f in (0, FLAG["NEW_COST_MODEL"]):
                base.append((g, gen.tt(b""), f))
    for p, e, tag in pool:
        if tag.startswith("guard[f="):
            f = int(tag.split("=")[1].split()[0])
            if r.random() < 0.3:
                f |= gen_prog.random_flags(r, 0.15, exclude=FLAG["NEW_COST_MODEL"])
        elif tag == "directed-F6":
            f = 0
        else:
            f = r.choice(flagsets) if (r.random() < 0.5 and not tag.startswith("flagsens")) else runlib.pick_flags(r, tag, 0.2)
        base.append((p, e, f))
    lines0 = [run_line(p, e, f=f, m=0) for p, e, f in base]
    outs0 = vlib.run_impl("run", lines0)
    runlib.note_outcomes(ctx, outs0, "unlimited_outcome")
    sweep = []
    meta = []
    for (p, e, f), o in zip(base, outs0):
        k, c, v, _ = parse_obs(o)
        if k == "ok" and c > 0:
            for b in budgets(r, c):
                sweep.append(run_line(p, e, f=f, m=b))
                meta.append((p, e, f, c, v, b))
    # a budget of 0 means unlimited: the same line under the largest explicit budget
    linesmax = [run_line(p, e, f=f, m=2 ** 64 - 1) for p, e, f in base]
    outsmax = vlib.run_impl("run", linesmax)
    for l0, lm, o0, om in zip(lines0, linesmax, outs0, outsmax):
        runlib.count_case(ctx, lm, nontrivial=(om or "").startswith("ok"))
        if head(o0) != head(om):
            ctx.violation("budget 0 (unlimited) and budget 2^64-1 give different outcomes",
                          {"family": "run", "case": l0[:3000], "impl": o0, "max_budget_case": lm[:3000], "max_budget": om})
    # model vs implementation: the unlimited runs and the sweep
    runlib.correspond_run(ctx, lines0, name="run:unlimited")
    runlib.correspond_run(ctx, sweep, name="run:budget-sweep")
    # property-level search on the implementation
    outs = vlib.run_impl("run", sweep)
    by_prog = {}
    for l, (p, e, f, c, v, b), o in zip(sweep, meta, outs):
        runlib.count_case(ctx, l)
        k, c2, v2, _ = parse_obs(o)
        exempt_possible = bool(f & FLAG["NEW_COST_MODEL"]) and runlib.has_softfork(p)
        rep = {"family": "run", "case": l[:3000], "impl": o, "unlimited_cost": c,
               "class": "F6" if ("a7fd0110580;" in p and not (f & FLAG["NEW_COST_MODEL"])) else "other"}
        if k == "ok":
            if c2 > b:
                ctx.violation("run succeeded with cost %d above its budget %d" % (c2, b), rep)
            if (c2, v2) != (c, v):
                ctx.violation("a succeeding budget changed the result or the cost (unlimited: %d)" % c, rep)
            if b < c:
                ctx.violation("run succeeded under a budget below its cost", rep)
        elif k == "err CostExceeded":
            if b >= c and not exempt_possible:
                ctx.violation("budget %d >= cost %d fails although no cost-exempt guard can be entered" % (b, c), rep)
        else:
            ctx.violation("a budget other than the unlimited one fails with an error other than cost exceeded", rep)
        by_prog.setdefault((p, e, f), []).append((b, k == "ok", l, o))
    for key, lst in by_prog.items():          # upward closure (also with exempt guards)
        lst.sort()
        seen_ok = None
        for b, ok, l, o in lst:
            if ok:
                seen_ok = seen_ok or (b, l)
            elif seen_ok:
                ctx.violation("succeeds under budget %d but fails under the larger budget %d" % (seen_ok[0], b),
                              {"family": "run", "case": l[:3000], "impl": o, "smaller_budget_case": seen_ok[1][:3000]})
