"""C13 — allocator limits are enforced exactly."""
import vlib, alloc_common

LEVEL = "other"
FAMILY = "alloc"

MANIFEST = {
 "level": "other",
 "text": "Proved (Coq, no axioms) about the Gallina model of src/allocator.rs: after ANY history of public operations (started by new_limited(L), L >= 1, byte arguments < 256, no Rust panic = API misuse) atom_count <= 62 500 000, pair_count <= 62 500 000, heap_size <= heap_limit — unconditionally for new_substr with the heap-limit check of notes/fix_F2_limit.diff, and for the unchanged code for every history that does not take new_substr's copy-to-heap branch (C13_caps; C13_current instantiates it with what the translator reads from /repo); per operation the error is TooManyAtoms/TooManyPairs/OutOfMemory exactly when the cap would be exceeded, in the implementation's order of checks; an operation that returns an error leaves the whole state unchanged. C13_refuted: on the unchanged code new_limited(3); new_small_number(0x80); new_substr(it,1,2) succeeds with heap_size 4 (finding F2, reported as KNOWN-FINDING until the fix is committed). The heap limit only removes successes: a history that meets no OutOfMemory under limit L has the same observations on the reference accounting under every L' >= L, and the real arena ends with the same counts and node contents under both limits (C13_limit_monotone_ref, C13_limit_monotone, through C12_history; also the LIMIT_HEAP clause of C07). Programs (run_program in a pre-loaded allocator) are not modelled here.",
 "note": vlib.NOTE_COMMON + " Level 'other': histories of allocator operations are proved; the 'programs' half of the quantifier is not modelled, and the model's 'failed operation changes nothing' is by construction of the model and validated only by the correspondence run.",
 "technique": "Coq proof (history invariant by induction over operation lists, checkpoint chain) + model/implementation differential run near every cap + cap monitors on the implementation",
}


def run(ctx):
    ctx.rule = alloc_common.RULE
    ctx.explanation = ("Theorems (Props/C13.v): caps after any history (parametric in the F2 fix), exact failure conditions per operation, "
                       "failed operations change nothing. Explored: histories pre-loaded to within 0..9 of each cap through add_ghost_atom / "
                       "add_ghost_pair and heap limits 1..100; monitors on the implementation after every step: no cap exceeded, cap errors "
                       "exactly where the reference accounting predicts, a failed step leaves counts and every live node unchanged.")
    ctx.proofs()
    if not ctx.build():
        return
    fx, cases = alloc_common.make_cases(ctx, ctx.scale(1500, 60000),
                                        profiles=["heapcap", "atomcap", "paircap", "heapcap", "atomcap", "paircap", "f2", "general", "gc", "gccap", "gccap", "substr"])
    alloc_common.run_all(ctx, cases, "caps")
