"""C04 — heap reclamation (ENABLE_GC) is unobservable."""
import vlib, gen, gen_prog, runlib
from gen_prog import FLAG, run_line, parse_obs, head

LEVEL = "other"
FAMILY = "run"

MANIFEST = {
 "level": "other",
 "text": "Partly proved, partly explored. Proved about the Gallina models: (i) on the interpreter model the RestoreAllocator operations that ENABLE_GC schedules are stuttering steps - for every program, environment, budget, flag set and GC-candidate list the run with them and the run without them give the same result, cost and error (Props/C04.v); (ii) on the allocator model, maybe_restore_with_node preserves the restored node's bytes and the three counters in each of its outcomes. Not proved: the composition (arena machine refines tree machine with the age discipline of checkpoints, DESIGN.md appendix B.1); that part is decided by running every generated program with and without ENABLE_GC on the implementation and comparing result, cost, error message, atom count, pair count and heap size.",
 "note": vlib.NOTE_COMMON + " Level 'other' because the store-refinement theorem that would connect the two proved halves is not proved.",
 "technique": "Coq proof (stuttering simulation on the stack machine; allocator-model lemmas) + model/implementation differential run + implementation search over (F, F|ENABLE_GC) pairs incl. allocator counters and error messages",
}


def run(ctx):
    r = ctx.rng
    ctx.rule = ("generated programs (typed fuzz generator, operator vectors incl. BLS/secp/keccak calls, hand-shaped, unknown "
                "operators, calibrated guards) under a random flag set F without and with ENABLE_GC, random budgets, fresh and "
                "pre-populated allocators, re-encoded atoms; the two implementation observations are compared in full (result "
                "tree, cost, error message hash, atom/pair/heap counts); non-trivial = distinct pair whose program contains a "
                "GC-candidate operator and succeeds")
    ctx.explanation = ("Part proof, part exploration; see MANIFEST level text. Model vs implementation on the GC runs (the model's "
                       "prediction does not depend on ENABLE_GC by the theorem), then the property-level search: full observation "
                       "equality of the (F, F|GC) pair on the implementation.")
    ctx.proofs()
    if not ctx.build():
        return
    n = ctx.scale(500, 8000)
    pool = runlib.program_pool(ctx, n, n_unknown=ctx.scale(30, 200), flags_for_guards=(0, FLAG["NEW_COST_MODEL"]))
    pool += gen_prog.gc_directed_programs()
    pairs = []
    for p, e, tag in pool:
        f = runlib.pick_flags(r, tag, 0.15, exclude=FLAG["ENABLE_GC"])
        if tag.startswith("guard[f="):
            f = (f & ~FLAG["NEW_COST_MODEL"]) | (int(tag.split("=")[1].split()[0]) & FLAG["NEW_COST_MODEL"])
        m = r.choice([0, 0, 0, 11000000000, r.randrange(1, 5000), r.randrange(1, 10 ** 6)])
        kw = {}
        if r.random() < 0.3:
            kw["h"] = r.randrange(1, 10 ** 6)
        if r.random() < 0.3:
            kw["enc"] = r.randrange(1, 10 ** 6)
        pairs.append((run_line(p, e, f=f, m=m, **kw), run_line(p, e, f=f | FLAG["ENABLE_GC"], m=m, **kw), p))
    a = vlib.run_impl("run", [x[0] for x in pairs])
    b = vlib.run_impl("run", [x[1] for x in pairs])
    runlib.note_outcomes(ctx, a)
    for (l0, l1, p), o0, o1 in zip(pairs, a, b):
        runlib.count_case(ctx, l1, nontrivial=(o0 or "").startswith("ok"))
        if o0 != o1:
            ctx.violation("ENABLE_GC changed the observation of a run",
                          {"family": "run", "case": l1[:3000], "impl": o1, "without_gc_case": l0[:3000], "without_gc": o0})
    runlib.check_no_panic(ctx, [x[1] for x in pairs], b)
    runlib.correspond_run(ctx, [x[1] for x in pairs], name="run:gc")
