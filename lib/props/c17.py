"""C17 — back-reference serialization round-trips and never grows."""
import vlib, gen, gen_br, corr_par

LEVEL = "other"
FAMILY = "br"

MANIFEST = {
 "level": 'other',
 "text": "see Props/C17.v header (filled in by the final revision of this file)",
 "note": vlib.NOTE_COMMON,
 "technique": 'Coq proof (format-level emitter theorem, read-cache soundness under tree-hash injectivity) + byte-for-byte model/implementation run of the serializer on DAG-shared trees + implementation search (round trip, length, determinism, idempotence, canonical form)',
}


def gen_trees(ctx, n, maxsize):
    r = ctx.rng
    out = []
    for _ in range(n):
        k = r.random()
        if k < 0.7:
            t = gen_br.shared_tree(r, size=r.choice([s for s in (1, 2, 3, 5, 8, 13, 20, 40, 80) if s <= maxsize]))
        elif k < 0.85:
            # many copies of one sub-tree at varying depths
            sub = gen_br.shared_tree(r, size=r.choice([3, 5, 9]))
            t = sub
            for _ in range(r.randrange(1, min(12, maxsize // 2 + 2))):
                c = r.random()
                t = (sub, t) if c < 0.4 else (t, sub) if c < 0.7 else ((gen_br.small_atom(r), sub), t)
        else:
            t = gen.gen_tree(r, r.choice([3, 8, 20]), pool=[b"", b"\x01", b"abcd", b"\xff" * 5], share=0.4)
        out.append(t)
    return out


def run(ctx):
    ctx.rule = ("DAG-shared trees: random shapes over a small atom pool with sub-tree reuse probability 0-0.5, towers that repeat one "
                "sub-tree at varying depths, gen.gen_tree with sharing; atoms of 0-70 bytes incl. lengths at the 0x3f/0x40 prefix boundary. "
                "non-trivial = distinct tree whose compressed form is shorter than its classic form (at least one back-reference)")
    ctx.explanation = "filled in below"
    ctx.proofs()
    if not ctx.build():
        return
    # 1. model vs implementation, byte for byte (extracted SHA-256 is slow: keep these small)
    small = gen_trees(ctx, ctx.scale(500, 6000), 40)
    small = [t for t in small if gen_br.tree_size(t) <= 120]
    cases = ["ser " + gen.tt(t) for t in small]
    corr_par.correspond(ctx, "br", cases, name="ser_br", nontrivial=lambda c, a, b: False)
    # 2. the property itself on the implementation: larger trees
    trees = small + gen_trees(ctx, ctx.scale(2500, 60000), 80)
    lines = ["rt " + gen.tt(t) for t in trees]
    outs = vlib.run_impl("br", lines)
    seen = set()
    for l, o in zip(lines, outs):
        ctx.evaluations += 1
        o = o or "none"
        if o.startswith("ok"):
            f = dict(x.split("=") for x in o.split()[1:3])
            br, cl = int(f["br"]), int(f["classic"])
            ctx.histogram("saving", "none" if br == cl else "<25%" if br * 4 > cl * 3 else "<50%" if br * 2 > cl else ">=50%")
            if l not in seen:
                seen.add(l)
                if br < cl:
                    ctx.nontrivial += 1
        else:
            ctx.histogram("rt", " ".join(o.split()[:2]))
            ctx.violation("node_to_bytes_backrefs: " + o[:200], {"case": l, "family": "br", "impl": o})
