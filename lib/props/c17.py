"""C17 — back-reference serialization round-trips and never grows."""
import vlib, gen, gen_br, corr_par

LEVEL = "other"
FAMILY = "br"

MANIFEST = {
 "level": 'other',
 "text": "Proved about the Gallina models of ser_br.rs, read_cache_lookup.rs, object_cache.rs and de_br.rs: (format level, any emitter) bytes that are node by node either the structure or 0xfe + a path valid for the decoder's stack decode to the tree in the grammar, both decoders and the length probe, are canonical, and are not longer than the classic form when back-references are only used where they are not longer; (serializer level, for every hash function with an injective tree hash - explicit, satisfiable premise; collision resistance for sha256) TOTALITY (C17_total): on every tree whose atoms are shorter than 2^32-5 bytes and which has at most (2^32-2)/6 nodes (the u32 ranges of serialized_length_atom and of the reference counts; the allocator holds at most 125,000,000 nodes) node_to_bytes_backrefs returns bytes - the op-stack assert never fires, no u32 reference count under- or overflows, the breadth-first search never exhausts its fuel; and hence UNCONDITIONALLY for every such tree (C17_all): the bytes decode to the tree in both decoders and the specification, consuming everything, the length probe returns their length, they are canonical, are no longer than the classic serialization (classic length < 2^32-5) and decoding and serializing again gives the same bytes. Run-to-run determinism is a property of the model by construction (a function; no iteration over hashed containers) and is tested on the implementation, not stated as a theorem. Model vs implementation byte for byte on DAG-shared trees; implementation search for round trip (both decoders), length, determinism, idempotence, canonical form, length probes.",
 "note": vlib.NOTE_COMMON + " Level 'other': every clause but run-to-run determinism is a theorem for all trees in the code's u32 ranges; sha256's collision resistance appears as the premise 'tree hash injective'.",
 "technique": 'Coq proof (format-level emitter theorem, read-cache soundness under tree-hash injectivity, totality of the serializer: reference-count domination invariant, breadth-first termination measure, structural recursion over the write stack) + byte-for-byte model/implementation run of the serializer on DAG-shared trees + implementation search (round trip, length, determinism, idempotence, canonical form)',
}


def gen_trees(ctx, n, maxsize):
    r = ctx.rng
    out = []
    for _ in range(n):
        k = r.random()
        if k < 0.7:
            t = gen_br.shared_tree(r, size=r.choice([s for s in (1, 2, 3, 5, 8, 13, 20, 40, 80) if s <= maxsize]))
        elif k < 0.85:
            # many copies of one sub-tree at varying depths
            sub = gen_br.shared_tree(r, size=r.choice([3, 5, 9]))
            t = sub
            for _ in range(r.randrange(1, min(12, maxsize // 2 + 2))):
                c = r.random()
                t = (sub, t) if c < 0.4 else (t, sub) if c < 0.7 else ((gen_br.small_atom(r), sub), t)
        else:
            t = gen.gen_tree(r, r.choice([3, 8, 20]), pool=[b"", b"\x01", b"abcd", b"\xff" * 5], share=0.4)
        out.append(t)
    return out


def boundary_trees(r):
    """improper lists (x a1 ... a_{d-1} x . y): when the second x is serialized the first one is d
    path bits away, so the encoding of the path crosses the 'shorter than the node' bound of
    find_paths exactly when d crosses 8*(L-2) for an atom of classic length L; and proper lists
    (x a1 ... a_{d-1} x) whose tail (x) equals the tail of the parse stack, d-1 bits away"""
    out = []
    for alen in (3, 4):
        for d in sorted(set(range(8 * (alen - 1) - 2, 8 * (alen - 1) + 3)) | {7, 8, 9}):
            x = bytes(r.getrandbits(8) | 1 for _ in range(alen))
            items = [x] + [bytes([1 + i]) for i in range(d - 1)] + [x]
            t = bytes([0x7e])
            for it in reversed(items):
                t = (it, t)
            out.append(t)
    for d in (8, 9, 10, 15, 16, 17, 18, 19):
        x = bytes([0x81 + r.randrange(100)])       # (x) has classic length 4
        items = [x] + [bytes([1 + i]) for i in range(d - 1)] + [x]
        t = b""
        for it in reversed(items):
            t = (it, t)
        out.append(t)
    return out


def tie_trees(r, n):
    """a complete tree over two or three long atoms, followed by one of them (or by one of its
    pairs): the repeated node is reachable through several different parents at equal depth, so
    find_paths returns several shortest paths and find_path must pick the smallest"""
    out = []
    for _ in range(n):
        pool = [bytes(r.getrandbits(8) for _ in range(r.choice([3, 4, 6]))) for _ in range(r.choice([2, 3]))]

        def comp(k):
            return r.choice(pool) if k == 0 else (comp(k - 1), comp(k - 1))
        body = comp(r.choice([2, 3, 3, 4]))
        tail = r.choice(pool) if r.random() < 0.6 else (r.choice(pool), r.choice(pool))
        out.append((body, tail) if r.random() < 0.7 else ((body, tail), r.choice(pool)))
    return out


def far_trees(r, thorough):
    """a repeated atom / sub-tree of classic length S whose earlier copy is about 8*(S-2) steps away on the parse
    stack: there the PATH atom itself reaches 64 bytes and needs a two-byte size prefix, so whether the
    back-reference still pays off changes by one byte within a window of eight distances"""
    out = []
    sizes = (64, 65, 66, 70, 100) if thorough else (64, 66)
    for s in sizes:
        x = bytes(r.getrandbits(8) | 1 for _ in range(s))
        half = s // 4 - 1
        sub = ((bytes([1] * half), bytes([2] * (half + 1))), (bytes([2] * (half + 1)), bytes([2] * (half + 1))))
        for n in range(8 * s - 13, 8 * s + 4):
            for rep in (x, sub):
                t = rep
                for i in range(n):
                    t = (gen.int_to_bytes(1 + (i * 7) % 120), t)
                out.append((rep, t))
    return out


def run(ctx):
    r = ctx.rng
    ctx.rule = ("DAG-shared trees: random shapes over a small atom pool with sub-tree reuse probability 0-0.5, towers that repeat one "
                "sub-tree at varying depths, gen.gen_tree with sharing, and lists that repeat an atom / small pair of classic length 4-6 at the distances around 8, 16, 24, 32 (where the path encoding grows by a byte and where the path-length bound of find_paths is crossed), complete trees over 2-3 long atoms followed by one of them (several shortest paths: the lexicographic choice); atoms of 0-70 bytes incl. lengths at the 0x3f/0x40 prefix boundary. "
                "non-trivial = distinct tree whose compressed form is shorter than its classic form (at least one back-reference)")
    ctx.explanation = ("Theorems (Props/C17.v): C17_emit_ok, C17_enc_canonical, C17_format_never_grows (format level, any emitter; also what C19 needs); "
                       "C17_serializer_emits_valid_paths, C17_roundtrip, C17_never_grows, C17_canonical, C17_idempotent (serializer level, premise: tree hash injective, "
                       "conclusion conditional on the serializer returning bytes); C17_total (the serializer returns bytes on every tree in the u32 ranges of the code) and C17_all (all of "
                       "the above with no premise on the outcome); C17_premise_satisfiable. "
                       "Correspondence: node_to_bytes_backrefs model (extracted SHA-256) vs implementation byte for byte on small DAG-shared trees; "
                       "property search 'rt' on the implementation: decode with both decoders = tree and consumes everything, |br| <= |classic|, second run in a differently "
                       "populated allocator gives the same bytes, is_canonical_serialization, both length probes = length, re-serialization of the decoded tree = same bytes.")
    ctx.assumptions.append("C17 serializer-level theorems assume the tree hash is injective (sha256 collision resistance); shown satisfiable by C17_premise_satisfiable")
    # one build of the Coq cone for both statement files (the thorough tier rebuilds from clean)
    ctx.proofs(extra_targets=["Props/C29br.vo", "Pins/C29br.vo"])
    ctx.extra_props("Props/C29br.v")
    if not ctx.build():
        return
    # 1. model vs implementation, byte for byte (extracted SHA-256 is slow: keep these small)
    small = gen_trees(ctx, ctx.scale(300, 2500), 40)
    small = [t for t in small if gen_br.tree_size(t) <= 120] + boundary_trees(r) + tie_trees(r, ctx.scale(40, 200))
    cases = ["ser " + gen.tt(t) for t in small]
    corr_par.correspond(ctx, "br", cases, name="ser_br", nontrivial=lambda c, a, b: False)
    # 1b. the size-limited serializer (back-reference half of C29, Props/C29br.v): every limit
    #     0..len+1 of a few small trees, model vs implementation, and against the statement
    lim_trees = [t for t in small if gen_br.tree_size(t) <= 25][:ctx.scale(15, 100)]
    full = vlib.run_impl("br", ["serhex " + gen.tt(t) for t in lim_trees])
    lcases, expect = [], []
    for t, o in zip(lim_trees, full):
        if not (o or "").startswith("ok"):
            continue
        h = o.split()[1]
        n = 0 if h == "-" else len(h) // 2
        for lim in range(0, n + 2):
            lcases.append("serl %d %s" % (lim, gen.tt(t)))
            expect.append((n, lim, h))
    corr_par.correspond(ctx, "br", lcases, name="ser_br_limit", nontrivial=lambda c, a, b: False)
    louts = vlib.run_impl("br", lcases)
    for c, o, (n, lim, h) in zip(lcases, louts, expect):
        ctx.evaluations += 1
        o = o or "none"
        if lim < n:
            ok = o == "err OutOfMemory"
        else:
            ok = o.startswith("ok ") and (n > 48 or o.split()[1] == h)
        ctx.histogram("limit", "below" if lim < n else "at-or-above")
        if not ok:
            ctx.violation("node_to_bytes_backrefs_limit: limit %d, unlimited length %d: %s" % (lim, n, o[:120]),
                          {"case": c, "family": "br", "impl": o})
    # 2. the property itself on the implementation: larger trees
    trees = small + gen_trees(ctx, ctx.scale(2500, 60000), 80) + far_trees(r, ctx.thorough)
    lines = ["rt " + gen.tt(t) for t in trees]
    outs = vlib.run_impl("br", lines)
    seen = set()
    for l, o in zip(lines, outs):
        ctx.evaluations += 1
        o = o or "none"
        if o.startswith("ok"):
            f = dict(x.split("=") for x in o.split()[1:3])
            br, cl = int(f["br"]), int(f["classic"])
            ctx.histogram("saving", "none" if br == cl else "<25%" if br * 4 > cl * 3 else "<50%" if br * 2 > cl else ">=50%")
            if l not in seen:
                seen.add(l)
                if br < cl:
                    ctx.nontrivial += 1
        else:
            ctx.histogram("rt", " ".join(o.split()[:2]))
            ctx.violation("node_to_bytes_backrefs: " + o[:200], {"case": l, "family": "br", "impl": o})
