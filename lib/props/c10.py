"""C10 — operator costs follow the documented cost models."""
import gen
import gen_ops
import ops_common
import vlib

LEVEL = "other"
FAMILY = "ops"

MANIFEST = {
 "level": "other",
 "text": "Proved about the Gallina operator models: for every non-cryptographic operator of ChiaDialect (add subtract multiply div divmod mod modpow > >s strlen substr concat ash lsh lognot not any all sha256 sha256tree i c f r l =), every flag set (both cost models, with and without MALACHITE), argument tree and budget, a successful call charges exactly spec_X f args v (Model/CostSpec.v: one formula per operator and cost model transcribed from docs/cost-model.md, docs/sha256tree.md and the constant blocks; C10_<op>); sha256tree = base + 460*pairs + per_byte*sum(len+1) + 320 over the fully expanded tree. Every cost literal of the models is pinned against the constants the translator re-reads from more_ops.rs/core_ops.rs/treehash.rs/op_utils.rs (Pins/C10consts.v). logand/logior/logxor: proved pre-hard-fork and, under NEW_COST_MODEL, on the class where document and code agree; the statement is REFUTED outside it (C10_refuted_logic, finding F5, documentation: (logior 0x400000 0x01) charges 676, documented 670) - KNOWN-FINDING. Level other because: ash/lsh theorems carry the premise int_of_bytes(bytes_of_int z)=z; the cryptographic operators are ws-crypto's; docs/cost-model.md says 'magnitude' for ARGUMENTS of add/multiply/divmod/modpow where code (and its in-code documentation) charge the atom length - the transcription follows the property statement ('argument sizes').",
 "note": vlib.NOTE_COMMON + " F5 is a recorded known finding (documentation): the check prints KNOWN-FINDING for it.",
 "technique": "Coq proof (loop invariants, lia) + vm_compute refutation witness + translator-pinned constants + model/implementation differential run + implementation cost vs extracted documented formula",
}

LOGIC = set(gen_ops.LOGIC)


def run(ctx):
    r = ctx.rng
    ops_common.load_proposed_known(ctx)
    ctx.rule = ("every non-crypto operator called directly: 0-6 arguments, pairs at each position, improper "
                "terminators, integers at every encoding boundary, 00../ff.. paddings, sizes around 256/1024/2048, "
                "shifts around +-65535, substr bounds off by one, repeated-byte atoms up to 1 MiB; flags: both cost "
                "models x {LIMITS, DISABLE_OP, MALACHITE, CANONICAL_INTS, mempool}; budgets: huge, exact cost c, c-1, "
                "last checked cost +-1, prefix boundaries, random below c; atoms built by new_atom / substring view "
                "/ concatenation. Non-trivial = distinct successful call with >= 1 argument, or a CostExceeded at a "
                "derived boundary")
    ctx.explanation = ("Theorems in Props/C10.v relate the model's cost to the documented formula; the run ties the model "
                       "to the implementation (cost and value of every call) and compares the implementation's cost "
                       "with the extracted documented formula spec_X directly. A mismatch in the class of finding F5 "
                       "prints KNOWN-FINDING; a broken constant pin makes the search below look for a concrete call "
                       "whose cost deviates.")
    ctx.proofs()
    if not ctx.build():
        return
    thr = gen_ops.thresholds_from_source(vlib.REPO)
    if thr:
        gen_ops.THRESHOLDS[:] = sorted(set(thr) | set(gen_ops.THRESHOLDS))
    names = gen_ops.MORE_OPS + gen_ops.CORE_OPS
    items = gen_ops.gen_items(r, names, ctx.scale(450, 120000), ctx.thorough)
    # directed: the repo's own v2 vector of F5, and (logand nil)
    items.append({"name": "op_logior", "flags": gen_ops.NEW_COST_MODEL, "args": [bytes.fromhex("400000"), b"\x01"], "term": b"", "heavy": False})
    items.append({"name": "op_logand", "flags": gen_ops.NEW_COST_MODEL, "args": [b""], "term": b"", "heavy": False})
    lines, meta = ops_common.build_cases(ctx, items)

    def nontrivial(c, a, b):
        ops_common.op_histograms(ctx, c, b)
        p = gen_ops.parse_obs(b)
        return (p[0] == "ok" and "pa" in c.split()[-1][:2]) or (p[0] == "err" and p[1] == "CostExceeded")
    ctx.correspond("ops", lines, nontrivial=nontrivial)

    # implementation cost vs the documented formula (on the unlimited-budget call of every light item)
    todo = [it for it in items if not it["heavy"] and gen_ops.parse_obs(it.get("obs0"))[0] == "ok"]
    spec_lines = ["spec %s %d %s" % (it["name"], it["flags"], gen.tt(gen_ops.mklist(it["args"], it["term"]))) for it in todo]
    spec = vlib.run_model("ops", spec_lines)
    for it, sl, s in zip(todo, spec_lines, spec):
        ctx.evaluations += 1
        p = gen_ops.parse_obs(it["obs0"])
        t = (s or "").split()
        if len(t) != 4 or t[0] != "spec":
            continue   # the model fails where the implementation succeeds: reported by the correspondence above
        documented = int(t[1])
        ctx.histogram("formula_checked", it["name"])
        if documented != p[1]:
            cls = None
            if it["name"] in LOGIC and (it["flags"] & gen_ops.NEW_COST_MODEL) and int(t[3]) == p[1]:
                cls = "docs-logic-same-sign"
            ctx.histogram("formula_mismatch", "%s %s" % (it["name"], cls or "unclassified"))
            ctx.violation("%s charges %d, the documented formula gives %d" % (it["name"], p[1], documented),
                          {"case": gen_ops.line(it), "family": "ops", "impl": it["obs0"], "documented": documented, "class": cls})

    # sha256tree on trees whose sub-trees are SHARED NODES (the statement: the cost is over the fully
    # expanded tree whether or not sub-trees are shared). Trees given to the operator functions above
    # are built node by node, so sharing only exists when the program creates it at run time:
    # (sha256tree (c 1 1)), (sha256tree (c X (c X X))) with X a path into the environment, ...
    import gen_prog, runlib
    from gen_prog import op, q, i2a
    shared = []
    r = ctx.rng
    for _ in range(ctx.scale(40, 400)):
        # small environments and at most three levels of sharing: the model hashes the fully
        # expanded tree with the extracted SHA-256 (~25 ms per KB)
        env = gen.gen_tree(r, r.choice([1, 2, 3]), pool=[b"", b"\x01", b"ab", b"\x80", bytes(range(40))])
        x = i2a(1)
        for _ in range(r.choice([1, 2, 3])):
            k = r.random()
            x = op(4, x, x) if k < 0.6 else (op(4, x, op(4, q(gen.gen_atom(r)), x)) if k < 0.8 else op(4, op(4, x, x), x))
        for f in (0x400, 0x2400):
            shared.append(gen_prog.run_line(gen.tt(op(63, x)), gen.tt(env), f=f))
    mo = vlib.run_model("run", shared)
    io = vlib.run_impl("run", shared)
    for l, a, b in zip(shared, mo, io):
        ctx.evaluations += 1
        if l not in ctx.distinct:
            ctx.distinct.add(l)
            ctx.nontrivial += 1
        ka = gen_prog.parse_obs(a)
        kb = gen_prog.parse_obs(b)
        if ka[0] == "ok" and kb[0] == "ok" and ka[2] == kb[2] and ka[1] != kb[1]:
            ctx.violation("sha256tree on a tree with shared sub-trees charges %d; the documented cost over the fully expanded tree is %d"
                          % (kb[1], ka[1]), {"case": l[:3000], "family": "run", "impl": b, "model": a})
        elif gen_prog.head(a) != gen_prog.head(b) and a != "skip":
            ctx.broken.append(("correspondence", "run:sha256tree-shared", "%s\n  model: %s\n  impl : %s" % (l[:500], a, b)))
    ctx.histogram("sha256tree_shared_cases", str(len(shared)))
