"""C09 — unknown operators follow the published opcode cost rule."""
import gen
import gen_ops
import ops_common
import vlib

LEVEL = "other"
FAMILY = "ops"

MANIFEST = {
 "level": "other",
 "text": "Proved for the Gallina transcription of op_unknown/unknown_operator (exact u64 operations): for every opcode, argument-length list, budget < 2^64 and both cost models the outcome equals the published rule unknown_spec (written on unbounded naturals from the comment block and the statement) unless the call is in the class wraps64 (C09_rule, C09_op_unknown); under NEW_COST_MODEL the class is empty for the constant/add-like/multiply-like functions (C09_new); strict mode fails (C09_strict); assert!(cost>0) cannot fail. The statement is REFUTED pre-hard-fork on the wrapping class (C09_refuted, finding F6: wrapping_mul; opcode 7fd0110580 on two 1 MiB atoms succeeds with cost 2375088102) - reported as KNOWN-FINDING. Not proved: unreachability of plain-u64 overflow for >= 4 GiB operands (excluded by hypothesis); routing of opcodes to unknown_operator (dialect). Model tied to the code by op_unknown called directly (dev and release profiles) on argument lengths up to 2^22 (2^26 thorough) realised as views of one buffer, every cost function, opcode lengths 0-6, ffff prefixes, multipliers 0,1,2^16,2^24,2^32-1, around the 32-bit cap and solutions of base*k = small mod 2^64; implementation searched against the extracted rule.",
 "note": vlib.NOTE_COMMON + " F6 is a recorded known finding (consensus-critical): the check prints KNOWN-FINDING for it.",
 "technique": "Coq proof (loop invariants relating u64 loops to unbounded sums, lia) + vm_compute refutation witness + model/implementation differential run + implementation vs extracted specification",
}


def py_class(case):
    """classify a failing case: F6 = pre-hard-fork and base*(multiplier+1) >= 2^64"""
    t = case.split()
    if t[0] == "ul":
        op, flags, lens = t[1], int(t[2]), [None if x == "p" else int(x) for x in t[4].split(",")] if t[4] != "-" else []
    else:
        op, flags, lens = t[1].split(":")[1], int(t[2]), ops_common.tree_lens(t[4])
    opb = bytes.fromhex(op) if op != "-" else b""
    if not opb or len(opb) > 5 or (flags & gen_ops.NEW_COST_MODEL):
        return None
    base = gen_ops.py_unknown_base(opb[-1] >> 6, lens, False)
    if base is None:
        return None
    mult = int.from_bytes(opb[:-1], "big")
    return "prehf-wrapping-mul" if base * (mult + 1) >= (1 << 64) else None


def spec_line(case):
    """the `ulspec` line (extracted unknown_operator_spec) for a case"""
    t = case.split()
    if t[0] == "ul":
        return "ulspec %s %d %s %s" % (t[1], int(t[2]) & ~gen_ops.NO_UNKNOWN_OPS, t[3], t[4])
    kind, op = t[1].split(":")
    flags = int(t[2])
    if kind == "unknown":
        flags &= ~gen_ops.NO_UNKNOWN_OPS      # op_unknown itself does not read the flag
    return "ulspec %s %d %s %s" % (op, flags, t[3], ops_common.lens_str(ops_common.tree_lens(t[4])))


def run(ctx):
    r = ctx.rng
    ops_common.load_proposed_known(ctx)
    ctx.rule = ("op_unknown called directly. `ul` cases: opcode (length 0-6, all four cost functions, ffff/empty/"
                "over-long, multipliers 0,1,2^16,2^24,2^32-1, around the 32-bit cap, and solutions of base*k = small "
                "mod 2^64), 0-8 arguments given by length (0..2^22 quick, 2^26 thorough; powers of two +-1; pairs at "
                "any position) realised as views of one buffer, budgets {huge, 11e9, base, base+-1, 2^64-1}, both cost "
                "models; `op unknown:/strict:` cases: the same on real argument trees (atoms, pairs, improper "
                "terminators, repeated-byte atoms up to 1 MiB) incl. NO_UNKNOWN_OPS. Non-trivial = distinct case whose "
                "opcode is well-formed and has a non-constant cost function with >= 1 argument, or fails")
    ctx.explanation = ("Theorems in Props/C09.v (the rule holds outside the class wraps64; the class is empty under the "
                       "new cost model for functions 0-2; refutation witness F6). The model is run against the "
                       "implementation (dev profile: overflow checks on; release profile) and the implementation is "
                       "compared with the extracted rule unknown_spec; a disagreement with the rule inside the known "
                       "class prints KNOWN-FINDING, anything else is a violation.")
    ctx.proofs()
    if not ctx.build(variants=("default", "release")):
        return
    n1 = ctx.scale(1500, 120000)
    n2 = ctx.scale(1200, 60000)
    cases = []
    # directed: F6's witness and its neighbours
    cases.append("ul 7fd0110580 0 %d 1048576,1048576" % gen_ops.HUGE)
    cases.append("ul 7fd0110580 8192 %d 1048576,1048576" % gen_ops.HUGE)
    cases.append("ul 7fd0110480 0 %d 1048576,1048576" % gen_ops.HUGE)
    cases.append("op unknown:7fd0110580 0 %d pz41*1048576;pz41*1048576;a;" % gen_ops.HUGE)
    # the 32-bit cap exactly: add-like base 65535 (three atoms, 21492 bytes) times 65537 = 2^32-1, and +-1
    for lens in ("21492,0,0", "21491,1,0", "21493,0,0", "21491,0,0"):
        for fl in (0,):
            cases.append("ul 01000040 %d %d %s" % (fl, gen_ops.HUGE, lens))
    cases.append("ul 0000ffff00 0 %d -" % gen_ops.HUGE)       # constant function, product 0xffff01
    cases += gen_ops.unknown_len_cases(r, n1, ctx.thorough)
    cases += gen_ops.unknown_tree_cases(r, n2)
    cases = list(dict.fromkeys(cases))

    def nontrivial(c, a, b):
        t = c.split()
        op = t[1] if t[0] == "ul" else t[1].split(":")[1]
        fn = (int(op[-2:], 16) >> 6) if op not in ("-", "") else -1
        ctx.histogram("cost_function", str(fn))
        ctx.histogram("opcode_len", str(0 if op == "-" else len(op) // 2))
        ctx.histogram("outcome", (b or "none").split()[0] + ("" if (b or "").startswith("ok") else " " + (b or "? ?").split()[1].split("[")[0]))
        return (fn in (1, 2, 3) and t[4] not in ("-", "a;")) or not (b or "").startswith("ok")
    ctx.correspond("ops", cases, nontrivial=nontrivial)

    # property-level search: implementation vs the extracted published rule
    impl = vlib.run_impl("ops", cases)
    spec = vlib.run_model("ops", [spec_line(c) for c in cases])
    for c, o, s in zip(cases, impl, spec):
        ctx.evaluations += 1
        p = gen_ops.parse_obs(o)
        if p[0] == "ok":
            got = "some %d" % p[1]
            if p[2] != "a;":
                ctx.violation("unknown operator returned a value other than nil", {"case": c, "family": "ops", "impl": o})
                continue
        elif p[0] == "err":
            got = "none"
        else:
            ctx.violation("op_unknown panicked or crashed", {"case": c, "family": "ops", "impl": o})
            continue
        if got != s:
            cls = py_class(c)
            ctx.histogram("rule_mismatch", cls or "unclassified")
            ctx.violation("op_unknown disagrees with the published cost rule (rule: %s, implementation: %s)" % (s, o),
                          {"case": c, "family": "ops", "impl": o, "rule": s, "class": cls})
    # dev vs release profile on the implementation (the dev run agrees with the model above, so
    # the release build is compared with the model through it)
    rel = vlib.run_impl("ops", cases, variant="release")
    ctx.dist.setdefault("families", {})["ops:release-vs-dev"] = {"cases": len(cases)}
    for c, o, o2 in zip(cases, impl, rel):
        ctx.evaluations += 1
        if o != o2:
            ctx.violation("op_unknown differs between dev and release builds", {"case": c, "family": "ops", "impl": o, "release": o2})
