"""C30 — RuntimeDialect with the standard table matches ChiaDialect."""
import vlib, gen, gen_prog, runlib
from gen_prog import FLAG, run_line, parse_obs, head

LEVEL = "other"
FAMILY = "run"

MANIFEST = {
 "level": "other",
 "text": "Proved about the Gallina models of runtime_dialect.rs + f_table.rs and chia_dialect.rs (Props/C30.v), for every primitives record, fuel, program, environment and budget: (1) for each of the 256 one-byte opcodes the standard table maps it to the same operator function as ChiaDialect's dispatch, or both treat it as unknown, except the opcodes ChiaDialect gates by flags or defines only itself (48 coinid, 60 under DISABLE_OP without NEW_COST_MODEL, 62-65); multi-byte opcodes other than the two 4-byte secp opcodes are unknown to both. (2) RuntimeDialect hands its flag word unchanged to the operators while ChiaDialect::new clears LIMITS under NEW_COST_MODEL: every operator function of either table is proved insensitive to ENABLE_GC and, under NEW_COST_MODEL, to LIMITS and DISABLE_OP (C30_flags_unobservable, all 47 operator functions). (3) Hence by lock-step simulation through a barrier dialect (Err Unsupported on every opcode the dispatch functions do not share and on the softfork keyword): every run that does not meet the barrier has the same result, cost and error kind on RuntimeDialect{F} and ChiaDialect{F} for EVERY flag set F without ENABLE_GC and DISABLE_OP (C30_run: no further premise; the earlier exclusion of NEW_COST_MODEL+LIMITS is gone), and on RuntimeDialect{F} and ChiaDialect{F minus ENABLE_GC and DISABLE_OP} for every F that has NEW_COST_MODEL or lacks DISABLE_OP (C30_run_all; C30_run_words on 32-bit flag words). (4) For F with DISABLE_OP and without NEW_COST_MODEL the comparison with ChiaDialect{F minus DISABLE_OP} is refuted by a computed witness, reproduced on the implementation: op_div/op_divmod/op_mod read DISABLE_OP themselves (dividend over 2048 bytes), RuntimeDialect passes the bit on: (/ (q . 0x01^2049) (q . 3)) is InvalidOpArg on RuntimeDialect{DISABLE_OP} and Ok 29709 on ChiaDialect{} (C30_minus_disable_op_refuted); for that class, and every other F, RuntimeDialect{F} = ChiaDialect{F minus ENABLE_GC} outside opcode 60 is proved (C30_run_minus_gc). The model is run against the implementation under both dialects; the search compares the two dialects on the implementation under all combinations of NEW_COST_MODEL, LIMITS, DISABLE_OP, ENABLE_GC with operands at the 256/1024/2048-byte limits.",
 "note": vlib.NOTE_COMMON + " Level 'other': the statement compares RuntimeDialect{F} with ChiaDialect{F minus ENABLE_GC and DISABLE_OP}; that is proved for every F except DISABLE_OP without NEW_COST_MODEL (C30_run_all / C30_run_words), where it is false for the code as written (C30_minus_disable_op_refuted; finding F11 in known_findings.json: RuntimeDialect forwards DISABLE_OP to div/divmod/mod); for that class the proved relation is with ChiaDialect{F minus ENABLE_GC} on programs without modpow (C30_run_minus_gc). The check makes the literal comparison on every generated program and reports anything outside the F11 class.",
 "technique": "Coq proof (opcode-by-opcode comparison of the two dispatch functions; per-operator flag-insensitivity lemmas lifted through both tables with Forall over all_ops; lock-step simulation of two dialects through a barrier dialect; bit-level lemma for flag words) + model/implementation differential run + implementation search RuntimeDialect vs ChiaDialect over all flag bits with size-boundary operands",
}

TABLE = {3, 4, 5, 6, 7, 8, 9, 10, 11, 12, 13, 14, 16, 17, 18, 19, 20, 21, 22, 23, 24, 25, 26, 27, 29, 30, 32, 33, 34,
         49, 50, 51, 52, 53, 54, 55, 56, 57, 58, 59, 60, 61}
DIFFER = {36, 48, 62, 63, 64, 65}     # softfork keyword; opcodes only ChiaDialect defines / gates


def uses_only_common(p_tt):
    """conservative: no atom anywhere in the program text equals a differing opcode or is a 4-byte secp opcode"""
    for tok in p_tt.replace("p", " ").split(";"):
        tok = tok.strip()
        if tok.startswith("a"):
            h = tok[1:]
            if h in ("24", "30", "3e", "3f", "40", "41", "13d61f00", "1c3a8f00"):
                return False
            # gen_prog.composed_programs computes operators at run time from these literals
            # (<opcode>ffffffff / 7f7f7f7f<opcode>): the differing opcodes are excluded there too
            for d in ("24", "30", "3e", "3f", "40", "41"):
                if h in (d + "ffffffff", "7f7f7f7f" + d):
                    return False
    return True


GC, DIS, NCM, LIM = FLAG["ENABLE_GC"], FLAG["DISABLE_OP"], FLAG["NEW_COST_MODEL"], FLAG["LIMITS"]


def mentions_modpow(p_tt):
    # also the literals from which gen_prog.composed_programs computes the operator 60 at run time
    return "a3c;" in p_tt or "a3cffffffff;" in p_tt or "a7f7f7f7f3c;" in p_tt


def reference_flags(f):
    """the ChiaDialect flag word RuntimeDialect{f} is compared with, following Props/C30.v:
    f minus ENABLE_GC and DISABLE_OP (C30_run_all / C30_run_words) unless f has DISABLE_OP without
    NEW_COST_MODEL; there op_div/op_divmod/op_mod read DISABLE_OP themselves
    (C30_minus_disable_op_refuted), and the proved relation is with f minus ENABLE_GC on programs
    without opcode 60 (C30_run_minus_gc) -> (chia flag word, relation name)"""
    if (f & DIS) and not (f & NCM):
        return f & ~GC, "minus_gc"
    return f & ~GC & ~DIS, "minus_gc_disable_op"


def boundary_programs(r):
    """operands at the size limits LIMITS / DISABLE_OP test (256/257, 1024/1025, 2048/2049 bytes) for
    every operator that reads those bits, + one 300-byte multiply (the Coq witness)"""
    from gen_prog import op, q, i2a, G1_GEN, G2_GEN
    out = []
    for n in (256, 257, 300, 1024, 1025, 2048, 2049):
        big = bytes([1 + r.getrandbits(6)]) + bytes(r.getrandbits(8) for _ in range(n - 1))
        small = i2a(r.choice([3, 7, 255, 65537]))
        for code in (18, 19, 20, 61):
            out.append((op(code, q(big), q(small)), "bnd-%d-%d" % (code, n)))
            out.append((op(code, q(small), q(big)), "bnd-%d-%d" % (code, n)))
        out.append((op(18, q(small), q(big), q(small)), "bnd-18c-%d" % n))
        out.append((op(60, q(big), q(small), q(i2a(1000003))), "bnd-60-%d" % n))
        out.append((op(60, q(small), q(big), q(i2a(1000003))), "bnd-60-%d" % n))
        out.append((op(60, q(small), q(small), q(big)), "bnd-60-%d" % n))
        out.append((op(50, q(G1_GEN), q(big)), "bnd-50-%d" % n))
        out.append((op(54, q(G2_GEN), q(big)), "bnd-54-%d" % n))
    return [(gen.tt(p), gen.tt(b""), "boundary[%s]" % t) for p, t in out]


MASKED_COMBOS = [NCM | LIM, NCM | LIM | DIS, NCM | DIS, NCM | LIM | DIS | GC, LIM, LIM | GC, DIS | LIM, DIS, DIS | GC, NCM, 0, GC]


def run(ctx):
    r = ctx.rng
    ctx.rule = ("generated programs filtered to those mentioning none of the atoms 36, 48, 62-65 or the 4-byte secp opcodes "
                "anywhere (conservative syntactic filter); random flag words over ALL 13 bits (ENABLE_GC and DISABLE_OP "
                "included), flag-sensitive and size-boundary programs (operands of 256/257, 1024/1025, 2048/2049 bytes for "
                "* / divmod % modpow g1_multiply g2_multiply) under every combination of NEW_COST_MODEL, LIMITS, DISABLE_OP, "
                "ENABLE_GC; random budgets; RuntimeDialect{F} (standard table, quote 1, apply 2) is compared with "
                "ChiaDialect{F minus ENABLE_GC and DISABLE_OP}, except that for F with DISABLE_OP and without NEW_COST_MODEL "
                "it is compared with ChiaDialect{F minus ENABLE_GC} on programs without opcode 60 (the relations proved in "
                "Props/C30.v); non-trivial = distinct program/flag case that succeeds on ChiaDialect")
    ctx.explanation = "see MANIFEST level text"
    ctx.proofs()
    if not ctx.build():
        return
    n = ctx.scale(450, 9000)
    pool = runlib.program_pool(ctx, n, n_unknown=ctx.scale(60, 400), guards=False)
    pool += boundary_programs(r)
    lines = []
    slow = []
    cur_tag = [""]
    skipped = 0

    literal = []     # the statement read literally, where it differs from the proved relation

    def add(p, e, f, m):
        g, rel = reference_flags(f)
        if rel == "minus_gc":
            # DISABLE_OP without NEW_COST_MODEL: the statement itself says ChiaDialect{f minus ENABLE_GC and
            # DISABLE_OP}; that comparison is made too (finding F11 lives here)
            literal.append((run_line(p, e, f=f, m=m, d="rt"), run_line(p, e, f=f & ~GC & ~DIS, m=m, d="chia"),
                            run_line(p, e, f=f & ~GC, m=m, d="chia"), p))
        if rel == "minus_gc" and (mentions_modpow(p) or mentions_modpow(e)):
            ctx.histogram("relation", "skipped:modpow-under-DISABLE_OP")
            return
        ctx.histogram("relation", rel)
        ctx.histogram("masked_bits", "+".join(k for k in ("NEW_COST_MODEL", "LIMITS", "DISABLE_OP", "ENABLE_GC") if f & FLAG[k]) or "none")
        lines.append((run_line(p, e, f=f, m=m, d="rt"), run_line(p, e, f=g, m=m, d="chia"), rel))
        # the extracted model computes modpow on 1024..2049-byte operands slowly (unary-free but inductive Z):
        # only a sample of those lines goes through the model; all of them are compared on the implementation
        slow.append(cur_tag[0].startswith("boundary[bnd-60-") and int(cur_tag[0][16:-1]) >= 1024)

    for p, e, tag in pool:
        if not uses_only_common(p) or not uses_only_common(e):
            skipped += 1
            continue
        m = r.choice([0, 0, 11000000000, r.randrange(1, 10 ** 6)])
        cur_tag[0] = tag
        if tag.startswith("boundary["):
            base = gen_prog.random_flags(r, 0.15) & ~(NCM | LIM | DIS | GC)
            for c in MASKED_COMBOS:
                add(p, e, base | c, 0)
            continue
        for f in runlib.flag_variants(r, tag, 0.2):
            add(p, e, f, m)
        if tag.startswith("flagsens[f=%d " % LIM) or tag.startswith("flagsens[f=%d " % DIS):
            base = gen_prog.random_flags(r, 0.15) & ~(NCM | LIM | DIS | GC)
            for c in r.sample(MASKED_COMBOS[:4], 2):
                add(p, e, base | c, m)
    ctx.dist["filtered_out"] = skipped
    a = vlib.run_impl("run", [x[0] for x in lines])
    b = vlib.run_impl("run", [x[1] for x in lines])
    runlib.note_outcomes(ctx, b, "chia_outcome")
    for (l0, l1, rel), o0, o1 in zip(lines, a, b):
        runlib.count_case(ctx, l0, nontrivial=(o1 or "").startswith("ok"))
        if head(o0) != head(o1):
            ctx.violation("RuntimeDialect and ChiaDialect disagree on result, cost or error kind (relation %s)" % rel,
                          {"family": "run", "case": l0[:3000], "impl": o0, "chia_case": l1[:3000], "chia": o1})
    runlib.check_no_panic(ctx, [x[0] for x in lines], a)
    la = vlib.run_impl("run", [x[0] for x in literal])
    lb = vlib.run_impl("run", [x[1] for x in literal])
    lc = vlib.run_impl("run", [x[2] for x in literal])
    for (l0, l1, l2, p), o0, o1, o2 in zip(literal, la, lb, lc):
        runlib.count_case(ctx, l0 + " #literal", nontrivial=(o1 or "").startswith("ok"))
        if head(o0) != head(o1):
            # F11: RuntimeDialect forwards DISABLE_OP to op_div / op_divmod / op_mod, which reject a dividend
            # above 2048 bytes without NEW_COST_MODEL: the run equals ChiaDialect WITH DISABLE_OP (the program
            # not using modpow, which only ChiaDialect disables)
            f11 = head(o0) == head(o2) and head(o0).startswith("err InvalidOpArg") and any(("a%s;" % c) in p for c in ("13", "14", "3d"))
            ctx.violation("RuntimeDialect{F} differs from ChiaDialect{F minus ENABLE_GC and DISABLE_OP}",
                          {"family": "run", "case": l0[:3000], "impl": o0, "chia_case": l1[:3000], "chia": o1,
                           "class": "F11" if f11 else "other"})

    # probes: the two Coq witnesses of the DISABLE_OP-without-NEW_COST_MODEL class, on the implementation
    from gen_prog import op, q, i2a
    e0 = gen.tt(b"")
    div2049 = gen.tt(op(19, q(b"\x01" * 2049), q(i2a(3))))
    modpow = gen.tt(op(60, q(i2a(2)), q(i2a(77)), q(i2a(1000003))))
    pl = [run_line(div2049, e0, f=DIS, d="rt"), run_line(div2049, e0, f=0, d="chia"), run_line(div2049, e0, f=DIS, d="chia"),
          run_line(modpow, e0, f=DIS, d="rt"), run_line(modpow, e0, f=DIS, d="chia"), run_line(modpow, e0, f=0, d="chia")]
    po = [head(o) for o in vlib.run_impl("run", pl)]
    ctx.dist["probe_disable_op_div"] = {"rt{DISABLE_OP}": po[0][:40], "chia{}": po[1][:20], "chia{DISABLE_OP}": po[2][:40]}
    ctx.dist["probe_disable_op_modpow"] = {"rt{DISABLE_OP}": po[3][:40], "chia{DISABLE_OP}": po[4][:40], "chia{}": po[5][:40]}
    if po[0].startswith("err InvalidOpArg") and po[1].startswith("ok 29709 "):
        ctx.notes.append("C30_minus_disable_op_refuted reproduced on the implementation: (/ (q . 0x01^2049) (q . 3)) is "
                         "err InvalidOpArg on RuntimeDialect{DISABLE_OP} and ok 29709 on ChiaDialect{}: op_div reads DISABLE_OP itself")
    else:
        ctx.notes.append("C30_minus_disable_op_refuted NOT reproduced on this tree: %r" % (po[:3],))
    if po[0] != po[2] or po[3] != po[5]:
        ctx.violation("RuntimeDialect{DISABLE_OP} differs from ChiaDialect{DISABLE_OP} on div / from ChiaDialect{} on modpow",
                      {"family": "run", "case": pl[0][:3000] if po[0] != po[2] else pl[3], "impl": po[0] if po[0] != po[2] else po[3],
                       "chia_case": (pl[2] if po[0] != po[2] else pl[5])[:3000], "chia": po[2] if po[0] != po[2] else po[5]})
    keep, part = ctx.scale(0.06, 0.5), ctx.scale(0.6, 1.0)
    pr = pl + [x[0] for x, sl in zip(lines, slow) if r.random() < (keep if sl else part)]
    pr += r.sample([x[1] for x in lines], min(len(lines), ctx.scale(150, 3000)))
    runlib.correspond_run(ctx, pr, name="run:runtime+chia")
