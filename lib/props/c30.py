"""C30 — RuntimeDialect with the standard table matches ChiaDialect."""
import vlib, gen, gen_prog, runlib
from gen_prog import FLAG, run_line, parse_obs, head

LEVEL = "other"
FAMILY = "run"

MANIFEST = {
 "level": "other",
 "text": "Proved about the Gallina models of runtime_dialect.rs + f_table.rs and chia_dialect.rs (Props/C30.v): for each of the 256 one-byte opcodes the standard table maps it to the same operator function as ChiaDialect's dispatch, or both treat it as unknown, except the opcodes ChiaDialect gates by flags or defines only itself (48 coinid, 60 under DISABLE_OP, 62-65), decided by computation over all 256 opcodes and all relevant flag bits; multi-byte opcodes other than the two 4-byte secp opcodes are unknown to both; hence (lock-step simulation) every program that only uses opcodes on which the two dispatch functions agree and enters no softfork guard has the same result, cost and error under both dialects with flags minus ENABLE_GC and DISABLE_OP. The model is run against the implementation under both dialects; the search compares the two dialects on the implementation.",
 "note": vlib.NOTE_COMMON + " Level 'other' until the lock-step corollary is completed for all error outcomes (Props/C30.v names what is proved).",
 "technique": "Coq proof (finite sweep over 256 opcodes x flag bits by vm_compute lifted with forallb_forall; lock-step simulation of two dialects) + model/implementation differential run + implementation search RuntimeDialect vs ChiaDialect",
}

TABLE = {3, 4, 5, 6, 7, 8, 9, 10, 11, 12, 13, 14, 16, 17, 18, 19, 20, 21, 22, 23, 24, 25, 26, 27, 29, 30, 32, 33, 34,
         49, 50, 51, 52, 53, 54, 55, 56, 57, 58, 59, 60, 61}
DIFFER = {36, 48, 62, 63, 64, 65}     # softfork keyword; opcodes only ChiaDialect defines / gates


def uses_only_common(p_tt):
    """conservative: no atom anywhere in the program text equals a differing opcode or is a 4-byte secp opcode"""
    for tok in p_tt.replace("p", " ").split(";"):
        tok = tok.strip()
        if tok.startswith("a"):
            h = tok[1:]
            if h in ("24", "30", "3e", "3f", "40", "41", "13d61f00", "1c3a8f00"):
                return False
    return True


def run(ctx):
    r = ctx.rng
    ctx.rule = ("generated programs filtered to those mentioning none of the atoms 36, 48, 62-65 or the 4-byte secp opcodes "
                "anywhere (conservative syntactic filter), random flag sets minus ENABLE_GC and DISABLE_OP, random budgets; run "
                "on RuntimeDialect (standard table, quote 1, apply 2) and on ChiaDialect; non-trivial = distinct program that "
                "succeeds on ChiaDialect")
    ctx.explanation = "see MANIFEST level text"
    ctx.proofs()
    if not ctx.build():
        return
    n = ctx.scale(600, 10000)
    pool = runlib.program_pool(ctx, n, n_unknown=ctx.scale(60, 400), guards=False)
    lines = []
    skipped = 0
    for p, e, tag in pool:
        if not uses_only_common(p) or not uses_only_common(e):
            skipped += 1
            continue
        f = runlib.pick_flags(r, tag, 0.2, exclude=FLAG["ENABLE_GC"] | FLAG["DISABLE_OP"])
        m = r.choice([0, 0, 11000000000, r.randrange(1, 10 ** 6)])
        lines.append((run_line(p, e, f=f, m=m, d="rt"), run_line(p, e, f=f, m=m, d="chia")))
    ctx.dist["filtered_out"] = skipped
    a = vlib.run_impl("run", [x[0] for x in lines])
    b = vlib.run_impl("run", [x[1] for x in lines])
    runlib.note_outcomes(ctx, b, "chia_outcome")
    for (l0, l1), o0, o1 in zip(lines, a, b):
        runlib.count_case(ctx, l0, nontrivial=(o1 or "").startswith("ok"))
        if head(o0) != head(o1):
            ctx.violation("RuntimeDialect and ChiaDialect disagree on result, cost or error kind",
                          {"family": "run", "case": l0[:3000], "impl": o0, "chia_case": l1[:3000], "chia": o1})
    runlib.check_no_panic(ctx, [x[0] for x in lines], a)
    runlib.correspond_run(ctx, [x[0] for x in lines], name="run:runtime")
