"""C21 — serde_2026 varints are a bijection with strict minimality."""
import vlib

LEVEL = "proof"
FAMILY = "varint"


def hexb(bs):
    return bytes(bs).hex() if bs else "-"


def gen(ctx):
    r = ctx.rng
    cases = []
    # all 1- and 2-byte strings, strict and lenient (complete enumeration)
    for s in ("0", "1"):
        for a in range(256):
            cases.append("r %s %02x" % (s, a))
        for a in range(256):
            for b in range(256):
                cases.append("r %s %02x%02x" % (s, a, b))
    n3 = ctx.scale(20000, 2000000)
    for _ in range(n3):
        k = r.choice([0, 1, 2, 2, 2, 3, 3, 4, 5, 6, 7, 8])
        pre = (0xff << (8 - k)) & 0xff if k < 8 else 0xff
        first = pre | (r.getrandbits(8) >> (k + 1) if k < 7 else 0)
        if r.random() < 0.3:   # bias payload to all-zero / all-one high bits: near-minimal and overlong encodings
            fill = r.choice([0x00, 0xff])
            body = [fill] * max(0, k - r.randrange(0, 3)) + [r.getrandbits(8) for _ in range(3)]
            if fill == 0xff and k < 7:
                first = pre | ((1 << (7 - k)) - 1)
            elif k < 7:
                first = pre
        else:
            body = [r.getrandbits(8) for _ in range(k + r.randrange(0, 3))]
        if r.random() < 0.15 and body:
            body = body[:r.randrange(len(body))]   # truncated
        cases.append("r %s %s" % (r.choice("01"), hexb([first] + body)))
    # writes: every class boundary +-2, powers of two, random
    vals = set()
    for k in range(0, 9):
        b = 1 << (6 + 7 * k)
        for d in (-2, -1, 0, 1, 2):
            vals.add(b + d); vals.add(-b + d)
    for e in range(0, 58):
        vals.add(1 << e); vals.add(-(1 << e)); vals.add((1 << e) - 1)
    for _ in range(ctx.scale(20000, 2000000)):
        e = r.randrange(1, 57)
        vals.add(r.randrange(-(1 << e), 1 << e))
    for v in sorted(vals):
        if -(1 << 62) < v < (1 << 62):
            cases.append("w %d" % v)
    return cases


MANIFEST = {
 "level": 'proof',
 "text": "All ten statements of the property (round trip on the whole 56-bit range, shortest encoding, exact consumption, injectivity per length, strict = image of the encoder, lenient = two's-complement value, no panic, 0xff rejected) are proved for every value/byte string about the Gallina model of varint.rs; the model is run against the implementation on all 1- and 2-byte inputs and structured/random longer ones.",
 "note": vlib.NOTE_COMMON + '',
 "technique": 'Coq proof (8 size classes, lia with div/mod, finite byte sweeps by vm_compute) + model/implementation differential run',
}

def run(ctx):
    ctx.rule = ("complete enumeration of all 1- and 2-byte inputs in strict and lenient mode; structured 1..10-byte "
                "encodings (all 8 prefix classes + 0xff, sign-extension fill, truncation); encoder on every size-class "
                "boundary +-2, powers of two and random 1..56-bit values. Non-trivial = distinct case whose outcome is a "
                "successful decode of >= 2 consumed bytes, a strict rejection of a lenient success, or an encoding of >= 2 bytes")
    ctx.proofs()
    if not ctx.build():
        return
    cases = gen(ctx)
    lenient_ok = {}

    def nontrivial(c, a, b):
        t = c.split()
        if t[0] == "w":
            ctx.histogram("write_len", str((len(b.split()[1]) // 2) if b.startswith("ok") else b.split()[0]))
            return b.startswith("ok") and len(b.split()[1]) >= 4
        cons = None
        if b.startswith("ok"):
            rest = b.split()[2]
            cons = len(t[2]) // 2 - (0 if rest == "-" else len(rest) // 2)
        ctx.histogram("read_%s" % ("strict" if t[1] == "1" else "lenient"), "ok%d" % cons if cons else b.split()[0])
        return cons is not None and cons >= 2 or (t[1] == "1" and not b.startswith("ok"))
    ctx.correspond("varint", cases, nontrivial=nontrivial)

    # property-level search on the implementation alone
    impl = vlib.run_impl("varint", cases)
    obs = dict(zip(cases, impl))
    # 1. round trip + minimality through the implementation's own decoder
    follow = []
    for c, o in obs.items():
        t = c.split()
        if t[0] == "w" and o.startswith("ok"):
            follow.append(("rt", c, o, "r 1 %s%s" % (o.split()[1], "a5")))
            follow.append(("rt", c, o, "r 0 %s%s" % (o.split()[1], "a5")))
        elif t[0] == "w" and -(1 << 55) <= int(t[1]) < (1 << 55):
            ctx.violation("write_varint fails on an in-range value", {"case": c, "impl": o})
        elif t[0] == "r" and o.startswith("ok"):
            follow.append(("re", c, o, "w %s" % o.split()[1]))
    outs = vlib.run_impl("varint", [f[3] for f in follow])
    for (kind, c, o, fc), fo in zip(follow, outs):
        ctx.evaluations += 1
        if kind == "rt":
            v = c.split()[1]
            if fo != "ok %s a5" % v:
                ctx.violation("decode(encode(v)) != v", {"case": c, "encoded": o, "decode_case": fc, "decoded": fo})
        else:
            t = c.split()
            rest = o.split()[2]
            consumed = t[2][: len(t[2]) - (0 if rest == "-" else len(rest))]
            if not fo.startswith("ok"):
                ctx.violation("decoder returned a value the encoder rejects", {"case": c, "impl": o, "encode": fo})
                continue
            enc = fo.split()[1]
            if t[1] == "1" and enc != consumed:
                ctx.violation("strict decoding accepted a non-shortest encoding", {"case": c, "impl": o, "shortest": enc})
            if len(enc) > len(consumed):
                ctx.violation("encoder output longer than an accepted encoding of the same value", {"case": c, "impl": o, "encoded": enc})
            # consumed length must be what the prefix declares
            first = int(consumed[:2], 16)
            k = 0
            while k < 8 and first & (0x80 >> k):
                k += 1
            if len(consumed) // 2 != k + 1:
                ctx.violation("decoder consumed a length different from its prefix", {"case": c, "impl": o})
    # 2. strict accepts => lenient accepts with the same value
    for c, o in obs.items():
        t = c.split()
        if t[0] == "r" and t[1] == "1" and o.startswith("ok"):
            o2 = obs.get("r 0 " + t[2])
            if o2 is not None and o2 != o:
                ctx.violation("strict and lenient decoding disagree on an accepted input", {"case": c, "strict": o, "lenient": o2})
    for c, o in obs.items():
        if o.startswith("panic") and not c.startswith("w"):
            ctx.violation("decoder panicked", {"case": c, "impl": o})
