"""serde_2026 byte strings: an independent Python writer of the wire format (docs/serde-2026.md),
a grammar-level generator of valid blobs (including forms the serializer never emits) and
grammar-aware mutations."""
MAGIC = bytes.fromhex("fdff32303236")
HUGE = [2**31 - 1, 2**31, 2**32, 2**40, 2**55 - 1]


def wvar(v, extra=0):
    """varint of v; `extra` additional bytes make it overlong (capped at 8 bytes)"""
    k = 0
    while k < 8:
        bits = 7 + 7 * k
        if -(1 << (bits - 1)) <= v < (1 << (bits - 1)):
            break
        k += 1
    if k == 8:
        raise ValueError("varint out of range")
    k = min(7, k + extra)
    bits = 7 + 7 * k
    u = v & ((1 << bits) - 1)
    first = ((0xff << (8 - k)) & 0xff) | (u >> (8 * k))
    return bytes([first]) + (u & ((1 << (8 * k)) - 1)).to_bytes(k, "big")


class Blob:
    """groups: list of [len_field, count_field or None, payload]; fields are written as given"""

    def __init__(self, groups, instrs):
        self.groups = groups
        self.instrs = instrs
        self.group_count = len(groups)
        self.instr_count = len(instrs)
        self.overlong = None      # (field number, extra bytes)

    def encode(self, magic=True):
        fields = []
        out = []

        def put(v):
            ex = 0
            if self.overlong and self.overlong[0] == len(fields):
                ex = self.overlong[1]
            fields.append(v)
            out.append(wvar(v, ex))
        put(self.group_count)
        for lf, cf, payload in self.groups:
            put(lf)
            if cf is not None:
                put(cf)
            out.append(payload)
        put(self.instr_count)
        for i in self.instrs:
            put(i)
        self.nfields = len(fields)
        return (MAGIC if magic else b"") + b"".join(out)

    def max_len(self):
        return max([abs(g[0]) for g in self.groups] + [0])


def gen_valid(r):
    """a valid blob built from the grammar: atom groups in any order (equal lengths in several
    groups, negative length with count 1), instruction program by simulating the stack"""
    groups = []
    natoms = 0
    for _ in range(r.choice([0, 0, 1, 1, 2, 3, 6])):
        ln = r.choice([1, 1, 1, 2, 3, 4, 5, 8, 32, 63, 64, 65, 200])
        c = r.choice([1, 1, 1, 2, 3, 70])
        if ln * c > 600:
            c = 1
        payload = bytes(r.getrandbits(8) for _ in range(ln * c))
        if c == 1 and r.random() < 0.7:
            groups.append([ln, None, payload])
        else:
            groups.append([-ln, c, payload])
        natoms += c
    instrs = []
    depth = 0
    npairs = 0
    steps = r.choice([1, 2, 3, 5, 9, 20, 60, 150])
    for _ in range(steps):
        k = r.random()
        if depth >= 2 and k < 0.45:
            instrs.append(r.choice([1, 1, 1, -1]))
            depth -= 1
            npairs += 1
        elif k < 0.6 or (natoms == 0 and npairs == 0):
            instrs.append(0)
            depth += 1
        elif natoms and (k < 0.85 or npairs == 0):
            instrs.append(2 + r.choice([0, natoms - 1, r.randrange(natoms)]))
            depth += 1
        else:
            instrs.append(-(2 + r.choice([0, npairs - 1, r.randrange(npairs)])))
            depth += 1
    if depth == 0:
        instrs.append(0)
        depth = 1
    while depth > 1:
        instrs.append(r.choice([1, 1, -1]))
        depth -= 1
        npairs += 1
    b = Blob(groups, instrs)
    b.natoms = natoms
    b.npairs = npairs
    return b


def mutate(r, b):
    """one grammar-aware mutation; returns (name, bytes)"""
    import copy
    m = copy.deepcopy(b)
    kinds = ["len0", "lenhuge", "lenneg1", "count0", "counthuge", "countneg", "gcount+", "gcount-", "gcounthuge",
             "gcountneg", "icount+", "icount-", "icount0", "icounthuge", "icountneg", "atomidx", "pairidx",
             "pairfwd", "underflow", "leftover", "extreme", "overlong", "truncate", "trailing", "flip", "ff",
             "swapcons", "nomagic", "badmagic", "lenshift", "len0clean", "appendnil"]
    k = r.choice(kinds)
    g = r.randrange(len(m.groups)) if m.groups else None
    if k in ("len0", "lenhuge", "lenneg1", "count0", "counthuge", "countneg", "lenshift", "len0clean") and g is None:
        k = r.choice(["gcount+", "icount+", "atomidx", "truncate", "overlong"])
    if k == "len0":
        m.groups[g][0] = 0
    elif k == "len0clean":
        # a zero-length atom entry with no payload: the rest of the blob stays aligned
        m.groups[g] = [0, None, b""]
    elif k == "appendnil":
        m.groups.append([0, None, b""])
        m.group_count += 1
    elif k == "lenhuge":
        v = r.choice(HUGE)
        m.groups[g][0] = v if m.groups[g][1] is None else -v
    elif k == "lenneg1":
        if m.groups[g][1] is None:
            m.groups[g][1] = 1
        m.groups[g][0] = -abs(m.groups[g][0])
    elif k == "lenshift":
        d = r.choice([-1, 1])
        lf = m.groups[g][0]
        m.groups[g][0] = lf + d if lf > 0 else lf - d
    elif k in ("count0", "counthuge", "countneg"):
        m.groups[g][0] = -abs(m.groups[g][0])
        m.groups[g][1] = {"count0": 0, "counthuge": r.choice(HUGE), "countneg": r.choice([-1, -2, -2**31])}[k]
    elif k == "gcount+":
        m.group_count += 1
    elif k == "gcount-":
        m.group_count -= 1
    elif k == "gcounthuge":
        m.group_count = r.choice(HUGE)
    elif k == "gcountneg":
        m.group_count = r.choice([-1, -64, -2**55])
    elif k == "icount+":
        m.instr_count += 1
    elif k == "icount-":
        m.instr_count -= 1
    elif k == "icount0":
        m.instr_count = 0
        if r.random() < 0.5:
            m.instrs = []
    elif k == "icounthuge":
        m.instr_count = r.choice(HUGE)
    elif k == "icountneg":
        m.instr_count = r.choice([-1, -2**55])
    elif k == "atomidx":
        i = r.randrange(len(m.instrs))
        m.instrs[i] = 2 + b.natoms + r.choice([0, 1, 62, 2**31, 2**55 - 3 - b.natoms])
    elif k == "pairidx":
        i = r.randrange(len(m.instrs))
        m.instrs[i] = -(2 + b.npairs + r.choice([0, 1, 2**31]))
    elif k == "pairfwd":
        # a reference to the pair that the next cons will create
        i = r.randrange(len(m.instrs))
        made = sum(1 for x in m.instrs[:i] if x in (1, -1))
        m.instrs[i] = -(2 + made)
    elif k == "underflow":
        i = r.randrange(len(m.instrs) + 1)
        m.instrs.insert(i, r.choice([1, -1]))
        m.instr_count = len(m.instrs)
    elif k == "leftover":
        m.instrs.append(r.choice([0, 0, 2]))
        m.instr_count = len(m.instrs)
    elif k == "extreme":
        i = r.randrange(len(m.instrs))
        m.instrs[i] = r.choice([-2**55, 2**55 - 1, -2**55 + 1, 63, 64, -64, -65, 8191, 8192, -8192, -8193])
    elif k == "swapcons":
        m.instrs = [(-x if x in (1, -1) else x) for x in m.instrs]
    data = m.encode()
    if k == "overlong":
        m.overlong = (r.randrange(m.nfields), r.choice([1, 1, 2, 7]))
        data = m.encode()
    elif k == "truncate":
        data = data[:r.randrange(0, len(data))]
    elif k == "trailing":
        data = data + bytes(r.getrandbits(8) for _ in range(r.randrange(1, 5)))
    elif k == "flip":
        i = r.randrange(6, len(data))
        data = data[:i] + bytes([data[i] ^ (1 << r.randrange(8))]) + data[i + 1:]
    elif k == "ff":
        i = r.randrange(6, len(data))
        data = data[:i] + b"\xff" + data[i + 1:]
    elif k == "nomagic":
        data = data[6:]
    elif k == "badmagic":
        i = r.randrange(6)
        data = data[:i] + bytes([data[i] ^ (1 << r.randrange(8))]) + data[i + 1:]
    return k, data


def rvar(b, i):
    """lenient varint reader (for the generator's own bookkeeping): (value, next) or None"""
    if i >= len(b):
        return None
    k = 0
    while k < 8 and b[i] & (0x80 >> k):
        k += 1
    if k == 8 or i + 1 + k > len(b):
        return None
    bits = 7 + 7 * k
    u = b[i] & ((1 << (7 - k)) - 1)
    for x in b[i + 1:i + 1 + k]:
        u = (u << 8) | x
    if u >= 1 << (bits - 1):
        u -= 1 << bits
    return u, i + 1 + k


def declared_lengths(blob):
    """atom lengths the header of a magic-prefixed blob declares (as far as it parses)"""
    out = []
    if blob[:6] != MAGIC:
        return out
    x = rvar(blob, 6)
    if not x:
        return out
    gc, i = x
    n = 0
    while n < gc and n < 10000:
        x = rvar(blob, i)
        if not x:
            break
        lv, i = x
        c = 1
        if lv < 0:
            x = rvar(blob, i)
            if not x:
                out.append(-lv)
                break
            c, i = x
        out.append(abs(lv))
        if c <= 0 or abs(lv) == 0 or abs(lv) * c > len(blob):
            break
        i += abs(lv) * c
        n += 1
    return out
