"""CLVM program generators for the interpreter properties (C01–C11, C23, C25, C30, C31).

Two sources, both driven by the rng passed in:
  * fuzz_programs: clvm-fuzzing's typed generator (`make_clvm_program`), reached through the
    harness command `run gen <hexdata>`;
  * targeted builders written here: calibrated softfork guards (exact / off by one / garbage
    declared cost, nested to a given depth, every extension), unknown operators of every length
    and cost function, ((X) . args) heads, improper argument lists, leading-zero paths, apply
    chains, operators on non-canonical integers.

Programs are Python trees (bytes | (left, right)); `gen.tt` gives the transport string.
"""
import vlib, gen

Q, A, I, C, F, R, L, X, EQ = 1, 2, 3, 4, 5, 6, 7, 8, 9
SOFTFORK = 36

FLAG = {
    "CANONICAL_INTS": 0x1, "NO_UNKNOWN_OPS": 0x2, "LIMIT_HEAP": 0x4, "RELAXED_BLS": 0x8,
    "LIMIT_SOFTFORK": 0x10, "ENABLE_GC": 0x20, "LIMITS": 0x40, "KECCAK_OUTSIDE": 0x100,
    "DISABLE_OP": 0x200, "SHA256_TREE": 0x400, "SECP_OPS": 0x800, "MALACHITE": 0x1000,
    "NEW_COST_MODEL": 0x2000,
}
ALL_FLAG_BITS = list(FLAG.values())
RESTRICTION_BITS = [0x1, 0x2, 0x4, 0x10, 0x40, 0x200]
MEMPOOL_MODE = 0x2 | 0x4 | 0x200 | 0x1 | 0x10


def i2a(v):
    return gen.int_to_bytes(v)


def lst(*items, term=b""):
    t = term
    for x in reversed(items):
        t = (x, t)
    return t


def q(x):
    return (i2a(Q), x)


def op(code, *args, term=b""):
    return (code if isinstance(code, (bytes, tuple)) else i2a(code), lst(*args, term=term))


def random_flags(r, p=0.2, exclude=0):
    f = 0
    for b in ALL_FLAG_BITS:
        if r.random() < p:
            f |= b
    return f & ~exclude


def fuzz_programs(r, n, maxlen=1500, variant="default"):
    """-> list of (program_tt, env_tt) from clvm-fuzzing's generator"""
    lines = ["gen " + bytes(r.getrandbits(8) for _ in range(r.randrange(16, maxlen))).hex() for _ in range(n)]
    outs = vlib.run_impl("run", lines, variant)
    res = []
    for o in outs:
        if o and o.startswith("ok"):
            _, p, e = o.split()
            if len(p) < 30000:
                res.append((p, e))
    return res


def run_line(p, e, f=0, m=0, d="chia", **kw):
    extra = "".join(" %s=%s" % (k, v) for k, v in kw.items())
    return "run d=%s f=%d m=%d%s %s %s" % (d, f, m, extra, p, e)


def parse_obs(o):
    """-> (kind, cost, value, rest) where kind is 'ok' | 'err <Kind>' | 'panic' | 'crash'"""
    if o is None:
        return ("crash", None, None, "")
    head, _, rest = o.partition(" | ")
    t = head.split()
    if not t:
        return ("crash", None, None, rest)
    if t[0] == "ok":
        return ("ok", int(t[1]), t[2], rest)
    if t[0] == "err":
        return ("err " + t[1], None, None, rest)
    return (t[0], None, None, rest)


def head(o):
    return (o or "crash").partition(" | ")[0]


# ---------------------------------------------------------------------------------------------
# targeted programs
# ---------------------------------------------------------------------------------------------

def small_programs(r):
    """hand-shaped programs around the evaluator's own rules (not operator semantics)"""
    P = []
    env = lst(i2a(5), lst(i2a(7), i2a(8)), i2a(0x80), b"hello", term=i2a(99))
    atoms = [b"", i2a(1), i2a(2), i2a(3), i2a(5), i2a(6), i2a(7), i2a(11), i2a(0x7f), i2a(0x80), i2a(0xff), i2a(0x100),
             b"\x00\x02", b"\x00\x00\x05", b"\x00", b"\x00\x00", i2a(0x7fff), i2a(0x8000), i2a(0x3ffffff), i2a(0x4000000),
             i2a(2 ** 31 - 1), i2a(2 ** 31), i2a(2 ** 32 + 5), b"\xff", b"\x80", b"\x00\x80"]
    for a in atoms:                               # paths, incl. leading zeros and all-zero
        P.append((a, env))
    for a in atoms[:12]:
        P.append((q(a), env))
        P.append((op(A, q(a), q(env)), b""))
        P.append((op(A, q(a), i2a(1)), env))
        P.append(((lst(a), lst(q(i2a(3)), q(i2a(4)))), env))           # ((X) . args)
        P.append((((a, i2a(9)), lst(q(i2a(3)))), env))                  # ((X . junk) ...)
        P.append(((lst(lst(a)), lst(q(i2a(3)))), env))                  # (((X)) ...)
    # operators with proper / improper argument lists
    for term in (b"", i2a(1), b"\x00", b"abc"):
        P.append((op(16, q(i2a(3)), q(i2a(4)), term=term), env))
        P.append((op(C, q(i2a(3)), q(i2a(4)), term=term), env))
        P.append((op(Q, i2a(3), term=term), env))
    # apply chains / recursion (factorial-like loop from run_program.rs' tests)
    P.append((op(A, q(op(A, i2a(2), op(C, i2a(2), op(C, i2a(5), op(C, i2a(11), q(b"")))))),
                 op(C, q(op(A, op(I, op(EQ, i2a(11), q(b"")), q(q(i2a(1))),
                                  q(op(16, i2a(5), op(A, i2a(2), op(C, i2a(2), op(C, i2a(5), op(C, op(17, i2a(11), q(i2a(1))), q(b"")))))))),
                            i2a(1))), i2a(1))), lst(i2a(5033), i2a(r.choice([0, 1, 7, 30])))))
    # operator atom that is a non-canonical / heap form of quote, apply, softfork keywords
    for kw in (b"\x00\x01", b"\x00\x02", b"\x00\x24", b"\x01\x00", b"\x24\x00"):
        P.append((op(kw, q(i2a(3)), q(i2a(4))), env))
    # raise
    P.append((op(X), env)); P.append((op(X, q(i2a(5))), env)); P.append((op(X, q(lst(i2a(5)))), env)); P.append((op(X, q(i2a(5)), q(i2a(6))), env))
    return [(gen.tt(p), gen.tt(e)) for p, e in P]


def composed_programs(r, n):
    """values COMPUTED by one operator (so that they live in the allocator in whatever form that operator
    leaves them: empty substring views, heap copies of small integers, sign-padded or zero results,
    one-byte views) flowing into every consumer that inspects a value (truth tests, equality, integer and
    length readers, list readers, paths, apply). Targets reads that depend on how an atom is stored."""
    s5 = b"hello"
    big = bytes(range(1, 40))
    producers = [
        # nil in many forms
        op(12, q(s5), q(i2a(2)), q(i2a(2))), op(12, q(s5), q(i2a(5))), op(12, q(b"\xff"), q(i2a(1))), op(12, q(b"\x00\x05"), q(i2a(2))),
        op(12, q(big), q(i2a(7)), q(i2a(7))), op(12, q(b"hi"), q(i2a(1)), q(i2a(1))), op(12, q(b""), q(b"")),
        op(14), op(14, q(b""), q(b"")), op(17, q(i2a(5)), q(i2a(5))), op(16), op(26, q(i2a(77)), q(i2a(77))),
        op(18, q(b""), q(i2a(9))), op(23, q(i2a(1)), q(i2a(-1))), op(22, q(i2a(1)), q(i2a(-9))), op(32, q(i2a(1))),
        op(R, q(lst(i2a(1)))), op(24, q(i2a(5)), q(i2a(2))), op(61, q(i2a(10)), q(i2a(5))), op(19, q(i2a(1)), q(i2a(5))),
        # zero-like but not nil
        op(12, q(b"a\x00b"), q(i2a(1)), q(i2a(2))), op(14, q(b"\x00")), op(14, q(b""), q(b"\x00"), q(b"")), op(14, q(b"\x00"), q(b"\x00")),
        # small integers produced on the heap / as views / with boundary sizes
        op(12, q(s5), q(i2a(1)), q(i2a(2))), op(14, q(i2a(1))), op(14, q(b"\x00"), q(b"\x80")), op(14, q(b"\x00\x80"), q(b"\x00\x00")),
        op(14, q(b"\x03\xff"), q(b"\xff\xff")), op(14, q(b"\x04"), q(b"\x00\x00\x00")), op(14, q(b"\x00\x00"), q(b"\x01")),
        op(16, q(i2a(100)), q(i2a(28))), op(16, q(i2a(0x3ffffff)), q(i2a(1))), op(17, q(i2a(0x4000000)), q(i2a(1))),
        op(18, q(i2a(0x2000)), q(i2a(0x2000))), op(23, q(i2a(1)), q(i2a(25))), op(23, q(i2a(1)), q(i2a(26))), op(17, q(b""), q(i2a(1))),
        op(12, q(big), q(i2a(0)), q(i2a(1))), op(12, q(big), q(i2a(1)), q(i2a(2))), op(12, q(big), q(i2a(35)), q(i2a(36))),
        op(13, q(s5)), op(13, q(big)), op(EQ, q(s5), q(s5)), op(L, q(lst(i2a(1)))), op(33, q(b""), q(i2a(1))), op(34, q(i2a(1)), q(i2a(1))),
        op(11, q(b"")),
    ]
    env = lst(i2a(5), lst(i2a(7), i2a(8)), b"hello", i2a(1), term=i2a(99))

    def consumers(P):
        one, two = q(i2a(1)), q(i2a(2))
        return [
            op(I, P, one, two), op(32, P), op(33, P), op(33, q(b""), P), op(34, P), op(34, one, P), op(33, P, P), op(34, P, P),
            op(EQ, P, q(b"")), op(EQ, q(b""), P), op(EQ, P, P), op(EQ, P, q(b"\x00")), op(EQ, P, q(b"e")), op(EQ, q(i2a(128)), P),
            op(EQ, P, q(b"\x00\x80\x00\x00")), op(EQ, q(b"\x03\xff\xff\xff")), op(EQ, P, q(b"\x04\x00\x00\x00")), op(EQ, P, one),
            op(L, P), op(13, P), op(16, P, one), op(17, one, P), op(18, P, P), op(21, P, one), op(21, one, P), op(20, two, P), op(19, q(i2a(7)), P),
            op(14, P, P), op(14, q(b"x"), P, q(b"y")), op(11, P), op(11, P, P), op(C, P, P), op(F, op(C, P, one)), op(12, q(b"abcdef"), P),
            op(12, q(b"abcdef"), one, P), op(12, P, q(b"")), op(23, one, P), op(23, P, one), op(22, P, one), op(24, P, one), op(25, P, one), op(27, P),
            op(A, P, i2a(1)), op(A, one, P), op(A, q(i2a(1)), op(C, P, q(b""))), op(A, q(op(I, i2a(2), one, two)), op(C, P, q(b""))),
            op(X, P), op(F, P), op(R, P), op(SOFTFORK, P), op(SOFTFORK, q(i2a(200)), P), op(SOFTFORK, P, q(b"")),
            op(A, q(op(A, P, i2a(1))), q(env)), op(63, op(C, P, P)), op(60, q(i2a(7)), P, q(i2a(13))), op(60, P, two, q(i2a(13))),
        ]
    progs = []
    for P in producers:
        progs.extend(consumers(P))
    progs = r.sample(progs, min(n, len(progs)))
    # the OPERATOR (and the quote / apply / softfork keywords) computed at run time, so that it is a heap atom
    # or a substring view rather than an inline small integer: (a (c <computed opcode> (q . args)) ())
    for code in (1, 2, 4, 5, 9, 11, 16, 18, 23, 29, 32, 36, 60, 0x0f, 0x41):
        b = bytes([code])
        makers = [op(12, q(b + b"\xff\xff\xff\xff"), q(b""), q(i2a(1))), op(12, q(b"\x7f\x7f\x7f\x7f" + b), q(i2a(4))),
                  op(14, q(b)), op(14, q(b""), q(b)), op(12, i2a(1), q(i2a(1)), q(i2a(2)))]
        args = {1: i2a(7), 2: lst(q(q(i2a(7))), q(b"")), 36: lst(q(i2a(300)), q(b""), q(q(i2a(1))), q(b""))}.get(code, lst(q(i2a(3)), q(i2a(4))))
        for mk in makers:
            progs.append(op(A, op(C, mk, q(args)), q(b"")) if mk[1] != lst(i2a(1), q(i2a(1)), q(i2a(2))) else None)
            progs.append(op(A, op(C, mk, q(args)), i2a(1)))
        progs = [x for x in progs if x is not None]
    env2 = b"\x7f" + bytes([16]) + b"\x7f\x7f\x7f\x7f"
    return [(gen.tt(p), gen.tt(env)) for p in progs] + [(gen.tt(p), gen.tt(bytes([0x7f, c, 0x7f, 0x7f, 0x7f]))) for p in progs[-20:] for c in (16, 1)]


def algebraic_programs(r, n):
    """n-ary operators whose running result passes through an algebraically special value (0, -1, 1, the
    identity, an 'absorbing' element, a sign change, a length boundary) BEFORE the last argument: a short-cut
    taken at such a value is right for some operators and wrong for others."""
    P = []

    def rnd():
        k = r.random()
        if k < 0.4:
            return r.randrange(-300, 300)
        if k < 0.7:
            return r.choice([1, -1]) * r.getrandbits(r.choice([8, 15, 16, 31, 32, 63, 64, 65, 127, 128, 200]))
        return r.choice([0, 1, -1, 0x7f, 0x80, -0x80, -0x81, 0xff, 0x100, 2 ** 31, -2 ** 31, 2 ** 63, 2 ** 64 - 1])
    for _ in range(n):
        x, y, z = rnd(), rnd(), rnd()
        nx = -x - 1
        shapes = [[x, nx, y], [x, nx, y, z], [-1, y], [-1, y, z], [x, x, y], [0, y], [0, y, z], [x, -x, y], [x, 0, y], [1, y, z], [x, nx],
                  [-1, -1, y], [y, x, nx, z], [y, x, nx], [x, y, nx, z], [x, -1, y], [x, 1, y], [x, y, 0, z], [x, y ^ x ^ -1, y, z], [x & y, x, y, z]]
        code = r.choice([16, 17, 18, 24, 25, 26, 24, 25, 26])
        P.append(op(code, *[q(i2a(v)) for v in r.choice(shapes)]))
        if r.random() < 0.25:      # the same through non-canonical operands
            P.append(op(code, *[q((b"\x00" if v >= 0 else b"\xff") + i2a(v)) for v in r.choice(shapes)]))
        if r.random() < 0.2:
            P.append(op(r.choice([33, 34]), *[q(i2a(v)) for v in r.choice(shapes)]))
    return [(gen.tt(p), gen.tt(b"")) for p in P]


def gc_directed_programs():
    """-> [(p_tt, e_tt, tag)]: programs on which the ENABLE_GC roll-back has real work to do"""
    pool = []
    # directed: a GC-candidate operator (apply, opcode 2) whose result is a post-checkpoint HEAP atom
    # with small-integer bytes (made by concat / substr), after >= 1 KiB of garbage so that the
    # restore is worth taking: maybe_restore_with_node clones it through new_atom and must re-credit
    # the counters
    junk = op(14, q(bytes([0x61]) * 700), q(bytes([0x62]) * 700))
    for E in (op(14, q(i2a(1)), q(i2a(2))), op(14, q(b"\x00"), q(b"\x80")), op(14, q(b""), q(b"")),
              op(12, q(b"\x01\x02\x03\x04\x05\x06\x07\x08\x09"), q(b""), q(i2a(1))),
              op(12, q(b"\x01\x02\x03\x04\x05\x06\x07\x08\x09"), q(i2a(2)), q(i2a(2))),
              op(14, q(bytes([7]) * 30), q(bytes([8]) * 30)), op(16, q(i2a(1)), q(i2a(2)))):
        body = op(5, op(4, E, junk))
        pool.append((gen.tt(op(2, q(body), q(b""))), gen.tt(b""), "directed-gc-small"))
        pool.append((gen.tt(op(4, op(2, q(body), q(b"")), op(2, q(body), q(b"")))), gen.tt(b""), "directed-gc-small"))
    # both evaluation orders (arguments are evaluated last to first): the kept value made BEFORE the
    # garbage, from operands that predate the checkpoint (the environment: a heap atom that is the most
    # recent allocation when the run starts), and AFTER it
    envs = [b"seeded-heap-atom-env", b"\x00\x05", bytes(range(60)), b"\x01\x02\x03\x04\x05"]
    junk2 = op(23, q(i2a(1)), q(i2a(9000)))                       # lsh: a 1126-byte number
    for env in envs:
        for E in (op(14, i2a(1), q(b"x")), op(14, i2a(1), i2a(1)), op(14, q(b""), i2a(1), q(b"yz")), op(12, i2a(1), q(i2a(1))),
                  op(12, i2a(1), q(b""), q(i2a(2))), op(14, op(12, i2a(1), q(i2a(1))), q(b"tail")), op(11, i2a(1)), i2a(1)):
            for J in (junk, junk2):
                pool.append((gen.tt(op(2, q(op(6, op(4, J, E))), i2a(1))), gen.tt(env), "directed-gc-order"))
                pool.append((gen.tt(op(2, q(op(5, op(4, E, J))), i2a(1))), gen.tt(env), "directed-gc-order"))
    return pool


def long_work_programs(r):
    """operators that check the budget WHILE they work (per argument / per node): long argument lists and deep
    trees of (almost) empty atoms, where the work still pending is large compared with the cost per unit -
    an early bail-out that over-estimates pending work fails under a budget that the final cost fits.
    -> [(p_tt, e_tt, flagbit, tag)]"""
    out = []
    nil, one = b"", i2a(1)
    for n in (60, 200):
        for leaf in (nil, b"ab"):
            right = nil
            for _ in range(n):
                right = (leaf, right)
            left = leaf
            for _ in range(n):
                left = (left, leaf)
            for t, shape in ((right, "list"), (left, "left")):
                out.append((gen.tt(op(63, q(t))), gen.tt(b""), FLAG["SHA256_TREE"], "deep-%s-%d" % (shape, n)))
                out.append((gen.tt(op(63, i2a(1))), gen.tt(t), FLAG["SHA256_TREE"], "deep-env-%s-%d" % (shape, n)))
            for code in (11, 14, 16, 17, 18, 24, 25, 26, 33, 34):
                if code == 18 and n > 200:
                    continue
                out.append((gen.tt(op(code, *[q(leaf)] * n)), gen.tt(b""), 0, "args-%d-%d" % (code, n)))
    return out


UNKNOWN_OPCODES = None


def unknown_opcodes(r, n):
    """opcode atoms with no assigned meaning: every length 1..6, every cost function (low 2 bits of
    the last byte... actually bits 6-7), multipliers of every size, ffff prefixes, empty"""
    out = [b"", b"\xff\xff", b"\xff\xff\x01", b"\xff", b"\x0f", b"\x1c", b"\x1f", b"\x23", b"\x25", b"\x2f", b"\x30" + b"", b"\x3e" b"", b"\x3f",
           b"\x40", b"\x7f", b"\x80", b"\xbf", b"\xc0", b"\xfe", b"\x42", b"\x43", b"\x01\x00", b"\x00\x05", b"\x00\x00\x40"]
    for _ in range(n):
        ln = r.choice([1, 1, 2, 2, 3, 4, 5, 5, 6])
        b = bytearray(r.getrandbits(8) for _ in range(ln))
        b[-1] = (r.choice([0, 0x40, 0x80, 0xc0]) | r.choice([0, 1, 0x3f, r.getrandbits(6)]))
        if ln > 1 and r.random() < 0.6:
            for i in range(ln - 1):
                b[i] = r.choice([0, 0, 0, 1, r.getrandbits(8)])
        out.append(bytes(b))
    out += [bytes.fromhex("13d61f00"), bytes.fromhex("1c3a8f00"), bytes.fromhex("13d61f01"), bytes.fromhex("7fd0110580")]
    return out


def unknown_op_programs(r, n):
    P = []
    for oc in unknown_opcodes(r, n):
        k = r.randrange(0, 4)
        args = [q(gen.gen_atom(r)) if r.random() < 0.85 else q((gen.gen_atom(r), b"")) for _ in range(k)]
        P.append((gen.tt(op(oc, *args)), gen.tt(b"")))
    return P


def calibrate(progs, flags, variant="default"):
    """standalone cost of each (p_tt, e_tt) under `flags` (None when it fails)"""
    lines = [run_line(p, e, f=flags) for p, e in progs]
    outs = vlib.run_impl("run", lines, variant)
    res = []
    for o in outs:
        k, c, v, _ = parse_obs(o)
        res.append(c if k == "ok" else None)
    return res


def guard(inner_p, inner_e, cost, ext):
    """(softfork (q . cost) (q . ext) (q . inner_p) (q . inner_e)); trees, not strings"""
    return op(SOFTFORK, q(i2a(cost) if isinstance(cost, int) else cost), q(i2a(ext) if isinstance(ext, int) else ext), q(inner_p), q(inner_e))


def guard_cost(flags):
    return 500 if flags & FLAG["NEW_COST_MODEL"] else 140


def guarded_programs(r, pool, flags, variant="default", n=60, maxdepth=3):
    """cost-calibrated guards around programs from `pool` (list of (p_tt, e_tt)).
    Returns list of (p_tt, e_tt, meta) where meta describes the declared cost relation.
    The inner program's standalone cost is measured under `flags` (+ the keccak flag for
    extension 1, which is what the guard enables), then declared exactly / off by one / garbage."""
    res = []
    picks = [pool[r.randrange(len(pool))] for _ in range(n)]
    exts = [r.choice([0, 0, 1, 1, 2, 5]) for _ in picks]
    lines = []
    for (p, e), ext in zip(picks, exts):
        f = flags | (FLAG["KECCAK_OUTSIDE"] if ext == 1 or (flags & FLAG["NEW_COST_MODEL"] and ext in (0, 1)) else 0)
        lines.append(run_line(p, e, f=f))
    outs = vlib.run_impl("run", lines, variant)
    for (p, e), ext, o in zip(picks, exts, outs):
        k, c, v, _ = parse_obs(o)
        pt, et = gen.from_tt(p), gen.from_tt(e)
        if k != "ok":
            # a failing body: the guard fails too (or, for unknown extensions, is skipped)
            g = guard(pt, et, r.choice([1, 1000, 10 ** 6]), ext)
            res.append((gen.tt(op(C, g, q(i2a(7)))), gen.tt(b""), "failing-body ext=%d" % ext))
            continue
        decl = c + guard_cost(flags)
        how = r.choice(["exact", "exact", "exact", "minus1", "plus1", "garbage", "zero", "padded"])
        if how == "minus1":
            d = decl - 1
        elif how == "plus1":
            d = decl + 1
        elif how == "garbage":
            d = r.choice([1, decl * 2, 2 ** 32, 2 ** 63, 2 ** 64 - 1, 2 ** 64])
        elif how == "zero":
            d = 0
        else:
            d = decl
        dcost = i2a(d)
        if how == "padded":
            dcost = b"\x00" + dcost
        g = guard(pt, et, dcost, ext)
        depth = r.randrange(0, maxdepth)
        total = d
        for _ in range(depth):
            # wrap: outer guard whose body is the inner guard; body cost = inner declared + quote costs...
            # (calibrated in a second pass by the caller when exactness matters)
            pass
        # use the guard's (nil) result inside a larger expression so that later steps run too
        prog = op(C, g, op(16, q(i2a(3)), q(i2a(4)))) if r.random() < 0.5 else g
        res.append((gen.tt(prog), gen.tt(b""), "%s ext=%d" % (how, ext)))
    return res


def nested_guards(flags, depth, ext=0, variant="default"):
    """`depth` exactly-calibrated guards nested inside each other around (q . 1);
    calibrated bottom-up with the implementation itself (one run per level)."""
    body = q(i2a(1))
    env = b""
    for _ in range(depth):
        f = flags | (FLAG["KECCAK_OUTSIDE"] if ext == 1 else 0)
        o = vlib.run_impl("run", [run_line(gen.tt(body), gen.tt(env), f=f & ~FLAG["LIMIT_SOFTFORK"])], variant, shards=1)[0]
        k, c, v, _ = parse_obs(o)
        if k != "ok":
            return None
        body = guard(body, env, c + guard_cost(flags), ext)
    return gen.tt(body), gen.tt(env)


# ---------------------------------------------------------------------------------------------
# programs from the repository's operator vectors (valid crypto inputs that no random generator finds)
# ---------------------------------------------------------------------------------------------
OPTEST_OPCODES = {
    "i": 3, "c": 4, "f": 5, "r": 6, "l": 7, "x": 8, "=": 9, ">s": 10, "sha256": 11, "substr": 12, "strlen": 13,
    "concat": 14, "+": 16, "-": 17, "*": 18, "/": 19, "divmod": 20, ">": 21, "ash": 22, "lsh": 23, "logand": 24,
    "logior": 25, "logxor": 26, "lognot": 27, "point_add": 29, "pubkey_for_exp": 30, "not": 32, "any": 33, "all": 34,
    "coinid": 48, "g1_add": 29, "g1_subtract": 49, "g1_multiply": 50, "g1_negate": 51, "g2_add": 52, "g2_subtract": 53,
    "g2_multiply": 54, "g2_negate": 55, "g1_map": 56, "g2_map": 57, "bls_pairing_identity": 58, "bls_verify": 59,
    "modpow": 60, "%": 61, "keccak256": 62, "sha256tree": 63,
    "secp256k1_verify": bytes.fromhex("13d61f00"), "secp256r1_verify": bytes.fromhex("1c3a8f00"),
}


def _optest_atom(tok):
    if tok.startswith("0x"):
        return bytes.fromhex(tok[2:])
    if tok.startswith('"') and tok.endswith('"'):
        return tok[1:-1].encode()
    try:
        return i2a(int(tok))
    except ValueError:
        return None


_OPTESTS = None


def optest_calls(repo=None):
    """-> list of (opname, opcode, [arg atoms], expect_fail) for the flat (atom-only) vectors"""
    global _OPTESTS
    if _OPTESTS is not None:
        return _OPTESTS
    import os
    repo = repo or vlib.REPO
    res = []
    d = os.path.join(repo, "op-tests")
    for fn in sorted(os.listdir(d)):
        if not fn.endswith(".txt"):
            continue
        for line in open(os.path.join(d, fn)):
            line = line.strip()
            if not line or line.startswith(";") or "=>" not in line or "(" in line:
                continue
            lhs, rhs = line.split("=>", 1)
            toks = lhs.split()
            if not toks or toks[0] not in OPTEST_OPCODES:
                continue
            args = [_optest_atom(t) for t in toks[1:]]
            if any(a is None for a in args):
                continue
            res.append((toks[0], OPTEST_OPCODES[toks[0]], args, rhs.strip().startswith("FAIL")))
    _OPTESTS = res
    return res


def optest_programs(r, n, only=None):
    """(p_tt, e_tt, name) programs `(op (q . a1) ... (q . ak))` sampled evenly over operator names"""
    calls = optest_calls()
    if only:
        calls = [c for c in calls if c[0] in only]
    by = {}
    for c in calls:
        by.setdefault(c[0], []).append(c)
    names = sorted(by)
    out = []
    for i in range(n):
        name = names[i % len(names)] if i < 3 * len(names) else r.choice(names)
        nm, oc, args, fail = r.choice(by[name])
        if sum(len(a) for a in args) > 5000:
            continue
        code = oc if isinstance(oc, bytes) else i2a(oc)
        out.append((gen.tt(op(code, *[q(a) for a in args])), gen.tt(b""), nm))
    return out


# ---------------------------------------------------------------------------------------------
# programs whose outcome depends on ONE particular flag (each flag bit is read by few operators on
# few inputs; random flag sets x random programs almost never meet those inputs)
# ---------------------------------------------------------------------------------------------
G1_GEN = bytes.fromhex("97f1d3a73197d7942695638c4fa9ac0fc3688c4f9774b905a14e3a3f171bac586c55e83ff97a1aeffb3af00adb22c6bb")
G2_GEN = bytes.fromhex("93e02b6052719f607dacd3a088274f65596bd0d09920b61ab5da61bbdc7f5049334cf11213945d57e5ac7d055d042b7e"
                       "024aa2b2f08f0a91260805272dc51051c6e47ad4fa403b02b4510b647ae3d1770bac0326a805bbefd48056c8c121bdb8")


def flag_sensitive_programs(r, n_each=3):
    """-> list of (p_tt, e_tt, flagbit, what)"""
    out = []

    def add(prog, bit, what):
        out.append((gen.tt(prog), gen.tt(b""), bit, what))

    for _ in range(n_each):
        # RELAXED_BLS: g1_negate / g2_negate validate their argument only without the flag
        bad1 = bytearray(G1_GEN); bad1[-1] ^= 1 + r.getrandbits(3)
        bad2 = bytearray(G2_GEN); bad2[-1] ^= 1 + r.getrandbits(3)
        for code, pt in ((51, bytes(bad1)), (55, bytes(bad2)), (51, G1_GEN), (55, G2_GEN),
                         (51, bytes(r.getrandbits(8) for _ in range(48))), (55, bytes(r.getrandbits(8) for _ in range(96)))):
            add(op(code, q(pt)), FLAG["RELAXED_BLS"], "negate")
        # LIMITS / DISABLE_OP: operand size limits of * / divmod % modpow g1_multiply g2_multiply
        for n in (255, 256, 257, 1024, 1025, 2048, 2049):
            big = bytes([1 + r.getrandbits(6)]) + bytes(r.getrandbits(8) for _ in range(n - 1))
            small = i2a(r.choice([3, 7, 255, 65537]))
            for code in (18, 19, 20, 61):
                add(op(code, q(big), q(small)), FLAG["LIMITS"], "size-%d" % n)
                add(op(code, q(small), q(big)), FLAG["LIMITS"], "size-%d" % n)
                add(op(code, q(big), q(small)), FLAG["DISABLE_OP"], "size-%d" % n)
            # the same sizes reached by padding: a sign byte / redundant zero bytes in front of a magnitude
            # that is one byte (or much) shorter - the limits are on the ATOM length, costs partly on limbs
            pads = [b"\x00" + bytes([0x80 | r.getrandbits(7)]) + bytes(r.getrandbits(8) for _ in range(n - 2)),
                    b"\x00" * (n - 200) + bytes([1 + r.getrandbits(6)]) + bytes(r.getrandbits(8) for _ in range(199)),
                    b"\xff" + bytes([r.getrandbits(7)]) + bytes(r.getrandbits(8) for _ in range(n - 2))]
            for padded in pads:
                for code in (18, 19, 20, 61):
                    add(op(code, q(padded), q(small)), FLAG["LIMITS"], "padded-%d" % n)
                    add(op(code, q(small), q(padded)), FLAG["LIMITS"], "padded-%d" % n)
                add(op(18, q(padded), q(small), q(small)), FLAG["LIMITS"], "padded-%d" % n)
                add(op(60, q(padded), q(small), q(i2a(1000003))), FLAG["LIMITS"], "padded-modpow-%d" % n)
            add(op(60, q(big), q(small), q(i2a(1000003))), FLAG["LIMITS"], "modpow-%d" % n)
            add(op(60, q(small), q(small), q(big)), FLAG["LIMITS"], "modpow-%d" % n)
            add(op(50, q(G1_GEN), q(big)), FLAG["LIMITS"], "g1mul-%d" % n)
            add(op(54, q(G2_GEN), q(big)), FLAG["LIMITS"], "g2mul-%d" % n)
        add(op(60, q(i2a(2)), q(i2a(77)), q(i2a(1000003))), FLAG["DISABLE_OP"], "modpow")
        # CANONICAL_INTS: integer arguments with redundant leading zeros
        s = b"abcdefgh"
        for a, b in ((b"\x00\x01", i2a(3)), (i2a(1), b"\x00\x03"), (b"\x00", i2a(3)), (b"\x00\x80", i2a(200)), (i2a(1), b"\x00\x00\x03")):
            add(op(12, q(s), q(a), q(b)), FLAG["CANONICAL_INTS"], "substr")
        add(guard(q(i2a(1)), b"", b"\x00" + i2a(160), 0), FLAG["CANONICAL_INTS"], "guard-cost")
        # every shape of integer atom in the two uint_atom positions of a softfork (cost: 8 bytes, extension: 4)
        for bad in (b"\x00", b"\x00\x00", b"\x00\x7f", b"\x00\x80", b"\x80", b"\xff", b"\x00" * 9, b"\x01" + b"\x00" * 8,
                    b"\x00\xff\xff\xff\xff\xff\xff\xff\xff", b"\x00\x00\x01", b"\x7f" * 8, b"\x7f" * 4, b"\x00\x80\x00\x00\x00"):
            add(guard(q(i2a(1)), b"", bad, 0), FLAG["CANONICAL_INTS"], "guard-cost-int")
            add(guard(q(i2a(1)), b"", 160, bad), FLAG["CANONICAL_INTS"], "guard-ext-int")
            add(op(SOFTFORK, q(bad)), FLAG["CANONICAL_INTS"], "guard-short")
            add(op(SOFTFORK, (bad, bad)), FLAG["CANONICAL_INTS"], "guard-pair-cost")
        # NO_UNKNOWN_OPS
        for oc in (b"\x0f", b"\x40\x00", bytes.fromhex("13d61f01"), b"\x3e", b"\x3f", b"\x40", b"\x41"):
            add(op(oc, q(i2a(5)), q(b"xyz")), FLAG["NO_UNKNOWN_OPS"], "unknown")
        # operators that exist only with their flag
        add(op(62, q(b"abc")), FLAG["KECCAK_OUTSIDE"], "keccak")
        add(op(63, q((b"a", (b"b", b"")))), FLAG["SHA256_TREE"], "sha256tree")
        # MALACHITE: division with negative operands / zero
        for a, b in ((-7, 2), (7, -2), (-7, -2), (0, 5), (5, 0), (-2 ** 70, 3), (2 ** 70, -3)):
            for code in (19, 20, 61):
                add(op(code, q(i2a(a)), q(i2a(b))), FLAG["MALACHITE"], "div")
        add(op(60, q(i2a(-3)), q(i2a(5)), q(i2a(-7))), FLAG["MALACHITE"], "modpow")
    # secp through the one-byte opcodes 64 / 65 (ENABLE_SECP_OPS)
    for nm, oc, args, fail in optest_calls():
        if nm in ("secp256k1_verify", "secp256r1_verify") and r.random() < 0.15:
            add(op(64 if nm.startswith("secp256k1") else 65, *[q(a) for a in args]), FLAG["SECP_OPS"], nm)
    return out
