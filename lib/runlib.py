"""Shared helpers for the interpreter checks (run family)."""
import vlib, gen, gen_prog
from gen_prog import FLAG, run_line, parse_obs, head


def program_pool(ctx, n_fuzz, n_unknown=40, guards=True, flags_for_guards=(0,), n_optest=None, optest_only=None):
    """(p_tt, e_tt, tag) triples: fuzz-generated, the repository's operator vectors as programs,
    hand-shaped, unknown operators, calibrated guards around a sample of the former"""
    r = ctx.rng
    pool = []
    fz = gen_prog.fuzz_programs(r, n_fuzz)
    pool += [(p, e, "fuzz") for p, e in fz]
    ot = gen_prog.optest_programs(r, n_optest if n_optest is not None else max(60, n_fuzz // 3), only=optest_only)
    pool += [(p, e, "optest:" + nm) for p, e, nm in ot]
    fz = fz + [(p, e) for p, e, _ in ot]
    pool += [(p, e, "flagsens[f=%d %s]" % (bit, what)) for p, e, bit, what in gen_prog.flag_sensitive_programs(r, 1 if n_fuzz < 2000 else 3)]
    pool += [(p, e, "shape") for p, e in gen_prog.small_programs(r)]
    pool += [(p, e, "composed") for p, e in gen_prog.composed_programs(r, max(150, n_fuzz // 3))]
    pool += [(p, e, "algebraic") for p, e in gen_prog.algebraic_programs(r, max(150, n_fuzz // 3))]
    pool += [(p, e, "unknown") for p, e in gen_prog.unknown_op_programs(r, n_unknown)]
    if guards and fz:
        for f in flags_for_guards:
            for p, e, meta in gen_prog.guarded_programs(r, fz, f, n=max(20, n_fuzz // 10)):
                pool.append((p, e, "guard[f=%d %s]" % (f, meta)))
    for _, _, tag in pool:
        ctx.histogram("program_source", tag.split("[")[0].split(":")[0])
    return pool


def pick_flags(r, tag, p=0.15, exclude=0, include=0):
    """a random flag set; programs tagged flagsens[f=BIT ...] get BIT set or cleared with equal
    probability (that bit decides their outcome), and NEW_COST_MODEL with probability 1/2"""
    f = gen_prog.random_flags(r, p)
    if tag.startswith("flagsens[f="):
        bit = int(tag.split("=")[1].split()[0])
        f = (f | bit) if r.random() < 0.5 else (f & ~bit)
        f = (f | FLAG["NEW_COST_MODEL"]) if r.random() < 0.5 else (f & ~FLAG["NEW_COST_MODEL"])
    return (f | include) & ~exclude


def flag_variants(r, tag, p=0.15, exclude=0, include=0):
    """like pick_flags, but a flagsens program gets all four combinations of (its deciding bit,
    NEW_COST_MODEL) over one random base: size/shape boundaries that only matter under one
    combination are then met on every run instead of with probability 1/4"""
    if not tag.startswith("flagsens[f="):
        return [pick_flags(r, tag, p, exclude, include)]
    bit = int(tag.split("=")[1].split()[0])
    base = gen_prog.random_flags(r, p) & ~bit & ~FLAG["NEW_COST_MODEL"]
    out = []
    for b in (0, bit):
        for n in (0, FLAG["NEW_COST_MODEL"]):
            f = ((base | b | n) | include) & ~exclude
            if f not in out:
                out.append(f)
    return out


def canon_run(s):
    """observation of the run family, without the implementation-only part after ' | '"""
    if s is None:
        return "none"
    if s.startswith("panic") or s.startswith("crash"):
        return s.split()[0]
    return head(s)


def correspond_run(ctx, lines, name="run", variant="default"):
    def nontrivial(c, a, b):
        return b is not None and (b.startswith("ok") or "CostExceeded" in b or "Softfork" in b)
    return ctx.correspond("run", lines, variant=variant, canon=canon_run, name=name, nontrivial=nontrivial,
                          skip=lambda m: m.startswith("skip"))


def has_softfork(p_tt):
    # the keyword itself, or one of the literals gen_prog.composed_programs computes it from at run time
    return "a24;" in p_tt or "a24ffffffff;" in p_tt or "a7f7f7f7f24;" in p_tt


def note_outcomes(ctx, outs, key="outcome"):
    for o in outs:
        k = parse_obs(o)[0]
        ctx.histogram(key, k)


def count_case(ctx, line, nontrivial=True):
    ctx.evaluations += 1
    if line not in ctx.distinct:
        ctx.distinct.add(line)
        if nontrivial:
            ctx.nontrivial += 1


def check_no_panic(ctx, lines, outs, what="run_program panicked or reported an internal error"):
    for l, o in zip(lines, outs):
        k = parse_obs(o)[0]
        if k in ("panic", "crash") or k.startswith("err InternalError"):
            ctx.violation(what, {"family": "run", "case": l[:3000], "impl": o})
