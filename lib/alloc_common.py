"""Shared body of the checks C12, C13, C14 (allocator histories).

1. model vs implementation: every generated history through the extracted arena model and the
   Rust harness, compared step by step (result, error code, three counts, digest of every live
   node's tree).
2. property-level search on the implementation alone: the implementation's observations against
   the independent Python reference of gen_alloc.PyRef (reference accounting, caps, node contents),
   plus monitors that need no reference (caps never exceeded; a failed operation changes nothing).
   Each divergence is attributed to the property it contradicts:
     counts    -> C12   (the three counts differ from the reference accounting)
     caps      -> C13   (a cap exceeded / cap error not exactly at the cap / failed op changed state)
     contents  -> C14   (a live node's tree changed, a read API disagrees with the bytes)
   A divergence at a step where the Coq model says new_substr's copy-to-heap branch has been taken
   is class "F2" (the hypothesis the theorems exclude)."""
import os, sys
import vlib, gen_alloc

sys.path.insert(0, os.path.join(vlib.VERIF, "translator"))
import gen_alloc_consts  # noqa: E402

CAP_ERRS = ("e:TooManyAtoms", "e:TooManyPairs", "e:OutOfMemory")

RULE = ("operation histories of 3..150 steps over Allocator::new_limited(L): directed histories reaching every branch the "
        "properties name, then random histories from profiles (general, heap cap with L in 0..100, atom cap and pair cap pre-loaded to "
        "within 0..9 of 62 500 000 through add_ghost_atom/add_ghost_pair, integers at every boundary 0x7f..2^64 through all four "
        "encoders, gc = transparent checkpoints + >=1024 bytes of garbage + maybe_restore_with_node, F2 = substrings of inline atoms, "
        "substr/concat over all representation combinations, misuse); arguments index earlier results (mostly valid, sometimes off "
        "the end), bounds in range / off by one / random; checkpoints restored LIFO and to older ones (never forwards: the API forbids it); "
        "non-trivial = distinct history with >= 3 observed steps")


def f2_fixed():
    try:
        return gen_alloc_consts.f2_fixed(vlib.REPO)
    except Exception:
        return False


def directed_histories(fx):
    """hand-written histories reaching every branch the properties name (always run first)"""
    M = gen_alloc.MAX_ATOMS
    H = []
    # F2 probe from DESIGN.md section 5 and its variants
    H.append((20, ["s,128", "a," + "11" * 17, "b,0,0,1", "b,0,1,2", "A,2", "A,3", "S,3", "N,3"]))
    H.append((3, ["s,128", "b,0,1,2"]))
    H.append((3, ["s,256", "b,0,1,2", "b,0,0,2", "b,0,0,1"]))
    # heap cap exactly / one over, order OOM before TooManyAtoms in new_atom, atoms before OOM in concat
    H.append((5, ["a,01020304", "a,01", "a,-", "s,0", "s,1", "c,0", "c,4,0", "b,0,1,3", "ga,%d" % (M - 5), "a,-", "c,0", "b,0,0,0"]))
    H.append((6, ["ga,%d" % (M - 3), "a,0102030405", "a,0102030405aa", "c,0", "a,-", "s,0", "b,0,0,1", "c,5,0"]))
    H.append((100, ["ga,%d" % (M - 2), "ga,1", "a,ffff", "k", "ga,0", "r,0", "a,ffff"]))
    # pair cap
    H.append((100, ["a,ff", "gp,%d" % (gen_alloc.MAX_PAIRS - 2), "p,0,0", "p,1,0", "p,1,1", "gp,1", "gp,0", "rp,1", "p,0,0", "p,0,0"]))
    # checkpoints: full restore resets, transparent keeps; restore to older, reuse of a checkpoint
    H.append((1000, ["a,aabbcc", "k", "a,ddeeff00", "p,0,1", "t", "a,1122334455", "b,0,1,3", "rt,0", "A,0", "a,99", "r,0", "a,7777", "r,0", "A,0"]))
    H.append((1000, ["k", "a,aabb", "t", "a,ccdd", "k", "a,eeff", "r,2", "a,0102", "rt,0", "r,0"]))
    # maybe_restore: below MIN_SAVINGS (aborted), Before, AfterOldBytes, AfterNewBytes <=48 / >48, pair
    big = "a," + "ab" * 1100
    H.append((100000, ["a,aabbccddeeff", "t", "a,0102", "mr,0,1"]))
    H.append((100000, ["a,aabbccddeeff", "t", big, "mr,0,0", "A,1"]))
    H.append((100000, ["a,aabbccddeeff", "t", big, "b,0,1,4", "mr,0,2", "A,1", "V,1"]))
    H.append((100000, ["a,aabbccddeeff", "t", big, "a,deadbeef", "mr,0,2", "A,1", "V,1"]))
    H.append((100000, ["a,aabbccddeeff", "t", big, "a,05", "b,1,0,1", "mr,0,3", "A,1", "V,1"]))
    H.append((100000, ["a,aabbccddeeff", "t", big, "a," + "cd" * 48, "mr,0,2", "A,1", "a," + "cd" * 49, "t", big, "a," + "ef" * 49, "mr,0,4"]))
    H.append((100000, ["a,aabbccddeeff", "t", big, "p,0,1", "mr,0,2", "X,1"]))
    H.append((100000, ["a,aabbccddeeff", "t", big, "c,6,0", "mr,0,2", "b,0,0,0", "t", big, "c,0,2", "mr,0,4"]))
    # maybe_restore keeping a post-checkpoint HEAP atom whose bytes are a canonical small integer
    # (only substr of a heap atom and concat of >= 2 nodes produce such atoms): the clone goes
    # through new_atom, which stores it inline and must credit the ghost counters again
    small_big = "a," + "01" * 1100
    for sub in ("b,1,0,0", "b,1,0,1", "b,1,5,7", "b,1,0,4"):
        H.append((100000, ["a,aabbccddeeff", "t", small_big, sub, "mr,0,2", "A,1", "V,1", "S,1", "N,1", "a,0102", "V,2"]))
    H.append((100000, ["a,aabbccddeeff", "s,1", "s,2", "t", big, "c,2,1,2", "mr,0,4", "A,3", "V,3", "S,3"]))
    H.append((100000, ["a,aabbccddeeff", "a,00", "s,128", "t", big, "c,2,1,2", "mr,0,4", "A,3", "V,3", "S,3", "t", big, "c,0,3,3", "c,4,3,3"]))
    H.append((100000, ["a,aabbccddeeff", "s,3", "t", big, "c,1,1", "c,2,1,3", "b,4,1,2", "mr,0,5", "A,2", "V,2"]))
    # integers at every boundary through all four encoders, read back
    for v in [0, 1, 127, 128, 255, 256, 32767, 32768, (1 << 26) - 1, 1 << 26, (1 << 31) - 1, 1 << 31, (1 << 32) - 1,
              1 << 32, (1 << 63) - 1]:
        H.append((10000, ["u,%d" % v, "i,%d" % v, "n,%d" % v, "m,%d" % v, "i,%d" % (-v), "n,%d" % (-v), "i,%d" % (-v - 1),
                          "N,0", "N,1", "N,2", "N,3", "N,4", "N,6", "S,0", "S,2", "A,0", "A,4", "A,6", "E,0,1", "E,0,2", "E,1,3", "E,4,5", "V,0", "V,2"]))
    H.append((10000, ["u,%d" % ((1 << 64) - 1), "u,%d" % (1 << 63), "i,%d" % (-(1 << 63)), "n,%d" % (1 << 64), "m,%d" % (-(1 << 64)),
                      "N,0", "N,1", "N,2", "N,3", "N,4", "A,0", "A,1", "A,2", "A,3", "A,4"]))
    # atom_eq in all representation pairs; small_number on non-canonical encodings
    H.append((10000, ["a,01", "a,0001", "b,1,1,2", "s,1", "E,0,2", "E,2,0", "E,0,3", "E,2,2", "E,1,2", "E,1,0", "S,0", "S,1", "S,2",
                      "a,00", "S,8", "E,8,0", "a,0080", "s,128", "E,10,11", "E,11,10", "a,80", "E,12,11", "S,12", "a,03ffffff", "a,04000000", "S,15", "S,16"]))
    return [gen_alloc.case_line(fx, lim, toks) for lim, toks in H]


def exhaustive_small(fx, maxlen):
    """every byte string up to maxlen bytes through new_atom + all read APIs (C14: 'exhaustively
    for short byte strings'); 64 atoms per history"""
    out = []
    strings = [b""]
    strings += [bytes([v]) for v in range(256)]
    if maxlen == 1:
        # quick tier: every 1-byte string, and every 2-byte string whose first byte is at a boundary
        strings += [bytes([a, b]) for a in (0, 1, 3, 4, 0x7f, 0x80, 0xfe, 0xff) for b in range(256)]
    for n in range(2, maxlen + 1):
        if n <= 2:
            strings += [v.to_bytes(n, "big") for v in range(256 ** n)]
        else:
            # 3 bytes: all first-byte/second-byte classes x boundary third bytes
            for a in list(range(0, 4)) + [0x7f, 0x80, 0xfe, 0xff]:
                for b in (0, 1, 0x7f, 0x80, 0xff):
                    for c in (0, 1, 0x7f, 0x80, 0xff):
                        strings.append(bytes([a, b, c]))
    for i in range(0, len(strings), 64):
        toks = []
        chunk = strings[i:i + 64]
        for b in chunk:
            toks.append("a," + gen_alloc.hx(b))
        for j in range(len(chunk)):
            toks += ["S,%d" % j, "N,%d" % j, "A,%d" % j, "L,%d" % j, "V,%d" % j]
        out.append(gen_alloc.case_line(fx, 1000000, toks))
    return out


def make_cases(ctx, n, profiles=None, exhaustive=0):
    fx = f2_fixed()
    r = ctx.rng
    cases = directed_histories(fx)
    if exhaustive:
        cases += exhaustive_small(fx, exhaustive)
    for _ in range(n):
        prof = r.choice(profiles or gen_alloc.PROFILES)
        lim, toks = gen_alloc.gen_history(r, prof)
        ctx.histogram("profile", prof)
        for t in toks:
            ctx.histogram("op", t.split(",")[0])
        cases.append(gen_alloc.case_line(fx, lim, toks))
    return fx, cases


def run_all(ctx, cases, want):
    """want: 'counts' | 'caps' | 'contents' — which divergences this property reports."""
    pid = ctx.pid
    ident = lambda s: "none" if s is None else s
    ctx.correspond("alloc", cases, canon=ident, skip=lambda m: m.startswith("skip model-"),
                   nontrivial=lambda c, a, b: b is not None and len(b.split()) >= 3)
    impl = vlib.run_impl("alloc", cases)
    cref = vlib.run_model("alloc", ["ref" + c[3:] for c in cases]) if want == "counts" else [None] * len(cases)
    f2 = vlib.run_model("alloc", ["f2" + c[3:] for c in cases])
    # a line the extracted model gave up on (per-line time limit on a loaded machine) is not evaluated
    cref = [None if (x or "").startswith("skip model-") else x for x in cref]
    unknown_f2 = [(x or "").startswith("skip model-") for x in f2]
    f2 = ["-" if u else x for x, u in zip(f2, unknown_f2)]
    nsteps = 0
    for c, o, flags, cr in zip(cases, impl, f2, cref):
        parts = c.split()
        limit, toks = int(parts[2]), parts[3:]
        steps = [] if o in (None, "-") else o.split(" ")
        ref = gen_alloc.ref_line(limit, toks)
        crs = cr.split(" ") if cr else None
        prev = ("2,0,1", "cbf29ce484222325")
        reported = False
        use_ref = True
        for k, tok in enumerate(toks):
            ctx.evaluations += 1
            nsteps += 1
            s = steps[k] if k < len(steps) else None
            e = ref[k] if k < len(ref) else None
            in_f2 = bool(flags) and flags != "-" and k < len(flags) and flags[k] == "1"
            cls = "F2" if in_f2 else "other"
            rep = {"case": c, "family": "alloc", "impl": o, "step": k, "op": tok, "class": cls,
                   "impl_step": s, "reference_step": e}
            if s is None or s.startswith("crash") or s.startswith("panic"):
                ctx.violation("implementation produced no observation for step %d (%s)" % (k, tok), rep)
                break
            if s == "P":
                # a panic is API misuse the statements do not cover (reading an atom API on a pair,
                # remove_ghost_pair below zero, new_small_number above 2^26-1, heap limit > u32::MAX)
                # (once the run is no longer aligned with the reference accounting - after an F2 step the
                # reference's node list differs - only the Coq arena model, compared by the correspondence
                # above, can say whether this step is misuse)
                if use_ref and e != "P" and not tok.startswith("rp,"):
                    ctx.violation("implementation panicked at step %d (%s); the reference does not" % (k, tok), rep)
                ctx.histogram("result", "panic")
                break
            res, cnt, dg = gen_alloc.norm_step(s).rsplit("/", 2)
            if s[0] == "m" or s.startswith("vu"):
                ctx.histogram("representation", s[:2])
            ctx.histogram("result", res.split(":")[0] if not res.startswith("e:") else res)
            na, np_, nh = (int(x) for x in cnt.split(","))
            # monitors that need no reference -----------------------------------------------
            if want == "counts" and crs is not None and not in_f2 and k < len(crs) and crs[k] != "P":
                # the reference extracted from coq/Model/AllocRef.v (normalised observations)
                if gen_alloc.norm_step(crs[k]).rsplit("/", 2)[1] != cnt and not reported:
                    cr_res = gen_alloc.norm_step(crs[k]).rsplit("/", 2)[0]
                    if not ((res in CAP_ERRS or cr_res in CAP_ERRS) and res != cr_res):
                        reported = True
                        ctx.violation("counts %s differ from the extracted reference AllocRef (%s) after step %d (%s)" % (cnt, crs[k], k, tok), rep)
            if want == "caps" and limit >= 1:      # new_limited(0) starts with heap_size 1 > 0 (degenerate start)
                if na > gen_alloc.MAX_ATOMS or np_ > gen_alloc.MAX_PAIRS or nh > limit:
                    ctx.violation("cap exceeded after step %d (%s): counts %s, heap limit %d" % (k, tok, cnt, limit), rep)
                    break
                if res.startswith("e:") and (cnt, dg) != prev:
                    ctx.violation("failed operation changed the allocator at step %d (%s)" % (k, tok), rep)
                    break
            prev = (cnt, dg)
            if not use_ref:
                continue
            if e is None or e == "P":
                break
            if want == "caps" and in_f2:
                # from here on the heap holds bytes the reference does not count (F2): the exact
                # cap predictions of the reference no longer apply; the monitors above keep running
                use_ref = False
                continue
            eres, ecnt, edg = e.rsplit("/", 2)
            capdiff = (res in CAP_ERRS or eres in CAP_ERRS) and res != eres
            if want == "counts" and cnt != ecnt and not capdiff and not reported:
                reported = True
                ctx.violation("counts %s differ from the reference accounting %s after step %d (%s)" % (cnt, ecnt, k, tok), rep)
            if want == "caps" and capdiff:
                ctx.violation("step %d (%s): implementation %s, reference accounting %s" % (k, tok, res, eres), rep)
            if want == "contents" and not capdiff and (res != eres or dg != edg):
                ctx.violation("step %d (%s): implementation %s [%s], node contents by the reference %s [%s]" % (k, tok, res, dg, eres, edg), rep)
            if res != eres or dg != edg:
                if want == "caps":
                    use_ref = False      # no longer aligned with the reference; monitors continue
                else:
                    break
    ctx.extra_cov["steps"] = nsteps
    return impl


