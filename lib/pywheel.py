"""Python-side harness for the wheel (properties C26, C27, C28).

`build_wheel()` builds the wheel's native module (crate wheel/, a pyo3 cdylib) from the CURRENT
working tree of the repository (vlib.REPO: /repo, or the tree named by VERIF_REPO) with cargo
(offline, incremental) into a target directory under <verif>/.build, and assembles an importable
package directory <verif>/.build/pywheel[-alt…]/clvm_rs = a copy of wheel/python/clvm_rs plus the
built library as clvm_rs/clvm_rs.abi3.so. Nothing is written into the repository.

`run_py(family, lines)` feeds case lines to pyharness/driver.py (python3, that directory first on
sys.path) and returns one observation line per case, sharded over processes like
vlib._run_sharded. The driver catches every Python exception per case and prints it as the
observation `err <ExceptionClass> <message>`.
"""
import hashlib
import os
import shutil
import sys

import vlib

PYHARNESS = os.path.join(vlib.VERIF, "pyharness")


def wheel_dir():
    return os.path.join(vlib.BUILD, "pywheel" + vlib._repo_tag())


def _target_dir():
    # one cargo target directory per repository tree (dependencies are rebuilt once per tree;
    # afterwards every build is incremental)
    return os.path.join(vlib.BUILD, "cargo-wheel" + vlib._repo_tag())


def build_wheel(timeout=3000):
    """(ok, message). Rebuilds on every call; cargo makes it a no-op when nothing changed."""
    repo = os.path.abspath(vlib.REPO)
    manifest = os.path.join(repo, "wheel", "Cargo.toml")
    if not os.path.exists(manifest):
        return False, "no wheel/Cargo.toml under %s" % repo
    tgt = _target_dir()
    if vlib._repo_tag() and not os.path.exists(tgt):
        # seed an alternative tree's target directory from the main one (same dependencies,
        # same profile): saves the ~5 min cold build of blst/pyo3/k256 per mutation
        main = os.path.join(vlib.BUILD, "cargo-wheel")
        if os.path.isdir(main):
            vlib.sh(["cp", "-a", main, tgt], timeout=600)
    rc, out = vlib.sh(["cargo", "build", "--offline", "-q", "-p", "clvm_rs", "--manifest-path", manifest],
                      cwd=os.path.join(repo, "wheel"), timeout=timeout,
                      env={"CARGO_TARGET_DIR": tgt})
    if rc != 0:
        return False, out
    so = os.path.join(tgt, "debug", "libclvm_rs.so")
    if not os.path.exists(so):
        return False, "cargo succeeded but %s is missing\n%s" % (so, out)
    wd = wheel_dir()
    pkg = os.path.join(wd, "clvm_rs")
    src = os.path.join(repo, "wheel", "python", "clvm_rs")
    # replace the package directory only when its content would change (another check may be
    # running on it)
    h = hashlib.sha256()
    h.update(open(so, "rb").read())
    for f in sorted(os.listdir(src)):
        fp = os.path.join(src, f)
        if os.path.isfile(fp):
            h.update(f.encode() + b"\0" + open(fp, "rb").read())
    dig = h.hexdigest()
    stamp = os.path.join(wd, "stamp")
    if os.path.exists(stamp) and open(stamp).read() == dig and os.path.exists(os.path.join(pkg, "clvm_rs.abi3.so")):
        return True, "cached"
    tmp = pkg + ".new"
    if os.path.exists(tmp):
        shutil.rmtree(tmp)
    shutil.copytree(src, tmp, ignore=shutil.ignore_patterns("__pycache__", "*.so"))
    shutil.copy(so, os.path.join(tmp, "clvm_rs.abi3.so"))
    if os.path.exists(pkg):
        shutil.rmtree(pkg)
    os.rename(tmp, pkg)
    open(stamp, "w").write(dig)
    return True, "built"


def run_py(family, lines, timeout=1500, shards=None):
    argv = [sys.executable, "-B", os.path.join(PYHARNESS, "driver.py"), family, wheel_dir()]
    return vlib._run_sharded(argv, lines, timeout, shards)


def build(ctx):
    """build the wheel under the build lock and record a failure as a broken tie"""
    import time
    with vlib.Lock("wheel"):
        t = time.time()
        ok, out = build_wheel()
        vlib.log("[%s] wheel build: %s (%.1fs)" % (ctx.pid, "ok" if ok else "FAILED", time.time() - t))
        if not ok:
            ctx.broken.append(("wheel-build", "wheel", out[-3000:]))
            vlib.log(out[-3000:])
    return ok


def correspond(ctx, fam, cases, canon=vlib.canon_default, name=None, nontrivial=None,
               skip=lambda m: m.startswith("skip")):
    """like Check.correspond, but the implementation side is the wheel under python3.
    Returns (disagreements [(case, model, py)], model observations, python observations)."""
    name = name or fam
    m = vlib.run_model(fam, cases, line_timeout=60)
    i = run_py(fam, cases)
    dis = []
    skipped = 0
    for c, a, b in zip(cases, m, i):
        ctx.evaluations += 1
        if a is not None and (a.startswith("skip model-") or skip(a)):   # model gave up on the line (time limit): not evaluated
            skipped += 1
            continue
        if c not in ctx.distinct:
            ctx.distinct.add(c)
            if nontrivial is None or nontrivial(c, a, b):
                ctx.nontrivial += 1
        if canon(a) != canon(b):
            dis.append((c, a, b))
    ctx.dist.setdefault("families", {})[name + ":wheel"] = {
        "cases": len(cases), "skipped_by_model": skipped, "disagreements": len(dis)}
    ctx.programs += len(cases)
    ctx.disagreements_checked += len(dis)
    if len(ctx.samples) < 12 and cases:
        k = ctx.rng.randrange(len(cases))
        ctx.samples.append({"family": name, "case": cases[k][:300], "model": (m[k] or "")[:300], "impl": (i[k] or "")[:300]})
    return dis, m, i


def record_broken(ctx, name, dis):
    if dis:
        ctx.broken.append(("correspondence", name + ":wheel",
                           "\n".join("%s\n  model: %s\n  wheel: %s" % (d[0][:600], d[1], d[2]) for d in dis[:10])))
