"""Generators for histories of the incremental serializer (C19, family "incr").

A history is a dict
   sent : 'P' | 'H' | 'N'      sentinel = fresh pair / fresh heap atom / no sentinel
   defs : list of node definitions; def i is ('a', bytes) or ('p', l, r) with l, r an earlier index
          or 's' (the sentinel NodePtr). One NodePtr per def (a def used twice = a DAG).
   ops  : list of ('A', i) / ('A', 's') / ('U', k)     k = number of the add call being undone
   kind : name of the generator stream
A node unfolds to a Python tree: bytes | (l, r) | HOLE.  Every random choice comes from `r`.
"""
HOLE = "S"


# ----------------------------------------------------------------------------- the history as text
def line(h, oracle=None):
    defs = []
    for d in h["defs"]:
        if d[0] == "a":
            defs.append("a" + d[1].hex())
        else:
            defs.append("p%s.%s" % (d[1], d[2]))
    ops = ",".join(("A%s" % o[1]) if o[0] == "A" else "U%d" % o[1] for o in h["ops"])
    s = "hist %s %s %s" % (h["sent"], ";".join(defs) or "-", ops)
    if oracle is not None:
        s += " " + ";".join(x or "-" for x in oracle)
    return s


def unfold(h, i, memo=None):
    """node index (or 's') -> tree with holes"""
    if memo is None:
        memo = {}
    if i == "s":
        return HOLE
    if i in memo:
        return memo[i]
    d = h["defs"][i]
    t = d[1] if d[0] == "a" else (unfold(h, d[1], memo), unfold(h, d[2], memo))
    memo[i] = t
    return t


def holes(t):
    n = 0
    st = [t]
    while st:
        v = st.pop()
        if v == HOLE:
            n += 1
        elif isinstance(v, tuple):
            st.append(v[0])
            st.append(v[1])
    return n


def size(t):
    n = 0
    st = [t]
    while st:
        v = st.pop()
        n += 1
        if isinstance(v, tuple):
            st.append(v[0])
            st.append(v[1])
    return n


def fill(t, adds):
    """substitute holes in pre-order; a hole takes the next addition, whose own holes are filled
    before the walk continues. Returns (tree, remaining additions) or None when a hole stays open."""
    if t == HOLE:
        if not adds:
            return None
        return fill(adds[0], adds[1:])
    if isinstance(t, tuple):
        a = fill(t[0], adds)
        if a is None:
            return None
        b = fill(t[1], a[1])
        if b is None:
            return None
        return (a[0], b[0]), b[1]
    return t, adds


def assemble(adds):
    """the tree assembled from the retained additions (None when incomplete or over-complete)"""
    if not adds:
        return None
    x = fill(adds[0], adds[1:])
    if x is None or x[1]:
        return None
    return x[0]


def replay(h):
    """Python account of the history: for every op the list of retained additions (trees with
    holes) and the number of open holes after it; ('U', k) restores the account before add k."""
    memo = {}
    retained, open_ = [], 1
    snaps = []          # per add call: (retained before, open before)
    out = []
    for o in h["ops"]:
        if o[0] == "A":
            t = unfold(h, o[1], memo)
            snaps.append((list(retained), open_))
            retained = retained + [t]
            open_ = open_ - 1 + holes(t)
        else:
            retained, open_ = snaps[o[1]]
            retained = list(retained)
        out.append((list(retained), open_))
    return out


# ----------------------------------------------------------------------------- building blocks
class B:
    """builder of a node table"""

    def __init__(self, r, sent):
        self.r = r
        self.sent = sent
        self.defs = []
        self.nh = []            # holes of the unfolded def
        self.sz = []            # unfolded size
        # atoms: mostly long enough to be referenced (classic length >= 4), a few tiny ones
        k = r.choice([2, 3, 4, 6])
        self.pool = [bytes(r.getrandbits(8) for _ in range(r.choice([3, 4, 5, 6, 10]))) for _ in range(k)]
        self.pool += [b"", bytes([r.randrange(1, 256)])]
        self.atom_ix = {}

    def atom(self, b=None, fresh=False):
        r = self.r
        if b is None:
            b = r.choice(self.pool) if r.random() < 0.85 else bytes(r.getrandbits(8) for _ in range(r.choice([1, 2, 3, 7, 70])))
        if not fresh and b in self.atom_ix and r.random() < 0.5:
            return self.atom_ix[b]
        self.defs.append(("a", b))
        self.nh.append(0)
        self.sz.append(1)
        self.atom_ix[b] = len(self.defs) - 1
        return len(self.defs) - 1

    def pair(self, l, rr):
        self.defs.append(("p", l, rr))
        g = lambda x: (1, 1) if x == "s" else (self.nh[x], self.sz[x])
        self.nh.append(g(l)[0] + g(rr)[0])
        self.sz.append(1 + g(l)[1] + g(rr)[1])
        return len(self.defs) - 1

    def closed(self, maxsize=200):
        return [i for i in range(len(self.defs)) if self.nh[i] == 0 and self.sz[i] <= maxsize]

    def tree(self, n, share=0.3, nsent=0):
        """a node of about n nodes without holes, reusing earlier closed defs with prob. share
        (same NodePtr) — or rebuilding an equal tree under new NodePtrs"""
        r = self.r
        if n <= 1:
            return self.atom()
        c = self.closed(60)
        if c and r.random() < share:
            return r.choice(c)
        k = r.randrange(1, n)
        return self.pair(self.tree(k, share), self.tree(n - 1 - k, share))

    def with_holes(self, n, nholes, share=0.3, dag=False):
        """a node of about n nodes with exactly nholes sentinel leaves at random positions; with
        dag=True a sub-node containing the sentinel may be used twice (each use counts)"""
        r = self.r
        if nholes == 0:
            return self.tree(n, share)
        if n <= 1 and nholes == 1:
            return "s"
        if dag and nholes >= 2 and nholes % 2 == 0 and r.random() < 0.4:
            q = self.with_holes(max(1, n // 2), nholes // 2, share, dag)
            return self.pair(q, q)
        n = max(n, 2 * nholes)
        k = r.randrange(1, n)
        hl = r.randrange(0, nholes + 1)
        hl = min(hl, k)             # a sub-tree of k nodes has at most about k leaves
        hr = nholes - hl
        if hr > n - 1 - k:
            hr = n - 1 - k
            hl = nholes - hr
        return self.pair(self.with_holes(k, hl, share, dag), self.with_holes(max(1, n - 1 - k), hr, share, dag))


def _undo_choice(r, nadds_live, lifo):
    """which of the live add calls to undo (index into the list of live calls)"""
    if lifo or r.random() < 0.5:
        return nadds_live - 1
    return r.randrange(nadds_live)


def history(r, kind=None):
    kind = kind or r.choice(["list", "list", "single", "single", "multi", "dag", "whole", "nosent", "same", "readd"])
    sent = "N" if kind == "nosent" else r.choice(["P", "P", "P", "H"])
    b = B(r, sent)
    ops = []
    live = []               # add-call numbers that are still retained (a stack)
    nadd = 0
    open_ = 1
    opens = {}              # add call -> open holes before it
    share = r.choice([0.0, 0.3, 0.6])
    steps = r.choice([2, 3, 4, 6, 9]) if kind != "nosent" else r.choice([1, 2, 3])
    undo_p = r.choice([0.0, 0.2, 0.35, 0.5])
    lifo = r.random() < 0.4
    same_node = None

    def do_add(node):
        nonlocal nadd, open_
        opens[nadd] = open_
        ops.append(("A", node))
        live.append(nadd)
        nadd += 1
        open_ = open_ - 1 + (1 if node == "s" else b.nh[node])

    def do_undo():
        nonlocal open_
        j = _undo_choice(r, len(live), lifo)
        k = live[j]
        del live[j:]
        open_ = opens[k]
        ops.append(("U", k))
        if r.random() < 0.15:          # the same state restored twice in a row
            ops.append(("U", k))

    for _ in range(steps * 2):
        if live and r.random() < undo_p:
            do_undo()
            if r.random() < 0.3 and live:
                do_undo()              # several undos in a row
            continue
        if open_ == 0:
            if live and r.random() < 0.7:
                do_undo()              # undo after a completed add
                continue
            break
        if len([o for o in ops if o[0] == "A"]) >= steps + 3:
            break
        if kind == "list":
            item = b.tree(r.choice([1, 3, 5, 9, 15]), share)
            node = b.pair(item, "s") if r.random() < 0.9 else b.pair("s", item)
        elif kind == "same":
            # the same NodePtr (item . sentinel) added again and again, as the upstream unit test does
            if same_node is None or r.random() < 0.2:
                same_node = b.pair(b.tree(r.choice([1, 3, 7]), share), "s")
            node = same_node
        elif kind == "single":
            node = b.with_holes(r.choice([1, 2, 4, 8, 14]), 1, share)
        elif kind == "readd":
            # NodePtrs that contain the sentinel are added several times (any sentinel position)
            old = [o[1] for o in ops if o[0] == "A" and o[1] != "s" and b.nh[o[1]] == 1]
            node = r.choice(old) if old and r.random() < 0.6 else b.with_holes(r.choice([2, 4, 8]), 1, share)
        elif kind == "multi":
            node = b.with_holes(r.choice([2, 4, 8, 14]), r.choice([0, 1, 2, 2, 3]), share)
        elif kind == "dag":
            node = b.with_holes(r.choice([4, 8, 14]), r.choice([1, 2, 2, 4]), share, dag=True)
        elif kind == "whole":
            node = "s" if r.random() < 0.3 else b.with_holes(r.choice([1, 3, 6]), r.choice([0, 1, 1, 2]), share)
        else:
            node = b.tree(r.choice([1, 3, 8, 20]), share)
        if node == "s" and sent == "N":
            node = b.atom()
        do_add(node)
    # close what is open (most histories end with a completed serialization)
    if r.random() < 0.9:
        guard = 0
        while open_ > 0 and guard < 12:
            guard += 1
            do_add(b.tree(r.choice([1, 1, 3, 6]), share))
        if open_ == 0 and live and r.random() < 0.25:
            do_undo()
            while open_ > 0 and guard < 16:
                guard += 1
                do_add(b.tree(r.choice([1, 3]), share))
    return {"sent": sent, "defs": b.defs, "ops": ops, "kind": kind}


def max_holes_per_add(h):
    """largest number of sentinel occurrences in one added tree (unfolded)"""
    memo = {}
    m = 0
    for o in h["ops"]:
        if o[0] == "A":
            m = max(m, holes(unfold(h, o[1], memo)))
    return m


def fixed_histories():
    """the four upstream unit-test histories and the hand-made corner cases"""
    out = []
    A = lambda x: ("a", bytes.fromhex(x))
    # test_simple_incremental: the same (item . s) NodePtr ten times, then nil
    defs = [A("01"), A("02"), ("p", 0, 1), A("03"), A("04"), ("p", 3, 4), ("p", 2, 5), ("p", 6, "s"), A("")]
    out.append({"sent": "P", "defs": defs, "ops": [("A", 7)] * 10 + [("A", 8)], "kind": "fixed"})
    # test_restore
    out.append({"sent": "P", "defs": defs + [A("0539")],
                "ops": [("A", 7), ("A", 8), ("U", 1), ("A", 6), ("U", 1), ("A", 9)], "kind": "fixed"})
    # sentinel as the whole tree, repeatedly; then a closed tree
    out.append({"sent": "P", "defs": [A("666f6f626172")], "ops": [("A", "s"), ("A", "s"), ("A", 0)], "kind": "fixed"})
    out.append({"sent": "H", "defs": [A("666f6f626172")], "ops": [("A", "s"), ("U", 0), ("A", "s"), ("A", 0), ("U", 2), ("A", 0)], "kind": "fixed"})
    # no sentinel: one add completes; undo; another
    out.append({"sent": "N", "defs": [A("666f6f626172"), ("p", 0, 0)], "ops": [("A", 1), ("U", 0), ("A", 0), ("U", 1), ("A", 1)], "kind": "fixed"})
    # two sentinels in one added tree: (((s . nil) . s) . X), X, Y
    out.append({"sent": "P", "defs": [A("666f6f626172"), A(""), ("p", "s", 1), ("p", 2, "s"), ("p", 3, 0), A("626172666f6f")],
                "ops": [("A", 4), ("A", 0), ("A", 5)], "kind": "fixed-multi"})
    return out


def misuse_histories():
    """restores of undo states that are no longer live (their add has been undone): outside the
    property, used only to compare the Cursor semantics of model and implementation (the position
    is put beyond the end of the Vec; the next write zero-fills the gap)"""
    A = lambda x: ("a", bytes.fromhex(x))
    defs = [A("666f6f626172"), ("p", 0, "s"), A("626172666f6f"), ("p", 2, "s"), A("")]
    return [
        {"sent": "P", "defs": defs, "ops": [("A", 1), ("A", 3), ("U", 0), ("U", 1), ("A", 4)], "kind": "misuse"},
        {"sent": "P", "defs": defs, "ops": [("A", 1), ("A", 3), ("A", 1), ("U", 0), ("U", 2), ("A", 3), ("A", 4)], "kind": "misuse"},
        {"sent": "H", "defs": defs, "ops": [("A", 1), ("A", 4), ("U", 0), ("U", 1), ("U", 0), ("A", 2)], "kind": "misuse"},
    ]
