#!/usr/bin/env python3
"""Regenerates MANIFEST.json from lib/manifest_data.py (kept valid at all times)."""
import json, os, sys
sys.path.insert(0, os.path.dirname(os.path.abspath(__file__)))
from manifest_data import NOT_APPLICABLE
import importlib
CHECKS = {}
for i in range(1, 33):
    pid = "C%02d" % i
    if os.path.exists(os.path.join(os.path.dirname(os.path.abspath(__file__)), "props", pid.lower() + ".py")):
        mod = importlib.import_module("props." + pid.lower())
        # claimed only when the check's theorem file exists (a check without theorems is not a claim)
        if getattr(mod, "MANIFEST", None) and os.path.exists(os.path.join(os.path.dirname(os.path.dirname(os.path.abspath(__file__))), "coq", "Props", pid + ".v")):
            CHECKS[pid] = mod.MANIFEST
V = os.path.dirname(os.path.dirname(os.path.abspath(__file__)))
ids = [json.loads(l)["id"] for l in open(os.path.join(V, "properties.jsonl"))]
checks = []
for pid in ids:
    if pid in CHECKS:
        c = CHECKS[pid]
        checks.append({
            "property_id": pid,
            "quick_cmd": "./check %s --tier quick" % pid,
            "thorough_cmd": "./check %s --tier thorough" % pid,
            "evidence_file": "/verif/evidence/%s.json" % pid,
            "replay_cmd_template": "./check %s --replay {path}" % pid,
            "engine": "coq-model",
            "level_claimed": {"category": c["level"], "text": c["text"], "design_ref": "DESIGN.md section 6, %s" % pid},
            "level_note": c["note"],
            "technique": c["technique"],
        })
na = [{"property_id": p, "reason": NOT_APPLICABLE[p]} for p in ids if p not in CHECKS]
m = {
    "version": 1,
    "setup_cmd": "./setup.sh",
    "hooks": {"guard": "clvm_rs_verif", "enable": "RUSTFLAGS='--cfg clvm_rs_verif' (set by lib/vlib.py when it builds the harness; no source hook is needed: every entry point used is already pub)",
              "baseline_off_cmd": "cd /repo && cargo test --workspace --no-fail-fast --offline", "source_commits": [], "add_only": True},
    "engines": [{"name": "coq-model", "path": "/verif/coq", "serves_properties": [p for p in ids if p in CHECKS],
                 "kind_free_text": "hand-written Gallina model + theorems (Coq 8.16.1), translator for constants/tables, OCaml-extracted model vs Rust harness correspondence"}],
    "checks": checks,
    "not_applicable": na,
    "notes": "Machine-checked proof in Coq; see DESIGN.md. ./check <id> --tier quick|thorough",
}
json.dump(m, open(os.path.join(V, "MANIFEST.json"), "w"), indent=1)
print("claimed:", len(checks), "not claimed:", len(na))
