"""Helpers shared by the ws-ops checks (C09, C10, C06)."""
import json
import os

import gen
import gen_ops
import vlib


def load_proposed_known(ctx):
    """known-finding entries proposed by this work-stream that the coordinator has not merged into
    known_findings.json yet"""
    p = os.path.join(vlib.VERIF, "notes", "known_findings_proposed_ops.json")
    if not os.path.exists(p):
        return
    have = {k["id"] for k in ctx.known}
    for k in json.load(open(p)).get("findings", []):
        if k.get("property") == ctx.pid and k.get("status") == "known" and k["id"] not in have:
            ctx.known.append(k)


def tree_lens(treestr):
    """argument lengths of an argument-list tree in transport format: list of int | None (pair)"""
    t = gen.from_tt(treestr)
    out = []
    while isinstance(t, tuple):
        a = t[0]
        out.append(None if isinstance(a, tuple) else len(a))
        t = t[1]
    return out


def lens_str(lens):
    return ",".join("p" if l is None else str(l) for l in lens) or "-"


def build_cases(ctx, items, variants=True, extra_flags=None):
    """Base items -> case lines with derived budgets (see gen_ops). `extra_flags(item)` may return
    further flag words under which the same item is run (property-shaped tuples). Heavy items are
    only kept under budgets at which the implementation answers CostExceeded.
    Returns (lines, meta) with meta[line] = (item, flags, budget)."""
    r = ctx.rng
    base = [gen_ops.line(it) for it in items]
    obs0 = vlib.run_impl("ops", base)
    cand = []
    for it, o in zip(items, obs0):
        it["obs0"] = o
    for it in items:
        extra = []
        if "prefix" in it:
            extra = gen_ops.budgets_for(r, it["prefix"].get("obs0"))
        buds = gen_ops.budgets_for(r, it["obs0"], extra)
        if len(buds) > 8:
            keep = set(buds[:0])
            p = gen_ops.parse_obs(it["obs0"])
            must = [b for b in buds if p[0] == "ok" and abs(b - p[1]) <= 1]
            rest = [b for b in buds if b not in must]
            r.shuffle(rest)
            buds = sorted(set(must + rest[:6]))
        flagsets = [it["flags"]] + list(extra_flags(it) if extra_flags else [])
        for f in flagsets:
            for b in [gen_ops.HUGE] + buds:
                cmd = "op"
                if variants and r.random() < 0.3:
                    cmd = r.choice(["opv1", "opv2"])
                cand.append((gen_ops.line(it, b, cmd, f), it, f, b))
    lines = [c[0] for c in cand]
    heavy_idx = [i for i, c in enumerate(cand) if c[1]["heavy"]]
    keep = [True] * len(cand)
    if heavy_idx:
        ho = vlib.run_impl("ops", [lines[i] for i in heavy_idx])
        for i, o in zip(heavy_idx, ho):
            p = gen_ops.parse_obs(o)
            keep[i] = p[0] == "err" and p[1] in ("CostExceeded", "InvalidOpArg")
    out = []
    meta = {}
    for k, c in zip(keep, cand):
        if k and c[0] not in meta:
            out.append(c[0])
            meta[c[0]] = (c[1], c[2], c[3])
    ctx.histogram("items", "heavy" if False else "total")
    return out, meta


def op_histograms(ctx, c, b):
    t = c.split()
    name = t[1] if t[0] == "op" else t[2]
    ctx.histogram("operator", name.split(":")[0])
    p = gen_ops.parse_obs(b)
    ctx.histogram("outcome", p[0] if p[0] != "err" else "err " + p[1])
    ctx.histogram("atom_build", t[0] if t[0] == "op" else "opv" + t[1])
