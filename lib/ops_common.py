"""Helpers shared by the ws-ops checks (C09, C10, C06)."""
import json
import os

import gen
import gen_ops
import vlib


def load_proposed_known(ctx):
    """known-finding entries proposed by this work-stream that the coordinator has not merged into
    known_findings.json yet"""
    p = os.path.join(vlib.VERIF, "notes", "known_findings_proposed_ops.json")
    if not os.path.exists(p):
        return
    have = {k["id"] for k in ctx.known}
    for k in json.load(open(p)).get("findings", []):
        if k.get("property") == ctx.pid and k.get("status") == "known" and k["id"] not in have:
            ctx.known.append(k)


def tree_lens(treestr):
    """argument lengths of an argument-list tree in transport format: list of int | None (pair)"""
    t = gen.from_tt(treestr)
    out = []
    while isinstance(t, tuple):
        a = t[0]
        out.append(None if isinstance(a, tuple) else len(a))
        t = t[1]
    return out


def lens_str(lens):
    return ",".join("p" if l is None else str(l) for l in lens) or "-"
