"""Reasons for the properties that are not claimed (every claimed property carries its own
MANIFEST dict in lib/props/<id>.py; lib/mkmanifest.py assembles MANIFEST.json from both)."""
_pending = "check not built yet (planned, see DESIGN.md section 7); not claimed until its theorem and correspondence exist"
NOT_APPLICABLE = {("C%02d" % i): _pending for i in range(1, 33)}
