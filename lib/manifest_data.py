NOTE_COMMON = ("Trusted: Coq 8.16.1 kernel (+vm_compute), no axioms; the hand-written Gallina model is tied to /repo only by the "
               "correspondence run (OCaml extraction with ExtrOcamlBasic vs the Rust harness on generated inputs) and the translator; "
               "see DESIGN.md section 4.")
CHECKS = {
 "C21": {"level": "proof",
         "text": "All ten statements of the property (round trip on the whole 56-bit range, shortest encoding, exact consumption, injectivity per length, strict = image of the encoder, lenient = two's-complement value, no panic, 0xff rejected) are proved for every value/byte string about the Gallina model of varint.rs; the model is run against the implementation on all 1- and 2-byte inputs and structured/random longer ones.",
         "note": NOTE_COMMON, "technique": "Coq proof (8 size classes, lia with div/mod, finite byte sweeps by vm_compute) + model/implementation differential run"},
}
_pending = "check not built yet in this round (planned, see DESIGN.md section 7); not claimed until its theorem and correspondence exist"
NOT_APPLICABLE = {("C%02d" % i): _pending for i in range(1, 33)}
