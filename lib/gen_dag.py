"""DAG-shared trees for the families intern / s2026 / hashes.

A DAG is a list of nodes, children before parents:
    ("a", bytes, rep)      rep: "a" = through new_atom (small canonical ints become inline),
                                "h" = the same bytes forced onto the heap
    ("p", left_index, right_index)
and a root index. `emit` writes the transport format of harness/src/fam_intern.rs: a node met
again is either referenced ('r<k>;' = the same NodePtr) or, when small, written out again as a
fresh copy (equal content, different NodePtr)."""
import hashlib

from gen import gen_atom, atom_bytes, int_to_bytes, atom_prefix


class Dag:
    def __init__(self, nodes, root):
        self.nodes = nodes
        self.root = root
        n = len(nodes)
        self.size = [1] * n          # expanded (tree) size in nodes
        self.depth = [0] * n
        for i, nd in enumerate(nodes):
            if nd[0] == "p":
                self.size[i] = 1 + self.size[nd[1]] + self.size[nd[2]]
                self.depth[i] = 1 + max(self.depth[nd[1]], self.depth[nd[2]])

    def expanded(self):
        return self.size[self.root]

    # -- canonical ids by hash-consing (independent of every implementation under test)
    def canon(self):
        ids = {}
        cid = [None] * len(self.nodes)
        reach = self.reachable()
        for i, nd in enumerate(self.nodes):
            if not reach[i]:
                continue
            key = ("a", nd[1]) if nd[0] == "a" else ("p", cid[nd[1]], cid[nd[2]])
            if key not in ids:
                ids[key] = len(ids)
            cid[i] = ids[key]
        return ids, cid

    def reachable(self):
        reach = [False] * len(self.nodes)
        reach[self.root] = True
        for i in range(len(self.nodes) - 1, -1, -1):
            if reach[i] and self.nodes[i][0] == "p":
                reach[self.nodes[i][1]] = True
                reach[self.nodes[i][2]] = True
        return reach

    def stats(self):
        ids, cid = self.canon()
        na = sum(1 for k in ids if k[0] == "a")
        return na, len(ids) - na

    def classic_ser(self):
        """classic serialization of the expanded tree (memoised per node)"""
        out = [None] * len(self.nodes)
        reach = self.reachable()
        for i, nd in enumerate(self.nodes):
            if not reach[i]:
                continue
            if nd[0] == "a":
                out[i] = atom_prefix(nd[1]) + nd[1]
            else:
                out[i] = b"\xff" + out[nd[1]] + out[nd[2]]
        return out[self.root]

    def tree_hash(self):
        out = [None] * len(self.nodes)
        reach = self.reachable()
        for i, nd in enumerate(self.nodes):
            if not reach[i]:
                continue
            if nd[0] == "a":
                out[i] = hashlib.sha256(b"\x01" + nd[1]).digest()
            else:
                out[i] = hashlib.sha256(b"\x02" + out[nd[1]] + out[nd[2]]).digest()
        return out[self.root]

    def hashed_bytes(self):
        """bytes fed to sha256 by a hasher that hashes every node of the expanded tree"""
        tot = [0] * len(self.nodes)
        for i, nd in enumerate(self.nodes):
            if nd[0] == "a":
                tot[i] = 1 + len(nd[1])
            else:
                tot[i] = 65 + tot[nd[1]] + tot[nd[2]]
        return tot[self.root]

    def emit(self, r, ref_prob=0.8, copy_max=6):
        """transport string; iterative"""
        out = []
        done = {}           # node index -> completion number of its first definition
        counter = [0]
        # work items: ("visit", i) / ("close", i)
        st = [("visit", self.root)]
        while st:
            op, i = st.pop()
            if op == "close":
                if i not in done:
                    done[i] = counter[0]
                counter[0] += 1
                continue
            nd = self.nodes[i]
            if i in done and (self.size[i] > copy_max or r.random() < ref_prob):
                out.append("r%d;" % done[i])
                continue
            if nd[0] == "a":
                out.append("%s%s;" % (nd[2], nd[1].hex()))
                if i not in done:
                    done[i] = counter[0]
                counter[0] += 1
            else:
                out.append("p")
                st.append(("close", i))
                st.append(("visit", nd[2]))
                st.append(("visit", nd[1]))
        return "".join(out)


SMALL_INTS = [int_to_bytes(v) for v in range(0, 41)] + [int_to_bytes(v) for v in (127, 128, 255, 256, 0x7fff, 0x8000, 0x3ffffff, 0x4000000, -1, -128, -129)]


def atom_pool(r, k):
    """k atom values: small ints, non-canonical forms of them, and the shared generator's atoms"""
    pool = []
    for _ in range(k):
        x = r.random()
        if x < 0.15:
            pool.append(b"")
        elif x < 0.5:
            pool.append(r.choice(SMALL_INTS))
        elif x < 0.6:
            b = r.choice(SMALL_INTS)
            pool.append((b"\x00" if (not b or b[0] < 0x80) else b"\xff") * r.randrange(1, 3) + b)
        else:
            a = atom_bytes(gen_atom(r))
            pool.append(a if len(a) <= 300 else a[:300])
    return pool


def gen_dag(r, n=None, max_expanded=3000, shape=None, pool_size=None):
    """random DAG with about n nodes; rejects (retries smaller) when the expanded tree is too big"""
    if n is None:
        n = r.choice([1, 2, 3, 5, 8, 13, 30, 60, 120])
    shape = shape or r.choice(["rand", "rand", "recent", "list", "llist", "double"])
    while True:
        pool = atom_pool(r, pool_size or r.choice([1, 2, 3, 6, 12]))
        nodes = []
        natoms = max(1, n // r.choice([2, 3, 4]))
        for _ in range(natoms):
            nodes.append(("a", r.choice(pool), r.choice("aah")))
        for k in range(max(0, n - natoms)):
            m = len(nodes)
            if shape == "list":
                l, rt = r.randrange(m), m - 1
            elif shape == "llist":
                l, rt = m - 1, r.randrange(m)
            elif shape == "double":
                l = rt = m - 1
                if r.random() < 0.4:
                    rt = r.randrange(m)
            elif shape == "recent":
                l, rt = max(0, m - 1 - r.randrange(4)), max(0, m - 1 - r.randrange(4))
            else:
                l, rt = r.randrange(m), r.randrange(m)
            nodes.append(("p", l, rt))
        d = Dag(nodes, len(nodes) - 1)
        if d.expanded() <= max_expanded:
            return d
        n = max(1, n * 2 // 3)


def from_tree(t):
    """Dag of a plain Python tree (bytes / tuples / gen.Rep), without sharing; iterative"""
    nodes = []
    st = [("v", t)]
    res = []
    while st:
        op, v = st.pop()
        if op == "c":
            rt = res.pop()
            l = res.pop()
            nodes.append(("p", l, rt))
            res.append(len(nodes) - 1)
        elif isinstance(v, tuple):
            st.append(("c", None))
            st.append(("v", v[1]))
            st.append(("v", v[0]))
        else:
            nodes.append(("a", atom_bytes(v), "a"))
            res.append(len(nodes) - 1)
    return Dag(nodes, res[0])
