#!/usr/bin/env python3
"""Creates a scratch worktree for a property and prints the sub-agent prompt (property text only)."""
import json, os, subprocess, sys
pid = sys.argv[1]
suffix = sys.argv[2] if len(sys.argv) > 2 else ""      # second-round seeds: e.g. "b"
wt = "/tmp/wt_%s%s" % (pid, suffix)
out = "/tmp/seed_%s%s" % (pid, suffix)
p = [json.loads(l) for l in open("/verif/properties.jsonl") if json.loads(l)["id"] == pid][0]
if not os.path.exists(wt):
    subprocess.run(["git", "-C", "/repo", "worktree", "add", "--detach", wt, "HEAD"], check=True, stdout=subprocess.DEVNULL, stderr=subprocess.DEVNULL)
os.makedirs(out, exist_ok=True)
print(f"""You are helping test a verification setup for the Rust project Chia-Network/clvm_rs (the Chia Lisp VM). Your job is to write ONE realistic, subtle code change (a "seeded defect") to the project that BREAKS the semantic property below, while the project still compiles and its existing test suite still passes.

PROPERTY ({pid}): {p['title']}
Statement: {p['statement']}
Quantified over: {p['quantifier']['text']}
Relevant files: {', '.join(p['anchors']['files'])}

WORKSPACE: a scratch git worktree of the repository is at {wt} (work ONLY there; never touch /repo or /verif, and do not read anything under /verif). The sandbox is offline: always run cargo with `--offline` and env CARGO_NET_OFFLINE=true. Use `export CARGO_TARGET_DIR={wt}/target` (you may first `cp -r /repo/target {wt}/target` to reuse compiled dependencies and save build time). The Python wheel (wheel/) can be built with `cargo build --offline -p clvm_rs` and libclvm_rs.so copied to wheel/python/clvm_rs/clvm_rs.abi3.so if you need Python.

REQUIREMENTS for the change:
1. It must compile, and the existing test suite must still pass, unedited: `cd {wt} && cargo test --workspace --no-fail-fast --offline` (run it with and without your change; it takes a few minutes; all tests that pass without the change must pass with it).
2. It must really break the property as stated (not just some internal detail the property does not mention), on the real code.
3. It should need something SPECIFIC to manifest — an unusual input, a boundary value, a multi-step sequence of operations, a particular flag combination, or two cooperating sites that each look fine alone — not something that ordinary use or a casual smoke test would expose at once. Prefer the kind of mistake a maintainer could plausibly make in a refactor or optimisation. Keep it small (a few lines).
4. Provide a demonstration: a small Rust test/program (or Python script if the property is about the wheel) that FAILS (or prints a clear mismatch) with the change and PASSES without it. Verify both yourself.

DELIVERABLES (write them to {out}/):
- patch.diff : `git -C {wt} diff` of your change (source files only, no test edits; must apply with `git apply` to a clean checkout of HEAD)
- demo.rs or demo.py (+ a short demo_README.txt saying exactly how to build/run it, e.g. as a file dropped into {wt}/tests/ or a cargo example) 
- notes.md : what the change is, why it breaks the property, what specific input/sequence it needs to manifest, and the exact commands you ran with their outcomes (test suite with and without the change; demo with and without).
When done, leave the worktree with your change reverted (`git -C {wt} checkout -- .`) and delete {wt}/target to free disk. Reply with a 5-line summary.""")
