#!/usr/bin/env python3
"""tools/mkmeta.py: (re)writes seeded/<id>/meta.json from the table below + the confirm.log next to it."""
import json, os, sys
W = "fresh sub-agent given only the property text and its own scratch worktree of /repo"
M = {
 "C01": ("nilp() compares with the canonical nil node instead of testing for a zero-length atom",
         "an empty substr of a heap atom (zero-length, but not NodePtr::NIL) flowing into i / not / any / all",
         ["C01", "C03"], "C01: missed at first (no generated program fed a computed empty atom into a truth test); after adding producer/consumer compositions (gen_prog.composed_programs): 6 violations. C03: 2 violations (re-encoded atoms), first run"),
 "C03": ("validate_g1/validate_g2 insert the point into the validated cache before validating it and never remove it on failure",
         "strict g1_negate/g2_negate on an invalid point, a first run that fails on it, and a second run on the same bytes in the same allocator",
         ["C03"], "missed at first (histories pre-loaded only valid points); after adding earlier runs of the same program in the same allocator (rep=/rf=): 1 violation"),
 "C05": ("a refactor of op_multiply changes the fast-path arm's LIMITS operand check from > 256 to >= 256",
         "LIMITS without NEW_COST_MODEL, `*` with a non-first operand of exactly 256 bytes: default build rejects, no-fastpath build accepts",
         ["C05"], "missed at first (the deciding flag combination was met with probability 1/4); after running every flag-sensitive program under all four (bit, NEW_COST_MODEL) combinations (runlib.flag_variants): 1 violation"),
 "C06": ("a 'dividend smaller than divisor' fast path in op_mod_malachite returns the input node unchanged",
         "% under MALACHITE with a non-negative, non-canonically encoded dividend smaller than the divisor",
         ["C06"], "48 violations (first run)"),
 "C08": ("ChiaDialect matches the secp opcodes on the 3-byte multiplier prefix only",
         "opcode 13d61fXX / 1c3a8fXX with XX >= 0x40 and a VALID signature triple",
         ["C08"], "first run: only the broken translator/correspondence (no-failing-input-found); after adding opcode neighbours of the extension opcodes with the vectors' valid signatures: 56 violations"),
 "C11": ("binop_reduction skips the operator once the accumulator equals the complement of the identity (right for logand/logior, wrong for logxor) under NEW_COST_MODEL",
         "logxor with >= 3 arguments whose running xor reaches -1 before the last one",
         ["C11", "C10"], "C11: missed at first; after adding n-ary chains through algebraically special running values (gen_prog.algebraic_programs): 14 violations. C10: 1 violation"),
 "C19": ("TreeCache::update looks the node up before checking for the sentinel, so later sentinel placements share one placeholder entry",
         ">= 2 sentinel splits with the same sibling on the same side, then content equal to a later addition",
         ["C19"], "74 violations (first run)"),
 "C23": ("tree_hash_costed charges the 1-byte prefix once per 64-byte block instead of once per atom",
         "atoms above ~33 KB (old model) / ~26 KB (new cost model)",
         ["C23"], "first run: broken closed-form correspondence only (no-failing-input-found: big atoms were rare); after adding directed 20 KB - 1 MB atoms: 27 violations"),
 "C31": ("exit_guard skips restore_checkpoint when the vector lengths are unchanged (ignoring the ghost counters)",
         "a guard body yielding a small atom from a zero-argument operator, or ENABLE_GC + a GC-candidate body",
         ["C31", "C08"], "C31: 1 violation, C08: 1 violation (first run)"),
 "C02b": ("tree_hash_costed checks the budget after pushing and adds ops.len() * cost_per_byte as a lower bound for pending work, counting the cost-free Cons markers",
          "sha256tree over a deep list / left-nested tree of (almost) empty atoms, budget in the window [C, C + depth*cost_per_byte - 320)",
          ["C02"], "missed at first (no deep all-nil trees at tight budgets; C10 and C23 use unlimited budgets); after adding gen_prog.long_work_programs to the budget sweep: 36 violations"),
 "C07b": ("op_multiply under LIMITS re-measures a first operand longer than 256 bytes by its magnitude and rejects only if that still exceeds 256",
          "LIMITS without NEW_COST_MODEL, `*` whose first operand is zero-/sign-padded to more than 256 bytes: Ok under F u {LIMITS} with a cost different from F",
          ["C07"], "missed at first (size-boundary operands were never padded, and the deciding flag pair was met by chance); after padded operands + directed (F, F u {bit}) pairs under both cost models: 14 violations"),
 "C13b": ("maybe_restore_with_node calls the checked new_atom before releasing the ghost counters",
          "ENABLE_GC roll-back whose survivor is a fresh 1-48 byte heap atom, allocator within that size of the heap limit or at the atom cap",
          ["C13", "C04", "C12"], "missed at first by all three; after the gccap history profile (roll-back within the survivor's size of a cap): C13 132 violations. The new histories exposed a latent false alarm of the panic monitor (reference no longer aligned after an F2 step), fixed"),
 "C17b": ("find_paths decides whether a back-reference pays off with a one-byte size prefix for the path atom",
          "a repeated atom/sub-tree of classic length S >= 66 whose earlier copy is 8*(S-2)-8 .. 8*(S-2)-1 steps away",
          ["C17"], "missed at first (no tree had copies ~500 steps apart); after far_trees: 16 violations"),
 "C25b": ("new_concat grows the most recent heap atom in place; the ENABLE_GC roll-back then meets an atom straddling its checkpoint and reports InternalError",
          "ENABLE_GC + concat onto the latest heap allocation that predates an enclosing apply's checkpoint + >= 1 KiB reclaimable",
          ["C25", "C04"], "C04: 30 violations (first run); C25: missed at first, caught after sharing C04's directed GC programs with C25"),
 "C26b": ("run_serialized_chia_program drops NEW_COST_MODEL when LIMITS is set (the core resolves the conflict the other way)",
          "a flag word with both LIMITS and NEW_COST_MODEL",
          ["C26"], "18 violations (first run)"),
 "C32": ("g1_negate/g2_negate validate only in the non-infinity branch",
         "a 48/96-byte atom with top bits 110 and another bit set (malformed infinity)",
         ["C32"], "18 violations (first run)"),
}
for i, (chg, need, checks, res) in M.items():
    d = "/verif/seeded/%s" % i
    if not os.path.exists(d + "/confirm.log"):
        print("no confirm.log for", i); continue
    log = open(d + "/confirm.log").read()
    keys = [l for l in log.splitlines() if "_rc=" in l or l.startswith("suite passed")]
    json.dump({"seed": i, "breaks_property": i[:3], "change": chg, "needs_to_manifest": need, "written_by": W,
               "confirmed": "confirmed by me in a scratch worktree of /repo HEAD (tools/confirm_seed*.sh): " + ", ".join(keys),
               "checks_run": ["VERIF_REPO=<scratch worktree with the patch> ./check %s --tier quick (tools/try_seed.sh)" % c for c in checks],
               "result": res}, open(d + "/meta.json", "w"), indent=1)
    print("wrote", i)
