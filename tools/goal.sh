#!/bin/bash
# goal.sh <file.v> <line>: print the proof state after line <line> (run from /verif/coq)
f=$1; n=$2
tmp=Proofs/_Goal_tmp.v
head -n $n $f > $tmp
echo "Show. Abort All." >> $tmp
coqc -Q . Clvm -w -deprecated-hint-without-locality $tmp 2>&1 | head -${3:-60}
rm -f $tmp Proofs/_Goal_tmp.vo Proofs/_Goal_tmp.glob Proofs/._Goal_tmp.aux Proofs/_Goal_tmp.vok Proofs/_Goal_tmp.vos
