#!/bin/bash
# confirm_seed.sh <id> <seeddir>: confirm in a scratch worktree of /repo HEAD that the seeded change
# (a) applies and compiles, (b) passes the existing test suite, (c) its demo fails with it and passes without.
# Writes /verif/seeded/<id>/{patch.diff,demo.*,notes.md,confirm.log}
set -u
ID=$1; SRC=$2
DST=/verif/seeded/$ID
WT=/tmp/confirm_$ID
mkdir -p $DST
cp $SRC/patch.diff $DST/ 2>/dev/null
cp $SRC/demo.* $SRC/demo_README.txt $SRC/notes.md $DST/ 2>/dev/null
LOG=$DST/confirm.log
: > $LOG
export CARGO_NET_OFFLINE=true CARGO_TARGET_DIR=$WT/target
git -C /repo worktree remove --force $WT >/dev/null 2>&1
git -C /repo worktree add --detach $WT HEAD >>$LOG 2>&1 || exit 2
cd $WT
DEMO=$(ls $DST/demo.rs 2>/dev/null)
if [ -n "$DEMO" ]; then cp $DEMO tests/seed_demo_$ID.rs; fi
echo "== demo WITHOUT the change" >>$LOG
if [ -n "$DEMO" ]; then timeout 3000 cargo test --offline --test seed_demo_$ID >>$LOG.demo0 2>&1; echo "demo_without_rc=$?" >>$LOG; fi
git apply $DST/patch.diff >>$LOG 2>&1; echo "apply_rc=$?" >>$LOG
echo "== demo WITH the change" >>$LOG
if [ -n "$DEMO" ]; then timeout 3000 cargo test --offline --test seed_demo_$ID >>$LOG.demo1 2>&1; echo "demo_with_rc=$?" >>$LOG; fi
rm -f tests/seed_demo_$ID.rs
echo "== test suite WITH the change" >>$LOG
timeout 6000 cargo test --workspace --no-fail-fast --offline >$LOG.suite 2>&1; echo "suite_rc=$?" >>$LOG
grep -E "^test result" $LOG.suite | awk '{p+=$4; f+=$6} END {print "suite passed",p,"failed",f}' >>$LOG
tail -5 $LOG.demo0 >>$LOG 2>/dev/null; tail -8 $LOG.demo1 >>$LOG 2>/dev/null
rm -f $LOG.demo0 $LOG.demo1 $LOG.suite
cd /; git -C /repo worktree remove --force $WT >>$LOG 2>&1
rm -rf $WT
echo done >>$LOG
