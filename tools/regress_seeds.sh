#!/bin/bash
# tools/regress_seeds.sh <lane worktree> <out file> <seed dir names...>: re-try stored seeds against the current
# machinery (quick tier of the seed's own property), one line per seed.
WT=$1; OUT=$2; shift 2
: > $OUT
for s in "$@"; do
  prop=${s:0:3}
  res=$(SEED_WT=$WT bash /verif/tools/try_seed.sh /verif/seeded/$s/patch.diff $prop 2>&1 | grep "rc=" | head -1)
  echo "$s $res" | cut -c1-160 >> $OUT
done
echo DONE >> $OUT
