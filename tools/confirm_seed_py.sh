#!/bin/bash
# confirm_seed_py.sh <id> <seeddir>: like confirm_seed.sh for a seed whose demonstration is a Python
# script against the wheel: builds the wheel from a scratch worktree (lib/pywheel.py, VERIF_REPO) with and
# without the change and runs demo.py against each. The cargo suite is run with the change as well.
set -u
ID=$1; SRC=$2
DST=/verif/seeded/$ID
WT=/tmp/confirm_$ID
mkdir -p $DST
cp $SRC/patch.diff $SRC/demo.py $SRC/demo_README.txt $SRC/notes.md $DST/ 2>/dev/null
LOG=$DST/confirm.log; : > $LOG
git -C /repo worktree remove --force $WT >/dev/null 2>&1
git -C /repo worktree add --detach $WT HEAD >>$LOG 2>&1 || exit 2
runpy() {
  W=$(cd /verif && VERIF_REPO=$WT python3 -c "import sys; sys.path.insert(0,'lib'); import pywheel; ok,m=pywheel.build_wheel(); print(pywheel.wheel_dir() if ok else 'FAIL '+m[-400:])")
  echo "wheel: $W" >>$LOG
  PYTHONPATH=$W timeout 600 python3 $DST/demo.py >$LOG.$1 2>&1; echo "demo_$1_rc=$?" >>$LOG
  tail -6 $LOG.$1 >>$LOG; rm -f $LOG.$1
}
echo "== demo WITHOUT the change" >>$LOG; runpy without
git -C $WT apply $DST/patch.diff >>$LOG 2>&1; echo "apply_rc=$?" >>$LOG
echo "== demo WITH the change" >>$LOG; runpy with
echo "== test suite WITH the change" >>$LOG
(cd $WT && CARGO_NET_OFFLINE=true CARGO_TARGET_DIR=$WT/target timeout 6000 cargo test --workspace --no-fail-fast --offline >$LOG.suite 2>&1; echo "suite_rc=$?" >>$LOG)
grep -E "^test result" $LOG.suite | awk '{p+=$4; f+=$6} END {print "suite passed",p,"failed",f}' >>$LOG
rm -f $LOG.suite
TAG=$(cd /verif && VERIF_REPO=$WT python3 -c "import sys; sys.path.insert(0,'lib'); import vlib; print(vlib._repo_tag())")
rm -rf /verif/.build/pywheel$TAG /verif/.build/cargo-wheel$TAG
cd /; git -C /repo worktree remove --force $WT >>$LOG 2>&1; rm -rf $WT
echo done >>$LOG
