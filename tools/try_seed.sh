#!/bin/bash
# tools/try_seed.sh <patch.diff> <check id>... : apply a seeded change to a scratch worktree of /repo HEAD
# (never to /repo itself) and run the given quick checks against it via VERIF_REPO. Prints one line per check.
set -u
PATCH=$(readlink -f $1); shift
WT=${SEED_WT:-/tmp/mut/w}
mkdir -p /tmp/mut
if [ ! -d $WT ]; then git -C /repo worktree add -q --detach $WT HEAD; fi
git -C $WT checkout -q --detach $(git -C /repo rev-parse HEAD) 2>/dev/null
git -C $WT checkout -q -- . ; git -C $WT clean -qfd -e target
git -C $WT apply $PATCH || { echo "patch does not apply"; exit 2; }
for c in "$@"; do
  out=$(cd /verif && VERIF_REPO=$WT timeout 3000 ./check $c --tier quick 2>&1)
  rc=$?
  nv=$(echo "$out" | grep -c "^VIOLATION")
  first=$(echo "$out" | grep "^VIOLATION" | head -1)
  echo "$c rc=$rc violations_lines=$nv  $first"
  echo "$out" | tail -1
done
git -C $WT checkout -q -- .
