"""helper family: encodings of a tree in the back-reference and 2026 formats, produced by the wheel
(they are inputs for the decoder comparison, not observations)."""
from clvm_rs import clvm_rs as native
from fam_py27 import classic
from pyutil import parse_tree


def run(t):
    tup = parse_tree(t[1], lambda b: b, lambda l, r: (l, r))
    node = native.deser_legacy(classic(tup))
    return "ok %s %s" % (native.ser_backrefs(node).hex(), native.ser_2026(node).hex())
