#!/usr/bin/env python3
"""Driver for the wheel (clvm_rs Python package): mirrors harness/src/main.rs.

usage: driver.py <family> <wheel-dir>      (case lines on stdin, one observation line per case)

Families live in pyharness/fam_<x>.py, each exposing `run(t)` (t = the whitespace-split case
line) and returning the observation string. Every Python exception raised by a case is caught
here and printed as the observation `err <ExceptionClass> <message>` (newlines removed, long
messages cut); the driver itself never crashes on a case.
"""
import importlib
import os
import sys


def canon_exc(e):
    msg = " ".join(str(a) if not isinstance(a, (bytes, bytearray)) else a.hex() for a in e.args) if e.args else ""
    msg = " ".join(msg.split())
    if len(msg) > 200:
        msg = msg[:200] + "..."
    return "err %s %s" % (type(e).__name__, msg)


def main():
    fam, wheel_dir = sys.argv[1], sys.argv[2]
    here = os.path.dirname(os.path.abspath(__file__))
    sys.path.insert(0, here)
    sys.path.insert(0, wheel_dir)
    sys.setrecursionlimit(20000)
    mod = importlib.import_module("fam_" + fam)
    out = sys.stdout
    for line in sys.stdin:
        line = line.strip()
        if not line or line.startswith("#"):
            continue
        t = line.split()
        try:
            r = mod.run(t)
        except BaseException as e:  # noqa: every exception is an observation
            if isinstance(e, (KeyboardInterrupt, SystemExit)):
                raise
            r = canon_exc(e)
        out.write(r + "\n")
    out.flush()


if __name__ == "__main__":
    main()
