"""Helpers shared by the pyharness families; mirrors harness/src/util.rs (transport format,
digests) so that observations of the wheel, the Rust harness and the model are comparable."""


def unhex(s):
    return b"" if s == "-" else bytes.fromhex(s)


def tohex(b):
    b = bytes(b)
    return b.hex() if b else "-"


def fnv64(b):
    h = 0xcbf29ce484222325
    for x in b:
        h ^= x
        h = (h * 0x100000001b3) & 0xFFFFFFFFFFFFFFFF
    return h


def digest(b):
    b = bytes(b)
    if not b:
        return "-"
    if len(b) <= 48:
        return b.hex()
    return "#%d:%016x" % (len(b), fnv64(b))


def parse_tree(s, new_atom, new_pair):
    """transport string -> object built with the given constructors (iterative)."""
    i = 0
    st = []
    while True:
        c = s[i]
        if c == "p":
            st.append(None)
            i += 1
            continue
        j = s.index(";", i)
        body = s[i + 1:j]
        i = j + 1
        if c == "a":
            cur = new_atom(bytes.fromhex(body))
        elif c == "z":
            h, n = body.split("*")
            cur = new_atom(bytes([int(h, 16)]) * int(n))
        else:
            raise ValueError("bad tree char")
        while True:
            if not st:
                return cur
            top = st.pop()
            if top is None:
                st.append(None)
                st.append((cur,))
                break
            st.pop()
            cur = new_pair(top[0], cur)


def show_tree(obj):
    """any object with .atom / .pair -> transport string (iterative; uses only the protocol)"""
    out = []
    st = [obj]
    while st:
        v = st.pop()
        a = v.atom
        if a is None:
            l, r = v.pair
            out.append("p")
            st.append(r)
            st.append(l)
        else:
            out.append("a" + bytes(a).hex() + ";")
    return "".join(out)


def short(s):
    if len(s) <= 200:
        return s
    return "T#%d:%016x" % (len(s), fnv64(s.encode()))


def show_tree_short(obj):
    return short(show_tree(obj))
