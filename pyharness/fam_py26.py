"""family "py26": the wheel's native API (wheel/src/api.rs, lazy_node.rs, adapt_response.rs) in
the observation syntax of harness/src/fam_run26.rs.
   run <prog hex> <env hex> <max_cost> <flag word>
   ser <legacy|backrefs|2026> <tree> [level]
   de <legacy|backrefs|2026|auto> <hex> [max_atom_len strict]
   view <hex>            LazyNode .atom / .pair walk of deser_legacy
   serde <fmt> <hex>     clvm_rs.serde.deserialize/serialize wrappers agree with the direct calls
"""
from clvm_rs import clvm_rs as native
from clvm_rs import serde as pyserde

from pyutil import digest, show_tree_short, unhex
from fam_py27 import classic
from pyutil import parse_tree


def msg(s):
    return str(s).replace(" ", "_")


def run(t):
    op = t[0]
    if op == "run":
        prog, env = unhex(t[1]), unhex(t[2])
        try:
            cost, node = native.run_serialized_chia_program(prog, env, int(t[3]), int(t[4]))
        except ValueError as e:
            if len(e.args) == 1 and isinstance(e.args[0], tuple):
                m, sexp = e.args[0]
                return "err %s %s" % (msg(m), digest(native.ser_legacy(sexp)))
            if len(e.args) == 2:
                return "err %s %s" % (msg(e.args[0]), digest(native.ser_legacy(e.args[1])))
            return "raise %s" % msg(e.args[0] if e.args else "")
        return "ok %d %s" % (cost, digest(native.ser_legacy(node)))
    if op == "ser":
        tup = parse_tree(t[2], lambda b: b, lambda l, r: (l, r))
        node = native.deser_legacy(classic(tup))
        try:
            if t[1] == "legacy":
                b = native.ser_legacy(node)
            elif t[1] == "backrefs":
                b = native.ser_backrefs(node)
            else:
                b = native.ser_2026(node, level=int(t[3])) if len(t) > 3 else native.ser_2026(node)
        except ValueError as e:
            return "err " + msg(e.args[0])
        return "ok " + digest(b)
    if op == "de":
        b = unhex(t[2])
        kw = {}
        if len(t) > 3:
            kw = {"max_atom_len": int(t[3]), "strict": t[4] == "1"}
        f = {"legacy": native.deser_legacy, "backrefs": native.deser_backrefs, "2026": native.deser_2026, "auto": native.deser_auto}[t[1]]
        try:
            node = f(b, **kw) if t[1] in ("2026", "auto") else f(b)
        except ValueError as e:
            return "err " + msg(e.args[0])
        return "ok " + digest(native.ser_legacy(node))
    if op == "view":
        try:
            node = native.deser_legacy(unhex(t[1]))
        except ValueError as e:
            return "err " + msg(e.args[0])
        return "ok " + show_tree_short(node)
    if op == "serde":
        b = unhex(t[2])
        fmt = t[1]
        try:
            a = pyserde.deserialize(b, fmt)
            r1 = "ok " + digest(native.ser_legacy(a))
        except ValueError as e:
            r1 = "err " + msg(e.args[0])
        f = {"legacy": native.deser_legacy, "backrefs": native.deser_backrefs, "2026": native.deser_2026, "auto": native.deser_auto}[fmt]
        try:
            n2 = f(b)
            r2 = "ok " + digest(native.ser_legacy(n2))
        except ValueError as e:
            r2 = "err " + msg(e.args[0])
        if r1 != r2:
            return "MISMATCH wrapper=%s direct=%s" % (r1, r2)
        if r1.startswith("ok"):
            for sf, fn in (("legacy", native.ser_legacy), ("backrefs", native.ser_backrefs), ("2026", native.ser_2026)):
                if pyserde.serialize(a, sf) != fn(a):
                    return "MISMATCH serialize wrapper %s" % sf
        return r1
    raise ValueError("bad py26 case")
