"""family "py28": the wheel's pure-Python helpers (ser.py, de.py, casts.py, curry_and_treehash.py,
program.py). Observations are printed in the syntax of harness/src/fam_classic.rs /
fam_py28.rs and ocaml/fam_py28.ml."""
import io

from clvm_rs import Program
from clvm_rs.casts import int_from_bytes, int_to_bytes
from clvm_rs.ser import sexp_from_stream, sexp_to_bytes, sexp_to_stream
from clvm_rs.tree_hash import sha256_treehash

from pyutil import digest, parse_tree, show_tree, show_tree_short, tohex, unhex


def prog(tt):
    return parse_tree(tt, Program.new_atom, Program.new_pair)


class Plain:
    """a minimal CLVMStorage implementation without any cache attribute"""
    __slots__ = ("atom", "pair")

    def __init__(self, atom, pair):
        self.atom = atom
        self.pair = pair


def plain(tt):
    return parse_tree(tt, lambda b: Plain(b, None), lambda l, r: Plain(None, (l, r)))


def unc_str(mod, args):
    if args is None:
        return "none"
    return "um=%s ua=%d:%s" % (show_tree_short(mod), len(args), ",".join(show_tree_short(a) for a in args))


def run(t):
    op = t[0]
    if op == "ser":
        # sexp_to_bytes and sexp_to_stream on an object without caches and on a Program
        p = plain(t[1])
        b = sexp_to_bytes(p)
        f = io.BytesIO()
        sexp_to_stream(prog(t[1]), f)
        if f.getvalue() != b:
            return "MISMATCH sexp_to_stream %s vs sexp_to_bytes %s" % (digest(f.getvalue()), digest(b))
        return "ok " + digest(b)
    if op == "de":
        b = unhex(t[1])
        f = io.BytesIO(b)
        p = sexp_from_stream(f, Program.new_pair, Program.new_atom)
        return "ok %s %d" % (show_tree_short(p), f.tell())
    if op == "i2b":
        return "ok " + tohex(int_to_bytes(int(t[1])))
    if op == "b2i":
        return "ok %d" % int_from_bytes(unhex(t[1]))
    if op == "curry":
        n = int(t[1])
        mod = prog(t[2])
        args = [prog(x) for x in t[3:3 + n]]
        c = mod.curry(*args)
        th = sha256_treehash(plain(show_tree(c)))      # hash of the curried tree, no caches involved
        ch = mod.curry_hash(*[a.tree_hash() for a in args])
        um, ua = c.uncurry()
        return "ok c=%s th=%s ch=%s %s" % (show_tree_short(c), th.hex(), ch.hex(), unc_str(um, ua))
    if op == "uncurry":
        p = prog(t[1])
        um, ua = p.uncurry()
        return "ok " + unc_str(um, ua)
    if op == "th":
        return "ok " + sha256_treehash(plain(t[1])).hex()
    if op == "crun":
        # crun <max_cost> <k> <mod> <arg>*k <env>: curried run vs module run on the prepended environment
        cost = int(t[1])
        k = int(t[2])
        mod = prog(t[3])
        args = [prog(x) for x in t[4:4 + k]]
        env = prog(t[4 + k])
        full = env
        for a in reversed(args):
            full = Program.new_pair(a, full)
        r1, c1 = outcome2(mod.curry(*args), env, cost)
        r2, c2 = outcome2(mod, full, cost)
        if r1 == r2:
            # dc = cost(curried) - cost(module) when both succeed (C28_curried_run: 155 + 71 k)
            return "ok same " + r1 + (" dc=%d" % (c1 - c2) if c1 is not None and c2 is not None else "")
        return "DIFF curried=%s module=%s" % (r1, r2)
    raise ValueError("bad py28 case")


def outcome2(p, env, cost):
    from clvm_rs import EvalError
    try:
        c, r = p.run_with_cost(env, cost)
        return "val:" + show_tree_short(r), c
    except EvalError as e:
        return "err:" + str(e.args[0]).replace(" ", "_"), None


def outcome(p, env, cost):
    from clvm_rs import EvalError
    try:
        c, r = p.run_with_cost(env, cost)
        return "val:" + show_tree_short(r)
    except EvalError as e:
        return "err:" + str(e.args[0]).replace(" ", "_")
