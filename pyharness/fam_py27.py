"""family "py27": clvm_tree_to_lazy_node on every CLVMStorage implementation the wheel ships and
on test classes (stable children / fresh children per `.pair` call).

conv <kind> <tree>   ->  ok <tree decoded from ser_2026(clvm_tree_to_lazy_node(obj))> [root=<id> trace=<ids>]
kinds: prog (Program.new_atom/new_pair), progto (Program.to of nested tuples), progb
(Program.from_bytes: wraps LazyNode), lazy (LazyNode from deser_legacy), tree (CLVMTree), plain
(test class storing its children), shared (same, equal sub-trees are one object), fresh (test
class whose `.pair` builds new children on every call and records their addresses),
to2026 (Program.to_bytes_2026)."""
from clvm_rs import Program
from clvm_rs.clvm_rs import clvm_tree_to_lazy_node, deser_2026, deser_legacy, ser_2026, ser_legacy
from clvm_rs.clvm_tree import CLVMTree

from pyutil import parse_tree, show_tree_short


class Plain:
    __slots__ = ("atom", "pair")

    def __init__(self, atom, pair):
        self.atom = atom
        self.pair = pair


TRACE = []


class Fresh:
    """`.pair` builds two new objects on every call and keeps no reference to them"""
    __slots__ = ("atom", "_t")

    def __init__(self, t):
        self._t = t
        self.atom = t if isinstance(t, bytes) else None

    @property
    def pair(self):
        if self.atom is not None:
            return None
        l = Fresh(self._t[0])
        r = Fresh(self._t[1])
        TRACE.append(id(l))
        TRACE.append(id(r))
        return (l, r)


def classic(t):
    """nested tuples -> classic serialization (small helper independent of the wheel)"""
    out = bytearray()
    st = [t]
    while st:
        v = st.pop()
        if isinstance(v, tuple):
            out.append(0xFF)
            st.append(v[1])
            st.append(v[0])
        else:
            n = len(v)
            if n == 0:
                out.append(0x80)
            elif n == 1 and v[0] < 0x80:
                out += v
            elif n < 0x40:
                out.append(0x80 | n); out += v
            elif n < 0x2000:
                out += bytes([0xC0 | (n >> 8), n & 0xFF]); out += v
            elif n < 0x100000:
                out += bytes([0xE0 | (n >> 16), (n >> 8) & 0xFF, n & 0xFF]); out += v
            else:
                out += bytes([0xF0 | (n >> 24), (n >> 16) & 0xFF, (n >> 8) & 0xFF, n & 0xFF]); out += v
    return bytes(out)


def build(kind, tt):
    if kind == "prog":
        return parse_tree(tt, Program.new_atom, Program.new_pair)
    tup = parse_tree(tt, lambda b: b, lambda l, r: (l, r))
    if kind == "progto":
        return Program.to(tup)
    if kind == "progb" or kind == "to2026":
        return Program.from_bytes(classic(tup))
    if kind == "lazy":
        return deser_legacy(classic(tup))
    if kind == "tree":
        return CLVMTree.from_bytes(classic(tup))
    if kind == "plain":
        return parse_tree(tt, lambda b: Plain(b, None), lambda l, r: Plain(None, (l, r)))
    if kind == "shared":
        memo = {}

        def atom(b):
            return memo.setdefault(("a", b), Plain(b, None))

        def pair(l, r):
            return memo.setdefault(("p", id(l), id(r)), Plain(None, (l, r)))
        return parse_tree(tt, atom, pair)
    if kind == "fresh":
        return Fresh(tup)
    raise ValueError("bad kind")


def run(t):
    if t[0] == "conv":
        kind = t[1]
        obj = build(kind, t[2])
        del TRACE[:]
        if kind == "to2026":
            blob = obj.to_bytes_2026()
        else:
            blob = ser_2026(clvm_tree_to_lazy_node(obj))
        trace = list(TRACE)
        back = deser_2026(blob, max_atom_len=1 << 30)
        s = "ok " + show_tree_short(back)
        if kind == "fresh":
            s += " root=%d trace=%s" % (id(obj), ",".join(map(str, trace)) or "-")
        return s
    raise ValueError("bad py27 case")
