#!/bin/sh
# MANIFEST.setup_cmd: build the whole framework offline from files on disk.
# Measured from a clean tree on 16 cores: Coq ~1 min, extraction + ocamlopt ~1 min,
# harness (cargo, offline) ~1.5 min.
set -e
cd "$(dirname "$0")"
export CARGO_NET_OFFLINE=true
python3 translator/gen.py /repo coq/Gen
python3 tools/mkproject.py
mkdir -p .build
if (cd coq && coq_makefile -f _CoqProject -o Makefile >/dev/null && timeout 1500 make -j16) >.build/coq-make.log 2>&1; then
  grep -c '^COQC' .build/coq-make.log | sed 's/^/coq files compiled: /' || true
else
  tail -40 .build/coq-make.log
  echo "setup: Coq build failed"
  exit 1
fi
python3 - <<'PY'
import sys
sys.path.insert(0, "lib")
import vlib
ok, out = vlib.build_model()
print("model:", ok, out[-2000:] if not ok else "")
if not ok:
    sys.exit(1)
# all harness variants are built here, concurrently (default: every check; nofast, instr: C05;
# release: C09), so that no quick check pays for a first cargo build
import threading
res = {}
def b(v):
    res[v] = vlib.build_harness(v)
import pywheel
def w():
    res["wheel"] = pywheel.build_wheel()      # the wheel's native module (C26, C27, C28)
ths = [threading.Thread(target=b, args=(v,)) for v in ("default", "nofast", "instr", "release")]
ths.append(threading.Thread(target=w))
for t in ths: t.start()
for t in ths: t.join()
for v, (ok, out) in res.items():
    print("harness", v, ok, out[-2000:] if not ok else "")
    if not ok:
        sys.exit(1)
PY
