#!/bin/sh
# MANIFEST.setup_cmd: build the whole framework offline from files on disk.
set -e
cd "$(dirname "$0")"
export CARGO_NET_OFFLINE=true
python3 translator/gen.py /repo coq/Gen
(cd coq && coq_makefile -f _CoqProject -o Makefile && timeout 7000 make -j16)
python3 - <<'PY'
import sys
sys.path.insert(0, "lib")
import vlib
ok, out = vlib.build_model()
print("model:", ok, out[-2000:] if not ok else "")
for v in ("default", "nofast", "instr", "release"):
    ok, out = vlib.build_harness(v)
    print("harness", v, ok, out[-2000:] if not ok else "")
    if not ok:
        sys.exit(1)
PY
