import clvm_rs
from clvm_rs.clvm_rs import clvm_tree_to_lazy_node, ser_2026, deser_2026, deser_legacy, ser_legacy
from clvm_rs import Program
import random

def to_tuple(n):
    stack=[n]
    # iterative conversion to nested python structure
    def conv(x):
        if x.atom is not None: return bytes(x.atom)
        l,r = x.pair
        return (conv(l), conv(r))
    return conv(n)

def rand_tree(rng, depth):
    if depth==0 or rng.random()<0.25:
        return bytes([rng.randrange(256) for _ in range(rng.randrange(0,4))])
    return (rand_tree(rng, depth-1), rand_tree(rng, depth-1))

def ser(t):
    # classic serialization, small atoms only
    if isinstance(t, bytes):
        if len(t)==0: return b'\x80'
        if len(t)==1 and t[0]<0x80: return t
        return bytes([0x80|len(t)])+t
    return b'\xff'+ser(t[0])+ser(t[1])

bad=0
for seed in range(300):
    rng=random.Random(seed)
    t=rand_tree(rng,6)
    blob=ser(t)
    ln=deser_legacy(blob)       # LazyNode: .pair builds fresh children each call
    out=clvm_tree_to_lazy_node(ln)
    back=ser_legacy(out)
    if back!=blob:
        bad+=1
        if bad<=3: print("MISMATCH seed",seed, blob.hex(), back.hex())
print("lazy-node inputs: mismatches", bad, "of 300")
bad=0
for seed in range(300):
    rng=random.Random(seed)
    t=rand_tree(rng,6)
    blob=ser(t)
    p=Program.from_bytes(blob)
    out=clvm_tree_to_lazy_node(p)
    back=ser_legacy(out)
    if back!=blob:
        bad+=1
        if bad<=3: print("MISMATCH(Program) seed",seed, blob.hex(), back.hex())
print("Program inputs: mismatches", bad, "of 300")
