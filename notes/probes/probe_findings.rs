// Replays for findings F1, F2 and F6 of DESIGN.md §5 (run as the `main` of a scratch crate).
use clvmr::allocator::Allocator;
use clvmr::chia_dialect::{ChiaDialect, ClvmFlags};
use clvmr::more_ops::op_unknown;
use clvmr::run_program::run_program;
use clvmr::serde::{node_to_bytes_backrefs_limit, node_to_bytes_limit};

fn main() {
    // F2 (C12/C13): substr of an inline small atom materialises bytes with no limit check
    let mut a = Allocator::new_limited(20);
    let s = a.new_small_number(0x80).unwrap(); // bytes 00 80, accounted as 2 ghost heap bytes
    let _big = a.new_atom(&[0xaa; 17]).unwrap(); // heap_size() == 20 == limit
    let sub = a.new_substr(s, 0, 1); // [00] is not a canonical small int -> pushed on the heap
    println!(
        "F2: substr ok={} heap_size={} limit=20 (expected: unchanged 20, never > limit)",
        sub.is_ok(),
        a.heap_size()
    );

    // F1 (C29): limit crossed at a cons marker or a length prefix -> "bad encoding", not OOM
    let mut a = Allocator::new();
    let x = a.new_atom(&[0xaa; 100]).unwrap();
    let y = a.new_atom(&[1, 2, 3]).unwrap();
    let p = a.new_pair(y, x).unwrap(); // ff 83 010203 c064 aa*100  (107 bytes)
    for l in [0usize, 1, 2, 5, 6, 7, 106, 107] {
        println!(
            "F1: limit {l}: classic {:?} backrefs {:?}",
            node_to_bytes_limit(&a, p, l).map(|v| v.len()),
            node_to_bytes_backrefs_limit(&a, p, l).map(|v| v.len())
        );
    }

    // F6 (C09): pre-hard-fork cost model, base * (multiplier+1) = 2^64 + 2375088102 wraps
    for flags in [ClvmFlags::empty(), ClvmFlags::NEW_COST_MODEL] {
        let mut a = Allocator::new();
        let big = a.new_atom(&vec![0x55u8; 1 << 20]).unwrap();
        let nil = a.nil();
        let args = a.new_pair(big, nil).unwrap();
        let args = a.new_pair(big, args).unwrap();
        // multiplier 0x7fd01105, cost function 2 (multiply-like)
        let op = a.new_atom(&[0x7f, 0xd0, 0x11, 0x05, 0x80]).unwrap();
        let r = op_unknown(&mut a, op, args, 11_000_000_000, flags);
        println!("F6: {flags:?}: op_unknown -> {:?}", r.map(|x| x.0));
        let q = a.one();
        let qb = a.new_pair(q, big).unwrap();
        let l = a.new_pair(qb, nil).unwrap();
        let l = a.new_pair(qb, l).unwrap();
        let prg = a.new_pair(op, l).unwrap();
        let d = ChiaDialect::new(flags);
        let r = run_program(&mut a, &d, prg, nil, 11_000_000_000);
        println!("F6: {flags:?}: run_program -> {:?}", r.map(|x| x.0));
    }
}
