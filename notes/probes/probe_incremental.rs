// Random add/undo histories of serde::Serializer; checks undo bytes and final decode.
use clvm_fuzzing::node_eq;
use clvmr::allocator::{Allocator, NodePtr};
use clvmr::serde::{node_from_bytes_backrefs, node_to_bytes_limit, Serializer, UndoState};
use rand::{Rng, SeedableRng};
use rand_chacha::ChaCha8Rng;

fn rand_tree(a: &mut Allocator, rng: &mut ChaCha8Rng, pool: &mut Vec<NodePtr>, depth: u32) -> NodePtr {
    if !pool.is_empty() && rng.random_ratio(1, 3) { return pool[rng.random_range(0..pool.len())]; }
    let n = if depth == 0 || rng.random_ratio(1, 3) {
        let len = [0usize, 1, 6, 6, 6, 10][rng.random_range(0..6)];
        let v: Vec<u8> = (0..len).map(|_| rng.random_range(0..3u8)).collect();
        a.new_atom(&v).unwrap()
    } else {
        let l = rand_tree(a, rng, pool, depth - 1);
        let r = rand_tree(a, rng, pool, depth - 1);
        a.new_pair(l, r).unwrap()
    };
    pool.push(n);
    n
}

fn main() {
    let n: u64 = std::env::args().nth(1).unwrap().parse().unwrap();
    let (mut bad, mut undo_bad) = (0, 0);
    for seed in 0..n {
        let mut rng = ChaCha8Rng::seed_from_u64(seed);
        let mut a = Allocator::new();
        let sentinel = a.new_pair(NodePtr::NIL, NodePtr::NIL).unwrap();
        let mut pool = Vec::new();
        let mut ser = Serializer::new(Some(sentinel));
        let mut retained: Vec<NodePtr> = Vec::new();
        let mut undo_stack: Vec<(UndoState, usize, Vec<u8>)> = Vec::new();
        for _ in 0..rng.random_range(2..10) {
            if !undo_stack.is_empty() && rng.random_ratio(1, 3) {
                let k = rng.random_range(0..undo_stack.len());
                let (st, nret, bytes_before) = undo_stack[k].clone();
                undo_stack.truncate(k);
                ser.restore(st);
                retained.truncate(nret);
                if ser.get_ref() != &bytes_before { undo_bad += 1; println!("UNDO BYTES MISMATCH seed={seed}"); }
                continue;
            }
            let item = rand_tree(&mut a, &mut rng, &mut pool, 4);
            let node = a.new_pair(item, sentinel).unwrap();
            let before = ser.get_ref().clone();
            let (done, st) = ser.add(&a, node).unwrap();
            assert!(!done);
            undo_stack.push((st, retained.len(), before));
            retained.push(item);
        }
        let (done, _) = ser.add(&a, NodePtr::NIL).unwrap();
        assert!(done);
        let out = ser.into_inner();
        let mut expect = NodePtr::NIL;
        for it in retained.iter().rev() { expect = a.new_pair(*it, expect).unwrap(); }
        match node_from_bytes_backrefs(&mut a, &out) {
            Ok(r) => if !node_eq(&a, r, expect) { bad += 1; println!("TREE MISMATCH seed={seed} out={} expect={}", hex::encode(&out), hex::encode(node_to_bytes_limit(&a, expect, 1 << 20).unwrap())); },
            Err(e) => { bad += 1; println!("DECODE ERR seed={seed} {e} out={}", hex::encode(&out)); }
        }
    }
    println!("histories={n} bad={bad} undo_bytes_bad={undo_bad}");
}
