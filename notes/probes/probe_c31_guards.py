from clvm_rs import Program
from clvm_rs.clvm_rs import run_serialized_chia_program
LIMIT_SOFTFORK=0x10; NEW=0x2000; NO_UNKNOWN=0x2; GC=0x20
def run(p, env=0, flags=0, budget=11_000_000_000):
    try:
        c, r = run_serialized_chia_program(bytes(p), bytes(Program.to(env)), budget, flags)
        return ("ok", c, bytes(Program.wrap(r)).hex())
    except ValueError as e:
        return ("err", e.args[0][0] if isinstance(e.args[0], tuple) else str(e))
def guard(inner, declared, ext=0):
    return Program.to([36, (1, declared), (1, ext), (1, inner), (1, 0)])
for flags in (0, NEW, GC):
    gc = 500 if flags & NEW else 140
    inner = Program.to([16, (1, 5), (1, 7)])          # (+ 5 7)
    r = run(inner, flags=flags); cP = r[1]
    print("flags", hex(flags), "inner", r)
    for d in (gc + cP - 1, gc + cP, gc + cP + 1):
        print("  declared", d, run(guard(inner, d), flags=flags))
    # nesting with LIMIT_SOFTFORK
    for depth in (19, 20, 21, 22):
        p = Program.to((1, 1))   # (q . 1)
        for k in range(depth):
            c = run(p, flags=flags)[1]
            p = guard(p, gc + c)
        print("  depth", depth, "no-limit:", run(p, flags=flags)[:2], "LIMIT_SOFTFORK:", run(p, flags=flags | LIMIT_SOFTFORK)[:2])
# exempt guard: declared cost ignored under NEW for ext 0/1, but must be <= budget and non-zero
inner = Program.to([16, (1, 5), (1, 7)])
for d in (1, 50, 10**6):
    print("exempt declared", d, run(guard(inner, d), flags=NEW), " budget=small:", run(guard(inner, d), flags=NEW, budget=2000))
print("old model wrong declared:", run(guard(inner, 50), flags=0))
