"""Candidate finding (ws-py, not part of any check): sexp_to_bytes / bytes(Program) of a tree that
was parsed by CLVMTree.from_bytes / Program.from_bytes_with_cursor from a NON-canonical classic
encoding returns the original (non-canonical) bytes, because CLVMTree._cached_serialization hands
out the blob slice and sexp_to_byte_iterator prefers `_cached_serialization` over re-encoding.
Rust node_to_bytes of the same tree gives the canonical bytes.

run: PYTHONPATH=<verif>/.build/pywheel python3 notes/probes/probe_c28_cached_serialization.py
"""
from clvm_rs import Program
from clvm_rs.clvm_tree import CLVMTree
from clvm_rs.clvm_rs import deser_legacy, ser_legacy
from clvm_rs.ser import sexp_to_bytes

for h in ("c00161", "ffc0016180", "e0000161", "ff01c00102"):
    blob = bytes.fromhex(h)
    tree = CLVMTree.from_bytes(blob)
    p, cursor = Program.from_bytes_with_cursor(blob, 0)
    rust = ser_legacy(deser_legacy(blob))
    print(h, "sexp_to_bytes(CLVMTree)=", sexp_to_bytes(tree).hex(), "bytes(Program)=", bytes(p).hex(),
          "rust node_to_bytes=", rust.hex(), "tree_hash equal:", p.tree_hash() == Program.from_bytes(rust).tree_hash())
