// Metamorphic probes over generated programs (clvm-fuzzing generators + ChaCha seeds).
// usage: probe_interp <gc|budget|hide|cm|flags|br> <count> [seed]
use arbitrary::Unstructured;
use clvm_fuzzing::{make_clvm_program, make_tree_limits, node_eq};
use clvmr::allocator::{Allocator, NodePtr};
use clvmr::chia_dialect::{ChiaDialect, ClvmFlags, MEMPOOL_MODE};
use clvmr::cost::Cost;
use clvmr::dialect::{Dialect, OperatorSet};
use clvmr::reduction::{Reduction, Response};
use clvmr::run_program::run_program;
use clvmr::serde::{node_from_bytes_backrefs, node_from_bytes_backrefs_old, node_to_bytes_limit, serialized_length_from_bytes};
use rand::{Rng, RngCore, SeedableRng};
use rand_chacha::ChaCha8Rng;

const MAX_COST: Cost = 11_000_000_000;

#[derive(Debug, PartialEq, Clone)]
struct Outcome { res: Result<(u64, Vec<u8>), String>, atoms: usize, pairs: usize, heap: usize }

fn ser(a: &Allocator, n: NodePtr) -> Vec<u8> { node_to_bytes_limit(a, n, 1 << 30).unwrap() }

fn build(data: &[u8]) -> Option<(Allocator, NodePtr, NodePtr)> {
    let mut u = Unstructured::new(data);
    let mut a = Allocator::new();
    let (args, _) = make_tree_limits(&mut a, &mut u, 100, true).ok()?;
    let prg = make_clvm_program(&mut a, &mut u, args, 2000).ok()?;
    Some((a, prg, args))
}

fn run_with<D: Dialect>(data: &[u8], d: &D, budget: Cost) -> Option<Outcome> {
    let (mut a, prg, args) = build(data)?;
    let r = run_program(&mut a, d, prg, args, budget);
    Some(outcome(&a, r))
}
fn outcome(a: &Allocator, r: Response) -> Outcome {
    let res = match r { Ok(Reduction(c, n)) => Ok((c, ser(a, n))), Err(e) => Err(e.to_string()) };
    Outcome { res, atoms: a.atom_count(), pairs: a.pair_count(), heap: a.heap_size() }
}

/// ChiaDialect that does not know any softfork extension nor the 4-byte secp opcodes
struct Hide(ChiaDialect);
impl Dialect for Hide {
    fn quote_kw(&self) -> u32 { 1 }
    fn apply_kw(&self) -> u32 { 2 }
    fn softfork_kw(&self) -> u32 { 36 }
    fn softfork_extension(&self, _e: u32) -> OperatorSet { OperatorSet::Default }
    fn flags(&self) -> ClvmFlags { self.0.flags() }
    fn gc_candidate(&self, a: &Allocator, op: NodePtr) -> bool { self.0.gc_candidate(a, op) }
    fn allow_unknown_ops(&self) -> bool { self.0.allow_unknown_ops() }
    fn op(&self, a: &mut Allocator, o: NodePtr, args: NodePtr, mc: Cost, ext: OperatorSet) -> Response {
        if a.atom_len(o) == 4 { return clvmr::more_ops::op_unknown(a, o, args, mc, self.0.flags()); }
        self.0.op(a, o, args, mc, ext)
    }
}

fn flagsets(rng: &mut ChaCha8Rng) -> ClvmFlags {
    let all = [ClvmFlags::CANONICAL_INTS, ClvmFlags::NO_UNKNOWN_OPS, ClvmFlags::RELAXED_BLS, ClvmFlags::LIMIT_SOFTFORK,
        ClvmFlags::ENABLE_GC, ClvmFlags::LIMITS, ClvmFlags::ENABLE_KECCAK_OPS_OUTSIDE_GUARD, ClvmFlags::DISABLE_OP,
        ClvmFlags::ENABLE_SHA256_TREE, ClvmFlags::ENABLE_SECP_OPS, ClvmFlags::MALACHITE, ClvmFlags::NEW_COST_MODEL];
    let mut f = ClvmFlags::empty();
    for x in all { if rng.random_ratio(1, 4) { f |= x; } }
    f
}

fn main() {
    let args: Vec<String> = std::env::args().collect();
    let mode = args[1].as_str();
    let n: u64 = args[2].parse().unwrap();
    let mut rng = ChaCha8Rng::seed_from_u64(args.get(3).map(|s| s.parse().unwrap()).unwrap_or(1));
    let mut stats = [0u64; 8];
    for i in 0..n {
        let len = rng.random_range(16..3000);
        let mut data = vec![0u8; len];
        rng.fill_bytes(&mut data);
        let f = flagsets(&mut rng);
        match mode {
            "gc" => {
                let f0 = f - ClvmFlags::ENABLE_GC;
                let Some(o0) = run_with(&data, &ChiaDialect::new(f0), MAX_COST) else { continue };
                let o1 = run_with(&data, &ChiaDialect::new(f0 | ClvmFlags::ENABLE_GC), MAX_COST).unwrap();
                stats[o0.res.is_ok() as usize] += 1;
                if o0 != o1 { println!("GC MISMATCH i={i} flags={f0:?}\n {o0:?}\n {o1:?}\n data={}", hex::encode(&data)); stats[7] += 1; }
            }
            "budget" => {
                let d = ChiaDialect::new(f);
                let Some(o0) = run_with(&data, &d, 0) else { continue };
                if let Ok((c, ref v)) = o0.res {
                    stats[1] += 1;
                    for b in [c, c + 1, c.saturating_mul(2), c - 1, c / 2, 1, c.saturating_sub(rng.random_range(1..=c.min(5000)))] {
                        if b == 0 { continue; }
                        let o = run_with(&data, &d, b).unwrap();
                        let good = if b >= c { o.res == Ok((c, v.clone())) } else { o.res == Err("cost exceeded or below zero".to_string()) };
                        if !good { println!("BUDGET MISMATCH i={i} flags={f:?} C={c} b={b} data={}", hex::encode(&data)); stats[7] += 1; }
                    }
                } else { stats[0] += 1; }
            }
            "hide" => {
                let f0 = f - ClvmFlags::NEW_COST_MODEL - ClvmFlags::NO_UNKNOWN_OPS - ClvmFlags::CANONICAL_INTS - ClvmFlags::LIMIT_SOFTFORK - ClvmFlags::DISABLE_OP - ClvmFlags::LIMITS;
                let Some(o0) = run_with(&data, &ChiaDialect::new(f0), MAX_COST) else { continue };
                let o1 = run_with(&data, &Hide(ChiaDialect::new(f0)), MAX_COST).unwrap();
                stats[o0.res.is_ok() as usize] += 1;
                if o0.res.is_ok() && o0 != o1 { println!("HIDE MISMATCH i={i} flags={f0:?}\n {o0:?}\n {o1:?}\n data={}", hex::encode(&data)); stats[7] += 1; }
            }
            "cm" => {
                let f0 = f - ClvmFlags::NEW_COST_MODEL;
                let Some(o0) = run_with(&data, &ChiaDialect::new(f0), MAX_COST) else { continue };
                let o1 = run_with(&data, &ChiaDialect::new(f0 | ClvmFlags::NEW_COST_MODEL), MAX_COST).unwrap();
                if let (Ok(a), Ok(b)) = (&o0.res, &o1.res) { stats[1] += 1; if a.1 != b.1 { println!("CM MISMATCH i={i} flags={f0:?} data={}", hex::encode(&data)); stats[7] += 1; } } else { stats[0] += 1; }
            }
            "flags" => {
                let restr = [ClvmFlags::NO_UNKNOWN_OPS, ClvmFlags::CANONICAL_INTS, ClvmFlags::DISABLE_OP, ClvmFlags::LIMIT_SOFTFORK, ClvmFlags::LIMITS, ClvmFlags::LIMIT_HEAP, MEMPOOL_MODE];
                let mut add = ClvmFlags::empty();
                for x in restr { if rng.random_ratio(1, 3) { add |= x; } }
                let Some(o0) = run_with(&data, &ChiaDialect::new(f), MAX_COST) else { continue };
                let o1 = run_with(&data, &ChiaDialect::new(f | add), MAX_COST).unwrap();
                stats[o1.res.is_ok() as usize] += 1;
                if o1.res.is_ok() && o1.res != o0.res { println!("FLAGS MISMATCH i={i} F={f:?} add={add:?} data={}", hex::encode(&data)); stats[7] += 1; }
                let o2 = run_with(&data, &ChiaDialect::new(f | ClvmFlags::RELAXED_BLS), MAX_COST).unwrap();
                if o0.res.is_ok() && o0.res != o2.res { println!("RELAXED MISMATCH i={i} F={f:?} data={}", hex::encode(&data)); stats[7] += 1; }
            }
            "br" => {
                let mut b = data.clone(); b.truncate(rng.random_range(1..60));
                for x in b.iter_mut() { let r: u8 = rng.random(); if r < 70 { *x = 0xff } else if r < 110 { *x = 0xfe } else if r < 170 { *x = rng.random_range(0..8) } else if r < 200 { *x = 0x80 | rng.random_range(0..4) } }
                let mut a = Allocator::new();
                let r1 = node_from_bytes_backrefs(&mut a, &b);
                let pc = a.pair_count();
                let r2 = node_from_bytes_backrefs_old(&mut a, &b);
                let pc2 = a.pair_count();
                let l = serialized_length_from_bytes(&b);
                let okk = match (&r1, &r2) { (Ok(x), Ok(y)) => node_eq(&a, *x, *y), (Err(_), Err(_)) => true, _ => false };
                stats[r1.is_ok() as usize] += 1;
                if !okk || pc * 2 != pc2 || l.is_ok() != r1.is_ok() { println!("BR MISMATCH {} pc={pc} pc2={pc2} len={:?}", hex::encode(&b), l); stats[7] += 1; }
            }
            _ => panic!("mode"),
        }
    }
    println!("mode={mode} n={n} stats={stats:?}");
}
