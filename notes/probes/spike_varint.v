From Coq Require Import List ZArith Lia Bool.
Import ListNotations.
Open Scope Z_scope.
Ltac Zify.zify_post_hook ::= Z.div_mod_to_equations.

(* model of write_varint / read_varint for size class k (k extra bytes), bytes as Z in [0,256) *)
Fixpoint be (n : nat) (v : Z) : list Z := match n with O => [] | S k => be k (v / 256) ++ [v mod 256] end.
Fixpoint unbe (bs : list Z) (acc : Z) : Z := match bs with [] => acc | b :: r => unbe r (acc * 256 + b) end.
Definition vbits (k : Z) := 7 + 7 * k.
Definition fits (k v : Z) := - 2 ^ (vbits k - 1) <= v < 2 ^ (vbits k - 1).
Definition prefix (k : Z) := 256 - 2 ^ (8 - k).          (* k leading ones *)
Definition enc (k : nat) (v : Z) : list Z :=
  let kz := Z.of_nat k in
  let u := if v <? 0 then v + 2 ^ vbits kz else v in
  (prefix kz + u / 2 ^ (8 * kz)) :: be k (u mod 2 ^ (8 * kz)).
Definition dec (k : nat) (bs : list Z) : Z :=
  let kz := Z.of_nat k in
  match bs with [] => 0 | b0 :: r =>
    let u := unbe r (b0 mod 2 ^ (7 - kz)) in
    if u >=? 2 ^ (vbits kz - 1) then u - 2 ^ vbits kz else u end.

Lemma unbe_be : forall n v acc, 0 <= v < 256 ^ Z.of_nat n -> unbe (be n v) acc = acc * 256 ^ Z.of_nat n + v.
Proof.
  induction n as [|n IH]; intros v acc Hv.
  - cbn in *. lia.
  - cbn [be]. assert (Hn : 256 ^ Z.of_nat (S n) = 256 * 256 ^ Z.of_nat n) by (rewrite Nat2Z.inj_succ, Z.pow_succ_r; lia).
    rewrite Hn in *.
    assert (forall l x a, unbe (l ++ [x]) a = unbe l a * 256 + x) as Happ.
    { induction l as [|y l IHl]; intros; cbn; [lia| apply IHl]. }
    rewrite Happ, IH by (pose proof (Z.pow_pos_nonneg 256 (Z.of_nat n)); nia).
    pose proof (Z.pow_pos_nonneg 256 (Z.of_nat n)). nia.
Qed.

(* one concrete class as feasibility test: k = 3 (28-bit values) *)
Lemma roundtrip3 : forall v, fits 3 v -> dec 3 (enc 3 v) = v.
Proof.
  intros v Hv. unfold fits, vbits in Hv. unfold enc, dec, vbits, prefix.
  change (Z.of_nat 3) with 3. 
  set (u := if v <? 0 then v + 2 ^ (7 + 7 * 3) else v).
  assert (Hu : 0 <= u < 2 ^ 28) by (subst u; destruct (v <? 0) eqn:E; lia).
  change (8 * 3) with 24. change (7 - 3) with 4. change (8-3) with 5.
  rewrite unbe_be by (change (256 ^ Z.of_nat 3) with (2^24); lia).
  change (256 ^ Z.of_nat 3) with (2 ^ 24).
  assert ((256 - 2 ^ 5 + u / 2 ^ 24) mod 2 ^ 4 = u / 2 ^ 24) as -> by lia.
  assert (u / 2 ^ 24 * 2 ^ 24 + u mod 2 ^ 24 = u) as -> by lia.
  subst u. destruct (v <? 0) eqn:E; destruct (_ >=? _) eqn:E2; lia.
Qed.
Print Assumptions roundtrip3.
