(* Spike: one machine, two stores. Only core ops (q, a, c, f, r, i, +) to test the shape. *)
From Coq Require Import List NArith ZArith Lia Bool.
Import ListNotations.
Open Scope N_scope.

Definition bytes := list N.
Inductive sexp := Atom (b : bytes) | Cons (l r : sexp).

Inductive err := CostExceeded | PathIntoAtom | BadArgs | InvalidNil | TooManyPairs | TooManyAtoms | OutOfMemory
               | Internal (site : N) | Panic (site : N) | OutOfFuel.
Definition res (A : Type) := sum A err.
Definition ret {A} (a : A) : res A := inl a.
Definition bind {A B} (x : res A) (f : A -> res B) : res B := match x with inl a => f a | inr e => inr e end.
Notation "'do' x <- m ; k" := (bind m (fun x => k)) (at level 200, x name, k at level 200, right associativity).
Notation "'do' ' p <- m ; k" := (bind m (fun x => match x with p => k end)) (at level 200, p pattern, k at level 200, right associativity).

(* ---- store interface: what run_program and the operators use of Allocator ---- *)
Record Store := {
  st : Type; node : Type;
  nil_n : node; one_n : node;
  view : st -> node -> option (bytes + node * node);      (* sexp(): atom bytes or pair *)
  small_number : st -> node -> option N;
  new_atom : st -> bytes -> res (st * node);
  new_pair : st -> node -> node -> res (st * node);
  add_ghost_atom : st -> N -> res st;
  tcp : Type; tcheckpoint : st -> tcp;
  maybe_restore : st -> tcp -> node -> res (st * option node);   (* None = keep top *)
  counts : st -> N * N * N;
}.

Section Machine.
Variable S : Store.
Variable gc_candidate : N -> bool.
Inductive operation := OApply | OCons | OSwapEval | ORestore.
Record mstate := { vals : list (node S); envs : list (node S); ops : list operation;
                   allocs : list (tcp S); store : st S; cost : N }.

Definition atom_bytes (s : st S) (n : node S) : option bytes :=
  match view S s n with Some (inl b) => Some b | _ => None end.

(* path lookup, bit list little-endian already decoded for the spike *)
Fixpoint traverse (s : st S) (bits : list bool) (n : node S) : res (node S) :=
  match bits with [] => ret n | b :: r =>
    match view S s n with Some (inr (l, rr)) => traverse s r (if b then rr else l) | _ => inr PathIntoAtom end end.

Variable path_bits : bytes -> list bool * N.   (* bits and cost *)

Definition op_add (s : st S) (args : list (node S)) : res (st S * node S * N) :=
  (* spike: sum of first bytes *)
  let total := fold_left (fun acc n => match atom_bytes s n with Some (b :: _) => acc + b | _ => acc end) args 0 in
  do '(s', n) <- new_atom S s [total mod 256]; ret (s', n, 99 + 320 * N.of_nat (length args)).

Fixpoint list_of (fuel : nat) (s : st S) (n : node S) : list (node S) :=
  match fuel with O => [] | Datatypes.S k => match view S s n with Some (inr (a, r)) => a :: list_of k s r | _ => [] end end.

Definition eval_pair (m : mstate) (prog env : node S) : res (mstate * N) :=
  let s := store m in
  match view S s prog with
  | Some (inl b) => let '(bits, c) := path_bits b in do r <- traverse s bits env;
       ret ({| vals := r :: vals m; envs := envs m; ops := ops m; allocs := allocs m; store := s; cost := cost m |}, c)
  | Some (inr (opn, args)) =>
      match small_number S s opn with
      | Some 1 => ret ({| vals := args :: vals m; envs := envs m; ops := ops m; allocs := allocs m; store := s; cost := cost m |}, 20)
      | Some o =>
          let gc := gc_candidate o in
          let argl := list_of 1000 s args in
          ret ({| vals := nil_n S :: rev argl ++ opn :: vals m;
                  envs := env :: envs m;
                  ops := repeat OSwapEval (length argl) ++ OApply :: (if gc then [ORestore] else []) ++ ops m;
                  allocs := (if gc then [tcheckpoint S s] else []) ++ allocs m; store := s; cost := cost m |}, 1)
      | None => inr BadArgs end
  | None => inr (Panic 1) end.

Definition step (m : mstate) (maxc : N) : res (mstate + N * node S) :=
  if maxc <? cost m then inr CostExceeded else
  match ops m with
  | [] => match vals m with v :: _ => ret (inr (cost m, v)) | [] => inr (Internal 1) end
  | OCons :: o' => match vals m with v1 :: v2 :: vs =>
        do '(s', p) <- new_pair S (store m) v1 v2;
        ret (inl {| vals := p :: vs; envs := envs m; ops := o'; allocs := allocs m; store := s'; cost := cost m |})
      | _ => inr (Internal 2) end
  | OSwapEval :: o' => match vals m, envs m with v2 :: prog :: vs, env :: _ =>
        do '(m', c) <- eval_pair {| vals := v2 :: vs; envs := envs m; ops := OCons :: o'; allocs := allocs m; store := store m; cost := cost m |} prog env;
        ret (inl {| vals := vals m'; envs := envs m'; ops := ops m'; allocs := allocs m'; store := store m'; cost := cost m' + c |})
      | _, _ => inr (Internal 3) end
  | OApply :: o' => match vals m, envs m with args :: opn :: vs, _ :: es =>
        do '(s', r, c) <- op_add (store m) (list_of 1000 (store m) args);
        ret (inl {| vals := r :: vs; envs := es; ops := o'; allocs := allocs m; store := s'; cost := cost m + c |})
      | _, _ => inr (Internal 4) end
  | ORestore :: o' => match allocs m, vals m with cp :: als, top :: vs =>
        do '(s', repl) <- maybe_restore S (store m) cp top;
        ret (inl {| vals := (match repl with Some n => n | None => top end) :: vs; envs := envs m; ops := o'; allocs := als; store := s'; cost := cost m |})
      | _, _ => inr (Internal 5) end
  end.

Fixpoint run (fuel : nat) (m : mstate) (maxc : N) : res (N * node S) :=
  match fuel with O => inr OutOfFuel | Datatypes.S k =>
    do r <- step m maxc; match r with inl m' => run k m' maxc | inr out => ret out end end.
End Machine.

(* ---- tree store ---- *)
Definition tree_store : Store := {|
  st := N * N * N; node := sexp; nil_n := Atom []; one_n := Atom [1];
  view := fun _ n => Some (match n with Atom b => inl b | Cons l r => inr (l, r) end);
  small_number := fun _ n => match n with Atom [] => Some 0 | Atom [b] => if (0 <? b) && (b <? 128) then Some b else None | _ => None end;
  new_atom := fun '(a, p, h) b => if a =? 62500000 then inr TooManyAtoms else ret ((a + 1, p, h + N.of_nat (length b)), Atom b);
  new_pair := fun '(a, p, h) l r => if 62500000 <=? p then inr TooManyPairs else ret ((a, p + 1, h), Cons l r);
  add_ghost_atom := fun '(a, p, h) k => ret (a + k, p, h);
  tcp := unit; tcheckpoint := fun _ => tt;
  maybe_restore := fun s _ _ => ret (s, None);
  counts := fun s => s |}.

Definition demo := run tree_store (fun o => N.eqb o 16) (fun b => ([], 44)) 100
   (Build_mstate tree_store [] [] [OSwapEval] [] ((2, 0, 1) : st tree_store) 0) 100000.
From Coq Require Import Extraction ExtrOcamlBasic.
Extraction "mach.ml" run tree_store.
