use clvmr::allocator::Allocator;
use clvmr::chia_dialect::{ChiaDialect, ClvmFlags};
use clvmr::run_program::run_program;
use clvmr::serde::node_from_bytes;

fn main() {
    // program: (c (+ (q . 70000) (q . 70000)) (c (concat (q . "abc") (q . "defg")) (q . ())))  -> allocates 2 atoms + pairs
    let prg_hex = "ff04ffff10ffff0183011170ffff018301117080ffff04ffff0effff0183616263ffff01846465666780ffff01808080";
    for k in 0..8usize {
        // atoms
        let mut a = Allocator::new();
        let prg = node_from_bytes(&mut a, &hex::decode(prg_hex).unwrap()).unwrap();
        let base = a.atom_count();
        a.add_ghost_atom(62_500_000 - base - k).unwrap();
        let nil = a.nil();
        let r = run_program(&mut a, &ChiaDialect::new(ClvmFlags::empty()), prg, nil, 0);
        println!("atoms headroom {k}: {:?} atoms={} (cap 62500000)", r.as_ref().map(|x| x.0).map_err(|e| e.to_string()), a.atom_count());
    }
    for k in 0..14usize {
        let mut a = Allocator::new();
        let prg = node_from_bytes(&mut a, &hex::decode(prg_hex).unwrap()).unwrap();
        let base = a.pair_count();
        a.add_ghost_pair(62_500_000 - base - k).unwrap();
        let nil = a.nil();
        let r = run_program(&mut a, &ChiaDialect::new(ClvmFlags::empty()), prg, nil, 0);
        println!("pairs headroom {k}: {:?} pairs={}", r.as_ref().map(|x| x.0).map_err(|e| e.to_string()), a.pair_count());
    }
    for lim in 40..60usize {
        let mut a = Allocator::new_limited(lim);
        let Ok(prg) = node_from_bytes(&mut a, &hex::decode(prg_hex).unwrap()) else { println!("heap limit {lim}: parse OOM"); continue };
        let nil = a.nil();
        let h0 = a.heap_size();
        let r = run_program(&mut a, &ChiaDialect::new(ClvmFlags::empty()), prg, nil, 0);
        println!("heap limit {lim}: start {h0} {:?} heap={}", r.as_ref().map(|x| x.0).map_err(|e| e.to_string()), a.heap_size());
    }
}
