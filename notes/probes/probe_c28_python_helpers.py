import io, random
from clvm_rs import Program
from clvm_rs.ser import sexp_from_stream, sexp_to_bytes
from clvm_rs.casts import int_to_bytes, int_from_bytes
from clvm_rs.clvm_rs import deser_legacy, ser_legacy, run_serialized_chia_program
from clvm_rs.tree_hash import sha256_treehash

def canon(v):
    if v == 0: return b""
    n = 1
    while True:
        try:
            b = v.to_bytes(n, "big", signed=True); return b
        except OverflowError: n += 1
bad = 0
for v in list(range(-70000, 70000, 1)) + [2**k + d for k in range(0, 300, 7) for d in (-1, 0, 1)] + [-(2**k) + d for k in range(0, 300, 7) for d in (-1, 0, 1)]:
    if int_to_bytes(v) != canon(v) or int_from_bytes(canon(v)) != v: bad += 1; print("INT", v)
print("int casts bad:", bad)

rng = random.Random(5)
def rand_tree(depth):
    if depth == 0 or rng.random() < 0.3:
        return bytes(rng.randrange(256) for _ in range(rng.choice([0, 1, 1, 2, 5, 63, 64, 65, 200])))
    return (rand_tree(depth - 1), rand_tree(depth - 1))
bad = 0
for i in range(2000):
    t = Program.to(rand_tree(5))
    b = sexp_to_bytes(t)
    r = deser_legacy(b)
    if ser_legacy(r) != b: bad += 1
    if sha256_treehash(t) != sha256_treehash(r): bad += 1
print("ser/hash bad:", bad)

# random byte strings: python stream deser vs rust
bad = 0; acc = 0
for i in range(200000):
    n = rng.randrange(1, 12)
    b = bytes(rng.choice([0xff, 0xff, 0x80, 0x81, 0x82, 0xc0, 0xe0, 0xf0, 0xf8, 0xfc, 0xfe, 0, 1, 2, 0x7f, rng.randrange(256)]) for _ in range(n))
    try:
        f = io.BytesIO(b); p = sexp_from_stream(f, Program.new_pair, Program.new_atom); pok = (f.tell(), bytes(p))
    except Exception as e: pok = None
    try:
        r = deser_legacy(b); s = ser_legacy(r); rok = s
    except Exception as e: rok = None
    if (pok is None) != (rok is None) or (pok and pok[1] != rok): 
        bad += 1
        if bad <= 5: print("DESER MISMATCH", b.hex(), pok, rok)
    acc += rok is not None
print("deser bad:", bad, "accepted", acc)

# curry
bad = 0
for i in range(300):
    mod = Program.to(rand_tree(3)); args = [Program.to(rand_tree(2)) for _ in range(rng.randrange(0, 4))]
    c = mod.curry(*args)
    if c.tree_hash() != mod.curry_hash(*[a.tree_hash() for a in args]): bad += 1; print("CURRYHASH")
    m2, a2 = c.uncurry()
    if m2 != mod or a2 is None or len(a2) != len(args) or any(x != y for x, y in zip(a2, args)): bad += 1; print("UNCURRY", bytes(c).hex())
print("curry bad:", bad)
# run curried
mod = Program.to([16, 2, 5, 11])   # (+ 2 5 11) : first three env items
bad=0
for i in range(200):
    xs=[rng.randrange(-1000,1000) for _ in range(3)]
    k=rng.randrange(0,4)
    c=mod.curry(*xs[:k])
    c1,r1=c.run_with_cost(xs[k:],10**7)
    c2,r2=mod.run_with_cost(xs,10**7)
    if r1!=r2: bad+=1
print("run curried bad:",bad)
