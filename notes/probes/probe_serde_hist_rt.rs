use arbitrary::Unstructured;
use clvm_fuzzing::{make_clvm_program, make_tree_limits, node_eq, node_eq_two, tree_hash};
use clvmr::allocator::{Allocator, NodePtr, SExp};
use clvmr::chia_dialect::{ChiaDialect, ClvmFlags};
use clvmr::cost::Cost;
use clvmr::dialect::Dialect;
use clvmr::reduction::{Reduction, Response};
use clvmr::run_program::run_program;
use clvmr::runtime_dialect::RuntimeDialect;
use clvmr::serde::*;
use rand::{Rng, RngCore, SeedableRng};
use rand_chacha::ChaCha8Rng;
use std::collections::HashMap;
use std::io::Cursor;

const MAX_COST: Cost = 11_000_000_000;
fn ser(a: &Allocator, n: NodePtr) -> Vec<u8> { node_to_bytes_limit(a, n, 1 << 30).unwrap() }

#[derive(Debug, PartialEq, Clone)]
struct Outcome { res: Result<(u64, Vec<u8>), String>, atoms: usize, pairs: usize, heap: usize }
fn outcome(a: &Allocator, r: Response) -> Outcome {
    let res = match r { Ok(Reduction(c, n)) => Ok((c, ser(a, n))), Err(e) => Err(e.to_string()) };
    Outcome { res, atoms: a.atom_count(), pairs: a.pair_count(), heap: a.heap_size() }
}

// copy a tree into allocator `b`, choosing a random representation for each atom
fn reencode(a: &Allocator, n: NodePtr, b: &mut Allocator, rng: &mut ChaCha8Rng, memo: &mut HashMap<NodePtr, NodePtr>) -> NodePtr {
    if let Some(x) = memo.get(&n) { return *x; }
    let r = match a.sexp(n) {
        SExp::Pair(l, r) => { let l2 = reencode(a, l, b, rng, memo); let r2 = reencode(a, r, b, rng, memo); b.new_pair(l2, r2).unwrap() }
        SExp::Atom => {
            let bytes = a.atom(n).as_ref().to_vec();
            match rng.random_range(0..3) {
                0 => b.new_atom(&bytes).unwrap(),
                1 => { // substring view of a larger buffer
                    let mut big = vec![0xeeu8; 3]; big.extend_from_slice(&bytes); big.extend_from_slice(&[0xdd, 0xdd]);
                    let p = b.new_atom(&big).unwrap();
                    b.new_substr(p, 3, 3 + bytes.len() as u32).unwrap()
                }
                _ => { // force heap bytes through concat of two halves
                    if bytes.len() < 2 { b.new_atom(&bytes).unwrap() } else {
                        let h = bytes.len() / 2;
                        let x = b.new_atom(&bytes[..h]).unwrap(); let y = b.new_atom(&bytes[h..]).unwrap();
                        b.new_concat(bytes.len(), &[x, y]).unwrap()
                    }
                }
            }
        }
    };
    memo.insert(n, r);
    r
}

fn std_table() -> HashMap<String, Vec<u8>> {
    let names: &[(&str, u8)] = &[("op_if",3),("op_cons",4),("op_first",5),("op_rest",6),("op_listp",7),("op_raise",8),("op_eq",9),("op_gr_bytes",10),("op_sha256",11),("op_substr",12),("op_strlen",13),("op_concat",14),("op_add",16),("op_subtract",17),("op_multiply",18),("op_div",19),("op_divmod",20),("op_gr",21),("op_ash",22),("op_lsh",23),("op_logand",24),("op_logior",25),("op_logxor",26),("op_lognot",27),("op_point_add",29),("op_pubkey_for_exp",30),("op_not",32),("op_any",33),("op_all",34),("op_g1_subtract",49),("op_g1_multiply",50),("op_g1_negate",51),("op_g2_add",52),("op_g2_subtract",53),("op_g2_multiply",54),("op_g2_negate",55),("op_g1_map",56),("op_g2_map",57),("op_bls_pairing_identity",58),("op_bls_verify",59),("op_modpow",60),("op_mod",61)];
    names.iter().map(|(n, o)| (n.to_string(), vec![*o])).collect()
}

fn uses_only(a: &Allocator, n: NodePtr) -> bool {
    // reject programs mentioning atoms 36 (softfork), 48 (coinid), 62..65 or 4-byte secp opcodes anywhere (conservative)
    let mut st = vec![n];
    while let Some(x) = st.pop() {
        match a.sexp(x) { SExp::Pair(l, r) => { st.push(l); st.push(r); }
            SExp::Atom => { let b = a.atom(x); let b = b.as_ref(); if b == [36] || b == [48] || b == [62] || b == [63] || b == [64] || b == [65] || b.len() == 4 { return false; } } }
    }
    true
}

fn main() {
    let args: Vec<String> = std::env::args().collect();
    let mode = args[1].as_str();
    let n: u64 = args[2].parse().unwrap();
    let mut rng = ChaCha8Rng::seed_from_u64(11);
    let mut stats = [0u64; 8];
    for i in 0..n {
        let len = rng.random_range(16..3000);
        let mut data = vec![0u8; len];
        rng.fill_bytes(&mut data);
        match mode {
            "hist" => {
                let mut u = Unstructured::new(&data);
                let mut a = Allocator::new();
                let Ok((env, _)) = make_tree_limits(&mut a, &mut u, 100, true) else { continue };
                let Ok(prg) = make_clvm_program(&mut a, &mut u, env, 2000) else { continue };
                let f = if rng.random_ratio(1,2) { ClvmFlags::empty() } else { ClvmFlags::NEW_COST_MODEL | ClvmFlags::ENABLE_SHA256_TREE | ClvmFlags::ENABLE_KECCAK_OPS_OUTSIDE_GUARD };
                let d = ChiaDialect::new(f);
                // fresh copy
                let mut b0 = Allocator::new(); let mut memo = HashMap::new(); let mut r0 = ChaCha8Rng::seed_from_u64(0);
                // representation 0 only => plain new_atom
                let p0 = { let mut m = HashMap::new(); copy_plain(&a, prg, &mut b0, &mut m) }; let e0 = { let mut m = HashMap::new(); copy_plain(&a, env, &mut b0, &mut m) };
                let base = (b0.atom_count(), b0.pair_count(), b0.heap_size());
                let r = run_program(&mut b0, &d, p0, e0, MAX_COST); let o0 = outcome(&b0, r);
                // history + re-encoding
                let mut b1 = Allocator::new();
                // junk + an earlier (possibly failing) run
                for _ in 0..rng.random_range(0..20) { let l = rng.random_range(0..40); let v: Vec<u8> = (0..l).map(|_| rng.random()).collect(); let x = b1.new_atom(&v).unwrap(); let _ = b1.new_pair(x, x); }
                { let mut m = HashMap::new(); let pj = reencode(&a, prg, &mut b1, &mut r0, &mut m); let ej = reencode(&a, env, &mut b1, &mut r0, &mut m); let _ = run_program(&mut b1, &d, pj, ej, rng.random_range(1..100000)); }
                let p1 = reencode(&a, prg, &mut b1, &mut rng, &mut memo); let e1 = reencode(&a, env, &mut b1, &mut rng, &mut memo);
                let base1 = (b1.atom_count(), b1.pair_count(), b1.heap_size());
                let r = run_program(&mut b1, &d, p1, e1, MAX_COST); let o1 = outcome(&b1, r);
                stats[o0.res.is_ok() as usize] += 1;
                let d0 = (o0.atoms - base.0, o0.pairs - base.1, o0.heap - base.2); let d1 = (o1.atoms - base1.0, o1.pairs - base1.1, o1.heap - base1.2);
                if o0.res != o1.res { println!("HIST MISMATCH i={i} f={f:?}\n {:?}\n {:?}\n prg={} env={}", o0.res, o1.res, hex::encode(ser(&a, prg)), hex::encode(ser(&a, env))); stats[7] += 1; }
                else if d0 != d1 { stats[6] += 1; if stats[6] <= 3 { println!("HIST COUNT DELTA i={i} {d0:?} vs {d1:?} prg={}", hex::encode(ser(&a, prg))); } }
            }
            "rt" => {
                let mut u = Unstructured::new(&data);
                let mut a = Allocator::new();
                let Ok((env, _)) = make_tree_limits(&mut a, &mut u, 100, true) else { continue };
                let Ok(prg) = make_clvm_program(&mut a, &mut u, env, 2000) else { continue };
                if !uses_only(&a, prg) || !uses_only(&a, env) { stats[2] += 1; continue; }
                let mut f = ClvmFlags::empty();
                for x in [ClvmFlags::CANONICAL_INTS, ClvmFlags::NO_UNKNOWN_OPS, ClvmFlags::RELAXED_BLS, ClvmFlags::LIMITS, ClvmFlags::MALACHITE, ClvmFlags::NEW_COST_MODEL] { if rng.random_ratio(1,3) { f |= x; } }
                let cp = a.checkpoint();
                let r = run_program(&mut a, &ChiaDialect::new(f), prg, env, MAX_COST); let o0 = outcome(&a, r);
                a.restore_checkpoint(&cp);
                let f2 = ChiaDialect::new(f).flags();
                let rd = RuntimeDialect::new(std_table(), vec![1], vec![2], f2);
                let r = run_program(&mut a, &rd, prg, env, MAX_COST); let o1 = outcome(&a, r);
                stats[o0.res.is_ok() as usize] += 1;
                if o0 != o1 { println!("RT MISMATCH i={i} f={f:?}\n {o0:?}\n {o1:?}\n prg={}", hex::encode(ser(&a, prg))); stats[7] += 1; }
            }
            "serde" => {
                let mut u = Unstructured::new(&data);
                let mut a = Allocator::new();
                let Ok((t, _)) = make_tree_limits(&mut a, &mut u, 3000, true) else { continue };
                let classic = ser(&a, t);
                let br = node_to_bytes_backrefs(&a, t).unwrap();
                let br2 = node_to_bytes_backrefs(&a, t).unwrap();
                let mut b = Allocator::new();
                let t2 = node_from_bytes_backrefs(&mut b, &br).unwrap();
                let t3 = node_from_bytes(&mut b, &classic).unwrap();
                let mut bad = false;
                bad |= !node_eq_two(&a, t, &b, t2) || !node_eq_two(&a, t, &b, t3);
                bad |= br.len() > classic.len() || br != br2 || !is_canonical_serialization(&br) || !is_canonical_serialization(&classic);
                bad |= node_to_bytes_backrefs(&b, t2).unwrap() != br;
                bad |= serialized_length_from_bytes(&br).unwrap() != br.len() as u64 || serialized_length_from_bytes_trusted(&classic).unwrap() != classic.len() as u64 || serialized_length_from_bytes(&classic).unwrap() != classic.len() as u64;
                let mut oc = ObjectCache::new(serialized_length); bad |= *oc.get_or_calculate(&a, &t, None).unwrap() != classic.len() as u64;
                // hashes
                let h = tree_hash(&a, t);
                let mut thc = ObjectCache::new(treehash); bad |= *thc.get_or_calculate(&a, &t, None).unwrap() != h;
                bad |= tree_hash_from_stream(&mut Cursor::new(&classic)).unwrap() != h;
                let (tr, hs) = parse_triples(&mut Cursor::new(&classic), true).unwrap(); bad |= hs.unwrap()[0] != h; let _ = tr;
                let it = intern_tree(&a, t).unwrap(); bad |= it.tree_hash() != h; bad |= ser(&it.allocator, it.root) != classic;
                // intern uniqueness
                let mut seen = std::collections::HashSet::new(); for at in &it.atoms { bad |= !seen.insert(it.allocator.atom(*at).as_ref().to_vec()); }
                let mut seenp = std::collections::HashSet::new(); for p in &it.pairs { bad |= !seenp.insert(ser(&it.allocator, *p)); }
                // 2026
                let s26 = serialize_2026(&a, t, 0).unwrap();
                for strict in [true, false] { let mut c = Allocator::new(); let r = deserialize_2026(&mut c, &s26, 1 << 20, strict).unwrap(); bad |= !node_eq_two(&a, t, &c, r); bad |= serialized_length_serde_2026(&s26, 1<<20, strict).unwrap() != s26.len() as u64; }
                let mut c = Allocator::new(); bad |= node_from_bytes(&mut c, &s26).is_ok() || node_from_bytes_backrefs(&mut c, &s26).is_ok();
                stats[1] += 1;
                if bad { println!("SERDE MISMATCH i={i} classic={}", hex::encode(&classic)); stats[7] += 1; }
                let _ = node_eq;
            }
            "dec" => {
                let mut b = data.clone(); b.truncate(rng.random_range(1..40));
                for x in b.iter_mut() { let r: u8 = rng.random(); if r < 70 { *x = 0xff } else if r < 140 { *x = rng.random_range(0..8) } else if r < 200 { *x = 0x80 | rng.random_range(0..6) } else if r < 215 { *x = 0xc0 } }
                let mut a = Allocator::new();
                let mut c1 = Cursor::new(&b[..]); let r1 = node_from_stream(&mut a, &mut c1);
                let mut c2 = Cursor::new(&b[..]); let r2 = tree_hash_from_stream(&mut c2);
                let mut c3 = Cursor::new(&b[..]); let r3 = parse_triples(&mut c3, true);
                let mut bad = r1.is_ok() != r2.is_ok() || r1.is_ok() != r3.is_ok();
                if let (Ok(n), Ok(h), Ok((tr, hs))) = (&r1, &r2, &r3) {
                    bad |= c1.position() != c2.position() || c1.position() != c3.position();
                    bad |= tree_hash(&a, *n) != *h || hs.as_ref().unwrap()[0] != *h;
                    let canon = is_canonical_serialization(&b);
                    let re = ser(&a, *n);
                    bad |= canon != (c1.position() as usize == b.len() && re == b);
                    let _ = tr; stats[1] += 1;
                } else { stats[0] += 1; }
                if bad { println!("DEC MISMATCH {}", hex::encode(&b)); stats[7] += 1; }
            }
            _ => panic!(),
        }
    }
    println!("mode={mode} n={n} stats={stats:?}");
}

fn copy_plain(a: &Allocator, n: NodePtr, b: &mut Allocator, memo: &mut HashMap<NodePtr, NodePtr>) -> NodePtr {
    if let Some(x) = memo.get(&n) { return *x; }
    let r = match a.sexp(n) {
        SExp::Pair(l, r) => { let l2 = copy_plain(a, l, b, memo); let r2 = copy_plain(a, r, b, memo); b.new_pair(l2, r2).unwrap() }
        SExp::Atom => b.new_atom(a.atom(n).as_ref()).unwrap(),
    };
    memo.insert(n, r); r
}
