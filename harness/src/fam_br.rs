// family "br": back-reference ("compressed") serialization — both decoders, the shadow-tree
// length probe, the serializer, and the implementation-level property searches of C18 / C17.
use crate::util::*;
use crate::{tohex, unhex};
use clvmr::allocator::{Allocator, NodePtr};
use clvmr::serde::{
    is_canonical_serialization, node_from_bytes_backrefs, node_from_bytes_backrefs_old,
    node_to_bytes_backrefs, node_to_bytes_backrefs_limit, node_to_bytes_limit, serialized_length_from_bytes,
    serialized_length_from_bytes_trusted,
};

// back-references can denote exponentially large trees (a DAG in the allocator): printing is
// bounded by a node count, equality is decided by the (memoised) tree hash
fn tree_size_capped(a: &Allocator, n: NodePtr, cap: usize) -> usize {
    let mut st = vec![n];
    let mut c = 0;
    while let Some(v) = st.pop() {
        c += 1;
        if c > cap { return c; }
        if let clvmr::allocator::SExp::Pair(l, r) = a.sexp(v) { st.push(l); st.push(r); }
    }
    c
}
const CAP: usize = 50000;
fn show_capped(a: &Allocator, n: NodePtr) -> String {
    if tree_size_capped(a, n, CAP) > CAP { "T>cap".to_string() } else { show_tree_short(a, n) }
}
fn tree_hash(a: &Allocator, n: NodePtr) -> [u8; 32] {
    let mut thc = clvmr::serde::ObjectCache::new(clvmr::serde::treehash);
    let h = *thc.get_or_calculate(a, &n, None).unwrap();
    let mut o = [0u8; 32];
    o.copy_from_slice(&h[..]);
    o
}

type Dec = fn(&mut Allocator, &[u8]) -> clvmr::error::Result<NodePtr>;

// The stream entry points of de_br.rs are private; the number of bytes a decoder consumed is
// observed through the public byte-slice API: a decoder that reads its input sequentially
// accepts the prefix b[..m] exactly when m >= consumed, so consumed = the least accepted prefix
// length (binary search; the caller has checked that the whole input is accepted).
fn consumed(dec: Dec, b: &[u8]) -> u64 {
    let (mut lo, mut hi) = (0usize, b.len()); // invariant: b[..hi] accepted, nothing below lo accepted
    while lo < hi {
        let mid = (lo + hi) / 2;
        let mut a = Allocator::new();
        if dec(&mut a, &b[..mid]).is_ok() { hi = mid; } else { lo = mid + 1; }
    }
    hi as u64
}

fn dec_new(a: &mut Allocator, b: &[u8]) -> (clvmr::error::Result<NodePtr>, u64) {
    let r = node_from_bytes_backrefs(a, b);
    let pos = if r.is_ok() { consumed(node_from_bytes_backrefs, b) } else { 0 };
    (r, pos)
}

pub fn run(t: &[&str]) -> String {
    match t[0] {
        // current decoder: tree, consumed bytes, pair count left behind (also on failure)
        "new" => {
            let b = unhex(t[1]);
            let mut a = Allocator::new();
            let (r, pos) = dec_new(&mut a, &b);
            match r {
                Ok(n) => format!("ok {} {} pc={}", show_capped(&a, n), pos, a.pair_count()),
                Err(e) => format!("err {} pc={}", err_name(&e), a.pair_count()),
            }
        }
        // legacy decoder
        "old" => {
            let b = unhex(t[1]);
            let mut a = Allocator::new();
            match node_from_bytes_backrefs_old(&mut a, &b) {
                Ok(n) => format!("ok {} {} pc={}", show_capped(&a, n), consumed(node_from_bytes_backrefs_old, &b), a.pair_count()),
                Err(e) => format!("err {} pc={}", err_name(&e), a.pair_count()),
            }
        }
        "probe" => {
            let b = unhex(t[1]);
            match serialized_length_from_bytes(&b) { Ok(n) => format!("ok {n}"), Err(e) => format!("err {}", err_name(&e)) }
        }
        // C18 on the implementation alone: both decoders and the probe on one byte string
        "agree" => {
            let b = unhex(t[1]);
            let mut a1 = Allocator::new();
            let (r1, pos) = dec_new(&mut a1, &b);
            let pc1 = a1.pair_count();
            let mut a2 = Allocator::new();
            let r2 = node_from_bytes_backrefs_old(&mut a2, &b);
            let pc2 = a2.pair_count();
            let r3 = serialized_length_from_bytes(&b);
            // the upstream fuzz target's way: both in one allocator
            let mut a3 = Allocator::new();
            let _ = node_from_bytes_backrefs(&mut a3, &b);
            let pc3a = a3.pair_count();
            let _ = node_from_bytes_backrefs_old(&mut a3, &b);
            let pc3b = a3.pair_count();
            if r1.is_ok() != r2.is_ok() || r1.is_ok() != r3.is_ok() {
                return format!("DISAGREE accept-sets new={} old={} probe={}", r1.is_ok(), r2.is_ok(), r3.is_ok());
            }
            if pc1 != pc2 || pc3a * 2 != pc3b {
                return format!("DISAGREE pair-count new={} old={} same-allocator={}+{}", pc1, pc2, pc3a, pc3b - pc3a);
            }
            match (r1, r2, r3) {
                (Ok(n1), Ok(n2), Ok(len)) => {
                    if tree_hash(&a1, n1) != tree_hash(&a2, n2) {
                        return format!("DISAGREE tree new={} old={}", show_capped(&a1, n1), show_capped(&a2, n2));
                    }
                    let pos2 = consumed(node_from_bytes_backrefs_old, &b);
                    if len != pos || len != pos2 {
                        return format!("DISAGREE length probe={} consumed-new={} consumed-old={}", len, pos, pos2);
                    }
                    format!("ok accept {} pc={}", pos, pc1)
                }
                _ => format!("ok reject pc={}", pc1),
            }
        }
        // serializer output in full hex (used by the generator to obtain valid encodings)
        "serhex" => {
            let mut a = Allocator::new();
            let n = parse_tree(&mut a, t[1]);
            match node_to_bytes_backrefs(&a, n) { Ok(b) => format!("ok {}", tohex(&b)), Err(e) => format!("err {}", err_name(&e)) }
        }
        // serializer output, digested (model vs implementation, byte for byte)
        "ser" => {
            let mut a = Allocator::new();
            let n = parse_tree(&mut a, t[1]);
            match node_to_bytes_backrefs(&a, n) { Ok(b) => format!("ok {}", digest(&b)), Err(e) => format!("err {}", err_name(&e)) }
        }
        "serl" => {
            let limit: usize = t[1].parse().unwrap();
            let mut a = Allocator::new();
            let n = parse_tree(&mut a, t[2]);
            match node_to_bytes_backrefs_limit(&a, n, limit) { Ok(b) => format!("ok {}", digest(&b)), Err(e) => format!("err {}", err_name(&e)) }
        }
        // C17 on the implementation alone: round trip, never grows, deterministic, idempotent, canonical
        "rt" => {
            let mut a = Allocator::new();
            let n = parse_tree(&mut a, t[1]);
            let b1 = match node_to_bytes_backrefs(&a, n) { Ok(b) => b, Err(e) => return format!("err {}", err_name(&e)) };
            let classic = match node_to_bytes_limit(&a, n, usize::MAX) { Ok(b) => b, Err(e) => return format!("err {}", err_name(&e)) };
            // a second run, in a fresh allocator built in another order of allocation
            let mut a2 = Allocator::new();
            let _junk = a2.new_atom(b"some unrelated atom first").unwrap();
            let n2 = parse_tree(&mut a2, t[1]);
            let b2 = node_to_bytes_backrefs(&a2, n2).unwrap();
            if b1 != b2 { return format!("VIOLATION nondeterministic {} vs {}", digest(&b1), digest(&b2)); }
            if b1.len() > classic.len() { return format!("VIOLATION grows br={} classic={}", b1.len(), classic.len()); }
            let mut d = Allocator::new();
            let (r, pos) = dec_new(&mut d, &b1);
            let m = match r { Ok(m) => m, Err(e) => return format!("VIOLATION roundtrip decode-error {}", err_name(&e)) };
            if pos as usize != b1.len() { return format!("VIOLATION roundtrip consumed {} of {}", pos, b1.len()); }
            if show_tree(&d, m) != show_tree(&a, n) { return "VIOLATION roundtrip different-tree".to_string(); }
            let mut d2 = Allocator::new();
            match node_from_bytes_backrefs_old(&mut d2, &b1) {
                Ok(m2) => if show_tree(&d2, m2) != show_tree(&a, n) { return "VIOLATION roundtrip-legacy different-tree".to_string(); },
                Err(e) => return format!("VIOLATION roundtrip-legacy decode-error {}", err_name(&e)),
            }
            if !is_canonical_serialization(&b1) { return "VIOLATION not-canonical".to_string(); }
            match serialized_length_from_bytes(&b1) {
                Ok(l) if l as usize == b1.len() => {}
                o => return format!("VIOLATION length-probe {:?} len={}", o.map_err(|e| err_name(&e)), b1.len()),
            }
            match serialized_length_from_bytes_trusted(&b1) {
                Ok(l) if l as usize == b1.len() => {}
                o => return format!("VIOLATION trusted-length {:?} len={}", o.map_err(|e| err_name(&e)), b1.len()),
            }
            let b3 = node_to_bytes_backrefs(&d, m).unwrap();
            if b3 != b1 { return format!("VIOLATION not-idempotent {} vs {}", digest(&b1), digest(&b3)); }
            format!("ok br={} classic={} {}", b1.len(), classic.len(), digest(&b1))
        }
        _ => panic!("bad br case"),
    }
}
