// family "run26": the Rust references of the wheel's API (property C26).
//   run <prog hex> <env hex> <max_cost> <flag bits> <heap limit>
//       run_program with ChiaDialect::new(ClvmFlags::from_bits_retain(bits)) on an
//       Allocator::new_limited(heap limit); the flag bits and the heap limit are computed from the
//       32-bit flag word by the model's glue (Model/PyGlue.v), not here.
//       -> "ok <cost> <classic serialization of the result>" | "err <message> <classic serialization of the error node>"
//   ser <legacy|backrefs|2026> <tree> [level]        -> "ok <bytes>" | "err <message>"
//   de <legacy|backrefs|2026|2026body> <hex> [max_atom_len strict] -> "ok <classic bytes> " | "err <message>"
//   view <hex>  -> tree of node_from_bytes, through Allocator::sexp / atom
use crate::util::*;
use crate::unhex;
use clvmr::allocator::Allocator;
use clvmr::chia_dialect::{ChiaDialect, ClvmFlags};
use clvmr::error::EvalErr;
use clvmr::run_program::run_program;
use clvmr::serde::{node_from_bytes, node_from_bytes_backrefs, node_to_bytes, node_to_bytes_backrefs, node_to_bytes_limit};
use clvmr::serde_2026::{deserialize_2026, deserialize_2026_body_from_stream, serialize_2026};
use std::io::Cursor;

fn msg(e: &EvalErr) -> String {
    e.to_string().replace(' ', "_")
}

pub fn run(t: &[&str]) -> String {
    match t[0] {
        "run" => {
            let prog = unhex(t[1]);
            let env = unhex(t[2]);
            let cost: u64 = t[3].parse().unwrap();
            let bits: u32 = t[4].parse().unwrap();
            let heap: usize = t[5].parse().unwrap();
            let flags = ClvmFlags::from_bits_retain(bits);
            let mut a = Allocator::new_limited(heap);
            let p = match node_from_bytes(&mut a, &prog) { Ok(n) => n, Err(e) => return format!("raise {}", msg(&e)) };
            let e = match node_from_bytes(&mut a, &env) { Ok(n) => n, Err(e) => return format!("raise {}", msg(&e)) };
            let d = ChiaDialect::new(flags);
            match run_program(&mut a, &d, p, e, cost) {
                Ok(r) => match node_to_bytes_limit(&a, r.1, usize::MAX) {
                    Ok(b) => format!("ok {} {}", r.0, digest(&b)),
                    Err(e) => format!("ok {} unserializable:{}", r.0, msg(&e)),
                },
                Err(e) => {
                    let n = EvalErr::node_ptr(&e);
                    let b = node_to_bytes_limit(&a, n, usize::MAX).map(|b| digest(&b)).unwrap_or_else(|_| "?".into());
                    format!("err {} {}", msg(&e), b)
                }
            }
        }
        "ser" => {
            let mut a = Allocator::new();
            let n = parse_tree(&mut a, t[2]);
            let r = match t[1] {
                "legacy" => node_to_bytes(&a, n),
                "backrefs" => node_to_bytes_backrefs(&a, n),
                "2026" => serialize_2026(&a, n, t.get(3).map(|s| s.parse().unwrap()).unwrap_or(0)),
                _ => panic!("bad format"),
            };
            match r { Ok(b) => format!("ok {}", digest(&b)), Err(e) => format!("err {}", msg(&e)) }
        }
        "de" => {
            let b = unhex(t[2]);
            let max_atom_len: usize = t.get(3).map(|s| s.parse().unwrap()).unwrap_or(1 << 20);
            let strict: bool = t.get(4).map(|s| *s == "1").unwrap_or(true);
            let mut a = Allocator::new();
            let r = match t[1] {
                "legacy" => node_from_bytes(&mut a, &b),
                "backrefs" => node_from_bytes_backrefs(&mut a, &b),
                "2026" => deserialize_2026(&mut a, &b, max_atom_len, strict),
                "2026body" => deserialize_2026_body_from_stream(&mut a, &mut Cursor::new(&b[..]), max_atom_len, strict),
                _ => panic!("bad format"),
            };
            match r {
                Ok(n) => match node_to_bytes_limit(&a, n, usize::MAX) {
                    Ok(s) => format!("ok {}", digest(&s)),
                    Err(e) => format!("ok unserializable:{}", msg(&e)),
                },
                Err(e) => format!("err {}", msg(&e)),
            }
        }
        "view" => {
            let b = unhex(t[1]);
            let mut a = Allocator::new();
            match node_from_bytes(&mut a, &b) {
                Ok(n) => format!("ok {}", show_tree_short(&a, n)),
                Err(e) => format!("err {}", msg(&e)),
            }
        }
        _ => panic!("bad run26 case"),
    }
}
