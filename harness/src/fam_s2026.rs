// family "s2026": serde_2026 serializer, decoder (strict/lenient, max_atom_len), length probe,
// and the classic / back-reference decoders on magic-prefixed blobs.
use crate::fam_intern::parse_dag;
use crate::util::*;
use crate::unhex;
use clvmr::allocator::{Allocator, NodePtr, SExp};
use clvmr::serde::{node_from_bytes, node_from_bytes_backrefs, node_from_bytes_backrefs_old};
use clvmr::serde_2026::{deserialize_2026_from_stream, serialize_2026, serialized_length_serde_2026};
use std::collections::HashMap;
use std::io::Cursor;

const MIX1: u64 = 0x100000001b3;
const MIX2: u64 = 0x9E3779B97F4A7C15;

/// (expanded size saturating at 2^40, structural hash) of a node, memoised by NodePtr so that
/// heavily shared results cost their DAG size
pub fn dag_digest(a: &Allocator, root: NodePtr) -> (u64, u64) {
    let mut memo: HashMap<NodePtr, (u64, u64)> = HashMap::new();
    let mut st = vec![root];
    while let Some(n) = st.pop() {
        if memo.contains_key(&n) { continue; }
        match a.sexp(n) {
            SExp::Atom => { memo.insert(n, (1, fnv64(a.atom(n).as_ref()))); }
            SExp::Pair(l, r) => {
                match (memo.get(&l).copied(), memo.get(&r).copied()) {
                    (Some((sl, hl)), Some((sr, hr))) => {
                        let s = std::cmp::min(1 + sl + sr, 1u64 << 40);
                        let h = hl.wrapping_mul(MIX1).wrapping_add(hr).wrapping_mul(MIX2).wrapping_add(1);
                        memo.insert(n, (s, h));
                    }
                    (lm, rm) => {
                        st.push(n);
                        if rm.is_none() { st.push(r); }
                        if lm.is_none() { st.push(l); }
                    }
                }
            }
        }
    }
    memo[&root]
}

pub fn show_digest(a: &Allocator, n: NodePtr) -> String {
    let (s, h) = dag_digest(a, n);
    if s <= 60 { show_tree(a, n) } else { format!("T#{}:{:016x}", s, h) }
}

fn ename(r: &clvmr::error::Result<NodePtr>) -> String {
    match r { Ok(_) => "ACCEPT".into(), Err(e) => err_name(e) }
}

pub fn run(t: &[&str]) -> String {
    match t[0] {
        "ser" => {
            let level: u32 = t[1].parse().unwrap();
            let mut a = Allocator::new();
            let n = parse_dag(&mut a, t[2]);
            match serialize_2026(&a, n, level) {
                Ok(b) => format!("ok {}", if b.len() <= 120 { hex::encode(&b) } else { digest(&b) }),
                Err(e) => format!("err {}", err_name(&e)),
            }
        }
        // serializer output in full (implementation-level search)
        "serfull" => {
            let level: u32 = t[1].parse().unwrap();
            let mut a = Allocator::new();
            let n = parse_dag(&mut a, t[2]);
            match serialize_2026(&a, n, level) {
                Ok(b) => format!("ok {}", hex::encode(&b)),
                Err(e) => format!("err {}", err_name(&e)),
            }
        }
        // every relation of the statement on one tree
        "rt" => {
            let level: u32 = t[1].parse().unwrap();
            let mut a = Allocator::new();
            let n = parse_dag(&mut a, t[2]);
            let b = match serialize_2026(&a, n, level) { Ok(b) => b, Err(e) => return format!("err {}", err_name(&e)) };
            let src = dag_digest(&a, n);
            let mut out = format!("ok len={}", b.len());
            for strict in [true, false] {
                let mut a2 = Allocator::new();
                let mut c = Cursor::new(&b[..]);
                let same = match deserialize_2026_from_stream(&mut a2, &mut c, usize::MAX, strict) {
                    Ok(m) => dag_digest(&a2, m) == src && c.position() as usize == b.len(),
                    Err(_) => false,
                };
                let probe = match serialized_length_serde_2026(&b, usize::MAX, strict) { Ok(v) => v.to_string(), Err(e) => err_name(&e) };
                out.push_str(&format!(" {}={} probe={}", if strict { "strict" } else { "lenient" }, same, probe));
            }
            let mut a3 = Allocator::new();
            out.push_str(&format!(" classic={}", ename(&node_from_bytes(&mut a3, &b))));
            out
        }
        "rtbr" => {
            let level: u32 = t[1].parse().unwrap();
            let mut a = Allocator::new();
            let n = parse_dag(&mut a, t[2]);
            let b = match serialize_2026(&a, n, level) { Ok(b) => b, Err(e) => return format!("err {}", err_name(&e)) };
            let mut a3 = Allocator::new();
            let r1 = ename(&node_from_bytes_backrefs(&mut a3, &b));
            let r2 = ename(&node_from_bytes_backrefs_old(&mut a3, &b));
            format!("ok br={} brold={}", r1, r2)
        }
        "de" => {
            let strict = t[1] == "1";
            let max: usize = t[2].parse().unwrap();
            let b = unhex(t[3]);
            let mut a = Allocator::new();
            let mut c = Cursor::new(&b[..]);
            match deserialize_2026_from_stream(&mut a, &mut c, max, strict) {
                Ok(n) => format!("ok {} {}", show_digest(&a, n), c.position()),
                Err(e) => format!("err {}", err_name(&e)),
            }
        }
        "probe" => {
            let strict = t[1] == "1";
            let max: usize = t[2].parse().unwrap();
            let b = unhex(t[3]);
            match serialized_length_serde_2026(&b, max, strict) {
                Ok(n) => format!("ok {n}"),
                Err(e) => format!("err {}", err_name(&e)),
            }
        }
        // classic decoder on an arbitrary blob (the model has it); back-reference decoders (implementation only)
        "cl" => {
            let b = unhex(t[1]);
            let mut a = Allocator::new();
            format!("ok classic={}", ename(&node_from_bytes(&mut a, &b)))
        }
        "clbr" => {
            let b = unhex(t[1]);
            let mut a = Allocator::new();
            let r1 = ename(&node_from_bytes_backrefs(&mut a, &b));
            let r2 = ename(&node_from_bytes_backrefs_old(&mut a, &b));
            format!("ok br={} brold={}", r1, r2)
        }
        _ => panic!("bad s2026 case"),
    }
}
