// family "intern": intern_tree on DAG-shared trees with atoms in chosen representations.
//
// DAG transport format (used by the families intern, s2026, hashes):
//   node := 'p' node node          a pair (new_pair)
//         | 'a' HEX ';'            an atom through new_atom (small canonical ints become inline)
//         | 'h' HEX ';'            the same bytes forced onto the heap (new_substr of a longer heap atom)
//         | 'r' DECIMAL ';'        the DECIMAL-th node completed so far (0-based, completion order;
//                                  an 'r' completes no new node): the SAME NodePtr again
use crate::util::*;
use clvmr::allocator::{Allocator, NodePtr, SExp};
use clvmr::serde::{intern_tree, node_to_bytes_limit, treehash, ObjectCache};
use std::collections::HashMap;

pub fn parse_dag(a: &mut Allocator, s: &str) -> NodePtr {
    enum It { Pair, Node(NodePtr) }
    let b = s.as_bytes();
    let mut i = 0;
    let mut st: Vec<It> = Vec::new();
    let mut done: Vec<NodePtr> = Vec::new();
    loop {
        let c = b[i];
        if c == b'p' { i += 1; st.push(It::Pair); continue; }
        let j = i + 1 + s[i + 1..].find(';').unwrap();
        let body = &s[i + 1..j];
        i = j + 1;
        let node = match c {
            b'a' => { let n = a.new_atom(&hex::decode(body).unwrap()).unwrap(); done.push(n); n }
            b'h' => {
                let mut bytes = hex::decode(body).unwrap();
                let len = bytes.len() as u32;
                bytes.extend_from_slice(&[0xa5; 6]);
                let big = a.new_atom(&bytes).unwrap();
                let n = a.new_substr(big, 0, len).unwrap();
                done.push(n);
                n
            }
            b'r' => done[body.parse::<usize>().unwrap()],
            c => panic!("bad dag char {c}"),
        };
        let mut cur = node;
        loop {
            match st.pop() {
                None => return cur,
                Some(It::Pair) => { st.push(It::Pair); st.push(It::Node(cur)); break; }
                Some(It::Node(left)) => {
                    match st.pop() { Some(It::Pair) => {}, _ => panic!("bad dag") }
                    cur = a.new_pair(left, cur).unwrap();
                    done.push(cur);
                }
            }
        }
    }
}

fn shorten(s: String) -> String {
    if s.len() <= 400 { s } else { format!("X#{}:{:016x}", s.len(), fnv64(s.as_bytes())) }
}

/// the two vectors of an InternedTree, children named by their position in the vectors
pub fn tables(t: &clvmr::serde::InternedTree) -> (String, String, String) {
    let mut pos: HashMap<NodePtr, String> = HashMap::new();
    let mut atoms = Vec::new();
    for (i, n) in t.atoms.iter().enumerate() {
        // an interned atom that is also found at another position would be overwritten here and
        // show up as a wrong reference below; positions are reported as they are
        pos.entry(*n).or_insert(format!("a{i}"));
        let b = t.allocator.atom(*n);
        atoms.push(if b.as_ref().is_empty() { "-".to_string() } else { hex::encode(b.as_ref()) });
    }
    for (i, n) in t.pairs.iter().enumerate() {
        pos.entry(*n).or_insert(format!("p{i}"));
    }
    let name = |n: NodePtr| -> String { pos.get(&n).cloned().unwrap_or_else(|| "?".to_string()) };
    let mut pairs = Vec::new();
    for n in &t.pairs {
        match t.allocator.sexp(*n) {
            SExp::Pair(l, r) => pairs.push(format!("{}:{}", name(l), name(r))),
            SExp::Atom => pairs.push("notapair".to_string()),
        }
    }
    (atoms.join(","), pairs.join(","), name(t.root))
}

pub fn run(t: &[&str]) -> String {
    match t[0] {
        // the interned structure itself
        "tab" | "tabfull" => {
            let mut a = Allocator::new();
            let n = parse_dag(&mut a, t[1]);
            match intern_tree(&a, n) {
                Ok(it) => {
                    let (at, pr, root) = tables(&it);
                    if t[0] == "tab" {
                        format!("ok {} {} A={} P={} R={}", it.atoms.len(), it.pairs.len(),
                                shorten(at), shorten(pr), root)
                    } else {
                        let ser = node_to_bytes_limit(&it.allocator, it.root, usize::MAX).unwrap();
                        let src = node_to_bytes_limit(&a, n, usize::MAX).unwrap();
                        let mut thc = ObjectCache::new(treehash);
                        let h_src = *thc.get_or_calculate(&a, &n, None).unwrap();
                        format!("ok A={} P={} R={} S={} H={} SS={} SH={}",
                                if at.is_empty() { "_".to_string() } else { at },
                                if pr.is_empty() { "_".to_string() } else { pr }, root,
                                hex::encode(&ser), hex::encode(it.tree_hash()),
                                hex::encode(&src), hex::encode(&h_src[..]))
                    }
                }
                Err(e) => format!("err {}", err_name(&e)),
            }
        }
        // serialization and tree hash of the interned tree (the model prints those of the source)
        "eq" => {
            let mut a = Allocator::new();
            let n = parse_dag(&mut a, t[1]);
            match intern_tree(&a, n) {
                Ok(it) => {
                    let ser = node_to_bytes_limit(&it.allocator, it.root, usize::MAX).unwrap();
                    format!("ok {} {}", digest(&ser), hex::encode(it.tree_hash()))
                }
                Err(e) => format!("err {}", err_name(&e)),
            }
        }
        _ => panic!("bad intern case"),
    }
}
