// family "fastops": the five operators of more_ops.rs that contain a no-fastpath region, called
// directly on arguments built in a CHOSEN allocator representation.
//
//   fo <mode> <name> <flags> <max_cost> <term> <args>
//     <mode>   fast | nofast | gen    which transcription the MODEL runs (Model/OpsFast.v default
//              build / no-fastpath build / the tree-store operator on the denoted list); this
//              harness ignores it: it runs the operator its own build compiled
//     <name>   op_add | op_subtract | op_multiply | op_gr | op_sha256
//     <term>   the atom ending the argument list, <args> a comma list ('-' = no arguments) of
//                s<decimal>  inline atom (new_small_number; value <= 2^26 - 1)
//                b<hex>      heap atom holding exactly these bytes ('b-' = empty), built as a
//                            substring view of a padded heap atom, so that small canonical
//                            integers are NOT folded into inline atoms
//                p           a pair (argument positions only)
//   Observation: "ok <cost> <atom> <s|b> | <atoms>,<pairs>,<heap>"  (result atom, whether the
//   result node is inline or on the heap, growth of the allocator counters during the call)
//   or "err <kind> | <counters>". The part after '|' is compared between builds only.
use crate::util::*;
use clvmr::allocator::{Allocator, NodePtr, NodeVisitor};
use clvmr::chia_dialect::ClvmFlags;
use clvmr::cost::Cost;
use clvmr::more_ops;
use clvmr::reduction::Reduction;

fn mk(a: &mut Allocator, s: &str) -> NodePtr {
    let (kind, body) = s.split_at(1);
    match kind {
        "s" => {
            let v: u32 = body.parse().unwrap();
            let n = a.new_small_number(v).unwrap();
            assert!(matches!(a.node(n), NodeVisitor::U32(x) if x == v), "not inline");
            n
        }
        "b" => {
            let b = crate::unhex(body);
            let mut v = vec![0xeeu8; 5];
            v.extend_from_slice(&b);
            v.extend_from_slice(&[0xee; 5]);
            let big = a.new_atom(&v).unwrap();
            let n = a.new_substr(big, 5, 5 + b.len() as u32).unwrap();
            assert!(matches!(a.node(n), NodeVisitor::Buffer(x) if x == &b[..]), "not a heap atom");
            n
        }
        "p" => {
            let nil = a.nil();
            a.new_pair(nil, nil).unwrap()
        }
        _ => panic!("bad argument spec"),
    }
}

pub fn run(t: &[&str]) -> String {
    if t[0] != "fo" { panic!("bad fastops case"); }
    let f = match t[2] {
        "op_add" => more_ops::op_add,
        "op_subtract" => more_ops::op_subtract,
        "op_multiply" => more_ops::op_multiply,
        "op_gr" => more_ops::op_gr,
        "op_sha256" => more_ops::op_sha256,
        _ => panic!("bad operator"),
    };
    let flags = ClvmFlags::from_bits_truncate(t[3].parse::<u32>().unwrap());
    let max_cost: Cost = t[4].parse().unwrap();
    let mut a = Allocator::new();
    let mut args = mk(&mut a, t[5]);
    let items: Vec<&str> = if t[6] == "-" { vec![] } else { t[6].split(',').collect() };
    let nodes: Vec<NodePtr> = items.iter().map(|s| mk(&mut a, s)).collect();
    for n in nodes.iter().rev() {
        args = a.new_pair(*n, args).unwrap();
    }
    let before = (a.atom_count(), a.pair_count(), a.heap_size());
    let r = f(&mut a, args, max_cost, flags);
    let cnt = format!("{},{},{}", a.atom_count() - before.0, a.pair_count() - before.1, a.heap_size() - before.2);
    match r {
        Ok(Reduction(cost, node)) => {
            let repr = match a.node(node) {
                NodeVisitor::U32(_) => "s",
                NodeVisitor::Buffer(_) => "b",
                NodeVisitor::Pair(_, _) => "p",
            };
            format!("ok {} {} {} | {}", cost, show_tree_short(&a, node), repr, cnt)
        }
        Err(e) => format!("err {} | {}", err_name(&e), cnt),
    }
}
