// family "py28": the Rust references the wheel's pure-Python helpers are compared with where
// fam_classic.rs has none: canonical integer encoding (Allocator::new_number / number()) and
// program runs (curried program vs module on the prepended environment).
use crate::util::*;
use crate::{tohex, unhex};
use clvmr::allocator::Allocator;
use clvmr::chia_dialect::{ChiaDialect, ClvmFlags};
use clvmr::number::{number_from_u8, Number};
use clvmr::run_program::run_program;

pub fn run(t: &[&str]) -> String {
    match t[0] {
        // integer -> the atom Allocator::new_number stores for it
        "i2b" => {
            let v: Number = t[1].parse().expect("bad decimal");
            let mut a = Allocator::new();
            match a.new_number(v) {
                Ok(n) => format!("ok {}", tohex(a.atom(n).as_ref())),
                Err(e) => format!("err {}", err_name(&e)),
            }
        }
        // atom bytes -> the integer the interpreter reads (number_from_u8 and Allocator::number agree)
        "b2i" => {
            let b = unhex(t[1]);
            let v = number_from_u8(&b);
            let mut a = Allocator::new();
            let n = a.new_atom(&b).unwrap();
            let v2 = a.number(n);
            if v != v2 { return format!("MISMATCH number_from_u8={} number()={}", v, v2); }
            format!("ok {}", v)
        }
        // crun <max_cost> <k> <mod> <arg>*k <env>: run mod on (arg1 . (arg2 . ... env))
        "crun" => {
            let cost: u64 = t[1].parse().unwrap();
            let k: usize = t[2].parse().unwrap();
            let mut a = Allocator::new();
            let m = parse_tree(&mut a, t[3]);
            let args: Vec<_> = (0..k).map(|i| parse_tree(&mut a, t[4 + i])).collect();
            let mut env = parse_tree(&mut a, t[4 + k]);
            for x in args.iter().rev() {
                env = a.new_pair(*x, env).unwrap();
            }
            let d = ChiaDialect::new(ClvmFlags::empty());
            match run_program(&mut a, &d, m, env, cost) {
                Ok(r) => format!("ok same val:{}", show_tree_short(&a, r.1)),
                Err(e) => format!("ok same err:{}", e.to_string().replace(' ', "_")),
            }
        }
        _ => panic!("bad py28 case"),
    }
}
