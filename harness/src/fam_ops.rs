// family "ops": operators of more_ops.rs / core_ops.rs / sha_tree_op.rs called directly.
//
//   op  <name> <flags> <max_cost> <tree>         atoms built with new_atom
//   opv <mode> <name> <flags> <max_cost> <tree>  atoms built another way (same bytes):
//                                                mode 1: substring view of a padded heap atom
//                                                mode 2: concatenation of two halves (len >= 2),
//                                                        else view
//   ul  <opcode hex> <flags> <max_cost> <lens>   op_unknown on arguments given by LENGTH:
//                                                <lens> = comma list of decimal lengths, 'p' for
//                                                a pair argument, '-' for no arguments; every
//                                                atom is a view of one buffer of the largest length
//   <name> = op_add ... | unknown:<opcode hex> | strict:<opcode hex> (the dialect's
//            unknown_operator wrapper: NO_UNKNOWN_OPS -> Unimplemented)
//   <flags>, <max_cost> decimal. Observation: "ok <cost> <tree>" | "err <kind>"
use crate::util::*;
use clvmr::allocator::{Allocator, NodePtr};
use clvmr::chia_dialect::ClvmFlags;
use clvmr::cost::Cost;
use clvmr::reduction::{Reduction, Response};
use clvmr::{core_ops, more_ops, sha_tree_op};

type OpFn = fn(&mut Allocator, NodePtr, Cost, ClvmFlags) -> Response;

pub fn lookup(name: &str) -> Option<OpFn> {
    Some(match name {
        "op_if" => core_ops::op_if,
        "op_cons" => core_ops::op_cons,
        "op_first" => core_ops::op_first,
        "op_rest" => core_ops::op_rest,
        "op_listp" => core_ops::op_listp,
        "op_raise" => core_ops::op_raise,
        "op_eq" => core_ops::op_eq,
        "op_add" => more_ops::op_add,
        "op_subtract" => more_ops::op_subtract,
        "op_multiply" => more_ops::op_multiply,
        "op_div" => more_ops::op_div,
        "op_divmod" => more_ops::op_divmod,
        "op_mod" => more_ops::op_mod,
        "op_modpow" => more_ops::op_modpow,
        "op_gr" => more_ops::op_gr,
        "op_gr_bytes" => more_ops::op_gr_bytes,
        "op_strlen" => more_ops::op_strlen,
        "op_substr" => more_ops::op_substr,
        "op_concat" => more_ops::op_concat,
        "op_ash" => more_ops::op_ash,
        "op_lsh" => more_ops::op_lsh,
        "op_logand" => more_ops::op_logand,
        "op_logior" => more_ops::op_logior,
        "op_logxor" => more_ops::op_logxor,
        "op_lognot" => more_ops::op_lognot,
        "op_not" => more_ops::op_not,
        "op_any" => more_ops::op_any,
        "op_all" => more_ops::op_all,
        "op_sha256" => more_ops::op_sha256,
        "op_sha256_tree" => sha_tree_op::op_sha256_tree,
        _ => return None,
    })
}

/// like util::parse_tree, but every atom is built through `mk`
fn parse_tree_with(a: &mut Allocator, s: &str, mk: &dyn Fn(&mut Allocator, &[u8]) -> NodePtr) -> NodePtr {
    enum It { Pair, Node(NodePtr) }
    let b = s.as_bytes();
    let mut i = 0;
    let mut st: Vec<It> = Vec::new();
    loop {
        let node = match b[i] {
            b'p' => { i += 1; st.push(It::Pair); continue; }
            b'a' => {
                let j = i + 1 + s[i + 1..].find(';').unwrap();
                let bytes = hex::decode(&s[i + 1..j]).unwrap();
                i = j + 1;
                mk(a, &bytes)
            }
            b'z' => {
                let j = i + 1 + s[i + 1..].find(';').unwrap();
                let body = &s[i + 1..j];
                let (h, n) = body.split_once('*').unwrap();
                let byte = u8::from_str_radix(h, 16).unwrap();
                let n: usize = n.parse().unwrap();
                i = j + 1;
                mk(a, &vec![byte; n])
            }
            c => panic!("bad tree char {c}"),
        };
        let mut cur = node;
        loop {
            match st.pop() {
                None => return cur,
                Some(It::Pair) => { st.push(It::Pair); st.push(It::Node(cur)); break; }
                Some(It::Node(left)) => {
                    match st.pop() { Some(It::Pair) => {}, _ => panic!("bad tree") }
                    cur = a.new_pair(left, cur).unwrap();
                }
            }
        }
    }
}

fn mk_view(a: &mut Allocator, b: &[u8]) -> NodePtr {
    let mut v = vec![0xeeu8; 5];
    v.extend_from_slice(b);
    v.extend_from_slice(&[0xee; 5]);
    let big = a.new_atom(&v).unwrap();
    a.new_substr(big, 5, 5 + b.len() as u32).unwrap()
}

fn mk_concat(a: &mut Allocator, b: &[u8]) -> NodePtr {
    if b.len() < 2 { return mk_view(a, b); }
    let h = b.len() / 2;
    let x = a.new_atom(&b[..h]).unwrap();
    let y = a.new_atom(&b[h..]).unwrap();
    a.new_concat(b.len(), &[x, y]).unwrap()
}

fn show(a: &Allocator, r: Response) -> String {
    match r {
        Ok(Reduction(cost, node)) => format!("ok {} {}", cost, show_tree_short(a, node)),
        Err(e) => format!("err {}", err_name(&e)),
    }
}

fn call(a: &mut Allocator, name: &str, flags: ClvmFlags, max_cost: Cost, args: NodePtr) -> String {
    if let Some(hexop) = name.strip_prefix("unknown:") {
        let o = a.new_atom(&crate::unhex(hexop)).unwrap();
        let r = more_ops::op_unknown(a, o, args, max_cost, flags);
        return show(a, r);
    }
    if let Some(hexop) = name.strip_prefix("strict:") {
        // chia_dialect.rs unknown_operator is private; this is its body
        let o = a.new_atom(&crate::unhex(hexop)).unwrap();
        let r = if flags.contains(ClvmFlags::NO_UNKNOWN_OPS) {
            Err(clvmr::error::EvalErr::Unimplemented(o))
        } else {
            more_ops::op_unknown(a, o, args, max_cost, flags)
        };
        return show(a, r);
    }
    let f = lookup(name).unwrap_or_else(|| panic!("unknown operator name {name}"));
    let r = f(a, args, max_cost, flags);
    show(a, r)
}

pub fn run(t: &[&str]) -> String {
    match t[0] {
        "op" => {
            let flags = ClvmFlags::from_bits_truncate(t[2].parse::<u32>().unwrap());
            let max_cost: Cost = t[3].parse().unwrap();
            let mut a = Allocator::new();
            let args = parse_tree(&mut a, t[4]);
            call(&mut a, t[1], flags, max_cost, args)
        }
        "opv" => {
            let mode: u32 = t[1].parse().unwrap();
            let flags = ClvmFlags::from_bits_truncate(t[3].parse::<u32>().unwrap());
            let max_cost: Cost = t[4].parse().unwrap();
            let mut a = Allocator::new();
            let args = if mode == 1 { parse_tree_with(&mut a, t[5], &mk_view) }
                       else { parse_tree_with(&mut a, t[5], &mk_concat) };
            call(&mut a, t[2], flags, max_cost, args)
        }
        "ul" => {
            let flags = ClvmFlags::from_bits_truncate(t[2].parse::<u32>().unwrap());
            let max_cost: Cost = t[3].parse().unwrap();
            let mut a = Allocator::new();
            let items: Vec<&str> = if t[4] == "-" { vec![] } else { t[4].split(',').collect() };
            let maxlen = items.iter().filter(|x| **x != "p").map(|x| x.parse::<usize>().unwrap()).max().unwrap_or(0);
            // at least 5 bytes so that the buffer is a heap atom and every view is a Bytes node
            let big = a.new_atom(&vec![0x41u8; maxlen.max(5)]).unwrap();
            let mut args = a.nil();
            for it in items.iter().rev() {
                let n = if *it == "p" { a.new_pair(big, big).unwrap() }
                        else { a.new_substr(big, 0, it.parse::<u32>().unwrap()).unwrap() };
                args = a.new_pair(n, args).unwrap();
            }
            let o = a.new_atom(&crate::unhex(t[1])).unwrap();
            let r = more_ops::op_unknown(&mut a, o, args, max_cost, flags);
            show(&a, r)
        }
        _ => panic!("bad ops case"),
    }
}
