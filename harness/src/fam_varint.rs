// family "varint": cases
//   w <decimal i64>            -> "ok <hex>" | panic
//   r <strict 0|1> <hex>       -> "ok <value> <resthex>" | "err"
use crate::{tohex, unhex};
use clvmr::serde_2026::{read_varint, write_varint};
use std::io::Cursor;

pub fn run(t: &[&str]) -> String {
    match t[0] {
        "w" => {
            let v: i64 = t[1].parse().unwrap();
            let mut buf = Vec::new();
            write_varint(&mut buf, v).unwrap();
            format!("ok {}", tohex(&buf))
        }
        "r" => {
            let strict = t[1] == "1";
            let b = unhex(t[2]);
            let mut c = Cursor::new(&b[..]);
            match read_varint(&mut c, strict) {
                Ok(v) => {
                    let pos = c.position() as usize;
                    format!("ok {} {}", v, tohex(&b[pos..]))
                }
                Err(_) => "err".to_string(),
            }
        }
        _ => panic!("bad varint case"),
    }
}
