// family "incr": histories of Serializer::add / Serializer::restore (src/serde/incremental.rs).
//
// case line:   hist <sentinel> <nodes> <ops> [<ignored: data for the model>]
//   sentinel := P (a fresh pair (nil . nil)) | H (a fresh 9-byte heap atom) | N (Serializer::new(None))
//   nodes    := defs separated by ';'  — def i is  a<HEX>  (atom)  or  p<l>.<r>  (pair; l, r = index of
//               an earlier def, or 's' for the sentinel NodePtr). One NodePtr per def: a def used twice is
//               the same NodePtr twice (a DAG), equal defs are different NodePtrs. "-" = no defs.
//   ops      := ops separated by ','  — A<i> (add node i; As = add the sentinel itself),
//               U<k> (restore the UndoState returned by the k-th add of this history, k from 0)
// observation: one item per op, separated by '|':
//   add      a:<0|1 done>:<size>:<hex of get_ref()>   followed, when done, by
//            :dec=<tree decoded by node_from_bytes_backrefs>:old=<same by node_from_bytes_backrefs_old>
//   restore  u:<size>:<hex of get_ref()>
// The history is run three times (a second Serializer — hence another random salt and hasher
// state — over the same NodePtrs, and a third one in a differently populated allocator); if any
// observation differs the line ends with " SALT-DIFF <run> <first differing op>: <observation>".
use crate::util::*;
use crate::{tohex, unhex};
use clvmr::allocator::{Allocator, NodePtr};
use clvmr::serde::{node_from_bytes_backrefs, node_from_bytes_backrefs_old, Serializer, UndoState};

fn build_nodes(a: &mut Allocator, sentinel: Option<NodePtr>, defs: &str) -> Vec<NodePtr> {
    let mut v: Vec<NodePtr> = Vec::new();
    if defs == "-" { return v; }
    for d in defs.split(';') {
        if d.is_empty() { continue; }
        let n = match d.as_bytes()[0] {
            b'a' => a.new_atom(&unhex(if d.len() == 1 { "-" } else { &d[1..] })).unwrap(),
            b'p' => {
                let (l, r) = d[1..].split_once('.').unwrap();
                let get = |s: &str| -> NodePtr {
                    if s == "s" { sentinel.expect("sentinel used without one") } else { v[s.parse::<usize>().unwrap()] }
                };
                let (l, r) = (get(l), get(r));
                a.new_pair(l, r).unwrap()
            }
            c => panic!("bad node def {c}"),
        };
        v.push(n);
    }
    v
}

fn decode(b: &[u8]) -> String {
    let mut d = Allocator::new();
    let s1 = match node_from_bytes_backrefs(&mut d, b) {
        Ok(n) => show_tree(&d, n),
        Err(e) => format!("err-{}", err_name(&e)),
    };
    let mut d2 = Allocator::new();
    let s2 = match node_from_bytes_backrefs_old(&mut d2, b) {
        Ok(n) => show_tree(&d2, n),
        Err(e) => format!("err-{}", err_name(&e)),
    };
    format!(":dec={s1}:old={s2}")
}

fn run_history(a: &Allocator, sentinel: Option<NodePtr>, nodes: &[NodePtr], ops: &str) -> Vec<String> {
    let mut ser = Serializer::new(sentinel);
    let mut undo: Vec<UndoState> = Vec::new();
    let mut obs = Vec::new();
    for op in ops.split(',') {
        if op.is_empty() { continue; }
        match op.as_bytes()[0] {
            b'A' => {
                let node = if &op[1..] == "s" { sentinel.unwrap() } else { nodes[op[1..].parse::<usize>().unwrap()] };
                match ser.add(a, node) {
                    Ok((done, st)) => {
                        undo.push(st);
                        let mut s = format!("a:{}:{}:{}", done as u8, ser.size(), tohex(ser.get_ref()));
                        if done { s.push_str(&decode(ser.get_ref())); }
                        obs.push(s);
                    }
                    Err(e) => { obs.push(format!("a:err:{}", err_name(&e))); return obs; }
                }
            }
            b'U' => {
                let k: usize = op[1..].parse().unwrap();
                ser.restore(undo[k].clone());
                obs.push(format!("u:{}:{}", ser.size(), tohex(ser.get_ref())));
            }
            c => panic!("bad op {c}"),
        }
    }
    obs
}

fn sentinel_of(a: &mut Allocator, kind: &str) -> Option<NodePtr> {
    match kind {
        "P" => Some(a.new_pair(NodePtr::NIL, NodePtr::NIL).unwrap()),
        "H" => Some(a.new_atom(b"SENTINEL!").unwrap()),
        "N" => None,
        _ => panic!("bad sentinel kind"),
    }
}

pub fn run(t: &[&str]) -> String {
    match t[0] {
        "hist" => {
            let mut a = Allocator::new();
            let sentinel = sentinel_of(&mut a, t[1]);
            let nodes = build_nodes(&mut a, sentinel, t[2]);
            let o1 = run_history(&a, sentinel, &nodes, t[3]);
            // a second serializer (fresh salt, fresh hasher state) over the same NodePtrs
            let o2 = run_history(&a, sentinel, &nodes, t[3]);
            // and a third in a differently populated allocator
            let mut a3 = Allocator::new();
            let _junk = a3.new_atom(b"some unrelated atom first").unwrap();
            let _junk2 = a3.new_pair(_junk, _junk).unwrap();
            let sentinel3 = sentinel_of(&mut a3, t[1]);
            let nodes3 = build_nodes(&mut a3, sentinel3, t[2]);
            let o3 = run_history(&a3, sentinel3, &nodes3, t[3]);
            let mut out = o1.join("|");
            for (k, o) in [(2, &o2), (3, &o3)] {
                if *o != o1 {
                    let i = o.iter().zip(o1.iter()).position(|(x, y)| x != y).unwrap_or(o.len().min(o1.len()));
                    out.push_str(&format!(" SALT-DIFF {} {}: {}", k, i, o.get(i).map(|s| s.as_str()).unwrap_or("missing")));
                    break;
                }
            }
            out
        }
        _ => panic!("bad incr case"),
    }
}
