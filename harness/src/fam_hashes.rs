// family "hashes": every Rust tree hasher on the same tree.
use crate::fam_intern::parse_dag;
use crate::util::*;
use clvmr::allocator::Allocator;
use clvmr::chia_dialect::ClvmFlags;
use clvmr::reduction::Reduction;
use clvmr::serde::{intern_tree, node_to_bytes_limit, parse_triples, tree_hash_from_stream, treehash, ObjectCache};
use clvmr::sha_tree_op::op_sha256_tree;
use clvmr::treehash::tree_hash_costed;
use std::io::Cursor;

pub fn run(t: &[&str]) -> String {
    match t[0] {
        // all: hash + the two costs; `max` (optional 3rd token) is cost_remaining for the costed hashers
        "all" => {
            let mut a = Allocator::new();
            let n = parse_dag(&mut a, t[1]);
            let mut hs: Vec<(&str, String)> = Vec::new();
            let mut costs = Vec::new();
            for flags in [ClvmFlags::empty(), ClvmFlags::NEW_COST_MODEL] {
                match tree_hash_costed(&mut a, n, u64::MAX, flags) {
                    Ok(Reduction(c, r)) => { hs.push(("costed", hex::encode(a.atom(r).as_ref()))); costs.push(c.to_string()); }
                    Err(e) => return format!("err costed {}", err_name(&e)),
                }
                let nil = a.nil();
                let args = a.new_pair(n, nil).unwrap();
                match op_sha256_tree(&mut a, args, u64::MAX, flags) {
                    Ok(Reduction(c, r)) => { hs.push(("operator", hex::encode(a.atom(r).as_ref()))); costs.push(c.to_string()); }
                    Err(e) => return format!("err operator {}", err_name(&e)),
                }
            }
            let mut thc = ObjectCache::new(treehash);
            hs.push(("object_cache", hex::encode(&thc.get_or_calculate(&a, &n, None).unwrap()[..])));
            match intern_tree(&a, n) {
                Ok(it) => hs.push(("interned", hex::encode(it.tree_hash()))),
                Err(e) => return format!("err intern {}", err_name(&e)),
            }
            let ser = node_to_bytes_limit(&a, n, usize::MAX).unwrap();
            let mut c = Cursor::new(&ser[..]);
            match tree_hash_from_stream(&mut c) {
                Ok(h) => hs.push(("from_stream", hex::encode(h))),
                Err(e) => return format!("err from_stream {}", err_name(&e)),
            }
            let mut c = Cursor::new(&ser[..]);
            match parse_triples(&mut c, true) {
                Ok((_, Some(v))) if !v.is_empty() => hs.push(("parse_triples", hex::encode(v[0]))),
                Ok(_) => return "err parse_triples nohash".to_string(),
                Err(e) => return format!("err parse_triples {}", err_name(&e)),
            }
            let first = hs[0].1.clone();
            if hs.iter().all(|x| x.1 == first) && costs[0] == costs[1] && costs[2] == costs[3] {
                format!("ok h={} cost={},{} agree=true", first, costs[0], costs[2])
            } else {
                let d: Vec<String> = hs.iter().map(|x| format!("{}={}", x.0, x.1)).collect();
                format!("DISAGREE {} costs={}", d.join(" "), costs.join(","))
            }
        }
        // the costed hasher against a budget
        "budget" => {
            let ncm = t[1] == "1";
            let max: u64 = t[2].parse().unwrap();
            let mut a = Allocator::new();
            let n = parse_dag(&mut a, t[3]);
            let flags = if ncm { ClvmFlags::NEW_COST_MODEL } else { ClvmFlags::empty() };
            match tree_hash_costed(&mut a, n, max, flags) {
                Ok(Reduction(c, r)) => format!("ok {} {}", c, hex::encode(a.atom(r).as_ref())),
                Err(e) => format!("err {}", err_name(&e)),
            }
        }
        _ => panic!("bad hashes case"),
    }
}
