// family "classic": classic serializer / decoders / length probes / canonical test
use crate::util::*;
use crate::{tohex, unhex};
use clvmr::allocator::Allocator;
use clvmr::serde::{
    is_canonical_serialization, node_from_stream, node_to_bytes, node_to_bytes_limit, parse_triples,
    serialized_length_from_bytes, serialized_length_from_bytes_trusted, tree_hash_from_stream, ObjectCache,
    ParsedTriple,
};
use std::io::Cursor;

fn res_bytes(r: clvmr::error::Result<Vec<u8>>) -> String {
    match r { Ok(b) => format!("ok {}", digest(&b)), Err(e) => format!("err {}", err_name(&e)) }
}

pub fn run(t: &[&str]) -> String {
    match t[0] {
        "ser" => {
            let mut a = Allocator::new();
            let n = parse_tree(&mut a, t[1]);
            res_bytes(node_to_bytes(&a, n))
        }
        "serl" => {
            let limit: usize = t[1].parse().unwrap();
            let mut a = Allocator::new();
            let n = parse_tree(&mut a, t[2]);
            res_bytes(node_to_bytes_limit(&a, n, limit))
        }
        "de" => {
            let b = unhex(t[1]);
            let mut a = Allocator::new();
            let mut c = Cursor::new(&b[..]);
            match node_from_stream(&mut a, &mut c) {
                Ok(n) => format!("ok {} {}", show_tree_short(&a, n), c.position()),
                Err(e) => format!("err {}", err_name(&e)),
            }
        }
        "th" => {
            let b = unhex(t[1]);
            let mut c = Cursor::new(&b[..]);
            match tree_hash_from_stream(&mut c) {
                Ok(h) => format!("ok {} {}", hex::encode(h), c.position()),
                Err(e) => format!("err {}", err_name(&e)),
            }
        }
        "tr" => {
            let b = unhex(t[1]);
            let mut out = Vec::new();
            for calc in [true, false] {
                let mut c = Cursor::new(&b[..]);
                match parse_triples(&mut c, calc) {
                    Ok((tr, hs)) => {
                        let mut s = String::new();
                        for x in &tr {
                            match x {
                                ParsedTriple::Atom { start, end, atom_offset } => s.push_str(&format!("A{start},{end},{atom_offset};")),
                                ParsedTriple::Pair { start, end, right_index } => s.push_str(&format!("P{start},{end},{right_index};")),
                            }
                        }
                        let hh = match hs {
                            Some(v) => { let mut all = Vec::new(); for h in &v { all.extend_from_slice(h); } format!("{}:{:016x}", v.len(), fnv64(&all)) }
                            None => "nohash".to_string(),
                        };
                        let s = if s.len() <= 300 { s } else { format!("R#{}:{:016x}", s.len(), fnv64(s.as_bytes())) };
                        out.push(format!("ok {} {} {}", s, hh, c.position()));
                    }
                    Err(e) => out.push(format!("err {}", err_name(&e))),
                }
            }
            // the non-hashing run must give the same triples
            let a0 = out[0].split(' ').collect::<Vec<_>>();
            let a1 = out[1].split(' ').collect::<Vec<_>>();
            if a0[0] != a1[0] || (a0[0] == "ok" && (a0[1] != a1[1] || a0[3] != a1[3])) {
                return format!("MISMATCH-calc {} | {}", out[0], out[1]);
            }
            out[0].clone()
        }
        "canon" => {
            let b = unhex(t[1]);
            format!("ok {}", is_canonical_serialization(&b))
        }
        "tlen" => {
            let b = unhex(t[1]);
            match serialized_length_from_bytes_trusted(&b) { Ok(n) => format!("ok {n}"), Err(e) => format!("err {}", err_name(&e)) }
        }
        "ulen" => {
            let b = unhex(t[1]);
            match serialized_length_from_bytes(&b) { Ok(n) => format!("ok {n}"), Err(e) => format!("err {}", err_name(&e)) }
        }
        "clen" => {
            let mut a = Allocator::new();
            let n = parse_tree(&mut a, t[1]);
            let mut slc = ObjectCache::new(clvmr::serde::serialized_length);
            match slc.get_or_calculate(&a, &n, None) { Some(v) => format!("ok {v}"), None => "err none".to_string() }
        }
        // everything the property ties together for one tree, computed on the implementation alone
        "tree" => {
            let mut a = Allocator::new();
            let n = parse_tree(&mut a, t[1]);
            let ser = match node_to_bytes_limit(&a, n, usize::MAX) { Ok(b) => b, Err(e) => return format!("err {}", err_name(&e)) };
            let mut a2 = Allocator::new();
            let mut c = Cursor::new(&ser[..]);
            let rt = match node_from_stream(&mut a2, &mut c) {
                Ok(m) => (show_tree(&a2, m) == show_tree(&a, n)) && c.position() as usize == ser.len(),
                Err(_) => false,
            };
            let canon = is_canonical_serialization(&ser);
            let tl = serialized_length_from_bytes_trusted(&ser).ok();
            let ul = serialized_length_from_bytes(&ser).ok();
            let mut slc = ObjectCache::new(clvmr::serde::serialized_length);
            let cl = slc.get_or_calculate(&a, &n, None).copied();
            format!("ok {} rt={} canon={} tlen={:?} ulen={:?} clen={:?} len={}", digest(&ser), rt, canon, tl, ul, cl, ser.len())
        }
        "serb" => {
            let mut a = Allocator::new();
            let n = parse_tree(&mut a, t[1]);
            res_bytes(clvmr::serde::node_to_bytes_backrefs(&a, n))
        }
        "serbl" => {
            let limit: usize = t[1].parse().unwrap();
            let mut a = Allocator::new();
            let n = parse_tree(&mut a, t[2]);
            res_bytes(clvmr::serde::node_to_bytes_backrefs_limit(&a, n, limit))
        }
        // all decoders on one byte string, cross-checked on the implementation alone
        "agree" => {
            let b = unhex(t[1]);
            let mut a = Allocator::new();
            let mut c1 = Cursor::new(&b[..]);
            let r1 = node_from_stream(&mut a, &mut c1);
            let mut c2 = Cursor::new(&b[..]);
            let r2 = tree_hash_from_stream(&mut c2);
            let mut c3 = Cursor::new(&b[..]);
            let r3 = parse_triples(&mut c3, true);
            let canon = is_canonical_serialization(&b);
            let oks = (r1.is_ok(), r2.is_ok(), r3.is_ok());
            if oks != (true, true, true) && oks != (false, false, false) {
                return format!("DISAGREE accept-sets node_from_bytes={} tree_hash_from_stream={} parse_triples={}", oks.0, oks.1, oks.2);
            }
            let Ok(n) = r1 else { return "ok all-reject".to_string(); };
            let h2 = r2.unwrap();
            let (tr, hs) = r3.unwrap();
            let hs = hs.unwrap();
            if c1.position() != c2.position() || c1.position() != c3.position() {
                return format!("DISAGREE consumed {} {} {}", c1.position(), c2.position(), c3.position());
            }
            let th = clvmr::serde::treehash;
            let mut thc = ObjectCache::new(th);
            let h1 = *thc.get_or_calculate(&a, &n, None).unwrap();
            if h1[..] != h2[..] || hs.is_empty() || hs[0][..] != h2[..] {
                return format!("DISAGREE tree-hash node={} stream={} triples={}", hex::encode(&h1[..]), hex::encode(h2), if hs.is_empty() { "none".into() } else { hex::encode(hs[0]) });
            }
            // rebuild the tree described by the triples and compare with the decoded node
            fn rebuild(tr: &[ParsedTriple], b: &[u8], i: usize, out: &mut String, depth: usize) -> bool {
                if depth > 5000 || i >= tr.len() { return false; }
                match &tr[i] {
                    ParsedTriple::Atom { start, end, atom_offset } => {
                        let (s, e) = (*start as usize + *atom_offset as usize, *end as usize);
                        if s > e || e > b.len() { return false; }
                        out.push('a'); out.push_str(&hex::encode(&b[s..e])); out.push(';'); true
                    }
                    ParsedTriple::Pair { start, right_index, .. } => {
                        if b.get(*start as usize) != Some(&0xff) { return false; }
                        out.push('p');
                        rebuild(tr, b, i + 1, out, depth + 1) && rebuild(tr, b, *right_index as usize, out, depth + 1)
                    }
                }
            }
            let mut s3 = String::new();
            if !rebuild(&tr, &b, 0, &mut s3, 0) || s3 != show_tree(&a, n) {
                return format!("DISAGREE triples-structure {} vs {}", s3, show_tree(&a, n));
            }
            // every triple's hash is the tree hash of the sub-tree it describes: check via ends
            let reser = node_to_bytes_limit(&a, n, usize::MAX);
            let expect_canon = c1.position() as usize == b.len() && reser.as_ref().map(|x| &x[..] == &b[..]).unwrap_or(false);
            if canon != expect_canon {
                return format!("DISAGREE canonical is_canonical={} whole-input-reserializes={}", canon, expect_canon);
            }
            format!("ok accept canon={}", canon)
        }
        _ => panic!("bad classic case"),
    }
}
