// family "alloc": a whole allocator history per case line, one observation per step.
//
// case line:  run <f2fix> <heap_limit> <op> <op> ...      (f2fix is only read by the model)
//   a,HEX  new_atom            s,N  new_small_number     u,N  new_u64        i,Z  new_i64
//   n,Z    new_number          m,Z  new_malachite_number p,I,J new_pair      b,I,S,E new_substr
//   c,SIZE[,I...] new_concat   ga,N add_ghost_atom       gp,N add_ghost_pair rp,N remove_ghost_pair
//   k checkpoint   t transparent_checkpoint   r,K restore_checkpoint   rt,K restore_transparent_checkpoint
//   mr,K,I maybe_restore_with_node
//   A,I atom   L,I atom_len   E,I,J atom_eq   S,I small_number   N,I number (and malachite_number)
//   X,I sexp   V,I node
// I/J index the list of nodes returned so far (a restore cuts it back to its length at checkpoint
// time), K indexes the live checkpoints, newest first (a restore to K drops the K newer ones).
// observation: per step  <result>/<atom_count>,<pair_count>,<heap_size>/<digest of all live nodes>
// A panic ends the history with the step result "P".
use crate::util::*;
use crate::{tohex, unhex};
use clvmr::allocator::{Allocator, Checkpoint, MaybeRestore, NodePtr, NodeVisitor, SExp, TransparentCheckpoint};
use clvmr::error::EvalErr;
use clvmr::number::{Malachite, Number};
use std::panic::{catch_unwind, AssertUnwindSafe};

enum Cp {
    Full(Checkpoint, usize),
    Trans(TransparentCheckpoint, usize),
}

// error kinds with the site numbers of coq/Model/Alloc.v
fn err_code(e: &EvalErr) -> String {
    match e {
        EvalErr::InternalError(_, m) => {
            let c = match m.as_str() {
                "substr expected atom, got pair" => 1,
                "concat passed invalid new_size" => 2,
                "concat expected atom, got pair" => 3,
                "ghost atom accounting error" => 4,
                "invalid atom byte range" => 5,
                "ghost heap accounting error" => 6,
                _ => 99,
            };
            format!("InternalError[{c}]")
        }
        EvalErr::InvalidAllocArg(_, m) => {
            let c = if m.starts_with("substr start out of bounds") { 1 }
                else if m.starts_with("substr end out of bounds") { 2 }
                else if m.starts_with("substr invalid bounds") { 3 }
                else { 99 };
            format!("InvalidAllocArg[{c}]")
        }
        _ => err_name(e),
    }
}

fn tree(a: &Allocator, n: NodePtr) -> String { show_tree_short(a, n) }

fn digest_all(a: &Allocator, nodes: &[NodePtr]) -> String {
    let mut h: u64 = 0xcbf29ce484222325;
    for n in nodes {
        let s = show_tree(a, *n);
        for x in s.as_bytes().iter().chain(b"|".iter()) {
            h ^= *x as u64;
            h = h.wrapping_mul(0x100000001b3);
        }
    }
    format!("{:016x}", h)
}

struct St {
    a: Allocator,
    nodes: Vec<NodePtr>,
    cps: Vec<Cp>, // oldest first; index K from the case line counts from the end
}

fn idx(t: &str) -> usize { t.parse::<usize>().unwrap() }

fn node_res(st: &mut St, r: clvmr::error::Result<NodePtr>) -> String {
    match r {
        Ok(n) => { st.nodes.push(n); format!("n:{}", tree(&st.a, n)) }
        Err(e) => format!("e:{}", err_code(&e)),
    }
}
fn unit_res(r: clvmr::error::Result<()>) -> String {
    match r { Ok(()) => "u".into(), Err(e) => format!("e:{}", err_code(&e)) }
}

fn step(st: &mut St, tok: &str) -> String {
    let f: Vec<&str> = tok.split(',').collect();
    let nn = st.nodes.len();
    let get = |i: &str| -> Option<NodePtr> { let k = idx(i); if k < nn { Some(st.nodes[k]) } else { None } };
    match f[0] {
        "a" => { let b = unhex(f[1]); let r = st.a.new_atom(&b); node_res(st, r) }
        "s" => { let v: u32 = f[1].parse().unwrap(); let r = st.a.new_small_number(v); node_res(st, r) }
        "u" => { let v: u64 = f[1].parse().unwrap(); let r = st.a.new_u64(v); node_res(st, r) }
        "i" => { let v: i64 = f[1].parse().unwrap(); let r = st.a.new_i64(v); node_res(st, r) }
        "n" => { let v: Number = f[1].parse().unwrap(); let r = st.a.new_number(v); node_res(st, r) }
        "m" => { let v: Malachite = f[1].parse().unwrap(); let r = st.a.new_malachite_number(v); node_res(st, r) }
        "p" => match (get(f[1]), get(f[2])) {
            (Some(x), Some(y)) => { let r = st.a.new_pair(x, y); node_res(st, r) }
            _ => "skip".into(),
        },
        "b" => match get(f[1]) {
            Some(x) => {
                let s: u32 = f[2].parse().unwrap();
                let e: u32 = f[3].parse().unwrap();
                let r = st.a.new_substr(x, s, e);
                node_res(st, r)
            }
            None => "skip".into(),
        },
        "c" => {
            let size: usize = f[1].parse().unwrap();
            let mut xs = Vec::new();
            for i in &f[2..] {
                match get(i) { Some(x) => xs.push(x), None => return "skip".into() }
            }
            let r = st.a.new_concat(size, &xs);
            node_res(st, r)
        }
        "ga" => unit_res(st.a.add_ghost_atom(idx(f[1]))),
        "gp" => unit_res(st.a.add_ghost_pair(idx(f[1]))),
        "rp" => unit_res(st.a.remove_ghost_pair(idx(f[1]))),
        "k" => { let c = st.a.checkpoint(); st.cps.push(Cp::Full(c, nn)); "u".into() }
        "t" => { let c = st.a.transparent_checkpoint(); st.cps.push(Cp::Trans(c, nn)); "u".into() }
        "r" | "rt" => {
            let k = idx(f[1]);
            if k >= st.cps.len() { return "skip".into(); }
            let pos = st.cps.len() - 1 - k;
            let nl = match (&st.cps[pos], f[0]) {
                (Cp::Full(c, nl), "r") => { st.a.restore_checkpoint(c); *nl }
                (Cp::Trans(c, nl), "rt") => { st.a.restore_transparent_checkpoint(c); *nl }
                _ => return "skip".into(),
            };
            st.nodes.truncate(nl);
            st.cps.truncate(pos + 1);
            "u".into()
        }
        "mr" => {
            let k = idx(f[1]);
            if k >= st.cps.len() { return "skip".into(); }
            let pos = st.cps.len() - 1 - k;
            let Some(x) = get(f[2]) else { return "skip".into() };
            let (r, nl) = match &st.cps[pos] {
                Cp::Trans(c, nl) => (st.a.maybe_restore_with_node(c, x), *nl),
                _ => return "skip".into(),
            };
            st.nodes.truncate(nl);
            st.cps.truncate(pos + 1);
            match r {
                Ok(MaybeRestore::NoReplace) => { st.nodes.push(x); format!("m0:{}", tree(&st.a, x)) }
                Ok(MaybeRestore::Replace(n)) => { st.nodes.push(n); format!("m1:{}", tree(&st.a, n)) }
                Ok(MaybeRestore::Aborted) => { st.nodes.push(x); format!("m2:{}", tree(&st.a, x)) }
                Err(e) => format!("e:{}", err_code(&e)),
            }
        }
        "A" => match get(f[1]) { Some(x) => format!("b:{}", tohex(st.a.atom(x).as_ref())), None => "skip".into() },
        "L" => match get(f[1]) { Some(x) => format!("l:{}", st.a.atom_len(x)), None => "skip".into() },
        "E" => match (get(f[1]), get(f[2])) {
            (Some(x), Some(y)) => format!("q:{}", if st.a.atom_eq(x, y) { 1 } else { 0 }),
            _ => "skip".into(),
        },
        "S" => match get(f[1]) {
            Some(x) => match st.a.small_number(x) { Some(v) => format!("o:{v}"), None => "o:none".into() },
            None => "skip".into(),
        },
        "N" => match get(f[1]) {
            Some(x) => {
                let n = st.a.number(x).to_string();
                let m = st.a.malachite_number(x).to_string();
                if n == m { format!("z:{n}") } else { format!("z:MISMATCH-{n}-{m}") }
            }
            None => "skip".into(),
        },
        "X" => match get(f[1]) {
            Some(x) => match st.a.sexp(x) {
                SExp::Atom => "xa".into(),
                SExp::Pair(l, r) => format!("xp:{},{}", tree(&st.a, l), tree(&st.a, r)),
            },
            None => "skip".into(),
        },
        "V" => match get(f[1]) {
            Some(x) => match st.a.node(x) {
                NodeVisitor::Buffer(b) => format!("vb:{}", tohex(b)),
                NodeVisitor::U32(v) => format!("vu:{v}"),
                NodeVisitor::Pair(l, r) => format!("xp:{},{}", tree(&st.a, l), tree(&st.a, r)),
            },
            None => "skip".into(),
        },
        _ => panic!("bad op token {tok}"),
    }
}

pub fn run(t: &[&str]) -> String {
    match t[0] {
        "run" => {
            let limit: usize = t[2].parse().unwrap();
            let a = match catch_unwind(|| Allocator::new_limited(limit)) {
                Ok(a) => a,
                Err(_) => return "P".into(),
            };
            let mut st = St { a, nodes: Vec::new(), cps: Vec::new() };
            let mut out: Vec<String> = Vec::new();
            for tok in &t[3..] {
                let r = catch_unwind(AssertUnwindSafe(|| {
                    let r = step(&mut st, tok);
                    format!("{}/{},{},{}/{}", r, st.a.atom_count(), st.a.pair_count(), st.a.heap_size(),
                            digest_all(&st.a, &st.nodes))
                }));
                match r {
                    Ok(s) => out.push(s),
                    Err(_) => { out.push("P".into()); break; }
                }
            }
            if out.is_empty() { "-".into() } else { out.join(" ") }
        }
        _ => "skip".into(),
    }
}
