// vharness: runs the clvm_rs implementation on case lines read from stdin and prints one
// canonical observation line per case. Every call is wrapped in catch_unwind.
use std::io::{BufRead, Write};
use std::panic::{catch_unwind, AssertUnwindSafe};

pub mod util;
include!(concat!(env!("OUT_DIR"), "/fams.rs"));

pub fn unhex(s: &str) -> Vec<u8> {
    if s == "-" { return vec![]; }
    hex::decode(s).expect("bad hex in case line")
}
pub fn tohex(b: &[u8]) -> String {
    if b.is_empty() { "-".to_string() } else { hex::encode(b) }
}

fn main() {
    std::panic::set_hook(Box::new(|_| {}));
    let args: Vec<String> = std::env::args().collect();
    let fam = args.get(1).map(|s| s.as_str()).unwrap_or("");
    let stdin = std::io::stdin();
    let stdout = std::io::stdout();
    let mut out = std::io::BufWriter::new(stdout.lock());
    for line in stdin.lock().lines() {
        let line = line.unwrap();
        let line = line.trim();
        if line.is_empty() || line.starts_with('#') { continue; }
        let toks: Vec<&str> = line.split_whitespace().collect();
        let r = catch_unwind(AssertUnwindSafe(|| dispatch(fam, &toks)));
        match r {
            Ok(s) => writeln!(out, "{s}").unwrap(),
            Err(e) => {
                let msg = if let Some(s) = e.downcast_ref::<String>() { s.clone() }
                          else if let Some(s) = e.downcast_ref::<&str>() { s.to_string() }
                          else { "?".to_string() };
                writeln!(out, "panic {}", msg.replace('\n', " ")).unwrap()
            }
        }
    }
}
