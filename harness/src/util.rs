// shared helpers: tree transport format, error names, digests
//
// tree transport format (independent of every serializer under test):
//   tree := 'p' tree tree | 'a' HEX ';' | 'z' HEXBYTE '*' DECIMAL ';'      ("a;" is nil)
use clvmr::allocator::{Allocator, NodePtr, SExp};
use clvmr::error::EvalErr;

pub fn err_name(e: &EvalErr) -> String {
    match e {
        EvalErr::SerializationError => "SerializationError".into(),
        EvalErr::SerializationBackreferenceError => "SerializationBackrefError".into(),
        EvalErr::OutOfMemory => "OutOfMemory".into(),
        EvalErr::PathIntoAtom => "PathIntoAtom".into(),
        EvalErr::TooManyPairs => "TooManyPairs".into(),
        EvalErr::TooManyAtoms => "TooManyAtoms".into(),
        EvalErr::CostExceeded => "CostExceeded".into(),
        EvalErr::UnknownSoftforkExtension => "UnknownSoftforkExtension".into(),
        EvalErr::SoftforkCostMismatch => "SoftforkCostMismatch".into(),
        EvalErr::InternalError(_, m) => format!("InternalError[{}]", m.replace(' ', "_")),
        EvalErr::Raise(_) => "Raise".into(),
        EvalErr::InvalidNilTerminator(_) => "InvalidNilTerminator".into(),
        EvalErr::DivisionByZero(_) => "DivisionByZero".into(),
        EvalErr::ValueStackLimitReached(_) => "ValueStackLimit".into(),
        EvalErr::EnvironmentStackLimitReached(_) => "EnvStackLimit".into(),
        EvalErr::ShiftTooLarge(_) => "ShiftTooLarge".into(),
        EvalErr::Reserved(_) => "Reserved".into(),
        EvalErr::Invalid(_) => "Invalid".into(),
        EvalErr::Unimplemented(_) => "Unimplemented".into(),
        EvalErr::InvalidOpArg(_, m) => format!("InvalidOpArg[{}]", m.replace(' ', "_")),
        EvalErr::InvalidAllocArg(_, m) => format!("InvalidAllocArg[{}]", m.replace(' ', "_")),
        EvalErr::BLSPairingIdentityFailed(_) => "BLSPairingIdentityFailed".into(),
        EvalErr::BLSVerifyFailed(_) => "BLSVerifyFailed".into(),
        EvalErr::Secp256Failed(_) => "Secp256Failed".into(),
        EvalErr::SoftforkStackDepthExceeded => "SoftforkStackDepth".into(),
    }
}

pub fn fnv64(b: &[u8]) -> u64 {
    let mut h: u64 = 0xcbf29ce484222325;
    for x in b {
        h ^= *x as u64;
        h = h.wrapping_mul(0x100000001b3);
    }
    h
}

/// short byte strings are printed in hex, long ones as "#<len>:<fnv64>"
pub fn digest(b: &[u8]) -> String {
    if b.is_empty() { "-".to_string() }
    else if b.len() <= 48 { hex::encode(b) }
    else { format!("#{}:{:016x}", b.len(), fnv64(b)) }
}

pub fn parse_tree(a: &mut Allocator, s: &str) -> NodePtr {
    // iterative: explicit stack of pending pair markers
    enum It { Pair, Node(NodePtr) }
    let b = s.as_bytes();
    let mut i = 0;
    let mut st: Vec<It> = Vec::new();
    loop {
        let node = match b[i] {
            b'p' => { i += 1; st.push(It::Pair); continue; }
            b'a' => {
                let j = i + 1 + s[i + 1..].find(';').unwrap();
                let bytes = hex::decode(&s[i + 1..j]).unwrap();
                i = j + 1;
                a.new_atom(&bytes).unwrap()
            }
            b'z' => {
                let j = i + 1 + s[i + 1..].find(';').unwrap();
                let body = &s[i + 1..j];
                let (h, n) = body.split_once('*').unwrap();
                let byte = u8::from_str_radix(h, 16).unwrap();
                let n: usize = n.parse().unwrap();
                i = j + 1;
                a.new_atom(&vec![byte; n]).unwrap()
            }
            c => panic!("bad tree char {c}"),
        };
        let mut cur = node;
        loop {
            match st.pop() {
                None => return cur,
                Some(It::Pair) => { st.push(It::Pair); st.push(It::Node(cur)); break; }
                Some(It::Node(left)) => {
                    // the marker below must be a Pair
                    match st.pop() { Some(It::Pair) => {}, _ => panic!("bad tree") }
                    cur = a.new_pair(left, cur).unwrap();
                }
            }
        }
    }
}

pub fn show_tree(a: &Allocator, n: NodePtr) -> String {
    let mut out = String::new();
    let mut st = vec![n];
    while let Some(v) = st.pop() {
        match a.sexp(v) {
            SExp::Pair(l, r) => { out.push('p'); st.push(r); st.push(l); }
            SExp::Atom => {
                out.push('a');
                out.push_str(&hex::encode(a.atom(v).as_ref()));
                out.push(';');
            }
        }
    }
    out
}

/// like show_tree but long atoms are digested, and the whole string is digested when long
pub fn show_tree_short(a: &Allocator, n: NodePtr) -> String {
    let s = show_tree(a, n);
    if s.len() <= 200 { s } else { format!("T#{}:{:016x}", s.len(), fnv64(s.as_bytes())) }
}
