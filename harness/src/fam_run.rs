// family "run": run_program under a chosen dialect / flag word / budget / allocator history /
// atom representation.
//
//   gen <hexdata>                         -> "ok <program tree> <env tree>" | "none"
//        (clvm-fuzzing's typed program generator driven by the given bytes)
//   run k=v ... <program tree> <env tree>  -> "ok <cost> <tree> | a=<atoms> p=<pairs> h=<heap>"
//                                          | "err <kind> | msg=<fnv64 of message> a=.. p=.. h=.."
//        keys: d=chia|rt|hide   dialect (rt = RuntimeDialect with the standard table, hide =
//                               ChiaDialect that knows no softfork extension and no 4-byte opcode)
//              f=<u32>          flag word (decimal)
//              m=<u64>          max_cost (0 = unlimited)
//              h=<u64>          0 = fresh allocator; otherwise seed of a prior allocator history
//                               (junk nodes, a failed run, validated BLS points)
//              enc=<u64>        0 = atoms made with new_atom; otherwise seed choosing per atom
//                               inline / heap bytes (concat) / substring view
//              lim=<usize>      heap limit (default u32::MAX)
//              ga=<n> gp=<n>    ghost atoms / pairs pre-loaded before the program is built
//              pre=1            (harness built with the instr feature) run through run_program_with_pre_eval
//                               with an observe-only callback
//   Trees use the transport format of util.rs. The part after " | " is never compared with the
//   model (it depends on how the harness built the inputs), only between implementation runs.
use crate::util::*;
use arbitrary::Unstructured;
use clvm_fuzzing::{make_clvm_program, make_tree_limits};
use clvmr::allocator::{Allocator, NodePtr, SExp};
use clvmr::chia_dialect::{ChiaDialect, ClvmFlags};
use clvmr::cost::Cost;
use clvmr::dialect::{Dialect, OperatorSet};
use clvmr::reduction::{Reduction, Response};
use clvmr::run_program::run_program;
use clvmr::runtime_dialect::RuntimeDialect;
use rand::{Rng, SeedableRng};
use rand_chacha::ChaCha8Rng;
use std::collections::HashMap;

/// ChiaDialect that does not know any softfork extension nor the 4-byte secp opcodes
pub struct Hide(pub ChiaDialect);
impl Dialect for Hide {
    fn quote_kw(&self) -> u32 { 1 }
    fn apply_kw(&self) -> u32 { 2 }
    fn softfork_kw(&self) -> u32 { 36 }
    fn softfork_extension(&self, _e: u32) -> OperatorSet { OperatorSet::Default }
    fn flags(&self) -> ClvmFlags { self.0.flags() }
    fn gc_candidate(&self, a: &Allocator, op: NodePtr) -> bool { self.0.gc_candidate(a, op) }
    fn allow_unknown_ops(&self) -> bool { self.0.allow_unknown_ops() }
    fn op(&self, a: &mut Allocator, o: NodePtr, args: NodePtr, mc: Cost, ext: OperatorSet) -> Response {
        if a.atom_len(o) == 4 {
            if self.0.flags().contains(ClvmFlags::NO_UNKNOWN_OPS) {
                return Err(clvmr::error::EvalErr::Unimplemented(o));
            }
            return clvmr::more_ops::op_unknown(a, o, args, mc, self.0.flags());
        }
        self.0.op(a, o, args, mc, ext)
    }
}

pub fn std_table() -> HashMap<String, Vec<u8>> {
    let names: &[(&str, u8)] = &[
        ("op_if", 3), ("op_cons", 4), ("op_first", 5), ("op_rest", 6), ("op_listp", 7), ("op_raise", 8),
        ("op_eq", 9), ("op_gr_bytes", 10), ("op_sha256", 11), ("op_substr", 12), ("op_strlen", 13),
        ("op_concat", 14), ("op_add", 16), ("op_subtract", 17), ("op_multiply", 18), ("op_div", 19),
        ("op_divmod", 20), ("op_gr", 21), ("op_ash", 22), ("op_lsh", 23), ("op_logand", 24),
        ("op_logior", 25), ("op_logxor", 26), ("op_lognot", 27), ("op_point_add", 29),
        ("op_pubkey_for_exp", 30), ("op_not", 32), ("op_any", 33), ("op_all", 34),
        ("op_g1_subtract", 49), ("op_g1_multiply", 50), ("op_g1_negate", 51), ("op_g2_add", 52),
        ("op_g2_subtract", 53), ("op_g2_multiply", 54), ("op_g2_negate", 55), ("op_g1_map", 56),
        ("op_g2_map", 57), ("op_bls_pairing_identity", 58), ("op_bls_verify", 59), ("op_modpow", 60),
        ("op_mod", 61),
    ];
    names.iter().map(|(n, o)| (n.to_string(), vec![*o])).collect()
}

fn kv<'a>(t: &'a [&'a str], key: &str) -> Option<&'a str> {
    for x in t {
        if let Some((k, v)) = x.split_once('=') {
            if k == key { return Some(v); }
        }
    }
    None
}

/// build a tree, choosing a representation per atom when enc != 0
pub fn build_tree(a: &mut Allocator, s: &str, enc: u64) -> NodePtr {
    if enc == 0 { return parse_tree(a, s); }
    // parse into a scratch allocator, then copy with re-encoding
    let mut tmp = Allocator::new();
    let n = parse_tree(&mut tmp, s);
    let mut rng = ChaCha8Rng::seed_from_u64(enc);
    // iterative post-order copy
    enum It { Visit(NodePtr), Cons }
    let mut st = vec![It::Visit(n)];
    let mut out: Vec<NodePtr> = Vec::new();
    while let Some(it) = st.pop() {
        match it {
            It::Visit(x) => match tmp.sexp(x) {
                SExp::Pair(l, r) => { st.push(It::Cons); st.push(It::Visit(r)); st.push(It::Visit(l)); }
                SExp::Atom => {
                    let bytes = tmp.atom(x).as_ref().to_vec();
                    let node = match rng.random_range(0..4u32) {
                        0 | 1 => a.new_atom(&bytes).unwrap(),
                        2 => {
                            // substring view of a larger heap buffer
                            let mut big = vec![0xeeu8; 3];
                            big.extend_from_slice(&bytes);
                            big.extend_from_slice(&[0xdd, 0xdd]);
                            let p = a.new_atom(&big).unwrap();
                            a.new_substr(p, 3, 3 + bytes.len() as u32).unwrap()
                        }
                        _ => {
                            // heap bytes, whatever the value: concat of the atom and nil
                            let x0 = a.new_atom(&bytes).unwrap();
                            let nil = a.nil();
                            a.new_concat(bytes.len(), &[x0, nil]).unwrap()
                        }
                    };
                    out.push(node);
                }
            },
            It::Cons => {
                let r = out.pop().unwrap();
                let l = out.pop().unwrap();
                out.push(a.new_pair(l, r).unwrap());
            }
        }
    }
    out.pop().unwrap()
}

const G1_GEN: &str = "97f1d3a73197d7942695638c4fa9ac0fc3688c4f9774b905a14e3a3f171bac586c55e83ff97a1aeffb3af00adb22c6bb";

/// a prior life of the allocator: junk nodes, a failed run, a run that validated a BLS point and failed
pub fn history(a: &mut Allocator, seed: u64) {
    let mut rng = ChaCha8Rng::seed_from_u64(seed);
    let n = rng.random_range(1..40);
    let mut nodes = vec![a.nil()];
    for _ in 0..n {
        match rng.random_range(0..4u32) {
            0 => { let len = rng.random_range(0..70); let b: Vec<u8> = (0..len).map(|_| rng.random()).collect(); nodes.push(a.new_atom(&b).unwrap()); }
            1 => { let v: u32 = rng.random_range(0..0x3ffffff); nodes.push(a.new_small_number(v).unwrap()); }
            2 => { let x = nodes[rng.random_range(0..nodes.len())]; let y = nodes[rng.random_range(0..nodes.len())]; nodes.push(a.new_pair(x, y).unwrap()); }
            _ => { let v: i64 = rng.random(); nodes.push(a.new_number(v.into()).unwrap()); }
        }
    }
    let d = ChiaDialect::new(ClvmFlags::empty());
    // (+ (q . 1) (q . 2)) with budget 5: fails with cost exceeded
    let p = parse_tree(a, "pa10;ppa01;a01;ppa01;a02;a;");
    let nil = a.nil();
    let _ = run_program(a, &d, p, nil, 5);
    if rng.random_ratio(1, 2) {
        // (x (g1_negate (q . G))): validates G (cached), then raises, so the cache is not cleared
        let prg = format!("pa08;ppa33;ppa01;a{};a;a;", G1_GEN);
        let p = parse_tree(a, &prg);
        let _ = run_program(a, &d, p, nil, 0);
    }
}

fn outcome(a: &Allocator, r: Response) -> String {
    let counts = format!("a={} p={} h={}", a.atom_count(), a.pair_count(), a.heap_size());
    match r {
        Ok(Reduction(c, n)) => format!("ok {} {} | {}", c, show_tree_short(a, n), counts),
        Err(e) => format!("err {} | msg={:016x} {}", err_name(&e).split('[').next().unwrap(), fnv64(e.to_string().as_bytes()), counts),
    }
}

pub fn run(t: &[&str]) -> String {
    match t[0] {
        "gen" => {
            let data = crate::unhex(t[1]);
            let mut u = Unstructured::new(&data);
            let mut a = Allocator::new();
            let Ok((args, _)) = make_tree_limits(&mut a, &mut u, 100, true) else { return "none".into() };
            let Ok(prg) = make_clvm_program(&mut a, &mut u, args, 2000) else { return "none".into() };
            format!("ok {} {}", show_tree(&a, prg), show_tree(&a, args))
        }
        "run" => {
            let n = t.len();
            let (ps, es) = (t[n - 2], t[n - 1]);
            let opts = &t[1..n - 2];
            let flags = ClvmFlags::from_bits_truncate(kv(opts, "f").unwrap_or("0").parse::<u32>().unwrap());
            let max_cost: Cost = kv(opts, "m").unwrap_or("0").parse().unwrap();
            let h: u64 = kv(opts, "h").unwrap_or("0").parse().unwrap();
            let enc: u64 = kv(opts, "enc").unwrap_or("0").parse().unwrap();
            let lim: usize = kv(opts, "lim").map(|v| v.parse().unwrap()).unwrap_or(u32::MAX as usize);
            let mut a = Allocator::new_limited(lim);
            if let Some(v) = kv(opts, "ga") { a.add_ghost_atom(v.parse().unwrap()).unwrap(); }
            if let Some(v) = kv(opts, "gp") { a.add_ghost_pair(v.parse().unwrap()).unwrap(); }
            if h != 0 { history(&mut a, h); }
            let p = build_tree(&mut a, ps, enc);
            let e = build_tree(&mut a, es, if enc == 0 { 0 } else { enc + 1 });
            #[cfg(feature = "instr")]
            if kv(opts, "pre").is_some() {
                // the `pre-eval` feature with an observe-only callback (reads, allocates nothing)
                use clvmr::run_program::{run_program_with_pre_eval, PreEval};
                use std::cell::Cell;
                use std::rc::Rc;
                let seen = Rc::new(Cell::new(0u64));
                let seen2 = seen.clone();
                let pre: PreEval = Box::new(move |al: &mut Allocator, prg: NodePtr, _env: NodePtr| {
                    let _ = al.sexp(prg);
                    seen2.set(seen2.get() + 1);
                    let s3 = seen2.clone();
                    Ok(Some(Box::new(move |_al: &mut Allocator, _r: Option<NodePtr>| { s3.set(s3.get() + 1); })))
                });
                let r = run_program_with_pre_eval(&mut a, &ChiaDialect::new(flags), p, e, max_cost, Some(pre));
                return outcome(&a, r);
            }
            // rep=<k>: the same program and environment nodes are first run k times in this allocator
            // (under the flags rf=<bits>, default: the same flags), results discarded: an earlier run
            // - successful or failed - is part of the heap history the measured run must not depend on
            if let Some(k) = kv(opts, "rep") {
                let rf = kv(opts, "rf").map(|v| ClvmFlags::from_bits_truncate(v.parse::<u32>().unwrap())).unwrap_or(flags);
                for _ in 0..k.parse::<u32>().unwrap() {
                    let _ = run_program(&mut a, &ChiaDialect::new(rf), p, e, max_cost);
                }
            }
            let r = match kv(opts, "d").unwrap_or("chia") {
                "chia" => run_program(&mut a, &ChiaDialect::new(flags), p, e, max_cost),
                "hide" => run_program(&mut a, &Hide(ChiaDialect::new(flags)), p, e, max_cost),
                "rt" => run_program(&mut a, &RuntimeDialect::new(std_table(), vec![1], vec![2], flags), p, e, max_cost),
                d => panic!("unknown dialect {d}"),
            };
            outcome(&a, r)
        }
        _ => panic!("bad run case"),
    }
}
