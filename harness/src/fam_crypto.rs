// family "crypto": the cryptographic operators and, separately, the library primitives they use.
//
//   ops <max_cost> (<flags> <opname> <args tree>)+
//        runs the operators one after the other IN THE SAME ALLOCATOR (so that the
//        validated-point cache filled by earlier calls is in effect for later ones) and prints
//        one observation per call, joined by " / ":
//            "ok <cost> <result tree>"  |  "err <kind>"
//        Anything after a token "|" is ignored here (the model driver reads its primitive table
//        from there).
//   prim <key>
//        calls the LIBRARY primitive directly (chia_bls / k256 / p256 / sha2 / sha3), not through
//        any clvm_rs operator, and prints "= <value>". Keys (fields separated by ':', lists by
//        ';' and ','; byte strings in hex, "-" = empty; scalars decimal, non-negative):
//            sha256:<m> keccak:<m>
//            g1v:<b> g2v:<b>                      -> 0 | 1      (from_bytes succeeds)
//            g1add:<a>:<b> g1neg:<a> g1mul:<a>:<k> g1gen:<k>   (and g2add g2neg g2mul)
//            g1map:<msg>:<dst> g2map:<msg>:<dst>
//            pair:<g1>,<g2>;<g1>,<g2>...          -> 0 | 1      ("pair:" alone = empty list)
//            aggv:<sig>:<pk>,<msg>;...            -> 0 | 1
//            k1pk:<b> k1sig:<b> k1ver:<pk>:<msg>:<sig>  (and r1pk r1sig r1ver)   -> 0 | 1
//   ecdsa k1|r1 <pk> <msg> <sig>  -> "= <pk ok> <sig ok> <verdict>" (the same three library calls; the
//        model answers this line with its Gallina ECDSA specification, Model/Ecdsa.v)
//            k1sign:<sk 32 bytes>:<prehash 32 bytes> -> "<sec1 compressed pubkey> <sig 64 bytes>"
//            (and r1sign): used by the check to produce valid signatures for generated messages
use crate::util::*;
use crate::{tohex, unhex};
use chia_bls::{
    aggregate_pairing, aggregate_verify, hash_to_g1_with_dst, hash_to_g2_with_dst, G1Element,
    G2Element,
};
use clvmr::allocator::{Allocator, NodePtr};
use clvmr::chia_dialect::ClvmFlags;
use clvmr::cost::Cost;
use clvmr::reduction::{Reduction, Response};

type OpFn = fn(&mut Allocator, NodePtr, Cost, ClvmFlags) -> Response;

fn op_by_name(name: &str) -> OpFn {
    match name {
        "point_add" => clvmr::more_ops::op_point_add,
        "pubkey_for_exp" => clvmr::more_ops::op_pubkey_for_exp,
        "coinid" => clvmr::more_ops::op_coinid,
        "sha256" => clvmr::more_ops::op_sha256,
        "keccak256" => clvmr::keccak256_ops::op_keccak256,
        "secp256k1_verify" => clvmr::secp_ops::op_secp256k1_verify,
        "secp256r1_verify" => clvmr::secp_ops::op_secp256r1_verify,
        "g1_subtract" => clvmr::bls_ops::op_bls_g1_subtract,
        "g1_multiply" => clvmr::bls_ops::op_bls_g1_multiply,
        "g1_negate" => clvmr::bls_ops::op_bls_g1_negate,
        "g2_add" => clvmr::bls_ops::op_bls_g2_add,
        "g2_subtract" => clvmr::bls_ops::op_bls_g2_subtract,
        "g2_multiply" => clvmr::bls_ops::op_bls_g2_multiply,
        "g2_negate" => clvmr::bls_ops::op_bls_g2_negate,
        "g1_map" => clvmr::bls_ops::op_bls_map_to_g1,
        "g2_map" => clvmr::bls_ops::op_bls_map_to_g2,
        "pairing_identity" => clvmr::bls_ops::op_bls_pairing_identity,
        "bls_verify" => clvmr::bls_ops::op_bls_verify,
        _ => panic!("unknown operator {name}"),
    }
}

fn g1(s: &str) -> Option<G1Element> {
    let b = unhex(s);
    let arr: [u8; 48] = b.as_slice().try_into().ok()?;
    G1Element::from_bytes(&arr).ok()
}
fn g2(s: &str) -> Option<G2Element> {
    let b = unhex(s);
    let arr: [u8; 96] = b.as_slice().try_into().ok()?;
    G2Element::from_bytes(&arr).ok()
}

/// big-endian bytes of a non-negative decimal number (at least one byte, like BigInt::to_bytes_be)
fn dec_to_be(s: &str) -> Vec<u8> {
    let mut digits: Vec<u8> = s.bytes().map(|c| c - b'0').collect();
    let mut out = Vec::new();
    // repeated division by 256
    while !(digits.is_empty() || digits.iter().all(|d| *d == 0)) {
        let mut rem: u32 = 0;
        let mut q = Vec::with_capacity(digits.len());
        for d in &digits {
            let cur = rem * 10 + *d as u32;
            q.push((cur / 256) as u8);
            rem = cur % 256;
        }
        out.push(rem as u8);
        let first = q.iter().position(|d| *d != 0).unwrap_or(q.len());
        digits = q[first..].to_vec();
    }
    if out.is_empty() { out.push(0); }
    out.reverse();
    out
}

fn b01(b: bool) -> String { if b { "= 1".into() } else { "= 0".into() } }

fn prim(key: &str) -> String {
    let parts: Vec<&str> = key.split(':').collect();
    match parts[0] {
        "sha256" => {
            use chia_sha2::Sha256;
            let mut h = Sha256::new();
            h.update(unhex(parts[1]));
            format!("= {}", tohex(&h.finalize()))
        }
        "keccak" => {
            use sha3::{Digest, Keccak256};
            let mut h = Keccak256::new();
            h.update(unhex(parts[1]));
            format!("= {}", tohex(&h.finalize()))
        }
        "g1v" => b01(g1(parts[1]).is_some()),
        "g2v" => b01(g2(parts[1]).is_some()),
        "g1add" => { let mut a = g1(parts[1]).unwrap(); a += &g1(parts[2]).unwrap(); format!("= {}", tohex(&a.to_bytes())) }
        "g2add" => { let mut a = g2(parts[1]).unwrap(); a += &g2(parts[2]).unwrap(); format!("= {}", tohex(&a.to_bytes())) }
        "g1neg" => { let mut a = g1(parts[1]).unwrap(); a.negate(); format!("= {}", tohex(&a.to_bytes())) }
        "g2neg" => { let mut a = g2(parts[1]).unwrap(); a.negate(); format!("= {}", tohex(&a.to_bytes())) }
        "g1mul" => { let mut a = g1(parts[1]).unwrap(); a.scalar_multiply(&dec_to_be(parts[2])); format!("= {}", tohex(&a.to_bytes())) }
        "g2mul" => { let mut a = g2(parts[1]).unwrap(); a.scalar_multiply(&dec_to_be(parts[2])); format!("= {}", tohex(&a.to_bytes())) }
        "g1gen" => format!("= {}", tohex(&G1Element::from_integer(&dec_to_be(parts[1])).to_bytes())),
        "g1map" => format!("= {}", tohex(&hash_to_g1_with_dst(&unhex(parts[1]), &unhex(parts[2])).to_bytes())),
        "g2map" => format!("= {}", tohex(&hash_to_g2_with_dst(&unhex(parts[1]), &unhex(parts[2])).to_bytes())),
        "pair" => {
            let mut items = Vec::new();
            if !parts[1].is_empty() {
                for it in parts[1].split(';') {
                    let (a, b) = it.split_once(',').unwrap();
                    items.push((g1(a).unwrap(), g2(b).unwrap()));
                }
            }
            b01(aggregate_pairing(items))
        }
        "aggv" => {
            let sig = g2(parts[1]).unwrap();
            let mut items: Vec<(G1Element, Vec<u8>)> = Vec::new();
            if !parts[2].is_empty() {
                for it in parts[2].split(';') {
                    let (a, b) = it.split_once(',').unwrap();
                    items.push((g1(a).unwrap(), unhex(b)));
                }
            }
            b01(aggregate_verify(&sig, items))
        }
        "k1pk" => b01(k256::ecdsa::VerifyingKey::from_sec1_bytes(&unhex(parts[1])).is_ok()),
        "r1pk" => b01(p256::ecdsa::VerifyingKey::from_sec1_bytes(&unhex(parts[1])).is_ok()),
        "k1sig" => b01(k256::ecdsa::Signature::from_slice(&unhex(parts[1])).is_ok()),
        "r1sig" => b01(p256::ecdsa::Signature::from_slice(&unhex(parts[1])).is_ok()),
        "k1ver" => {
            use k256::ecdsa::signature::hazmat::PrehashVerifier;
            let vk = k256::ecdsa::VerifyingKey::from_sec1_bytes(&unhex(parts[1])).unwrap();
            let sig = k256::ecdsa::Signature::from_slice(&unhex(parts[3])).unwrap();
            b01(vk.verify_prehash(&unhex(parts[2]), &sig).is_ok())
        }
        "r1ver" => {
            use p256::ecdsa::signature::hazmat::PrehashVerifier;
            let vk = p256::ecdsa::VerifyingKey::from_sec1_bytes(&unhex(parts[1])).unwrap();
            let sig = p256::ecdsa::Signature::from_slice(&unhex(parts[3])).unwrap();
            b01(vk.verify_prehash(&unhex(parts[2]), &sig).is_ok())
        }
        "k1sign" => {
            use k256::ecdsa::signature::hazmat::PrehashSigner;
            let sk = k256::ecdsa::SigningKey::from_slice(&unhex(parts[1])).unwrap();
            let sig: k256::ecdsa::Signature = sk.sign_prehash(&unhex(parts[2])).unwrap();
            let pk = sk.verifying_key().to_sec1_point(true);
            format!("= {} {}", tohex(pk.as_bytes()), tohex(&sig.to_bytes()))
        }
        "r1sign" => {
            use p256::ecdsa::signature::hazmat::PrehashSigner;
            let sk = p256::ecdsa::SigningKey::from_slice(&unhex(parts[1])).unwrap();
            let sig: p256::ecdsa::Signature = sk.sign_prehash(&unhex(parts[2])).unwrap();
            let pk = sk.verifying_key().to_sec1_point(true);
            format!("= {} {}", tohex(pk.as_bytes()), tohex(&sig.to_bytes()))
        }
        _ => panic!("unknown primitive {key}"),
    }
}

pub fn run(t: &[&str]) -> String {
    match t[0] {
        "ops" => {
            let max_cost: Cost = t[1].parse().unwrap();
            let mut a = Allocator::new();
            let mut out: Vec<String> = Vec::new();
            let mut i = 2;
            while i < t.len() && t[i] != "|" {
                let flags = ClvmFlags::from_bits_truncate(t[i].parse::<u32>().unwrap());
                let f = op_by_name(t[i + 1]);
                let args = parse_tree(&mut a, t[i + 2]);
                i += 3;
                out.push(match f(&mut a, args, max_cost, flags) {
                    Ok(Reduction(c, n)) => format!("ok {} {}", c, show_tree_short(&a, n)),
                    Err(e) => format!("err {}", err_name(&e)),
                });
            }
            out.join(" / ")
        }
        "prim" => prim(t[1]),
        "ecdsa" => {
            // "ecdsa k1|r1 <pk> <msg 32 bytes> <sig>" -> "= <pk ok> <sig ok> <verdict>" (library calls)
            let pk = prim(&format!("{}pk:{}", t[1], t[2]));
            let sg = prim(&format!("{}sig:{}", t[1], t[4]));
            let v = if pk == "= 1" && sg == "= 1" { prim(&format!("{}ver:{}:{}:{}", t[1], t[2], t[3], t[4])) } else { "= 0".to_string() };
            format!("= {} {} {}", &pk[2..], &sg[2..], &v[2..])
        }
        _ => panic!("bad crypto case"),
    }
}
