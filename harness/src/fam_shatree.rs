// family "shatree" (C23): the native sha256tree operator against the ChiaLisp sha256tree
// program, the way tools/src/bin/sha256tree-benching.rs runs them.
//
//   both f=<u32> m=<u64> share=<0|1> <program tree> <tree>
//        -> "<native outcome> ; <clvm outcome>"     outcome = "ok <cost> <hash hex>" | "err <Kind>"
//      native: run_program((63 (q . T)), env = ())      clvm: run_program(<program>, env = T)
//      share=1: T is built as a DAG: every sub-tree (and atom) that occurs more than once in the
//      transport text is built once and referenced from every occurrence (same NodePtr);
//      share=0: every occurrence is its own node. The model has no notion of sharing.
//   cost <tree>    model only (the closed forms native_cost / clvm_cost); here "skip"
use crate::util::*;
use clvmr::allocator::{Allocator, NodePtr};
use clvmr::chia_dialect::{ChiaDialect, ClvmFlags};
use clvmr::cost::Cost;
use clvmr::reduction::{Reduction, Response};
use clvmr::run_program::run_program;
use std::collections::HashMap;

fn kv<'a>(t: &'a [&'a str], key: &str) -> Option<&'a str> {
    for x in t {
        if let Some((k, v)) = x.split_once('=') {
            if k == key { return Some(v); }
        }
    }
    None
}

/// transport format -> tree with maximal sharing (keyed by the transport text of the sub-tree)
pub fn parse_tree_shared(a: &mut Allocator, s: &str) -> NodePtr {
    enum It { Pair(usize), Node(NodePtr, usize) }
    let b = s.as_bytes();
    let mut memo: HashMap<&str, NodePtr> = HashMap::new();
    let mut i = 0;
    let mut st: Vec<It> = Vec::new();
    loop {
        let start = i;
        let node = match b[i] {
            b'p' => { st.push(It::Pair(i)); i += 1; continue; }
            b'a' | b'z' => {
                let j = i + 1 + s[i + 1..].find(';').unwrap();
                i = j + 1;
                let key = &s[start..i];
                if let Some(n) = memo.get(key) { *n } else {
                    let n = parse_tree(a, key);
                    memo.insert(key, n);
                    n
                }
            }
            c => panic!("bad tree char {c}"),
        };
        let mut cur = node;
        let mut cur_start = start;
        loop {
            match st.pop() {
                None => return cur,
                Some(It::Pair(p)) => { st.push(It::Pair(p)); st.push(It::Node(cur, cur_start)); break; }
                Some(It::Node(left, _)) => {
                    let p = match st.pop() { Some(It::Pair(p)) => p, _ => panic!("bad tree") };
                    let key = &s[p..i];
                    cur = if let Some(n) = memo.get(key) { *n } else {
                        let n = a.new_pair(left, cur).unwrap();
                        memo.insert(key, n);
                        n
                    };
                    cur_start = p;
                }
            }
        }
    }
}

fn outcome(a: &Allocator, r: Response) -> String {
    match r {
        Ok(Reduction(c, n)) => format!("ok {} {}", c, show_tree_short(a, n)),
        Err(e) => format!("err {}", err_name(&e).split('[').next().unwrap()),
    }
}

pub fn run(t: &[&str]) -> String {
    match t[0] {
        "both" => {
            let n = t.len();
            let (ps, ts) = (t[n - 2], t[n - 1]);
            let opts = &t[1..n - 2];
            let flags = ClvmFlags::from_bits_truncate(kv(opts, "f").unwrap_or("0").parse::<u32>().unwrap());
            let max_cost: Cost = kv(opts, "m").unwrap_or("0").parse().unwrap();
            let share = kv(opts, "share").unwrap_or("0") == "1";
            let mut a = Allocator::new();
            let prog = parse_tree(&mut a, ps);
            let tree = if share { parse_tree_shared(&mut a, ts) } else { parse_tree(&mut a, ts) };
            let dialect = ChiaDialect::new(flags);
            // exactly as the tool builds the call
            let op_code = a.new_small_number(63).unwrap();
            let quote = a.one();
            let q = a.new_pair(quote, tree).unwrap();
            let nil = a.nil();
            let call = a.new_pair(q, nil).unwrap();
            let call = a.new_pair(op_code, call).unwrap();
            let r1 = run_program(&mut a, &dialect, call, nil, max_cost);
            let o1 = outcome(&a, r1);
            let r2 = run_program(&mut a, &dialect, prog, tree, max_cost);
            let o2 = outcome(&a, r2);
            format!("{o1} ; {o2}")
        }
        "cost" => "skip".into(),
        _ => panic!("bad shatree case"),
    }
}
