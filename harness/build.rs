// generates $OUT_DIR/fams.rs: one `mod fam_<x>` per src/fam_<x>.rs and the dispatch function,
// so that adding a family is adding a file.
use std::{env, fs, path::Path};
fn main() {
    let src = Path::new(&env::var("CARGO_MANIFEST_DIR").unwrap()).join("src");
    let mut fams: Vec<String> = fs::read_dir(&src).unwrap()
        .filter_map(|e| e.ok())
        .filter_map(|e| e.file_name().into_string().ok())
        .filter(|n| n.starts_with("fam_") && n.ends_with(".rs"))
        .map(|n| n[4..n.len() - 3].to_string())
        .collect();
    fams.sort();
    let mut out = String::new();
    for f in &fams {
        out.push_str(&format!("#[path = {:?}] pub mod fam_{};\n", src.join(format!("fam_{f}.rs")).to_str().unwrap(), f));
    }
    out.push_str("pub fn dispatch(fam: &str, toks: &[&str]) -> String {\n    match fam {\n");
    for f in &fams {
        out.push_str(&format!("        {:?} => fam_{}::run(toks),\n", f, f));
    }
    out.push_str("        _ => panic!(\"unknown family {fam}\"),\n    }\n}\n");
    let dst = Path::new(&env::var("OUT_DIR").unwrap()).join("fams.rs");
    fs::write(dst, out).unwrap();
    println!("cargo:rerun-if-changed=src");
    println!("cargo:rustc-check-cfg=cfg(clvm_rs_verif)");
}
