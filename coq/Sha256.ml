open BinNat
open BinNums
open Datatypes
open List
open PeanoNat

(** val w32 : coq_N -> coq_N **)

let w32 x =
  N.modulo x (Npos (Coq_xO (Coq_xO (Coq_xO (Coq_xO (Coq_xO (Coq_xO (Coq_xO
    (Coq_xO (Coq_xO (Coq_xO (Coq_xO (Coq_xO (Coq_xO (Coq_xO (Coq_xO (Coq_xO
    (Coq_xO (Coq_xO (Coq_xO (Coq_xO (Coq_xO (Coq_xO (Coq_xO (Coq_xO (Coq_xO
    (Coq_xO (Coq_xO (Coq_xO (Coq_xO (Coq_xO (Coq_xO (Coq_xO
    Coq_xH)))))))))))))))))))))))))))))))))

(** val add32 : coq_N -> coq_N -> coq_N **)

let add32 a b =
  w32 (N.add a b)

(** val rotr : coq_N -> coq_N -> coq_N **)

let rotr n x =
  N.coq_lor (N.shiftr x n)
    (w32
      (N.shiftl x
        (N.sub (Npos (Coq_xO (Coq_xO (Coq_xO (Coq_xO (Coq_xO Coq_xH)))))) n)))

(** val shr : coq_N -> coq_N -> coq_N **)

let shr n x =
  N.shiftr x n

(** val not32 : coq_N -> coq_N **)

let not32 x =
  N.coq_lxor x (Npos (Coq_xI (Coq_xI (Coq_xI (Coq_xI (Coq_xI (Coq_xI (Coq_xI
    (Coq_xI (Coq_xI (Coq_xI (Coq_xI (Coq_xI (Coq_xI (Coq_xI (Coq_xI (Coq_xI
    (Coq_xI (Coq_xI (Coq_xI (Coq_xI (Coq_xI (Coq_xI (Coq_xI (Coq_xI (Coq_xI
    (Coq_xI (Coq_xI (Coq_xI (Coq_xI (Coq_xI (Coq_xI
    Coq_xH))))))))))))))))))))))))))))))))

(** val ch : coq_N -> coq_N -> coq_N -> coq_N **)

let ch x y z =
  N.coq_lxor (N.coq_land x y) (N.coq_land (not32 x) z)

(** val maj : coq_N -> coq_N -> coq_N -> coq_N **)

let maj x y z =
  N.coq_lxor (N.coq_lxor (N.coq_land x y) (N.coq_land x z)) (N.coq_land y z)

(** val bsig0 : coq_N -> coq_N **)

let bsig0 x =
  N.coq_lxor
    (N.coq_lxor (rotr (Npos (Coq_xO Coq_xH)) x)
      (rotr (Npos (Coq_xI (Coq_xO (Coq_xI Coq_xH)))) x))
    (rotr (Npos (Coq_xO (Coq_xI (Coq_xI (Coq_xO Coq_xH))))) x)

(** val bsig1 : coq_N -> coq_N **)

let bsig1 x =
  N.coq_lxor
    (N.coq_lxor (rotr (Npos (Coq_xO (Coq_xI Coq_xH))) x)
      (rotr (Npos (Coq_xI (Coq_xI (Coq_xO Coq_xH)))) x))
    (rotr (Npos (Coq_xI (Coq_xO (Coq_xO (Coq_xI Coq_xH))))) x)

(** val ssig0 : coq_N -> coq_N **)

let ssig0 x =
  N.coq_lxor
    (N.coq_lxor (rotr (Npos (Coq_xI (Coq_xI Coq_xH))) x)
      (rotr (Npos (Coq_xO (Coq_xI (Coq_xO (Coq_xO Coq_xH))))) x))
    (shr (Npos (Coq_xI Coq_xH)) x)

(** val ssig1 : coq_N -> coq_N **)

let ssig1 x =
  N.coq_lxor
    (N.coq_lxor (rotr (Npos (Coq_xI (Coq_xO (Coq_xO (Coq_xO Coq_xH))))) x)
      (rotr (Npos (Coq_xI (Coq_xI (Coq_xO (Coq_xO Coq_xH))))) x))
    (shr (Npos (Coq_xO (Coq_xI (Coq_xO Coq_xH)))) x)

(** val coq_K : coq_N list **)

let coq_K =
  (Npos (Coq_xO (Coq_xO (Coq_xO (Coq_xI (Coq_xI (Coq_xO (Coq_xO (Coq_xI
    (Coq_xI (Coq_xI (Coq_xI (Coq_xI (Coq_xO (Coq_xI (Coq_xO (Coq_xO (Coq_xO
    (Coq_xI (Coq_xO (Coq_xI (Coq_xO (Coq_xO (Coq_xO (Coq_xI (Coq_xO (Coq_xI
    (Coq_xO (Coq_xO (Coq_xO (Coq_xO
    Coq_xH))))))))))))))))))))))))))))))) :: ((Npos (Coq_xI (Coq_xO (Coq_xO
    (Coq_xO (Coq_xI (Coq_xO (Coq_xO (Coq_xI (Coq_xO (Coq_xO (Coq_xI (Coq_xO
    (Coq_xO (Coq_xO (Coq_xI (Coq_xO (Coq_xI (Coq_xI (Coq_xI (Coq_xO (Coq_xI
    (Coq_xI (Coq_xO (Coq_xO (Coq_xI (Coq_xO (Coq_xO (Coq_xO (Coq_xI (Coq_xI
    Coq_xH))))))))))))))))))))))))))))))) :: ((Npos (Coq_xI (Coq_xI (Coq_xI
    (Coq_xI (Coq_xO (Coq_xO (Coq_xI (Coq_xI (Coq_xI (Coq_xI (Coq_xO (Coq_xI
    (Coq_xI (Coq_xI (Coq_xI (Coq_xI (Coq_xO (Coq_xO (Coq_xO (Coq_xO (Coq_xO
    (Coq_xO (Coq_xI (Coq_xI (Coq_xI (Coq_xO (Coq_xI (Coq_xO (Coq_xI (Coq_xI
    (Coq_xO Coq_xH)))))))))))))))))))))))))))))))) :: ((Npos (Coq_xI (Coq_xO
    (Coq_xI (Coq_xO (Coq_xO (Coq_xI (Coq_xO (Coq_xI (Coq_xI (Coq_xI (Coq_xO
    (Coq_xI (Coq_xI (Coq_xO (Coq_xI (Coq_xI (Coq_xI (Coq_xO (Coq_xI (Coq_xO
    (Coq_xI (Coq_xI (Coq_xO (Coq_xI (Coq_xI (Coq_xO (Coq_xO (Coq_xI (Coq_xO
    (Coq_xI (Coq_xI Coq_xH)))))))))))))))))))))))))))))))) :: ((Npos (Coq_xI
    (Coq_xI (Coq_xO (Coq_xI (Coq_xI (Coq_xO (Coq_xI (Coq_xO (Coq_xO (Coq_xI
    (Coq_xO (Coq_xO (Coq_xO (Coq_xO (Coq_xI (Coq_xI (Coq_xO (Coq_xI (Coq_xI
    (Coq_xO (Coq_xI (Coq_xO (Coq_xI (Coq_xO (Coq_xI (Coq_xO (Coq_xO (Coq_xI
    (Coq_xI Coq_xH)))))))))))))))))))))))))))))) :: ((Npos (Coq_xI (Coq_xO
    (Coq_xO (Coq_xO (Coq_xI (Coq_xI (Coq_xI (Coq_xI (Coq_xI (Coq_xO (Coq_xO
    (Coq_xO (Coq_xI (Coq_xO (Coq_xO (Coq_xO (Coq_xI (Coq_xO (Coq_xO (Coq_xO
    (Coq_xI (Coq_xI (Coq_xI (Coq_xI (Coq_xI (Coq_xO (Coq_xO (Coq_xI (Coq_xI
    (Coq_xO Coq_xH))))))))))))))))))))))))))))))) :: ((Npos (Coq_xO (Coq_xO
    (Coq_xI (Coq_xO (Coq_xO (Coq_xI (Coq_xO (Coq_xI (Coq_xO (Coq_xI (Coq_xO
    (Coq_xO (Coq_xO (Coq_xO (Coq_xO (Coq_xI (Coq_xI (Coq_xI (Coq_xI (Coq_xI
    (Coq_xI (Coq_xI (Coq_xO (Coq_xO (Coq_xO (Coq_xI (Coq_xO (Coq_xO (Coq_xI
    (Coq_xO (Coq_xO Coq_xH)))))))))))))))))))))))))))))))) :: ((Npos (Coq_xI
    (Coq_xO (Coq_xI (Coq_xO (Coq_xI (Coq_xO (Coq_xI (Coq_xI (Coq_xO (Coq_xI
    (Coq_xI (Coq_xI (Coq_xI (Coq_xO (Coq_xI (Coq_xO (Coq_xO (Coq_xO (Coq_xI
    (Coq_xI (Coq_xI (Coq_xO (Coq_xO (Coq_xO (Coq_xI (Coq_xI (Coq_xO (Coq_xI
    (Coq_xO (Coq_xI (Coq_xO Coq_xH)))))))))))))))))))))))))))))))) :: ((Npos
    (Coq_xO (Coq_xO (Coq_xO (Coq_xI (Coq_xI (Coq_xO (Coq_xO (Coq_xI (Coq_xO
    (Coq_xI (Coq_xO (Coq_xI (Coq_xO (Coq_xI (Coq_xO (Coq_xI (Coq_xI (Coq_xI
    (Coq_xI (Coq_xO (Coq_xO (Coq_xO (Coq_xO (Coq_xO (Coq_xO (Coq_xO (Coq_xO
    (Coq_xI (Coq_xI (Coq_xO (Coq_xI
    Coq_xH)))))))))))))))))))))))))))))))) :: ((Npos (Coq_xI (Coq_xO (Coq_xO
    (Coq_xO (Coq_xO (Coq_xO (Coq_xO (Coq_xO (Coq_xI (Coq_xI (Coq_xO (Coq_xI
    (Coq_xI (Coq_xO (Coq_xI (Coq_xO (Coq_xI (Coq_xI (Coq_xO (Coq_xO (Coq_xO
    (Coq_xO (Coq_xO (Coq_xI (Coq_xO (Coq_xI (Coq_xO (Coq_xO
    Coq_xH))))))))))))))))))))))))))))) :: ((Npos (Coq_xO (Coq_xI (Coq_xI
    (Coq_xI (Coq_xI (Coq_xI (Coq_xO (Coq_xI (Coq_xI (Coq_xO (Coq_xI (Coq_xO
    (Coq_xO (Coq_xO (Coq_xO (Coq_xI (Coq_xI (Coq_xO (Coq_xO (Coq_xO (Coq_xI
    (Coq_xI (Coq_xO (Coq_xO (Coq_xO (Coq_xO (Coq_xI (Coq_xO (Coq_xO
    Coq_xH)))))))))))))))))))))))))))))) :: ((Npos (Coq_xI (Coq_xI (Coq_xO
    (Coq_xO (Coq_xO (Coq_xO (Coq_xI (Coq_xI (Coq_xI (Coq_xO (Coq_xI (Coq_xI
    (Coq_xI (Coq_xI (Coq_xI (Coq_xO (Coq_xO (Coq_xO (Coq_xI (Coq_xI (Coq_xO
    (Coq_xO (Coq_xO (Coq_xO (Coq_xI (Coq_xO (Coq_xI (Coq_xO (Coq_xI (Coq_xO
    Coq_xH))))))))))))))))))))))))))))))) :: ((Npos (Coq_xO (Coq_xO (Coq_xI
    (Coq_xO (Coq_xI (Coq_xI (Coq_xI (Coq_xO (Coq_xI (Coq_xO (Coq_xI (Coq_xI
    (Coq_xI (Coq_xO (Coq_xI (Coq_xO (Coq_xO (Coq_xI (Coq_xI (Coq_xI (Coq_xI
    (Coq_xI (Coq_xO (Coq_xI (Coq_xO (Coq_xI (Coq_xO (Coq_xO (Coq_xI (Coq_xI
    Coq_xH))))))))))))))))))))))))))))))) :: ((Npos (Coq_xO (Coq_xI (Coq_xI
    (Coq_xI (Coq_xI (Coq_xI (Coq_xI (Coq_xI (Coq_xI (Coq_xO (Coq_xO (Coq_xO
    (Coq_xI (Coq_xI (Coq_xO (Coq_xI (Coq_xO (Coq_xI (Coq_xI (Coq_xI (Coq_xI
    (Coq_xO (Coq_xI (Coq_xI (Coq_xO (Coq_xO (Coq_xO (Coq_xO (Coq_xO (Coq_xO
    (Coq_xO Coq_xH)))))))))))))))))))))))))))))))) :: ((Npos (Coq_xI (Coq_xI
    (Coq_xI (Coq_xO (Coq_xO (Coq_xI (Coq_xO (Coq_xI (Coq_xO (Coq_xI (Coq_xI
    (Coq_xO (Coq_xO (Coq_xO (Coq_xO (Coq_xO (Coq_xO (Coq_xO (Coq_xI (Coq_xI
    (Coq_xI (Coq_xO (Coq_xI (Coq_xI (Coq_xI (Coq_xI (Coq_xO (Coq_xI (Coq_xI
    (Coq_xO (Coq_xO Coq_xH)))))))))))))))))))))))))))))))) :: ((Npos (Coq_xO
    (Coq_xO (Coq_xI (Coq_xO (Coq_xI (Coq_xI (Coq_xI (Coq_xO (Coq_xI (Coq_xO
    (Coq_xO (Coq_xO (Coq_xI (Coq_xI (Coq_xI (Coq_xI (Coq_xI (Coq_xI (Coq_xO
    (Coq_xI (Coq_xI (Coq_xO (Coq_xO (Coq_xI (Coq_xI (Coq_xO (Coq_xO (Coq_xO
    (Coq_xO (Coq_xO (Coq_xI Coq_xH)))))))))))))))))))))))))))))))) :: ((Npos
    (Coq_xI (Coq_xO (Coq_xO (Coq_xO (Coq_xO (Coq_xO (Coq_xI (Coq_xI (Coq_xI
    (Coq_xO (Coq_xO (Coq_xI (Coq_xO (Coq_xI (Coq_xI (Coq_xO (Coq_xI (Coq_xI
    (Coq_xO (Coq_xI (Coq_xI (Coq_xO (Coq_xO (Coq_xI (Coq_xO (Coq_xO (Coq_xI
    (Coq_xO (Coq_xO (Coq_xI (Coq_xI
    Coq_xH)))))))))))))))))))))))))))))))) :: ((Npos (Coq_xO (Coq_xI (Coq_xI
    (Coq_xO (Coq_xO (Coq_xO (Coq_xO (Coq_xI (Coq_xI (Coq_xI (Coq_xI (Coq_xO
    (Coq_xO (Coq_xO (Coq_xI (Coq_xO (Coq_xO (Coq_xI (Coq_xI (Coq_xI (Coq_xI
    (Coq_xI (Coq_xO (Coq_xI (Coq_xI (Coq_xI (Coq_xI (Coq_xI (Coq_xO (Coq_xI
    (Coq_xI Coq_xH)))))))))))))))))))))))))))))))) :: ((Npos (Coq_xO (Coq_xI
    (Coq_xI (Coq_xO (Coq_xO (Coq_xO (Coq_xI (Coq_xI (Coq_xI (Coq_xO (Coq_xI
    (Coq_xI (Coq_xI (Coq_xO (Coq_xO (Coq_xI (Coq_xI (Coq_xO (Coq_xO (Coq_xO
    (Coq_xO (Coq_xO (Coq_xI (Coq_xI (Coq_xI (Coq_xI (Coq_xI
    Coq_xH)))))))))))))))))))))))))))) :: ((Npos (Coq_xO (Coq_xO (Coq_xI
    (Coq_xI (Coq_xO (Coq_xO (Coq_xI (Coq_xI (Coq_xI (Coq_xO (Coq_xO (Coq_xO
    (Coq_xO (Coq_xI (Coq_xO (Coq_xI (Coq_xO (Coq_xO (Coq_xI (Coq_xI (Coq_xO
    (Coq_xO (Coq_xO (Coq_xO (Coq_xO (Coq_xO (Coq_xI (Coq_xO (Coq_xO
    Coq_xH)))))))))))))))))))))))))))))) :: ((Npos (Coq_xI (Coq_xI (Coq_xI
    (Coq_xI (Coq_xO (Coq_xI (Coq_xI (Coq_xO (Coq_xO (Coq_xO (Coq_xI (Coq_xI
    (Coq_xO (Coq_xI (Coq_xO (Coq_xO (Coq_xI (Coq_xO (Coq_xO (Coq_xI (Coq_xO
    (Coq_xI (Coq_xI (Coq_xI (Coq_xI (Coq_xO (Coq_xI (Coq_xI (Coq_xO
    Coq_xH)))))))))))))))))))))))))))))) :: ((Npos (Coq_xO (Coq_xI (Coq_xO
    (Coq_xI (Coq_xO (Coq_xI (Coq_xO (Coq_xI (Coq_xO (Coq_xO (Coq_xI (Coq_xO
    (Coq_xO (Coq_xO (Coq_xO (Coq_xI (Coq_xO (Coq_xO (Coq_xI (Coq_xO (Coq_xI
    (Coq_xI (Coq_xI (Coq_xO (Coq_xO (Coq_xI (Coq_xO (Coq_xI (Coq_xO (Coq_xO
    Coq_xH))))))))))))))))))))))))))))))) :: ((Npos (Coq_xO (Coq_xO (Coq_xI
    (Coq_xI (Coq_xI (Coq_xO (Coq_xI (Coq_xI (Coq_xI (Coq_xO (Coq_xO (Coq_xI
    (Coq_xO (Coq_xI (Coq_xO (Coq_xI (Coq_xO (Coq_xO (Coq_xO (Coq_xO (Coq_xI
    (Coq_xI (Coq_xO (Coq_xI (Coq_xO (Coq_xO (Coq_xI (Coq_xI (Coq_xI (Coq_xO
    Coq_xH))))))))))))))))))))))))))))))) :: ((Npos (Coq_xO (Coq_xI (Coq_xO
    (Coq_xI (Coq_xI (Coq_xO (Coq_xI (Coq_xI (Coq_xO (Coq_xO (Coq_xO (Coq_xI
    (Coq_xO (Coq_xO (Coq_xO (Coq_xI (Coq_xI (Coq_xO (Coq_xO (Coq_xI (Coq_xI
    (Coq_xI (Coq_xI (Coq_xI (Coq_xO (Coq_xI (Coq_xI (Coq_xO (Coq_xI (Coq_xI
    Coq_xH))))))))))))))))))))))))))))))) :: ((Npos (Coq_xO (Coq_xI (Coq_xO
    (Coq_xO (Coq_xI (Coq_xO (Coq_xI (Coq_xO (Coq_xI (Coq_xO (Coq_xO (Coq_xO
    (Coq_xI (Coq_xO (Coq_xI (Coq_xO (Coq_xO (Coq_xI (Coq_xI (Coq_xI (Coq_xI
    (Coq_xI (Coq_xO (Coq_xO (Coq_xO (Coq_xO (Coq_xO (Coq_xI (Coq_xI (Coq_xO
    (Coq_xO Coq_xH)))))))))))))))))))))))))))))))) :: ((Npos (Coq_xI (Coq_xO
    (Coq_xI (Coq_xI (Coq_xO (Coq_xI (Coq_xI (Coq_xO (Coq_xO (Coq_xI (Coq_xI
    (Coq_xO (Coq_xO (Coq_xO (Coq_xI (Coq_xI (Coq_xI (Coq_xO (Coq_xO (Coq_xO
    (Coq_xI (Coq_xI (Coq_xO (Coq_xO (Coq_xO (Coq_xO (Coq_xO (Coq_xI (Coq_xO
    (Coq_xI (Coq_xO Coq_xH)))))))))))))))))))))))))))))))) :: ((Npos (Coq_xO
    (Coq_xO (Coq_xO (Coq_xI (Coq_xO (Coq_xO (Coq_xI (Coq_xI (Coq_xI (Coq_xI
    (Coq_xI (Coq_xO (Coq_xO (Coq_xI (Coq_xO (Coq_xO (Coq_xI (Coq_xI (Coq_xO
    (Coq_xO (Coq_xO (Coq_xO (Coq_xO (Coq_xO (Coq_xO (Coq_xO (Coq_xO (Coq_xO
    (Coq_xI (Coq_xI (Coq_xO Coq_xH)))))))))))))))))))))))))))))))) :: ((Npos
    (Coq_xI (Coq_xI (Coq_xI (Coq_xO (Coq_xO (Coq_xO (Coq_xI (Coq_xI (Coq_xI
    (Coq_xI (Coq_xI (Coq_xI (Coq_xI (Coq_xI (Coq_xI (Coq_xO (Coq_xI (Coq_xO
    (Coq_xO (Coq_xI (Coq_xI (Coq_xO (Coq_xI (Coq_xO (Coq_xI (Coq_xI (Coq_xI
    (Coq_xI (Coq_xI (Coq_xI (Coq_xO
    Coq_xH)))))))))))))))))))))))))))))))) :: ((Npos (Coq_xI (Coq_xI (Coq_xO
    (Coq_xO (Coq_xI (Coq_xI (Coq_xI (Coq_xI (Coq_xI (Coq_xI (Coq_xO (Coq_xI
    (Coq_xO (Coq_xO (Coq_xO (Coq_xO (Coq_xO (Coq_xO (Coq_xO (Coq_xO (Coq_xO
    (Coq_xI (Coq_xI (Coq_xI (Coq_xO (Coq_xI (Coq_xI (Coq_xO (Coq_xO (Coq_xO
    (Coq_xI Coq_xH)))))))))))))))))))))))))))))))) :: ((Npos (Coq_xI (Coq_xI
    (Coq_xI (Coq_xO (Coq_xO (Coq_xO (Coq_xI (Coq_xO (Coq_xI (Coq_xO (Coq_xO
    (Coq_xO (Coq_xI (Coq_xO (Coq_xO (Coq_xI (Coq_xI (Coq_xI (Coq_xI (Coq_xO
    (Coq_xO (Coq_xI (Coq_xO (Coq_xI (Coq_xI (Coq_xO (Coq_xI (Coq_xO (Coq_xI
    (Coq_xO (Coq_xI Coq_xH)))))))))))))))))))))))))))))))) :: ((Npos (Coq_xI
    (Coq_xO (Coq_xO (Coq_xO (Coq_xI (Coq_xO (Coq_xI (Coq_xO (Coq_xI (Coq_xI
    (Coq_xO (Coq_xO (Coq_xO (Coq_xI (Coq_xI (Coq_xO (Coq_xO (Coq_xI (Coq_xO
    (Coq_xI (Coq_xO (Coq_xO (Coq_xI (Coq_xI (Coq_xO (Coq_xI
    Coq_xH))))))))))))))))))))))))))) :: ((Npos (Coq_xI (Coq_xI (Coq_xI
    (Coq_xO (Coq_xO (Coq_xI (Coq_xI (Coq_xO (Coq_xI (Coq_xO (Coq_xO (Coq_xI
    (Coq_xO (Coq_xI (Coq_xO (Coq_xO (Coq_xI (Coq_xO (Coq_xO (Coq_xI (Coq_xO
    (Coq_xI (Coq_xO (Coq_xO (Coq_xO (Coq_xO (Coq_xI (Coq_xO
    Coq_xH))))))))))))))))))))))))))))) :: ((Npos (Coq_xI (Coq_xO (Coq_xI
    (Coq_xO (Coq_xO (Coq_xO (Coq_xO (Coq_xI (Coq_xO (Coq_xI (Coq_xO (Coq_xI
    (Coq_xO (Coq_xO (Coq_xO (Coq_xO (Coq_xI (Coq_xI (Coq_xI (Coq_xO (Coq_xI
    (Coq_xI (Coq_xO (Coq_xI (Coq_xI (Coq_xI (Coq_xI (Coq_xO (Coq_xO
    Coq_xH)))))))))))))))))))))))))))))) :: ((Npos (Coq_xO (Coq_xO (Coq_xO
    (Coq_xI (Coq_xI (Coq_xI (Coq_xO (Coq_xO (Coq_xI (Coq_xO (Coq_xO (Coq_xO
    (Coq_xO (Coq_xI (Coq_xO (Coq_xO (Coq_xI (Coq_xI (Coq_xO (Coq_xI (Coq_xI
    (Coq_xO (Coq_xO (Coq_xO (Coq_xO (Coq_xI (Coq_xI (Coq_xI (Coq_xO
    Coq_xH)))))))))))))))))))))))))))))) :: ((Npos (Coq_xO (Coq_xO (Coq_xI
    (Coq_xI (Coq_xI (Coq_xI (Coq_xI (Coq_xI (Coq_xI (Coq_xO (Coq_xI (Coq_xI
    (Coq_xO (Coq_xI (Coq_xI (Coq_xO (Coq_xO (Coq_xO (Coq_xI (Coq_xI (Coq_xO
    (Coq_xI (Coq_xO (Coq_xO (Coq_xI (Coq_xO (Coq_xI (Coq_xI (Coq_xO (Coq_xO
    Coq_xH))))))))))))))))))))))))))))))) :: ((Npos (Coq_xI (Coq_xI (Coq_xO
    (Coq_xO (Coq_xI (Coq_xO (Coq_xO (Coq_xO (Coq_xI (Coq_xO (Coq_xI (Coq_xI
    (Coq_xO (Coq_xO (Coq_xO (Coq_xO (Coq_xO (Coq_xO (Coq_xO (Coq_xI (Coq_xI
    (Coq_xI (Coq_xO (Coq_xO (Coq_xI (Coq_xI (Coq_xO (Coq_xO (Coq_xI (Coq_xO
    Coq_xH))))))))))))))))))))))))))))))) :: ((Npos (Coq_xO (Coq_xO (Coq_xI
    (Coq_xO (Coq_xI (Coq_xO (Coq_xI (Coq_xO (Coq_xI (Coq_xI (Coq_xO (Coq_xO
    (Coq_xI (Coq_xI (Coq_xI (Coq_xO (Coq_xO (Coq_xI (Coq_xO (Coq_xI (Coq_xO
    (Coq_xO (Coq_xO (Coq_xO (Coq_xI (Coq_xO (Coq_xI (Coq_xO (Coq_xO (Coq_xI
    Coq_xH))))))))))))))))))))))))))))))) :: ((Npos (Coq_xI (Coq_xI (Coq_xO
    (Coq_xI (Coq_xI (Coq_xI (Coq_xO (Coq_xI (Coq_xO (Coq_xI (Coq_xO (Coq_xI
    (Coq_xO (Coq_xO (Coq_xO (Coq_xO (Coq_xO (Coq_xI (Coq_xO (Coq_xI (Coq_xO
    (Coq_xI (Coq_xI (Coq_xO (Coq_xO (Coq_xI (Coq_xI (Coq_xO (Coq_xI (Coq_xI
    Coq_xH))))))))))))))))))))))))))))))) :: ((Npos (Coq_xO (Coq_xI (Coq_xI
    (Coq_xI (Coq_xO (Coq_xI (Coq_xO (Coq_xO (Coq_xI (Coq_xO (Coq_xO (Coq_xI
    (Coq_xO (Coq_xO (Coq_xI (Coq_xI (Coq_xO (Coq_xI (Coq_xO (Coq_xO (Coq_xO
    (Coq_xO (Coq_xI (Coq_xI (Coq_xI (Coq_xO (Coq_xO (Coq_xO (Coq_xO (Coq_xO
    (Coq_xO Coq_xH)))))))))))))))))))))))))))))))) :: ((Npos (Coq_xI (Coq_xO
    (Coq_xI (Coq_xO (Coq_xO (Coq_xO (Coq_xO (Coq_xI (Coq_xO (Coq_xO (Coq_xI
    (Coq_xI (Coq_xO (Coq_xI (Coq_xO (Coq_xO (Coq_xO (Coq_xI (Coq_xO (Coq_xO
    (Coq_xI (Coq_xI (Coq_xI (Coq_xO (Coq_xO (Coq_xI (Coq_xO (Coq_xO (Coq_xI
    (Coq_xO (Coq_xO Coq_xH)))))))))))))))))))))))))))))))) :: ((Npos (Coq_xI
    (Coq_xO (Coq_xO (Coq_xO (Coq_xO (Coq_xI (Coq_xO (Coq_xI (Coq_xO (Coq_xO
    (Coq_xO (Coq_xI (Coq_xO (Coq_xI (Coq_xI (Coq_xI (Coq_xI (Coq_xI (Coq_xI
    (Coq_xI (Coq_xI (Coq_xI (Coq_xO (Coq_xI (Coq_xO (Coq_xI (Coq_xO (Coq_xO
    (Coq_xO (Coq_xI (Coq_xO Coq_xH)))))))))))))))))))))))))))))))) :: ((Npos
    (Coq_xI (Coq_xI (Coq_xO (Coq_xI (Coq_xO (Coq_xO (Coq_xI (Coq_xO (Coq_xO
    (Coq_xI (Coq_xI (Coq_xO (Coq_xO (Coq_xI (Coq_xI (Coq_xO (Coq_xO (Coq_xI
    (Coq_xO (Coq_xI (Coq_xI (Coq_xO (Coq_xO (Coq_xO (Coq_xO (Coq_xO (Coq_xO
    (Coq_xI (Coq_xO (Coq_xI (Coq_xO
    Coq_xH)))))))))))))))))))))))))))))))) :: ((Npos (Coq_xO (Coq_xO (Coq_xO
    (Coq_xO (Coq_xI (Coq_xI (Coq_xI (Coq_xO (Coq_xI (Coq_xI (Coq_xO (Coq_xI
    (Coq_xO (Coq_xO (Coq_xO (Coq_xI (Coq_xI (Coq_xI (Coq_xO (Coq_xI (Coq_xO
    (Coq_xO (Coq_xI (Coq_xO (Coq_xO (Coq_xI (Coq_xO (Coq_xO (Coq_xO (Coq_xO
    (Coq_xI Coq_xH)))))))))))))))))))))))))))))))) :: ((Npos (Coq_xI (Coq_xI
    (Coq_xO (Coq_xO (Coq_xO (Coq_xI (Coq_xO (Coq_xI (Coq_xI (Coq_xO (Coq_xO
    (Coq_xO (Coq_xI (Coq_xO (Coq_xI (Coq_xO (Coq_xO (Coq_xO (Coq_xI (Coq_xI
    (Coq_xO (Coq_xI (Coq_xI (Coq_xO (Coq_xI (Coq_xI (Coq_xI (Coq_xO (Coq_xO
    (Coq_xO (Coq_xI Coq_xH)))))))))))))))))))))))))))))))) :: ((Npos (Coq_xI
    (Coq_xO (Coq_xO (Coq_xI (Coq_xI (Coq_xO (Coq_xO (Coq_xO (Coq_xO (Coq_xO
    (Coq_xO (Coq_xI (Coq_xO (Coq_xI (Coq_xI (Coq_xI (Coq_xO (Coq_xI (Coq_xO
    (Coq_xO (Coq_xI (Coq_xO (Coq_xO (Coq_xI (Coq_xI (Coq_xO (Coq_xO (Coq_xO
    (Coq_xI (Coq_xO (Coq_xI Coq_xH)))))))))))))))))))))))))))))))) :: ((Npos
    (Coq_xO (Coq_xO (Coq_xI (Coq_xO (Coq_xO (Coq_xI (Coq_xO (Coq_xO (Coq_xO
    (Coq_xI (Coq_xI (Coq_xO (Coq_xO (Coq_xO (Coq_xO (Coq_xO (Coq_xI (Coq_xO
    (Coq_xO (Coq_xI (Coq_xI (Coq_xO (Coq_xO (Coq_xI (Coq_xO (Coq_xI (Coq_xI
    (Coq_xO (Coq_xI (Coq_xO (Coq_xI
    Coq_xH)))))))))))))))))))))))))))))))) :: ((Npos (Coq_xI (Coq_xO (Coq_xI
    (Coq_xO (Coq_xO (Coq_xO (Coq_xO (Coq_xI (Coq_xI (Coq_xO (Coq_xI (Coq_xO
    (Coq_xI (Coq_xI (Coq_xO (Coq_xO (Coq_xO (Coq_xI (Coq_xI (Coq_xI (Coq_xO
    (Coq_xO (Coq_xO (Coq_xO (Coq_xO (Coq_xO (Coq_xI (Coq_xO (Coq_xI (Coq_xI
    (Coq_xI Coq_xH)))))))))))))))))))))))))))))))) :: ((Npos (Coq_xO (Coq_xO
    (Coq_xO (Coq_xO (Coq_xI (Coq_xI (Coq_xI (Coq_xO (Coq_xO (Coq_xO (Coq_xO
    (Coq_xO (Coq_xO (Coq_xI (Coq_xO (Coq_xI (Coq_xO (Coq_xI (Coq_xO (Coq_xI
    (Coq_xO (Coq_xI (Coq_xI (Coq_xO (Coq_xO (Coq_xO (Coq_xO (Coq_xO
    Coq_xH))))))))))))))))))))))))))))) :: ((Npos (Coq_xO (Coq_xI (Coq_xI
    (Coq_xO (Coq_xI (Coq_xO (Coq_xO (Coq_xO (Coq_xI (Coq_xO (Coq_xO (Coq_xO
    (Coq_xO (Coq_xO (Coq_xI (Coq_xI (Coq_xO (Coq_xO (Coq_xI (Coq_xO (Coq_xO
    (Coq_xI (Coq_xO (Coq_xI (Coq_xI (Coq_xO (Coq_xO (Coq_xI
    Coq_xH))))))))))))))))))))))))))))) :: ((Npos (Coq_xO (Coq_xO (Coq_xO
    (Coq_xI (Coq_xO (Coq_xO (Coq_xO (Coq_xO (Coq_xO (Coq_xO (Coq_xI (Coq_xI
    (Coq_xO (Coq_xI (Coq_xI (Coq_xO (Coq_xI (Coq_xI (Coq_xI (Coq_xO (Coq_xI
    (Coq_xI (Coq_xO (Coq_xO (Coq_xO (Coq_xI (Coq_xI (Coq_xI
    Coq_xH))))))))))))))))))))))))))))) :: ((Npos (Coq_xO (Coq_xO (Coq_xI
    (Coq_xI (Coq_xO (Coq_xO (Coq_xI (Coq_xO (Coq_xI (Coq_xI (Coq_xI (Coq_xO
    (Coq_xI (Coq_xI (Coq_xI (Coq_xO (Coq_xO (Coq_xO (Coq_xO (Coq_xI (Coq_xO
    (Coq_xO (Coq_xI (Coq_xO (Coq_xI (Coq_xI (Coq_xI (Coq_xO (Coq_xO
    Coq_xH)))))))))))))))))))))))))))))) :: ((Npos (Coq_xI (Coq_xO (Coq_xI
    (Coq_xO (Coq_xI (Coq_xI (Coq_xO (Coq_xI (Coq_xO (Coq_xO (Coq_xI (Coq_xI
    (Coq_xI (Coq_xI (Coq_xO (Coq_xI (Coq_xO (Coq_xO (Coq_xO (Coq_xO (Coq_xI
    (Coq_xI (Coq_xO (Coq_xI (Coq_xO (Coq_xO (Coq_xI (Coq_xO (Coq_xI
    Coq_xH)))))))))))))))))))))))))))))) :: ((Npos (Coq_xI (Coq_xI (Coq_xO
    (Coq_xO (Coq_xI (Coq_xI (Coq_xO (Coq_xI (Coq_xO (Coq_xO (Coq_xI (Coq_xI
    (Coq_xO (Coq_xO (Coq_xO (Coq_xO (Coq_xO (Coq_xO (Coq_xI (Coq_xI (Coq_xI
    (Coq_xO (Coq_xO (Coq_xO (Coq_xI (Coq_xO (Coq_xO (Coq_xI (Coq_xI
    Coq_xH)))))))))))))))))))))))))))))) :: ((Npos (Coq_xO (Coq_xI (Coq_xO
    (Coq_xI (Coq_xO (Coq_xO (Coq_xI (Coq_xO (Coq_xO (Coq_xI (Coq_xO (Coq_xI
    (Coq_xO (Coq_xI (Coq_xO (Coq_xI (Coq_xO (Coq_xO (Coq_xO (Coq_xI (Coq_xI
    (Coq_xO (Coq_xI (Coq_xI (Coq_xO (Coq_xI (Coq_xI (Coq_xI (Coq_xO (Coq_xO
    Coq_xH))))))))))))))))))))))))))))))) :: ((Npos (Coq_xI (Coq_xI (Coq_xI
    (Coq_xI (Coq_xO (Coq_xO (Coq_xI (Coq_xO (Coq_xO (Coq_xI (Coq_xO (Coq_xI
    (Coq_xO (Coq_xO (Coq_xI (Coq_xI (Coq_xO (Coq_xO (Coq_xI (Coq_xI (Coq_xI
    (Coq_xO (Coq_xO (Coq_xI (Coq_xI (Coq_xI (Coq_xO (Coq_xI (Coq_xI (Coq_xO
    Coq_xH))))))))))))))))))))))))))))))) :: ((Npos (Coq_xI (Coq_xI (Coq_xO
    (Coq_xO (Coq_xI (Coq_xI (Coq_xI (Coq_xI (Coq_xI (Coq_xI (Coq_xI (Coq_xI
    (Coq_xO (Coq_xI (Coq_xI (Coq_xO (Coq_xO (Coq_xI (Coq_xI (Coq_xI (Coq_xO
    (Coq_xI (Coq_xO (Coq_xO (Coq_xO (Coq_xO (Coq_xO (Coq_xI (Coq_xO (Coq_xI
    Coq_xH))))))))))))))))))))))))))))))) :: ((Npos (Coq_xO (Coq_xI (Coq_xI
    (Coq_xI (Coq_xO (Coq_xI (Coq_xI (Coq_xI (Coq_xO (Coq_xI (Coq_xO (Coq_xO
    (Coq_xO (Coq_xO (Coq_xO (Coq_xI (Coq_xI (Coq_xI (Coq_xI (Coq_xI (Coq_xO
    (Coq_xO (Coq_xO (Coq_xI (Coq_xO (Coq_xO (Coq_xI (Coq_xO (Coq_xI (Coq_xI
    Coq_xH))))))))))))))))))))))))))))))) :: ((Npos (Coq_xI (Coq_xI (Coq_xI
    (Coq_xI (Coq_xO (Coq_xI (Coq_xI (Coq_xO (Coq_xI (Coq_xI (Coq_xO (Coq_xO
    (Coq_xO (Coq_xI (Coq_xI (Coq_xO (Coq_xI (Coq_xO (Coq_xI (Coq_xO (Coq_xO
    (Coq_xI (Coq_xO (Coq_xI (Coq_xO (Coq_xO (Coq_xO (Coq_xI (Coq_xI (Coq_xI
    Coq_xH))))))))))))))))))))))))))))))) :: ((Npos (Coq_xO (Coq_xO (Coq_xI
    (Coq_xO (Coq_xI (Coq_xO (Coq_xO (Coq_xO (Coq_xO (Coq_xO (Coq_xO (Coq_xI
    (Coq_xI (Coq_xI (Coq_xI (Coq_xO (Coq_xO (Coq_xO (Coq_xO (Coq_xI (Coq_xO
    (Coq_xO (Coq_xI (Coq_xI (Coq_xO (Coq_xO (Coq_xI (Coq_xO (Coq_xO (Coq_xO
    (Coq_xO Coq_xH)))))))))))))))))))))))))))))))) :: ((Npos (Coq_xO (Coq_xO
    (Coq_xO (Coq_xI (Coq_xO (Coq_xO (Coq_xO (Coq_xO (Coq_xO (Coq_xI (Coq_xO
    (Coq_xO (Coq_xO (Coq_xO (Coq_xO (Coq_xO (Coq_xI (Coq_xI (Coq_xI (Coq_xO
    (Coq_xO (Coq_xO (Coq_xI (Coq_xI (Coq_xO (Coq_xO (Coq_xI (Coq_xI (Coq_xO
    (Coq_xO (Coq_xO Coq_xH)))))))))))))))))))))))))))))))) :: ((Npos (Coq_xO
    (Coq_xI (Coq_xO (Coq_xI (Coq_xI (Coq_xI (Coq_xI (Coq_xI (Coq_xI (Coq_xI
    (Coq_xI (Coq_xI (Coq_xI (Coq_xI (Coq_xI (Coq_xI (Coq_xO (Coq_xI (Coq_xI
    (Coq_xI (Coq_xI (Coq_xI (Coq_xO (Coq_xI (Coq_xO (Coq_xO (Coq_xO (Coq_xO
    (Coq_xI (Coq_xO (Coq_xO Coq_xH)))))))))))))))))))))))))))))))) :: ((Npos
    (Coq_xI (Coq_xI (Coq_xO (Coq_xI (Coq_xO (Coq_xI (Coq_xI (Coq_xI (Coq_xO
    (Coq_xO (Coq_xI (Coq_xI (Coq_xO (Coq_xI (Coq_xI (Coq_xO (Coq_xO (Coq_xO
    (Coq_xO (Coq_xO (Coq_xI (Coq_xO (Coq_xI (Coq_xO (Coq_xO (Coq_xO (Coq_xI
    (Coq_xO (Coq_xO (Coq_xI (Coq_xO
    Coq_xH)))))))))))))))))))))))))))))))) :: ((Npos (Coq_xI (Coq_xI (Coq_xI
    (Coq_xO (Coq_xI (Coq_xI (Coq_xI (Coq_xI (Coq_xI (Coq_xI (Coq_xO (Coq_xO
    (Coq_xO (Coq_xI (Coq_xO (Coq_xI (Coq_xI (Coq_xO (Coq_xO (Coq_xI (Coq_xI
    (Coq_xI (Coq_xI (Coq_xI (Coq_xO (Coq_xI (Coq_xI (Coq_xI (Coq_xI (Coq_xI
    (Coq_xO Coq_xH)))))))))))))))))))))))))))))))) :: ((Npos (Coq_xO (Coq_xI
    (Coq_xO (Coq_xO (Coq_xI (Coq_xI (Coq_xI (Coq_xI (Coq_xO (Coq_xO (Coq_xO
    (Coq_xI (Coq_xI (Coq_xI (Coq_xI (Coq_xO (Coq_xI (Coq_xO (Coq_xO (Coq_xO
    (Coq_xI (Coq_xI (Coq_xI (Coq_xO (Coq_xO (Coq_xI (Coq_xI (Coq_xO (Coq_xO
    (Coq_xO (Coq_xI
    Coq_xH)))))))))))))))))))))))))))))))) :: [])))))))))))))))))))))))))))))))))))))))))))))))))))))))))))))))

(** val coq_H0 : coq_N list **)

let coq_H0 =
  (Npos (Coq_xI (Coq_xI (Coq_xI (Coq_xO (Coq_xO (Coq_xI (Coq_xI (Coq_xO
    (Coq_xO (Coq_xI (Coq_xI (Coq_xO (Coq_xO (Coq_xI (Coq_xI (Coq_xI (Coq_xI
    (Coq_xO (Coq_xO (Coq_xI (Coq_xO (Coq_xO (Coq_xO (Coq_xO (Coq_xO (Coq_xI
    (Coq_xO (Coq_xI (Coq_xO (Coq_xI
    Coq_xH))))))))))))))))))))))))))))))) :: ((Npos (Coq_xI (Coq_xO (Coq_xI
    (Coq_xO (Coq_xO (Coq_xO (Coq_xO (Coq_xI (Coq_xO (Coq_xI (Coq_xI (Coq_xI
    (Coq_xO (Coq_xI (Coq_xO (Coq_xI (Coq_xI (Coq_xI (Coq_xI (Coq_xO (Coq_xO
    (Coq_xI (Coq_xI (Coq_xO (Coq_xI (Coq_xI (Coq_xO (Coq_xI (Coq_xI (Coq_xI
    (Coq_xO Coq_xH)))))))))))))))))))))))))))))))) :: ((Npos (Coq_xO (Coq_xI
    (Coq_xO (Coq_xO (Coq_xI (Coq_xI (Coq_xI (Coq_xO (Coq_xI (Coq_xI (Coq_xO
    (Coq_xO (Coq_xI (Coq_xI (Coq_xI (Coq_xI (Coq_xO (Coq_xI (Coq_xI (Coq_xI
    (Coq_xO (Coq_xI (Coq_xI (Coq_xO (Coq_xO (Coq_xO (Coq_xI (Coq_xI (Coq_xI
    Coq_xH)))))))))))))))))))))))))))))) :: ((Npos (Coq_xO (Coq_xI (Coq_xO
    (Coq_xI (Coq_xI (Coq_xI (Coq_xO (Coq_xO (Coq_xI (Coq_xO (Coq_xI (Coq_xO
    (Coq_xI (Coq_xI (Coq_xI (Coq_xI (Coq_xI (Coq_xI (Coq_xI (Coq_xI (Coq_xO
    (Coq_xO (Coq_xI (Coq_xO (Coq_xI (Coq_xO (Coq_xI (Coq_xO (Coq_xO (Coq_xI
    (Coq_xO Coq_xH)))))))))))))))))))))))))))))))) :: ((Npos (Coq_xI (Coq_xI
    (Coq_xI (Coq_xI (Coq_xI (Coq_xI (Coq_xI (Coq_xO (Coq_xO (Coq_xI (Coq_xO
    (Coq_xO (Coq_xI (Coq_xO (Coq_xI (Coq_xO (Coq_xO (Coq_xI (Coq_xI (Coq_xI
    (Coq_xO (Coq_xO (Coq_xO (Coq_xO (Coq_xI (Coq_xO (Coq_xO (Coq_xO (Coq_xI
    (Coq_xO Coq_xH))))))))))))))))))))))))))))))) :: ((Npos (Coq_xO (Coq_xO
    (Coq_xI (Coq_xI (Coq_xO (Coq_xO (Coq_xO (Coq_xI (Coq_xO (Coq_xO (Coq_xO
    (Coq_xI (Coq_xO (Coq_xI (Coq_xI (Coq_xO (Coq_xI (Coq_xO (Coq_xI (Coq_xO
    (Coq_xO (Coq_xO (Coq_xO (Coq_xO (Coq_xI (Coq_xI (Coq_xO (Coq_xI (Coq_xI
    (Coq_xO (Coq_xO Coq_xH)))))))))))))))))))))))))))))))) :: ((Npos (Coq_xI
    (Coq_xI (Coq_xO (Coq_xI (Coq_xO (Coq_xI (Coq_xO (Coq_xI (Coq_xI (Coq_xO
    (Coq_xO (Coq_xI (Coq_xI (Coq_xO (Coq_xI (Coq_xI (Coq_xI (Coq_xI (Coq_xO
    (Coq_xO (Coq_xO (Coq_xO (Coq_xO (Coq_xI (Coq_xI (Coq_xI (Coq_xI (Coq_xI
    Coq_xH))))))))))))))))))))))))))))) :: ((Npos (Coq_xI (Coq_xO (Coq_xO
    (Coq_xI (Coq_xI (Coq_xO (Coq_xO (Coq_xO (Coq_xI (Coq_xO (Coq_xI (Coq_xI
    (Coq_xO (Coq_xO (Coq_xI (Coq_xI (Coq_xO (Coq_xO (Coq_xO (Coq_xO (Coq_xO
    (Coq_xI (Coq_xI (Coq_xI (Coq_xI (Coq_xI (Coq_xO (Coq_xI (Coq_xI (Coq_xO
    Coq_xH))))))))))))))))))))))))))))))) :: [])))))))

(** val words : coq_N list -> coq_N list **)

let rec words = function
| [] -> []
| a :: l ->
  (match l with
   | [] -> []
   | b :: l0 ->
     (match l0 with
      | [] -> []
      | c :: l1 ->
        (match l1 with
         | [] -> []
         | d :: r ->
           (N.add
             (N.add
               (N.add
                 (N.mul a (Npos (Coq_xO (Coq_xO (Coq_xO (Coq_xO (Coq_xO
                   (Coq_xO (Coq_xO (Coq_xO (Coq_xO (Coq_xO (Coq_xO (Coq_xO
                   (Coq_xO (Coq_xO (Coq_xO (Coq_xO (Coq_xO (Coq_xO (Coq_xO
                   (Coq_xO (Coq_xO (Coq_xO (Coq_xO (Coq_xO
                   Coq_xH))))))))))))))))))))))))))
                 (N.mul b (Npos (Coq_xO (Coq_xO (Coq_xO (Coq_xO (Coq_xO
                   (Coq_xO (Coq_xO (Coq_xO (Coq_xO (Coq_xO (Coq_xO (Coq_xO
                   (Coq_xO (Coq_xO (Coq_xO (Coq_xO Coq_xH)))))))))))))))))))
               (N.mul c (Npos (Coq_xO (Coq_xO (Coq_xO (Coq_xO (Coq_xO (Coq_xO
                 (Coq_xO (Coq_xO Coq_xH))))))))))) d) :: (words r))))

(** val sched : nat -> coq_N list -> coq_N list -> coq_N list **)

let rec sched n win acc =
  match n with
  | O -> rev acc
  | S k ->
    let w =
      add32
        (add32 (ssig1 (nth (S O) win N0))
          (nth (S (S (S (S (S (S O)))))) win N0))
        (add32
          (ssig0
            (nth (S (S (S (S (S (S (S (S (S (S (S (S (S (S O))))))))))))))
              win N0))
          (nth (S (S (S (S (S (S (S (S (S (S (S (S (S (S (S O)))))))))))))))
            win N0))
    in
    sched k
      (w :: (firstn (S (S (S (S (S (S (S (S (S (S (S (S (S (S (S
              O))))))))))))))) win)) (w :: acc)

(** val round : coq_N list -> (coq_N * coq_N) -> coq_N list **)

let round st kw =
  match st with
  | [] -> st
  | a :: l ->
    (match l with
     | [] -> st
     | b :: l0 ->
       (match l0 with
        | [] -> st
        | c :: l1 ->
          (match l1 with
           | [] -> st
           | d :: l2 ->
             (match l2 with
              | [] -> st
              | e :: l3 ->
                (match l3 with
                 | [] -> st
                 | f :: l4 ->
                   (match l4 with
                    | [] -> st
                    | g :: l5 ->
                      (match l5 with
                       | [] -> st
                       | h :: l6 ->
                         (match l6 with
                          | [] ->
                            let t1 =
                              add32
                                (add32 (add32 h (bsig1 e))
                                  (add32 (ch e f g) (fst kw))) (snd kw)
                            in
                            let t2 = add32 (bsig0 a) (maj a b c) in
                            (add32 t1 t2) :: (a :: (b :: (c :: ((add32 d t1) :: (e :: (f :: (g :: [])))))))
                          | _ :: _ -> st))))))))

(** val compress : coq_N list -> coq_N list -> coq_N list **)

let compress st blk =
  let w16 = words blk in
  let w =
    app w16
      (sched (S (S (S (S (S (S (S (S (S (S (S (S (S (S (S (S (S (S (S (S (S
        (S (S (S (S (S (S (S (S (S (S (S (S (S (S (S (S (S (S (S (S (S (S (S
        (S (S (S (S O))))))))))))))))))))))))))))))))))))))))))))))))
        (rev w16) [])
  in
  let st' = fold_left round (combine coq_K w) st in
  map (fun p -> add32 (fst p) (snd p)) (combine st st')

(** val be : nat -> coq_N -> coq_N list **)

let rec be n v =
  match n with
  | O -> []
  | S k ->
    app
      (be k
        (N.div v (Npos (Coq_xO (Coq_xO (Coq_xO (Coq_xO (Coq_xO (Coq_xO
          (Coq_xO (Coq_xO Coq_xH)))))))))))
      ((N.modulo v (Npos (Coq_xO (Coq_xO (Coq_xO (Coq_xO (Coq_xO (Coq_xO
         (Coq_xO (Coq_xO Coq_xH)))))))))) :: [])

(** val pad : coq_N list -> coq_N list **)

let pad m =
  let l = N.of_nat (length m) in
  let k =
    N.modulo
      (N.sub (Npos (Coq_xI (Coq_xI (Coq_xI (Coq_xO (Coq_xI (Coq_xI
        Coq_xH)))))))
        (N.modulo l (Npos (Coq_xO (Coq_xO (Coq_xO (Coq_xO (Coq_xO (Coq_xO
          Coq_xH))))))))) (Npos (Coq_xO (Coq_xO (Coq_xO (Coq_xO (Coq_xO
      (Coq_xO Coq_xH)))))))
  in
  app m
    (app ((Npos (Coq_xO (Coq_xO (Coq_xO (Coq_xO (Coq_xO (Coq_xO (Coq_xO
      Coq_xH)))))))) :: [])
      (app (repeat N0 (N.to_nat k))
        (be (S (S (S (S (S (S (S (S O))))))))
          (N.mul l (Npos (Coq_xO (Coq_xO (Coq_xO Coq_xH))))))))

(** val blocks : nat -> coq_N list -> coq_N list -> coq_N list **)

let rec blocks fuel bs st =
  match fuel with
  | O -> st
  | S k ->
    (match bs with
     | [] -> st
     | _ :: _ ->
       blocks k
         (skipn (S (S (S (S (S (S (S (S (S (S (S (S (S (S (S (S (S (S (S (S
           (S (S (S (S (S (S (S (S (S (S (S (S (S (S (S (S (S (S (S (S (S (S
           (S (S (S (S (S (S (S (S (S (S (S (S (S (S (S (S (S (S (S (S (S (S
           O))))))))))))))))))))))))))))))))))))))))))))))))))))))))))))))))
           bs)
         (compress st
           (firstn (S (S (S (S (S (S (S (S (S (S (S (S (S (S (S (S (S (S (S
             (S (S (S (S (S (S (S (S (S (S (S (S (S (S (S (S (S (S (S (S (S
             (S (S (S (S (S (S (S (S (S (S (S (S (S (S (S (S (S (S (S (S (S
             (S (S (S
             O))))))))))))))))))))))))))))))))))))))))))))))))))))))))))))))))
             bs)))

(** val sha256 : coq_N list -> coq_N list **)

let sha256 m =
  let p = pad m in
  concat
    (map (be (S (S (S (S O)))))
      (blocks (S
        (Nat.div (length p) (S (S (S (S (S (S (S (S (S (S (S (S (S (S (S (S
          (S (S (S (S (S (S (S (S (S (S (S (S (S (S (S (S (S (S (S (S (S (S
          (S (S (S (S (S (S (S (S (S (S (S (S (S (S (S (S (S (S (S (S (S (S
          (S (S (S (S
          O))))))))))))))))))))))))))))))))))))))))))))))))))))))))))))))))))
        p coq_H0))
