open BinNat
open BinNums
open BinPos
open Datatypes

module Z =
 struct
  (** val double : coq_Z -> coq_Z **)

  let double = function
  | Z0 -> Z0
  | Zpos p -> Zpos (Coq_xO p)
  | Zneg p -> Zneg (Coq_xO p)

  (** val succ_double : coq_Z -> coq_Z **)

  let succ_double = function
  | Z0 -> Zpos Coq_xH
  | Zpos p -> Zpos (Coq_xI p)
  | Zneg p -> Zneg (Pos.pred_double p)

  (** val pred_double : coq_Z -> coq_Z **)

  let pred_double = function
  | Z0 -> Zneg Coq_xH
  | Zpos p -> Zpos (Pos.pred_double p)
  | Zneg p -> Zneg (Coq_xI p)

  (** val pos_sub : positive -> positive -> coq_Z **)

  let rec pos_sub x y =
    match x with
    | Coq_xI p ->
      (match y with
       | Coq_xI q -> double (pos_sub p q)
       | Coq_xO q -> succ_double (pos_sub p q)
       | Coq_xH -> Zpos (Coq_xO p))
    | Coq_xO p ->
      (match y with
       | Coq_xI q -> pred_double (pos_sub p q)
       | Coq_xO q -> double (pos_sub p q)
       | Coq_xH -> Zpos (Pos.pred_double p))
    | Coq_xH ->
      (match y with
       | Coq_xI q -> Zneg (Coq_xO q)
       | Coq_xO q -> Zneg (Pos.pred_double q)
       | Coq_xH -> Z0)

  (** val add : coq_Z -> coq_Z -> coq_Z **)

  let add x y =
    match x with
    | Z0 -> y
    | Zpos x' ->
      (match y with
       | Z0 -> x
       | Zpos y' -> Zpos (Pos.add x' y')
       | Zneg y' -> pos_sub x' y')
    | Zneg x' ->
      (match y with
       | Z0 -> x
       | Zpos y' -> pos_sub y' x'
       | Zneg y' -> Zneg (Pos.add x' y'))

  (** val opp : coq_Z -> coq_Z **)

  let opp = function
  | Z0 -> Z0
  | Zpos x0 -> Zneg x0
  | Zneg x0 -> Zpos x0

  (** val sub : coq_Z -> coq_Z -> coq_Z **)

  let sub m n =
    add m (opp n)

  (** val mul : coq_Z -> coq_Z -> coq_Z **)

  let mul x y =
    match x with
    | Z0 -> Z0
    | Zpos x' ->
      (match y with
       | Z0 -> Z0
       | Zpos y' -> Zpos (Pos.mul x' y')
       | Zneg y' -> Zneg (Pos.mul x' y'))
    | Zneg x' ->
      (match y with
       | Z0 -> Z0
       | Zpos y' -> Zneg (Pos.mul x' y')
       | Zneg y' -> Zpos (Pos.mul x' y'))

  (** val pow_pos : coq_Z -> positive -> coq_Z **)

  let pow_pos z =
    Pos.iter (mul z) (Zpos Coq_xH)

  (** val pow : coq_Z -> coq_Z -> coq_Z **)

  let pow x = function
  | Z0 -> Zpos Coq_xH
  | Zpos p -> pow_pos x p
  | Zneg _ -> Z0

  (** val compare : coq_Z -> coq_Z -> comparison **)

  let compare x y =
    match x with
    | Z0 -> (match y with
             | Z0 -> Eq
             | Zpos _ -> Lt
             | Zneg _ -> Gt)
    | Zpos x' -> (match y with
                  | Zpos y' -> Pos.compare x' y'
                  | _ -> Gt)
    | Zneg x' ->
      (match y with
       | Zneg y' -> coq_CompOpp (Pos.compare x' y')
       | _ -> Lt)

  (** val leb : coq_Z -> coq_Z -> bool **)

  let leb x y =
    match compare x y with
    | Gt -> false
    | _ -> true

  (** val ltb : coq_Z -> coq_Z -> bool **)

  let ltb x y =
    match compare x y with
    | Lt -> true
    | _ -> false

  (** val geb : coq_Z -> coq_Z -> bool **)

  let geb x y =
    match compare x y with
    | Lt -> false
    | _ -> true

  (** val gtb : coq_Z -> coq_Z -> bool **)

  let gtb x y =
    match compare x y with
    | Gt -> true
    | _ -> false

  (** val eqb : coq_Z -> coq_Z -> bool **)

  let eqb x y =
    match x with
    | Z0 -> (match y with
             | Z0 -> true
             | _ -> false)
    | Zpos p -> (match y with
                 | Zpos q -> Pos.eqb p q
                 | _ -> false)
    | Zneg p -> (match y with
                 | Zneg q -> Pos.eqb p q
                 | _ -> false)

  (** val to_nat : coq_Z -> nat **)

  let to_nat = function
  | Zpos p -> Pos.to_nat p
  | _ -> O

  (** val to_N : coq_Z -> coq_N **)

  let to_N = function
  | Zpos p -> Npos p
  | _ -> N0

  (** val of_nat : nat -> coq_Z **)

  let of_nat = function
  | O -> Z0
  | S n0 -> Zpos (Pos.of_succ_nat n0)

  (** val of_N : coq_N -> coq_Z **)

  let of_N = function
  | N0 -> Z0
  | Npos p -> Zpos p

  (** val pos_div_eucl : positive -> coq_Z -> coq_Z * coq_Z **)

  let rec pos_div_eucl a b =
    match a with
    | Coq_xI a' ->
      let (q, r) = pos_div_eucl a' b in
      let r' = add (mul (Zpos (Coq_xO Coq_xH)) r) (Zpos Coq_xH) in
      if ltb r' b
      then ((mul (Zpos (Coq_xO Coq_xH)) q), r')
      else ((add (mul (Zpos (Coq_xO Coq_xH)) q) (Zpos Coq_xH)), (sub r' b))
    | Coq_xO a' ->
      let (q, r) = pos_div_eucl a' b in
      let r' = mul (Zpos (Coq_xO Coq_xH)) r in
      if ltb r' b
      then ((mul (Zpos (Coq_xO Coq_xH)) q), r')
      else ((add (mul (Zpos (Coq_xO Coq_xH)) q) (Zpos Coq_xH)), (sub r' b))
    | Coq_xH ->
      if leb (Zpos (Coq_xO Coq_xH)) b
      then (Z0, (Zpos Coq_xH))
      else ((Zpos Coq_xH), Z0)

  (** val div_eucl : coq_Z -> coq_Z -> coq_Z * coq_Z **)

  let div_eucl a b =
    match a with
    | Z0 -> (Z0, Z0)
    | Zpos a' ->
      (match b with
       | Z0 -> (Z0, a)
       | Zpos _ -> pos_div_eucl a' b
       | Zneg b' ->
         let (q, r) = pos_div_eucl a' (Zpos b') in
         (match r with
          | Z0 -> ((opp q), Z0)
          | _ -> ((opp (add q (Zpos Coq_xH))), (add b r))))
    | Zneg a' ->
      (match b with
       | Z0 -> (Z0, a)
       | Zpos _ ->
         let (q, r) = pos_div_eucl a' b in
         (match r with
          | Z0 -> ((opp q), Z0)
          | _ -> ((opp (add q (Zpos Coq_xH))), (sub b r)))
       | Zneg b' -> let (q, r) = pos_div_eucl a' (Zpos b') in (q, (opp r)))

  (** val modulo : coq_Z -> coq_Z -> coq_Z **)

  let modulo a b =
    let (_, r) = div_eucl a b in r

  (** val odd : coq_Z -> bool **)

  let odd = function
  | Z0 -> false
  | Zpos p -> (match p with
               | Coq_xO _ -> false
               | _ -> true)
  | Zneg p -> (match p with
               | Coq_xO _ -> false
               | _ -> true)

  (** val div2 : coq_Z -> coq_Z **)

  let div2 = function
  | Z0 -> Z0
  | Zpos p -> (match p with
               | Coq_xH -> Z0
               | _ -> Zpos (Pos.div2 p))
  | Zneg p -> Zneg (Pos.div2_up p)

  (** val testbit : coq_Z -> coq_Z -> bool **)

  let testbit a = function
  | Z0 -> odd a
  | Zpos p ->
    (match a with
     | Z0 -> false
     | Zpos a0 -> Pos.testbit a0 (Npos p)
     | Zneg a0 -> negb (N.testbit (Pos.pred_N a0) (Npos p)))
  | Zneg _ -> false

  (** val shiftl : coq_Z -> coq_Z -> coq_Z **)

  let shiftl a = function
  | Z0 -> a
  | Zpos p -> Pos.iter (mul (Zpos (Coq_xO Coq_xH))) a p
  | Zneg p -> Pos.iter div2 a p

  (** val shiftr : coq_Z -> coq_Z -> coq_Z **)

  let shiftr a n =
    shiftl a (opp n)

  (** val coq_lor : coq_Z -> coq_Z -> coq_Z **)

  let coq_lor a b =
    match a with
    | Z0 -> b
    | Zpos a0 ->
      (match b with
       | Z0 -> a
       | Zpos b0 -> Zpos (Pos.coq_lor a0 b0)
       | Zneg b0 -> Zneg (N.succ_pos (N.ldiff (Pos.pred_N b0) (Npos a0))))
    | Zneg a0 ->
      (match b with
       | Z0 -> a
       | Zpos b0 -> Zneg (N.succ_pos (N.ldiff (Pos.pred_N a0) (Npos b0)))
       | Zneg b0 ->
         Zneg (N.succ_pos (N.coq_land (Pos.pred_N a0) (Pos.pred_N b0))))

  (** val coq_land : coq_Z -> coq_Z -> coq_Z **)

  let coq_land a b =
    match a with
    | Z0 -> Z0
    | Zpos a0 ->
      (match b with
       | Z0 -> Z0
       | Zpos b0 -> of_N (Pos.coq_land a0 b0)
       | Zneg b0 -> of_N (N.ldiff (Npos a0) (Pos.pred_N b0)))
    | Zneg a0 ->
      (match b with
       | Z0 -> Z0
       | Zpos b0 -> of_N (N.ldiff (Npos b0) (Pos.pred_N a0))
       | Zneg b0 ->
         Zneg (N.succ_pos (N.coq_lor (Pos.pred_N a0) (Pos.pred_N b0))))
 end
