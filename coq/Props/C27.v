(* C27 — clvm_tree_to_lazy_node preserves any CLVM object.
   Only statements here; every proof is `exact <lemma>` from Proofs/PyHeapProofs.v.

   Full statement: for every object exposing the atom/pair protocol -- including objects whose
   pair accessor builds fresh child objects on every call -- the result denotes the tree of the
   source object. [clvm_tree_to_lazy_node oracle keepalive obj] is the transcription of
   wheel/src/api.rs:193-298 (Model/PyHeap.v): [keepalive = false] is the code without a
   keep-alive vector, [true] the code that pushes every visited object on a vector that lives
   until the function returns (notes/fix_F3.diff). [current_keepalive] is what the translator
   read from api.rs on this run.

   Proved:
     C27_stable   objects all of whose pair accessors return retained children (Program, CLVMTree,
                  plain classes; sharing allowed: equal addresses denote equal trees) convert to
                  their own tree by the UNREPAIRED algorithm, for every oracle
     C27_refuted  (finding F3) there are an oracle that never hands out the address of a live
                  object and an object with a fresh-children accessor -- the 5-node tree
                  (1 . (2 . 3)) -- that the unrepaired algorithm converts to a different tree,
                  (1 . (1 . 3)). (Trees with at most three nodes cannot fail: their two children
                  are both alive when they are visited; not stated as a theorem.)
     C27_fixed    the repaired algorithm converts EVERY object (any mix of retained and fresh
                  children) to its own tree, for every oracle satisfying py_alloc_valid
     C27_current  the same for the algorithm found in the source on this run, under the premise
                  that it is the repaired one (false today: F3)
   Premises visible in the statements: [py_alloc_valid] (the allocator never returns the address
   of a live object; satisfiable: C27_oracle_exists), [addr_consistent [obj]] (among the objects
   the root keeps alive, one address is one object; satisfiable: C27_witness).
   Not covered by the theorems: the Rust Allocator's limits (the conversion can fail with
   MemoryError), the interning maps (a NodePtr is modelled by the tree it denotes), objects that
   have neither .atom nor .pair, exceptions raised by the accessors; the serde_2026 round trip
   of the result is C20. *)
From Clvm Require Import Model.PyHeap Proofs.PyHeapProofs.
Open Scope N_scope.

Theorem C27_stable : forall oracle obj, stable obj = true -> addr_consistent [obj] ->
  clvm_tree_to_lazy_node oracle false obj = Ok (tree_of obj).
Proof. exact stable_correct. Qed.

Theorem C27_refuted : exists oracle obj, py_alloc_valid oracle /\ addr_consistent [obj] /\
  clvm_tree_to_lazy_node oracle false obj <> Ok (tree_of obj).
Proof.
  exists reusing_oracle, f3_witness. split; [exact reusing_oracle_valid|]. split; [exact f3_witness_consistent|].
  destruct f3_refuted as (H1 & H2 & _). rewrite H1, H2. discriminate.
Qed.

Theorem C27_fixed : forall oracle obj, py_alloc_valid oracle -> addr_consistent [obj] ->
  clvm_tree_to_lazy_node oracle true obj = Ok (tree_of obj).
Proof. exact fixed_correct. Qed.

Theorem C27_current : current_keepalive = true ->
  forall oracle obj, py_alloc_valid oracle -> addr_consistent [obj] ->
  clvm_tree_to_lazy_node oracle current_keepalive obj = Ok (tree_of obj).
Proof. intros E oracle obj. rewrite E. apply fixed_correct. Qed.

Theorem C27_oracle_exists : py_alloc_valid reusing_oracle.
Proof. exact reusing_oracle_valid. Qed.

(* non-vacuity: a shared stable object, the F3 witness under both algorithms *)
Example C27_witness :
  let s := OStable 1 (OAtom 2 [1]) (OStable 3 (OAtom 4 [2]) (OAtom 2 [1])) in
  stable s = true /\ clvm_tree_to_lazy_node reusing_oracle false s = Ok (tree_of s) /\
  clvm_tree_to_lazy_node reusing_oracle false (OFresh 1 (Atom [1]) (Cons (Atom [2]) (Atom [3])))
    = Ok (Cons (Atom [1]) (Cons (Atom [1]) (Atom [3]))) /\
  clvm_tree_to_lazy_node reusing_oracle true (OFresh 1 (Atom [1]) (Cons (Atom [2]) (Atom [3])))
    = Ok (Cons (Atom [1]) (Cons (Atom [2]) (Atom [3]))).
Proof. vm_compute. repeat split. Qed.

Print Assumptions C27_stable.
Print Assumptions C27_refuted.
Print Assumptions C27_fixed.
Print Assumptions C27_current.
Print Assumptions C27_oracle_exists.
Print Assumptions C27_witness.
