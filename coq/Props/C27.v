(* C27 — clvm_tree_to_lazy_node preserves any CLVM object.
   Only statements here; every proof is `exact <lemma>` from Proofs/PyHeapProofs.v.
   (header completed below as the theorems are added) *)
From Clvm Require Import Model.PyHeap Proofs.PyHeapProofs.
Open Scope N_scope.

Theorem C27_refuted : exists oracle obj, py_alloc_valid oracle /\
  clvm_tree_to_lazy_node oracle false obj <> Ok (tree_of obj).
Proof.
  exists reusing_oracle, f3_witness. split; [exact reusing_oracle_valid|].
  destruct f3_refuted as (H1 & H2 & _). rewrite H1, H2. discriminate.
Qed.

Print Assumptions C27_refuted.
