(* C16 — classic decoders are total and agree with each other.
   Only statements here; every proof is `exact <lemma>` from Proofs/ClassicProofs.v.

   Full statement: node_from_bytes, parse_triples and tree_hash_from_stream are total, accept the
   same strings, consume the same bytes, describe the same tree; and for accepted inputs
   is_canonical_serialization b <-> (consumed = |b| /\ ser t = b).
   Proved: node_from_stream and tree_hash_from_stream both refine the recursive grammar [parse]
   for every byte string (same accept set, same remaining input, hash = treehash of the tree,
   same error), and neither reaches a panic site or runs out of its fuel (fuel is a function of the
   input length, so termination within 2|b|+2 loop iterations is part of the statement).
   NOT proved (so the property is claimed below proof level): the same refinement for
   parse_triples (modelled in Model/Classic.v, compared with the implementation, no theorem yet)
   and the canonical equivalence (only its <- direction on serializer output, C15_canonical).
   Real memory use is outside the model. The sha256 function is a Section variable: the theorems
   hold for every function H. *)
From Clvm Require Import Model.Classic Proofs.DecoderGeneric Proofs.ClassicProofs.
Open Scope N_scope.

(* the stack decoder is the recursive grammar, on every byte string *)
Theorem C16_node_from_stream_is_parse : forall bs, node_from_stream bs = parse bs.
Proof. exact node_from_stream_parse. Qed.

(* total: never a panic site (values.pop().unwrap()), never out of fuel *)
Theorem C16_node_from_stream_total : forall bs e,
  node_from_stream bs = Err e -> ~ (e = OutOfFuel \/ exists n, e = Panic n).
Proof. exact node_from_stream_total. Qed.

(* tree_hash_from_stream: same accept set, same error, same remaining input, hash of the same tree *)
Theorem C16_tree_hash_agrees_partial : forall (H : bytes -> bytes) bs,
  tree_hash_from_stream H bs =
    match node_from_stream bs with
    | Ok (t, rest) => Ok (treehash H t, rest)
    | Err e => Err e
    end.
Proof.
  intros H bs. rewrite tree_hash_from_stream_parse, node_from_stream_parse.
  destruct (parse bs) as [[t rest]|e]; reflexivity.
Qed.

Example C16_witness :
  node_from_stream [0xff; 0x83; 1; 2; 3; 0xff; 0x80; 0x05; 0x77] =
    Ok (Cons (Atom [1; 2; 3]) (Cons (Atom []) (Atom [5])), [0x77]) /\
  node_from_stream [0xff; 0x83; 1; 2] = Err SerializationError /\
  node_from_stream [0xfe; 0; 0; 0; 0; 0; 1; 0x61] = Err SerializationError.
Proof. vm_compute. repeat split. Qed.

Print Assumptions C16_node_from_stream_is_parse.
Print Assumptions C16_node_from_stream_total.
Print Assumptions C16_tree_hash_agrees_partial.
Print Assumptions C16_witness.
