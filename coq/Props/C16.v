(* C16 — classic decoders are total and agree with each other.
   Only statements here; every proof is `exact <lemma>` from Proofs/Classic*.v.

   Full statement: node_from_bytes, parse_triples and tree_hash_from_stream are total (no panic,
   no over-allocation), accept the same strings, consume the same bytes, describe the same tree
   (same triple structure and tree hash); and for accepted inputs
   is_canonical_serialization b <-> (consumed = |b| /\ ser t = b).
   All of it is proved, for every byte string and (where a hash occurs) for every function H in
   place of sha256:
     C16_node_from_stream_is_parse / _total   the ParseOp stack machine is the recursive grammar
                           [parse]; no panic site (values.pop().unwrap()) and no fuel exhaustion
                           (fuel = 2|b|+2 is inside the definition: termination bound);
     C16_tree_hash_agrees  tree_hash_from_stream: same accept set, same error, same remaining
                           input, hash = treehash of the tree node_from_stream builds;
     C16_parse_triples_agrees  parse_triples: same accept set and remaining input; on success the
                           triple array is [triples_of a 0 0] and the hash array [hashes_of H a] of
                           an annotated tree [a] (the decoded tree + each atom's prefix length,
                           Proofs/ClassicTriples.v) with [aerase a] = the tree of node_from_stream;
                           on failure the same error except that a truncated atom body is
                           InternalError ("copy terminated early") where node_from_stream reports
                           SerializationError;
     C16_parse_triples_total   no panic site of de_tree.rs (r[index], tree_hashes[index + 1],
                           tree_hashes[right_index], the two panic!s) is reachable, and the loop
                           ends within 4|b|+4 iterations;
     C16_parse_triples_describe  reading the returned array back against the input as the
                           ParsedTriple documentation says (atom bytes = blob[start+atom_offset..end],
                           left child = next index, right child = right_index) gives exactly the
                           tree of node_from_stream; the root triple spans [0, consumed);
                           the array has one entry per node and the hash array holds the tree hash
                           of every sub-tree in the same (pre-)order;
     C16_no_over_allocation  what the decoders build is bounded by what they read: the decoded
                           tree has at most one node and at most one atom byte per consumed input
                           byte (so new_atom / new_pair requests, the triple and hash arrays, and
                           the value stacks are linear in the input). The allocator's own caps and
                           Vec capacity growth are outside the model (DESIGN.md section 3);
     C16_canon             the canonical equivalence; C16_canon_total: is_canonical_serialization
                           returns true or false on every byte string (its panic!("unexpected atom
                           length prefix") is unreachable, fuel 2|b|+2 suffices).
   [wf_bytes b]: every element of the list is a byte (< 256). *)
From Clvm Require Import Model.Classic Proofs.DecoderGeneric Proofs.ClassicProofs
  Proofs.ClassicConverse Proofs.ClassicTriples.
Open Scope N_scope.

(* the stack decoder is the recursive grammar, on every byte string *)
Theorem C16_node_from_stream_is_parse : forall bs, node_from_stream bs = parse bs.
Proof. exact node_from_stream_parse. Qed.

(* total: never a panic site (values.pop().unwrap()), never out of fuel *)
Theorem C16_node_from_stream_total : forall bs e,
  node_from_stream bs = Err e -> ~ (e = OutOfFuel \/ exists n, e = Panic n).
Proof. exact node_from_stream_total. Qed.

(* tree_hash_from_stream: same accept set, same error, same remaining input, hash of the same tree *)
Theorem C16_tree_hash_agrees : forall (H : bytes -> bytes) bs,
  tree_hash_from_stream H bs =
    match node_from_stream bs with
    | Ok (t, rest) => Ok (treehash H t, rest)
    | Err e => Err e
    end.
Proof.
  intros H bs. rewrite tree_hash_from_stream_parse, node_from_stream_parse.
  destruct (parse bs) as [[t rest]|e]; reflexivity.
Qed.

(* parse_triples: same accept set, same remaining input, arrays of the same (annotated) tree *)
Theorem C16_parse_triples_agrees : forall (H : bytes -> bytes) bs,
  match node_from_stream bs with
  | Ok (t, rest) =>
      exists a, aerase a = t /\ parse_triples H bs = Ok (triples_of a 0 0, hashes_of H a, rest)
  | Err e =>
      exists e', parse_triples H bs = Err e' /\
                 (e' = e \/ (e' = InternalError 2 /\ e = SerializationError))
  end.
Proof. exact parse_triples_agrees. Qed.

Theorem C16_parse_triples_total : forall (H : bytes -> bytes) bs e,
  parse_triples H bs = Err e -> ~ (e = OutOfFuel \/ exists n, e = Panic n).
Proof. exact parse_triples_total. Qed.

(* the triple array read back against the input is the decoded tree; one triple per node; hash
   array = tree hash of each sub-tree (pre-order); root span = consumed bytes *)
Theorem C16_parse_triples_describe : forall (H : bytes -> bytes) bs ts hs rest,
  parse_triples H bs = Ok (ts, hs, rest) ->
  exists t, node_from_stream bs = Ok (t, rest) /\
            tree_of_triples (length ts) bs ts 0 = Some t /\
            exists t0, nth_error ts 0 = Some t0 /\ triple_span t0 = (0, blen bs - blen rest).
Proof. exact parse_triples_describe. Qed.

Theorem C16_parse_triples_hashes : forall (H : bytes -> bytes) bs ts hs rest,
  parse_triples H bs = Ok (ts, hs, rest) ->
  exists t, node_from_stream bs = Ok (t, rest) /\ hs = map (treehash H) (subtrees t) /\
            length ts = n_nodes t.
Proof. exact parse_triples_hashes. Qed.

Theorem C16_no_over_allocation : forall bs t rest, node_from_stream bs = Ok (t, rest) ->
  (n_nodes t <= length bs - length rest /\ atom_bytes t <= length bs - length rest)%nat.
Proof. exact decode_output_bounded. Qed.

(* canonical <-> the whole input is one tree whose re-serialization reproduces it *)
Theorem C16_canon : forall b t rest, wf_bytes b = true -> node_from_stream b = Ok (t, rest) ->
  (is_canonical_serialization b = BTrue <-> rest = [] /\ ser t = Some b).
Proof. exact canonical_iff. Qed.

Theorem C16_canon_total : forall bs, wf_bytes bs = true ->
  is_canonical_serialization bs = BTrue \/ is_canonical_serialization bs = BFalse.
Proof. exact is_canonical_total. Qed.

Example C16_witness :
  node_from_stream [0xff; 0x83; 1; 2; 3; 0xff; 0x80; 0x05; 0x77] =
    Ok (Cons (Atom [1; 2; 3]) (Cons (Atom []) (Atom [5])), [0x77]) /\
  node_from_stream [0xff; 0x83; 1; 2] = Err SerializationError /\
  node_from_stream [0xfe; 0; 0; 0; 0; 0; 1; 0x61] = Err SerializationError.
Proof. vm_compute. repeat split. Qed.

(* parse_triples on the same inputs (hash function: identity, so that the arrays are readable):
   a non-canonical two-byte prefix shows up as atom_offset 2; the truncated atom is the one error
   that differs *)
Example C16_triples_witness :
  parse_triples (fun x => x) [0xff; 0xc0; 0x03; 1; 2; 3; 0xff; 0x80; 0x05; 0x77] =
    Ok ([TPair 0 9 2; TAtom 1 6 2; TPair 6 9 4; TAtom 7 8 1; TAtom 8 9 0],
        [[2; 1; 1; 2; 3; 2; 1; 1; 5]; [1; 1; 2; 3]; [2; 1; 1; 5]; [1]; [1; 5]], [0x77]) /\
  parse_triples (fun x => x) [0xff; 0x83; 1; 2] = Err (InternalError 2) /\
  is_canonical_serialization [0xff; 0xc0; 0x03; 1; 2; 3; 0xff; 0x80; 0x05] = BFalse /\
  is_canonical_serialization [0xff; 0x83; 1; 2; 3; 0xff; 0x80; 0x05] = BTrue /\
  is_canonical_serialization [0xff; 0x83; 1; 2; 3; 0xff; 0x80; 0x05; 0x77] = BFalse.
Proof. vm_compute. repeat split. Qed.

Print Assumptions C16_node_from_stream_is_parse.
Print Assumptions C16_node_from_stream_total.
Print Assumptions C16_tree_hash_agrees.
Print Assumptions C16_parse_triples_agrees.
Print Assumptions C16_parse_triples_total.
Print Assumptions C16_parse_triples_describe.
Print Assumptions C16_parse_triples_hashes.
Print Assumptions C16_no_over_allocation.
Print Assumptions C16_canon.
Print Assumptions C16_canon_total.
Print Assumptions C16_witness.
Print Assumptions C16_triples_witness.
