(* C30 — RuntimeDialect with the standard table matches ChiaDialect.
   Only statements here; every proof is `exact <lemma>` from Proofs/DialectC30.v, DialectLimits.v, DialectC30All.v.

   Models: Model/Dialect.v [runtime_dialect] (runtime_dialect.rs + the standard operator-name
   table of f_table.rs, quote 1, apply 2) and [chia_dialect] (chia_dialect.rs), both over the
   machine of Model/Machine.v, any cryptographic primitives P.

   "A program that uses only opcodes present in RuntimeDialect's table (or opcodes both dialects
   treat as unknown) and no softfork guard" is made precise by the barrier dialect
   [common_dialect P flags]: it dispatches exactly the opcodes on which the two dispatch functions
   agree under [flags] ([common_b]: the 42 table opcodes; every other one-byte opcode except 48
   and - when their flag is on - 62, 63, 64, 65; every multi-byte opcode except the two 4-byte secp
   opcodes) and reports Err Unsupported for every other operator atom and for the softfork
   keyword. Operator atoms are computed at run time (a program can build the program it applies),
   so "uses only" is a property of the run, not of the program text: the premise of C30_run is
   that the run on the barrier dialect does not end in the barrier error.

   Flags. RuntimeDialect::new keeps the flag word F as given and hands it unchanged to every
   operator; its gc_candidate is constantly false and its dispatch never reads DISABLE_OP.
   ChiaDialect::new clears LIMITS when NEW_COST_MODEL is set, reads ENABLE_GC (gc_candidate) and
   DISABLE_OP (dispatch of opcode 60). Operators read LIMITS and DISABLE_OP only in the form
   `flag && !NEW_COST_MODEL && size test` (multiply, div, divmod, mod, modpow, g1_multiply,
   g2_multiply) and never ENABLE_GC: C30_flags_unobservable, proved for every operator function
   either dispatch table can return (Proofs/DialectLimits.v, [flags_sim], [all_ops]).

   Full statement: same result, cost and error kind as ChiaDialect "with the same flags minus
   ENABLE_GC and DISABLE_OP", for all programs, environments, budgets and flag sets.
   * Read as "both dialects built with the same flag set F, F containing neither ENABLE_GC nor
     DISABLE_OP": C30_run, whole - every such F (with or without LIMITS, NEW_COST_MODEL, ...; the
     former premise [dialect_flags flags = flags] is gone), every primitives record, fuel, program,
     environment and budget.
   * Read as "RuntimeDialect{F} against ChiaDialect{F minus ENABLE_GC and DISABLE_OP}", F any flag
     set: C30_run_all proves it for every F that has NEW_COST_MODEL or lacks DISABLE_OP (ENABLE_GC
     free); C30_run_words is the same on 32-bit flag words and the extraction entry points
     run_runtime / run_chia. On the remaining class (DISABLE_OP without NEW_COST_MODEL) it is
     FALSE, C30_minus_disable_op_refuted: op_div, op_divmod and op_mod themselves read DISABLE_OP
     (a dividend longer than 2048 bytes is rejected) and RuntimeDialect hands the bit to them:
     (/ (q . 0x01^2049) (q . 3)) fails with InvalidOpArg on RuntimeDialect{DISABLE_OP} and succeeds
     with cost 29709 on ChiaDialect{}. Reproduced on the implementation by lib/props/c30.py (probe
     "disable_op_div").
   * C30_run_minus_gc - for EVERY flag set F without exception: RuntimeDialect{F} =
     ChiaDialect{F minus ENABLE_GC} [DISABLE_OP kept], the barrier additionally closing opcode 60
     under DISABLE_OP without NEW_COST_MODEL (ChiaDialect's dispatch disables modpow there,
     RuntimeDialect's does not: C30_modpow_disabled_differs).
   C30_dispatch is the opcode-level fact; C30_tables the table-level one. *)
From Clvm Require Import Model.Dialect Proofs.DialectContracts Proofs.DialectC30 Proofs.DialectLimits Proofs.DialectC30All.
Open Scope N_scope.

Theorem C30_tables : forall P flags x, f_disable_op flags = false -> inb x RUNTIME_CODES = true ->
  exists f, chia_table P flags x = Some (Ok f) /\ runtime_table P x = Some f.
Proof. exact tables_agree. Qed.

Theorem C30_unknown_to_both : forall P flags x,
  inb x RUNTIME_CODES = false -> inb x CHIA_EXTRA_CODES = false ->
  chia_table P flags x = None /\ runtime_table P x = None.
Proof. intros P flags x H1 H2. split; [exact (chia_table_none P flags x H1 H2)|exact (runtime_table_none P x H1)]. Qed.

Theorem C30_dispatch : forall P flags b a m ext, f_disable_op flags = false -> common_b flags b = true ->
  chia_op P true flags (Atom b) a m OsDefault = runtime_op P flags (Atom b) a m ext.
Proof. exact dispatch_agree. Qed.

Theorem C30_run : forall P flags,
  f_enable_gc flags = false -> f_disable_op flags = false ->
  forall fuel p e M,
  run_program (common_dialect P flags) fuel p e M <> Err Unsupported ->
  run_program (runtime_dialect P flags) fuel p e M = run_program (common_dialect P flags) fuel p e M /\
  run_program (chia_dialect P flags) fuel p e M = run_program (common_dialect P flags) fuel p e M.
Proof. exact runtime_matches_chia_same. Qed.

(* every operator function of either table gives the same outcome on flag sets that differ only in
   ENABLE_GC and, under NEW_COST_MODEL, in LIMITS / DISABLE_OP *)
Theorem C30_flags_unobservable : forall P, Forall op_mask_indep (all_ops P).
Proof. exact all_ops_mask_indep. Qed.

Theorem C30_run_all : forall P F, f_disable_op F = false \/ f_new_cost_model F = true ->
  forall fuel p e M,
  run_program (common_dialect P F) fuel p e M <> Err Unsupported ->
  run_program (runtime_dialect P F) fuel p e M = run_program (common_dialect P F) fuel p e M /\
  run_program (chia_dialect P (minus_gc_disable_op F)) fuel p e M = run_program (common_dialect P F) fuel p e M.
Proof. exact runtime_matches_chia_all. Qed.

Theorem C30_run_words : forall P w, has w BIT_DISABLE_OP = false \/ has w BIT_NEW_COST_MODEL = true ->
  forall fuel p e M,
  run_program (common_dialect P (flags_of_N w)) fuel p e M <> Err Unsupported ->
  run_runtime P fuel w p e M = run_chia P fuel (N.ldiff w GC_DISABLE_OP_BITS) p e M.
Proof. exact run_runtime_eq_run_chia. Qed.

Theorem C30_run_minus_gc : forall P F fuel p e M,
  run_program (common_gc_dialect P F) fuel p e M <> Err Unsupported ->
  run_program (runtime_dialect P F) fuel p e M = run_program (common_gc_dialect P F) fuel p e M /\
  run_program (chia_dialect P (minus_gc F)) fuel p e M = run_program (common_gc_dialect P F) fuel p e M.
Proof. exact runtime_matches_chia_gc. Qed.

Theorem C30_minus_disable_op_refuted : forall P,
  has BIT_DISABLE_OP BIT_DISABLE_OP = true /\ has BIT_DISABLE_OP BIT_NEW_COST_MODEL = false /\
  run_program (common_dialect P (flags_of_N BIT_DISABLE_OP)) 100 div_2049 (Atom []) 0 = Err (InvalidOpArg 0) /\
  run_runtime P 100 BIT_DISABLE_OP div_2049 (Atom []) 0 = Err (InvalidOpArg 0) /\
  exists v, run_chia P 100 (N.ldiff BIT_DISABLE_OP GC_DISABLE_OP_BITS) div_2049 (Atom []) 0 = Ok (29709, v).
Proof. exact minus_disable_op_refuted. Qed.

Theorem C30_modpow_disabled_differs : forall P,
  run_runtime P 100 BIT_DISABLE_OP modpow_2_77 (Atom []) 0 = Ok (17321, Atom [12; 128; 88]) /\
  run_chia P 100 BIT_DISABLE_OP modpow_2_77 (Atom []) 0 = Err Unimplemented /\
  run_chia P 100 0 modpow_2_77 (Atom []) 0 = Ok (17321, Atom [12; 128; 88]).
Proof. exact modpow_disabled_differs. Qed.

(* non-vacuity: (+ (q . 1) (q . 2)) and an unknown two-byte operator run on the barrier dialect
   without hitting the barrier; coinid (48) and softfork (36) hit it *)
Example C30_witness : forall P,
  let f := flags_of_N 0 in
  let q x := Cons (Atom [1]) x in
  run_program (common_dialect P f) 100 (Cons (Atom [16]) (Cons (q (Atom [1])) (Cons (q (Atom [2])) (Atom [])))) (Atom []) 0
    = Ok (796, Atom [3]) /\
  run_program (common_dialect P f) 100 (Cons (Atom [1; 0]) (Cons (q (Atom [5])) (Atom []))) (Atom []) 0 = Ok (23, Atom []) /\
  run_program (common_dialect P f) 100 (Cons (Atom [48]) (Atom [])) (Atom []) 0 = Err Unsupported /\
  run_program (common_dialect P f) 100 (Cons (Atom [36]) (Cons (q (Atom [1])) (Atom []))) (Atom []) 0 = Err Unsupported /\
  dialect_flags f = f.
Proof. intros P. vm_compute. repeat split. Qed.

(* non-vacuity of C30_run_all / C30_run_words: NEW_COST_MODEL + LIMITS + DISABLE_OP + ENABLE_GC and
   (multiply (q . 0x01^300) (q . 3)); the run does not hit the barrier, succeeds on both dialects with the
   same cost and value; with LIMITS alone the 300-byte operand is rejected (the bit is live) *)
Example C30_witness_limits : forall P,
  let w := N.lor BIT_NEW_COST_MODEL (N.lor BIT_LIMITS (N.lor BIT_DISABLE_OP BIT_ENABLE_GC)) in
  let q x := Cons (Atom [1]) x in
  let prog := Cons (Atom [18]) (Cons (q (Atom (repeat 1 300))) (Cons (q (Atom [3])) (Atom []))) in
  (has w BIT_DISABLE_OP = false \/ has w BIT_NEW_COST_MODEL = true) /\
  has w BIT_LIMITS = true /\ dialect_flags (flags_of_N w) <> flags_of_N w /\
  exists v,
  run_program (common_dialect P (flags_of_N w)) 100 prog (Atom []) 0 = Ok (9550, v) /\
  run_runtime P 100 w prog (Atom []) 0 = Ok (9550, v) /\
  run_chia P 100 (N.ldiff w GC_DISABLE_OP_BITS) prog (Atom []) 0 = Ok (9550, v) /\
  run_runtime P 100 BIT_LIMITS prog (Atom []) 0 = Err (InvalidOpArg 0) /\
  run_chia P 100 BIT_LIMITS prog (Atom []) 0 = Err (InvalidOpArg 0).
Proof. exact witness_limits. Qed.

(* non-vacuity of C30_run_minus_gc in the class C30_run_all leaves out: DISABLE_OP without
   NEW_COST_MODEL, (/ (q . 0x01^2049) (q . 3)) passes the barrier and fails alike on both *)
Example C30_witness_disable_op : forall P,
  let F := flags_of_N (N.lor BIT_DISABLE_OP BIT_ENABLE_GC) in
  run_program (common_gc_dialect P F) 100 div_2049 (Atom []) 0 = Err (InvalidOpArg 0) /\
  run_program (runtime_dialect P F) 100 div_2049 (Atom []) 0 = Err (InvalidOpArg 0) /\
  run_program (chia_dialect P (minus_gc F)) 100 div_2049 (Atom []) 0 = Err (InvalidOpArg 0) /\
  run_program (common_gc_dialect P F) 100 modpow_2_77 (Atom []) 0 = Err Unsupported.
Proof. exact witness_disable_op. Qed.

Print Assumptions C30_tables.
Print Assumptions C30_unknown_to_both.
Print Assumptions C30_dispatch.
Print Assumptions C30_run.
Print Assumptions C30_witness.
Print Assumptions C30_flags_unobservable.
Print Assumptions C30_run_all.
Print Assumptions C30_run_words.
Print Assumptions C30_run_minus_gc.
Print Assumptions C30_minus_disable_op_refuted.
Print Assumptions C30_modpow_disabled_differs.
Print Assumptions C30_witness_limits.
Print Assumptions C30_witness_disable_op.
