(* C30 — RuntimeDialect with the standard table matches ChiaDialect.
   Only statements here; every proof is `exact <lemma>` from Proofs/DialectC30.v.

   Models: Model/Dialect.v [runtime_dialect] (runtime_dialect.rs + the standard operator-name
   table of f_table.rs, quote 1, apply 2) and [chia_dialect] (chia_dialect.rs), both over the
   machine of Model/Machine.v, any cryptographic primitives P.

   "A program that uses only opcodes present in RuntimeDialect's table (or opcodes both dialects
   treat as unknown) and no softfork guard" is made precise by the barrier dialect
   [common_dialect P flags]: it dispatches exactly the opcodes on which the two dispatch functions
   agree under [flags] ([common_b]: the 42 table opcodes; every other one-byte opcode except 48
   and - when their flag is on - 62, 63, 64, 65; every multi-byte opcode except the two 4-byte secp
   opcodes) and reports Err Unsupported for every other operator atom and for the softfork
   keyword. Operator atoms are computed at run time (a program can build the program it applies),
   so "uses only" is a property of the run, not of the program text: the premise of C30_run is
   that the run on the barrier dialect does not end in the barrier error.

   Full statement: for flags minus ENABLE_GC and DISABLE_OP, same result, cost and error kind.
   Proved: C30_run, under the additional premise [dialect_flags flags = flags], i.e. not both
   NEW_COST_MODEL and LIMITS (ChiaDialect::new clears LIMITS under NEW_COST_MODEL, RuntimeDialect
   does not; every operator reads LIMITS only without NEW_COST_MODEL, but that per-operator fact
   is not proved here: that flag combination is covered by the differential run only).
   C30_dispatch is the opcode-level fact; C30_tables the table-level one. *)
From Clvm Require Import Model.Dialect Proofs.DialectC30.
Open Scope N_scope.

Theorem C30_tables : forall P flags x, f_disable_op flags = false -> inb x RUNTIME_CODES = true ->
  exists f, chia_table P flags x = Some (Ok f) /\ runtime_table P x = Some f.
Proof. exact tables_agree. Qed.

Theorem C30_unknown_to_both : forall P flags x,
  inb x RUNTIME_CODES = false -> inb x CHIA_EXTRA_CODES = false ->
  chia_table P flags x = None /\ runtime_table P x = None.
Proof. intros P flags x H1 H2. split; [exact (chia_table_none P flags x H1 H2)|exact (runtime_table_none P x H1)]. Qed.

Theorem C30_dispatch : forall P flags b a m ext, f_disable_op flags = false -> common_b flags b = true ->
  chia_op P true flags (Atom b) a m OsDefault = runtime_op P flags (Atom b) a m ext.
Proof. exact dispatch_agree. Qed.

Theorem C30_run : forall P flags,
  f_enable_gc flags = false -> f_disable_op flags = false -> dialect_flags flags = flags ->
  forall fuel p e M,
  run_program (common_dialect P flags) fuel p e M <> Err Unsupported ->
  run_program (runtime_dialect P flags) fuel p e M = run_program (common_dialect P flags) fuel p e M /\
  run_program (chia_dialect P flags) fuel p e M = run_program (common_dialect P flags) fuel p e M.
Proof. exact runtime_matches_chia. Qed.

(* non-vacuity: (+ (q . 1) (q . 2)) and an unknown two-byte operator run on the barrier dialect
   without hitting the barrier; coinid (48) and softfork (36) hit it *)
Example C30_witness : forall P,
  let f := flags_of_N 0 in
  let q x := Cons (Atom [1]) x in
  run_program (common_dialect P f) 100 (Cons (Atom [16]) (Cons (q (Atom [1])) (Cons (q (Atom [2])) (Atom [])))) (Atom []) 0
    = Ok (796, Atom [3]) /\
  run_program (common_dialect P f) 100 (Cons (Atom [1; 0]) (Cons (q (Atom [5])) (Atom []))) (Atom []) 0 = Ok (23, Atom []) /\
  run_program (common_dialect P f) 100 (Cons (Atom [48]) (Atom [])) (Atom []) 0 = Err Unsupported /\
  run_program (common_dialect P f) 100 (Cons (Atom [36]) (Cons (q (Atom [1])) (Atom []))) (Atom []) 0 = Err Unsupported /\
  dialect_flags f = f.
Proof. intros P. vm_compute. repeat split. Qed.

Print Assumptions C30_tables.
Print Assumptions C30_unknown_to_both.
Print Assumptions C30_dispatch.
Print Assumptions C30_run.
Print Assumptions C30_witness.
