(* C06 — the MALACHITE bignum backend is unobservable.
   Only statements here; proofs are `exact <lemma>` from Proofs/OpContractsMore.v / OpsMoreLemmas.v.

   Full statement: for every argument list and flag set, div, divmod, mod and modpow with
   MALACHITE return exactly what they return without it (result atoms, cost, error kind).

   The Rust has two transcriptions of every wrapper (op_x and op_x_malachite). The model has both:
   op_x_num over Z directly, op_x_malachite_with L over the operations [L : bigint_lib] the
   wrapper asks of the second library. Proved: for EVERY library L that computes the same integer
   functions (lib_ok: decode, minimal encode, sign tests, floor division and modulus, modpow with
   non-negative exponent and non-zero modulus), the malachite wrapper equals the num-bigint
   wrapper on every flag set, argument tree and budget (C06_div .. C06_modpow): argument count,
   pair rejection, DISABLE_OP / LIMITS size rules, both cost models, check_cost, zero divisor,
   negative exponent, result encoding and malloc cost coincide. Hence the exported operators do
   not depend on the MALACHITE flag (C06_*_flag = op_malachite_indep). The premise lib_ok is what
   a proof about Rust crates cannot give; it holds for the model's instance (C06_lib) and is
   tested on the real libraries by the correspondence run (both flag values vs the model) and by
   the implementation-level search MALACHITE vs not. *)
From Clvm Require Import Model.OpsArith Proofs.OpContractDefs Proofs.OpContractsMore Proofs.OpsMoreLemmas.
Open Scope N_scope.

Theorem C06_div : forall L, lib_ok L -> forall f a m, op_div_malachite_with L f a m = op_div_num f a m.
Proof. exact div_twins. Qed.
Theorem C06_divmod : forall L, lib_ok L -> forall f a m, op_divmod_malachite_with L f a m = op_divmod_num f a m.
Proof. exact divmod_twins. Qed.
Theorem C06_mod : forall L, lib_ok L -> forall f a m, op_mod_malachite_with L f a m = op_mod_num f a m.
Proof. exact mod_twins. Qed.
Theorem C06_modpow : forall L, lib_ok L -> forall f a m, op_modpow_malachite_with L f a m = op_modpow_num f a m.
Proof. exact modpow_twins. Qed.

Theorem C06_lib : lib_ok malachite_lib.
Proof. exact malachite_lib_ok. Qed.

Theorem C06_div_flag : op_malachite_indep op_div. Proof. exact div_malachite_indep. Qed.
Theorem C06_divmod_flag : op_malachite_indep op_divmod. Proof. exact divmod_malachite_indep. Qed.
Theorem C06_mod_flag : op_malachite_indep op_mod. Proof. exact mod_malachite_indep. Qed.
Theorem C06_modpow_flag : op_malachite_indep op_modpow. Proof. exact modpow_malachite_indep. Qed.

(* the model's modpow (square-and-multiply) is the mathematical one, sign following the modulus *)
Theorem C06_modpow_meaning : forall b e m, (0 <= e)%Z -> m <> 0%Z -> modpow b e m = ((b ^ e) mod m)%Z.
Proof. exact modpow_spec. Qed.

(* non-vacuity: a call that reaches the library on both sides (negative dividend, padded divisor) *)
Example C06_witness :
  let a := Cons (Atom [255; 129]) (Cons (Atom [0; 7]) (Atom [])) in
  op_divmod (flags_of_N 0x1000) a 100000 = Ok (1160, Cons (Atom [237]) (Atom [6])) /\
  op_divmod (flags_of_N 0) a 100000 = Ok (1160, Cons (Atom [237]) (Atom [6])).
Proof. vm_compute. split; reflexivity. Qed.

Print Assumptions C06_div.
Print Assumptions C06_divmod.
Print Assumptions C06_mod.
Print Assumptions C06_modpow.
Print Assumptions C06_lib.
Print Assumptions C06_div_flag.
Print Assumptions C06_divmod_flag.
Print Assumptions C06_mod_flag.
Print Assumptions C06_modpow_flag.
Print Assumptions C06_modpow_meaning.
Print Assumptions C06_witness.
