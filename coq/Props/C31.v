(* C31 — softfork guards are isolated and always yield nil.
   Only statements here; every proof is `exact <lemma>` from Proofs/MachineGuard.v (which rests on
   the frame lemma of Proofs/MachineFrame.v).

   Full statement: under every cost model a softfork guard that completes yields nil and leaves
   the allocator's atom, pair and heap counts as they were at guard entry; except for
   grandfathered extensions under NEW_COST_MODEL it has consumed exactly its declared cost; with
   LIMIT_SOFTFORK a guard nested 21 deep fails while 20 succeed.

   The machine is Model/Machine.v (run_program.rs on the tree store), for EVERY dialect record
   (operator function, keywords, extension map, flags), every budget M, every body, environment
   and every enclosing machine state. [nsteps d M n (c, s) (c', s')] = n loop iterations lead from
   cost c, state s to cost c', state s'. [guard_call d st vs es rest gs declared ext prg env]:
   the next step of st applies the softfork operator to well-formed arguments (declared cost,
   known extension with operator set ext <> Default, body prg, body environment env) with
   vs / es / rest / gs below the operator's entries on the four stacks.

   Proved:
     C31_guard      if the run ever gets back to the enclosing operation-stack level (op stack no
                    longer than rest) - i.e. if the guard completes - then it first reaches,
                    after k steps, exactly the state (nil :: vs, es, rest, gs): nil in place of
                    the operator and its arguments, environments, operations and guards as they
                    were; at every earlier step the operation stack is longer than rest; and
                    unless the operator set is the cost-exempt PreHardFork one (extensions 0/1
                    under NEW_COST_MODEL) the cost at that point is cost_before + declared.
     C31_guard_run  the same for a run that succeeds as a whole.
     C31_depth      guard entry fails with SoftforkStackDepth iff LIMIT_SOFTFORK is set and 20
                    guards are already open (and the budget checks in front of it pass).
     C31_nested     20 nested calibrated guards succeed and 21 fail with SoftforkStackDepth under
                    LIMIT_SOFTFORK, both succeed without it (computation on ChiaDialect's model).
     C31_bigstep_guard  the guard clause of the big-step evaluator: nil, cost + declared.
     C31_frame      the frame lemma used for all this (a framed run = the run of the upper part,
                    then the run of the frame with the result pushed).
     C31_counters   the allocator-counter clause, on the allocator models of C12: enter (checkpoint),
                    ANY body of allocator operations that never restores to a checkpoint older
                    than the guard's own (nested guards and GC roll-backs included), leave (full
                    restore): the arena's atom / pair / heap counts - ghost counters included -
                    are exactly those at guard entry, in every history in which the arena does
                    not panic or take the F2 branch. The translator pins that run_program.rs takes
                    the checkpoint at guard entry and restores unconditionally at exit.
   Not proved: the composition of the two models (that the interpreter's allocator calls inside
   a guard are such a body is by inspection: run_program.rs only restores checkpoints it took
   itself, innermost first); the composed statement is observed on the implementation
   (lib/props/c31.py compares the three counts after every guarded run). *)
From Clvm Require Import Model.Machine Model.Dialect Model.BigStep Proofs.MachineFrame Proofs.MachineGuard
  Proofs.BigStepEquiv.
From Clvm Require Import Model.Alloc Model.AllocRef Model.AllocHist Proofs.AllocBasics Proofs.AllocSim Proofs.AllocStraddle Proofs.GuardCounters.
From Coq Require Import Lia.
Open Scope N_scope.

Theorem C31_guard : forall d M cost st vs es rest gs declared ext prg env,
  guard_call d st vs es rest gs declared ext prg env ->
  forall n c' st', nsteps d M n (cost, st) (c', st') -> (length (ops st') <= length rest)%nat ->
  exists k ck, (k <= n)%nat /\
    nsteps d M k (cost, st) (ck, {| vals := nil_s :: vs; envs := es; ops := rest; guards := gs |}) /\
    nsteps d M (n - k) (ck, {| vals := nil_s :: vs; envs := es; ops := rest; guards := gs |}) (c', st') /\
    (forall j cj sj, (j < k)%nat -> nsteps d M j (cost, st) (cj, sj) -> (length rest < length (ops sj))%nat) /\
    (ext <> OsPreHardFork -> ck = cost + declared).
Proof. exact guard_frame. Qed.

Theorem C31_guard_run : forall d M cost st vs es rest gs declared ext prg env,
  guard_call d st vs es rest gs declared ext prg env ->
  forall fuel r, run_loop d fuel M cost st = Ok r ->
  exists fuel' ck, (fuel' < fuel)%nat /\
    run_loop d fuel' M ck {| vals := nil_s :: vs; envs := es; ops := rest; guards := gs |} = Ok r /\
    (ext <> OsPreHardFork -> ck = cost + declared).
Proof. exact guard_frame_run. Qed.

Theorem C31_depth : forall d M cost st vs es rest gs declared ext prg env,
  guard_call d st vs es rest gs declared ext prg env ->
  (step d M cost st = Err SoftforkStackDepth <->
   (f_limit_softfork (d_flags d) = true /\ (20 <= length gs)%nat /\
    cost <= effective_max st M /\ declared <= effective_max st M - cost /\ declared <> 0)).
Proof. exact guard_depth. Qed.

(* the same fact read off the big-step evaluator of Model/BigStep.v (equivalent to the machine:
   C11_bigstep): for every evaluator [ev] used for the body, a guard evaluation that succeeds
   yields nil, and its cost is cost-before + declared unless the operator set is cost-exempt *)
Theorem C31_bigstep_guard : forall d M ev gs cost args c v,
  guard_big d M ev gs cost args = Ok (c, v) ->
  v = nil_s /\
  exists fa declared, first args = Ok fa /\
    uint_atom 8 (f_canonical_ints (d_flags d)) fa = Ok declared /\
    (match parse_softfork_arguments d args with
     | Ok (ext, _, _) => ext <> OsPreHardFork
     | Err _ => True
     end -> c = cost + declared).
Proof. exact guard_big_spec. Qed.

(* the frame lemma: [upper gb u] = u is a consistent upper part over the base guard stack gb
   (what eval_pair builds from nothing is one: C31_frame_init); running it under any frame F is
   running it alone and then the frame with its single result pushed *)
Theorem C31_frame : forall d F gb fuel M cost u, upper gb u ->
  run_loop d fuel M cost (under F u) =
  match run_upper d fuel M cost u with
  | Ok (f', c', u') => run_loop d f' M c' (under F u')
  | Err e => Err e
  end.
Proof. exact run_loop_frame. Qed.

Theorem C31_frame_final : forall d gb fuel M cost u f' c' u', upper gb u ->
  run_upper d fuel M cost u = Ok (f', c', u') ->
  (exists v, u' = {| vals := [v]; envs := []; ops := []; guards := gb |}) /\
  (f' <= fuel)%nat /\ cost <= c'.
Proof. exact run_upper_final. Qed.

Theorem C31_frame_init : forall d gb p e c u,
  eval_pair d {| vals := []; envs := []; ops := []; guards := gb |} p e = Ok (c, u) -> upper gb u.
Proof. exact eval_pair_upper0. Qed.

(* ------------------------------------------------------------------ non-vacuity, by computation *)
Definition q_ (x : sexp) : sexp := Cons (Atom [1]) x.
Definition enc_cost (c : N) : bytes := if c <? 128 then [c] else [c / 256; c mod 256].
(* (softfork (q . declared) (q . ext) (q . body) (q . ())) *)
Definition sf_ (declared : N) (ext : bytes) (body : sexp) : sexp :=
  Cons (Atom [36]) (Cons (q_ (Atom (enc_cost declared))) (Cons (q_ (Atom ext)) (Cons (q_ body) (Cons (q_ nil_s) nil_s)))).
(* k guards around (q . 1), each calibrated: (program, its cost) *)
Fixpoint nest_ (k : nat) : sexp * N :=
  match k with
  | O => (q_ (Atom [1]), 20)
  | S k' => let '(b, c) := nest_ k' in (sf_ (140 + c) [] b, c + 221)
  end.

(* (softfork (q . 160) (q . 0) (q . (q . 1)) (q . ())): 1 + 4 * 20 for the call, 160 declared =
   140 guard + 20 body. Declaring 161 is a mismatch, 159 runs out of the guard's budget. Under
   NEW_COST_MODEL extension 0 is the cost-exempt set: any declared cost passes, the real cost
   (500 guard + 20) is charged. *)
Example C31_witness : forall P,
  let f := flags_of_N 0 in
  run_program (chia_dialect P f) 100 (sf_ 160 [] (q_ (Atom [1]))) nil_s 0 = Ok (241, nil_s) /\
  run_program (chia_dialect P f) 100 (sf_ 161 [] (q_ (Atom [1]))) nil_s 0 = Err SoftforkCostMismatch /\
  run_program (chia_dialect P f) 100 (sf_ 159 [] (q_ (Atom [1]))) nil_s 0 = Err CostExceeded /\
  run_program (chia_dialect P (flags_of_N BIT_NEW_COST_MODEL)) 100 (sf_ 5 [] (q_ (Atom [1]))) nil_s 0 = Ok (601, nil_s) /\
  (* the hypotheses of C31_guard hold at the second state of that run *)
  guard_call (chia_dialect P f)
    {| vals := [Cons (Atom [0; 160]) (Cons nil_s (Cons (q_ (Atom [1])) (Cons nil_s nil_s))); Atom [36]];
       envs := [nil_s]; ops := [OApply]; guards := [] |} [] [] [] [] 160 OsBls (q_ (Atom [1])) nil_s.
Proof.
  intros P. split; [vm_compute; reflexivity|]. split; [vm_compute; reflexivity|].
  split; [vm_compute; reflexivity|]. split; [vm_compute; reflexivity|].
  do 4 eexists. split; [reflexivity|]. vm_compute. repeat split.
Qed.

(* 20 nested guards succeed, the 21st level fails under LIMIT_SOFTFORK; without the flag both run *)
Example C31_nested : forall P,
  let lim := flags_of_N BIT_LIMIT_SOFTFORK in
  run_program (chia_dialect P lim) 1000 (fst (nest_ 20)) nil_s 0 = Ok (snd (nest_ 20), nil_s) /\
  run_program (chia_dialect P lim) 1000 (fst (nest_ 21)) nil_s 0 = Err SoftforkStackDepth /\
  run_program (chia_dialect P (flags_of_N 0)) 1000 (fst (nest_ 21)) nil_s 0 = Ok (snd (nest_ 21), nil_s) /\
  snd (nest_ 20) = 4440 /\ snd (nest_ 21) = 4661.
Proof. intros P. vm_compute. repeat split. Qed.

Theorem C31_counters : forall fx limit pre body st_pre st_end,
  1 <= limit ->
  let rs := r_final limit pre in
  let rs1 := fst (r_step rs OCheckpoint) in
  let rs2 := fst (r_run rs1 body) in
  let k := N.of_nat (length (r_cps rs2) - length (r_cps rs1)) in
  let h := pre ++ OCheckpoint :: body ++ [ORestore k] in
  Forall wf_op2 h ->
  a_final fx limit pre = Some st_pre -> a_dead st_pre = false -> a_f2 st_pre = false ->
  (forall st0, a_init limit = Ok st0 -> substr_clean fx st0 pre) ->
  a_final fx limit h = Some st_end -> a_dead st_end = false -> a_f2 st_end = false ->
  (forall st0, a_init limit = Ok st0 -> substr_clean fx st0 h) ->
  body_local (length (r_cps rs1)) rs1 body = true -> r_dead rs2 = false ->
  a_counts st_end = a_counts st_pre.
Proof. exact arena_guard_counts. Qed.

(* non-vacuity: a guard body with small atoms (ghost-counted), heap atoms, a nested guard, a GC
   checkpoint with a maybe_restore, and ghost pairs; the counts return to (4, 1, 10) *)
Definition guard_pre : list op := [ONewAtom [1; 2; 3; 4; 5; 6; 7; 8]; ONewSmall 7; ONewPair 0 1].
Definition guard_body : list op :=
  [ONewSmall 5; ONewAtom [9; 9; 9; 9; 9]; ONewPair 3 4; OCheckpoint; ONewU64 70000; ORestore 0;
   OTCheckpoint; ONewConcat 13 [0; 4]; OMaybeRestore 0 4; OAddGhostPair 2; ONewNumber (-5)].

Example C31_counters_witness :
  let h := guard_pre ++ OCheckpoint :: guard_body ++ [ORestore 2] in
  Forall wf_op2 h /\
  N.of_nat (length (r_cps (fst (r_run (fst (r_step (r_final 5000 guard_pre) OCheckpoint)) guard_body)))
            - length (r_cps (fst (r_step (r_final 5000 guard_pre) OCheckpoint)))) = 2 /\
  body_local 1 (fst (r_step (r_final 5000 guard_pre) OCheckpoint)) guard_body = true /\
  option_map a_dead (a_final true 5000 h) = Some false /\
  option_map a_f2 (a_final true 5000 h) = Some false /\
  option_map a_counts (a_final true 5000 guard_pre) = Some (4, 1, 10) /\
  option_map a_counts (a_final true 5000 (guard_pre ++ OCheckpoint :: guard_body)) <> Some (4, 1, 10) /\
  option_map a_counts (a_final true 5000 h) = Some (4, 1, 10).
Proof.
  cbv zeta. split.
  { repeat (apply Forall_cons; [cbn [wf_op2]; try exact I; try reflexivity; try lia|]). apply Forall_nil. }
  repeat split; try (vm_compute; reflexivity). vm_compute. discriminate.
Qed.

Print Assumptions C31_counters.
Print Assumptions C31_counters_witness.
Print Assumptions C31_guard.
Print Assumptions C31_guard_run.
Print Assumptions C31_depth.
Print Assumptions C31_bigstep_guard.
Print Assumptions C31_frame.
Print Assumptions C31_frame_final.
Print Assumptions C31_frame_init.
Print Assumptions C31_witness.
Print Assumptions C31_nested.
