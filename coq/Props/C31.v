(* C31 — softfork guards are isolated and always yield nil.
   Only statements here; every proof is `exact <lemma>` from Proofs/MachineGuard.v (which rests on
   the frame lemma of Proofs/MachineFrame.v).

   Full statement: under every cost model a softfork guard that completes yields nil and leaves
   the allocator's atom, pair and heap counts as they were at guard entry; except for
   grandfathered extensions under NEW_COST_MODEL it has consumed exactly its declared cost; with
   LIMIT_SOFTFORK a guard nested 21 deep fails while 20 succeed.

   The machine is Model/Machine.v (run_program.rs on the tree store), for EVERY dialect record
   (operator function, keywords, extension map, flags), every budget M, every body, environment
   and every enclosing machine state. [nsteps d M n (c, s) (c', s')] = n loop iterations lead from
   cost c, state s to cost c', state s'. [guard_call d st vs es rest gs declared ext prg env]:
   the next step of st applies the softfork operator to well-formed arguments (declared cost,
   known extension with operator set ext <> Default, body prg, body environment env) with
   vs / es / rest / gs below the operator's entries on the four stacks.

   Proved:
     C31_guard      if the run ever gets back to the enclosing operation-stack level (op stack no
                    longer than rest) - i.e. if the guard completes - then it first reaches,
                    after k steps, exactly the state (nil :: vs, es, rest, gs): nil in place of
                    the operator and its arguments, environments, operations and guards as they
                    were; at every earlier step the operation stack is longer than rest; and
                    unless the operator set is the cost-exempt PreHardFork one (extensions 0/1
                    under NEW_COST_MODEL) the cost at that point is cost_before + declared.
     C31_guard_run  the same for a run that succeeds as a whole.
     C31_depth      guard entry fails with SoftforkStackDepth iff LIMIT_SOFTFORK is set and 20
                    guards are already open (and the budget checks in front of it pass).
     C31_nested     20 nested calibrated guards succeed and 21 fail with SoftforkStackDepth under
                    LIMIT_SOFTFORK, both succeed without it (computation on ChiaDialect's model).
     C31_frame      the frame lemma used for all this (a framed run = the run of the upper part,
                    then the run of the frame with the result pushed).
   Not proved here: the allocator-counter clause. The tree-store machine has no allocator; "a
   full checkpoint restore resets the three counts" is proved on the allocator model (C12) and
   the composed statement is observed on the implementation (lib/props/c31.py). *)
From Clvm Require Import Model.Machine Model.Dialect Proofs.MachineFrame Proofs.MachineGuard.
Open Scope N_scope.

Theorem C31_guard : forall d M cost st vs es rest gs declared ext prg env,
  guard_call d st vs es rest gs declared ext prg env ->
  forall n c' st', nsteps d M n (cost, st) (c', st') -> (length (ops st') <= length rest)%nat ->
  exists k ck, (k <= n)%nat /\
    nsteps d M k (cost, st) (ck, {| vals := nil_s :: vs; envs := es; ops := rest; guards := gs |}) /\
    nsteps d M (n - k) (ck, {| vals := nil_s :: vs; envs := es; ops := rest; guards := gs |}) (c', st') /\
    (forall j cj sj, (j < k)%nat -> nsteps d M j (cost, st) (cj, sj) -> (length rest < length (ops sj))%nat) /\
    (ext <> OsPreHardFork -> ck = cost + declared).
Proof. exact guard_frame. Qed.

Theorem C31_guard_run : forall d M cost st vs es rest gs declared ext prg env,
  guard_call d st vs es rest gs declared ext prg env ->
  forall fuel r, run_loop d fuel M cost st = Ok r ->
  exists fuel' ck, (fuel' < fuel)%nat /\
    run_loop d fuel' M ck {| vals := nil_s :: vs; envs := es; ops := rest; guards := gs |} = Ok r /\
    (ext <> OsPreHardFork -> ck = cost + declared).
Proof. exact guard_frame_run. Qed.

Theorem C31_depth : forall d M cost st vs es rest gs declared ext prg env,
  guard_call d st vs es rest gs declared ext prg env ->
  (step d M cost st = Err SoftforkStackDepth <->
   (f_limit_softfork (d_flags d) = true /\ (20 <= length gs)%nat /\
    cost <= effective_max st M /\ declared <= effective_max st M - cost /\ declared <> 0)).
Proof. exact guard_depth. Qed.

(* the frame lemma: [upper gb u] = u is a consistent upper part over the base guard stack gb
   (what eval_pair builds from nothing is one: C31_frame_init); running it under any frame F is
   running it alone and then the frame with its single result pushed *)
Theorem C31_frame : forall d F gb fuel M cost u, upper gb u ->
  run_loop d fuel M cost (under F u) =
  match run_upper d fuel M cost u with
  | Ok (f', c', u') => run_loop d f' M c' (under F u')
  | Err e => Err e
  end.
Proof. exact run_loop_frame. Qed.

Theorem C31_frame_final : forall d gb fuel M cost u f' c' u', upper gb u ->
  run_upper d fuel M cost u = Ok (f', c', u') ->
  (exists v, u' = {| vals := [v]; envs := []; ops := []; guards := gb |}) /\
  (f' <= fuel)%nat /\ cost <= c'.
Proof. exact run_upper_final. Qed.

Theorem C31_frame_init : forall d gb p e c u,
  eval_pair d {| vals := []; envs := []; ops := []; guards := gb |} p e = Ok (c, u) -> upper gb u.
Proof. exact eval_pair_upper0. Qed.

(* ------------------------------------------------------------------ non-vacuity, by computation *)
Definition q_ (x : sexp) : sexp := Cons (Atom [1]) x.
Definition enc_cost (c : N) : bytes := if c <? 128 then [c] else [c / 256; c mod 256].
(* (softfork (q . declared) (q . ext) (q . body) (q . ())) *)
Definition sf_ (declared : N) (ext : bytes) (body : sexp) : sexp :=
  Cons (Atom [36]) (Cons (q_ (Atom (enc_cost declared))) (Cons (q_ (Atom ext)) (Cons (q_ body) (Cons (q_ nil_s) nil_s)))).
(* k guards around (q . 1), each calibrated: (program, its cost) *)
Fixpoint nest_ (k : nat) : sexp * N :=
  match k with
  | O => (q_ (Atom [1]), 20)
  | S k' => let '(b, c) := nest_ k' in (sf_ (140 + c) [] b, c + 221)
  end.

(* (softfork (q . 160) (q . 0) (q . (q . 1)) (q . ())): 1 + 4 * 20 for the call, 160 declared =
   140 guard + 20 body. Declaring 161 is a mismatch, 159 runs out of the guard's budget. Under
   NEW_COST_MODEL extension 0 is the cost-exempt set: any declared cost passes, the real cost
   (500 guard + 20) is charged. *)
Example C31_witness : forall P,
  let f := flags_of_N 0 in
  run_program (chia_dialect P f) 100 (sf_ 160 [] (q_ (Atom [1]))) nil_s 0 = Ok (241, nil_s) /\
  run_program (chia_dialect P f) 100 (sf_ 161 [] (q_ (Atom [1]))) nil_s 0 = Err SoftforkCostMismatch /\
  run_program (chia_dialect P f) 100 (sf_ 159 [] (q_ (Atom [1]))) nil_s 0 = Err CostExceeded /\
  run_program (chia_dialect P (flags_of_N BIT_NEW_COST_MODEL)) 100 (sf_ 5 [] (q_ (Atom [1]))) nil_s 0 = Ok (601, nil_s) /\
  (* the hypotheses of C31_guard hold at the second state of that run *)
  guard_call (chia_dialect P f)
    {| vals := [Cons (Atom [0; 160]) (Cons nil_s (Cons (q_ (Atom [1])) (Cons nil_s nil_s))); Atom [36]];
       envs := [nil_s]; ops := [OApply]; guards := [] |} [] [] [] [] 160 OsBls (q_ (Atom [1])) nil_s.
Proof.
  intros P. split; [vm_compute; reflexivity|]. split; [vm_compute; reflexivity|].
  split; [vm_compute; reflexivity|]. split; [vm_compute; reflexivity|].
  do 4 eexists. split; [reflexivity|]. vm_compute. repeat split.
Qed.

(* 20 nested guards succeed, the 21st level fails under LIMIT_SOFTFORK; without the flag both run *)
Example C31_nested : forall P,
  let lim := flags_of_N BIT_LIMIT_SOFTFORK in
  run_program (chia_dialect P lim) 1000 (fst (nest_ 20)) nil_s 0 = Ok (snd (nest_ 20), nil_s) /\
  run_program (chia_dialect P lim) 1000 (fst (nest_ 21)) nil_s 0 = Err SoftforkStackDepth /\
  run_program (chia_dialect P (flags_of_N 0)) 1000 (fst (nest_ 21)) nil_s 0 = Ok (snd (nest_ 21), nil_s) /\
  snd (nest_ 20) = 4440 /\ snd (nest_ 21) = 4661.
Proof. intros P. vm_compute. repeat split. Qed.

Print Assumptions C31_guard.
Print Assumptions C31_guard_run.
Print Assumptions C31_depth.
Print Assumptions C31_frame.
Print Assumptions C31_frame_final.
Print Assumptions C31_frame_init.
Print Assumptions C31_witness.
Print Assumptions C31_nested.
