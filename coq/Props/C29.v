(* C29 — size-limited serializers fail exactly at the limit with out-of-memory.
   Only statements here; every proof is `exact <lemma>` from Proofs/ClassicWriter.v.

   Full statement (both serializers):
     forall t L, ser_X_limit t L = if |ser_X t| <=? L then Ok (ser_X t) else Err OutOfMemory
   for X = classic (node_to_bytes_limit) and X = back-references (node_to_bytes_backrefs_limit).
   Proved here: the classic serializer in full (C29_classic), and for the LimitedWriter that both
   serializers write through, the same law for ANY sequence of write_all chunks
   (C29_writer_partial). The back-reference serializer's half is Props/C29br.v (C29_backrefs:
   model of ser_br.rs + read_cache_lookup.rs writing through the same LimitedWriter), built and
   counted by the same check (lib/props/c29.py). *)
From Clvm Require Import Model.Classic Proofs.ClassicWriter.
Open Scope N_scope.

(* the unlimited serialization is the recursive [ser]; it exists iff every atom is < 2^34 bytes *)
Theorem C29_ser_defined : forall t, atoms_small t = true <-> ser t <> None.
Proof. exact ser_defined. Qed.

(* node_to_bytes_limit: explicit-stack loop over a LimitedWriter, every limit, every tree *)
Theorem C29_classic : forall t s limit, ser t = Some s ->
  node_to_bytes_limit t limit = if blen s <=? limit then Ok s else Err OutOfMemory.
Proof. exact node_to_bytes_limit_spec. Qed.

(* the writer itself: whatever chunks are written, and wherever the limit is crossed *)
Theorem C29_writer_partial : forall chunks w,
  lw_writes w chunks =
    if blen (concat chunks) <=? lw_limit w
    then Some {| lw_out := lw_out w ++ concat chunks; lw_limit := lw_limit w - blen (concat chunks) |}
    else None.
Proof. exact lw_writes_spec. Qed.

(* non-vacuity: a tree whose serialization is 8 bytes, limits 7 (crossed inside the last atom's
   prefix) and 8 *)
Example C29_witness :
  let t := Cons (Atom [1; 2; 3]) (Atom [0xaa; 0xbb]) in
  ser t = Some [0xff; 0x83; 1; 2; 3; 0x82; 0xaa; 0xbb] /\
  node_to_bytes_limit t 5 = Err OutOfMemory /\ node_to_bytes_limit t 7 = Err OutOfMemory /\
  node_to_bytes_limit t 8 = Ok [0xff; 0x83; 1; 2; 3; 0x82; 0xaa; 0xbb].
Proof. vm_compute. repeat split. Qed.

Print Assumptions C29_ser_defined.
Print Assumptions C29_classic.
Print Assumptions C29_writer_partial.
Print Assumptions C29_witness.
