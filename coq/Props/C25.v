(* C25 — The interpreter is total: no panics, no internal errors.
   Only statements here; proofs are `exact <lemma>` from Proofs/MachineTotal.v, Proofs/DialectTotal.v
   and the per-operator totality contracts (Proofs/OpContracts*.v).

   In the models a Rust panic site (unwrap, expect, indexing, assert!, atom() on a pair) is the
   explicit outcome Err (Panic n), an InternalError site is Err (InternalError n), a plain u64
   addition/multiplication that could wrap is Err (Overflow n), and running out of the model's
   loop fuel is Err OutOfFuel; [machine_bug e] = e is an InternalError or a Panic;
   [user_error e] = e is none of InternalError, Panic, Overflow, OutOfFuel, Unsupported.

   Full statement: for every program, environment, flag set and budget run_program returns normally
   (no panic, abort or stack overflow) and never reports an internal error; every operator called
   directly with any argument list behaves the same way.
   Proved (all programs, environments, flag sets, budgets, fuel, primitives):
     C25_run_chia / C25_run_hiding / C25_run_runtime: a run never ends in InternalError or Panic -
       the stack-discipline invariant (Proofs/MachineTotal.v: the three stacks stay consistent with
       the operation stack and the operator slot of every pending Apply holds an ATOM) makes
       "value stack empty", "environment stack empty", "allocator checkpoint stack empty", the
       expect()s of exit_guard and the atom()/atom_len() calls of the dialects unreachable;
     C25_operators: every operator of the dispatch tables, on ANY argument tree, flag set and
       budget, returns a value or a user-level error (never Panic/InternalError/Overflow);
     C25_unknown: the unknown-operator rule likewise, except Err (Overflow _) when its plain u64
       cost arithmetic would wrap (operands of 4 GiB and more - see C09).
   Not covered by any theorem (a Gallina model cannot exhibit them; observed by the check only,
   with every run under catch_unwind in a separate process): native stack depth, the memory
   allocator aborting, time; the InternalError sites inside src/allocator.rs are covered on the
   allocator model (Props/C12-C14, Proofs/AllocRestore.v), not composed with this machine. *)
From Clvm Require Import Model.Dialect Proofs.OpContractDefs Proofs.OpContractsMore3 Proofs.DialectContracts
  Proofs.MachineTotal Proofs.DialectTotal.
Open Scope N_scope.

Theorem C25_machine : forall d,
  (forall b a m ext e, d_op d (Atom b) a m ext = Err e -> machine_bug e = false) ->
  forall fuel p e M err, run_program d fuel p e M = Err err -> machine_bug err = false.
Proof. exact run_program_total. Qed.

Theorem C25_run_chia : forall P flags fuel p e M err,
  run_program (chia_dialect P flags) fuel p e M = Err err -> machine_bug err = false.
Proof. exact chia_total. Qed.

Theorem C25_run_hiding : forall P flags fuel p e M err,
  run_program (hiding_dialect P flags) fuel p e M = Err err -> machine_bug err = false.
Proof. exact hiding_total. Qed.

Theorem C25_run_runtime : forall P flags fuel p e M err,
  run_program (runtime_dialect P flags) fuel p e M = Err err -> machine_bug err = false.
Proof. exact runtime_total. Qed.

Theorem C25_operators : forall P, Forall (op_total (fun _ _ => True)) (all_ops P).
Proof. exact all_ops_total. Qed.

Theorem C25_unknown : forall o, op_total (unknown_bounded o) (unknown_operator o).
Proof. exact unknown_operator_total. Qed.

(* the invariant is not vacuous: it holds after the first eval_pair of any program and is what
   step_total preserves; a concrete failing run reports a user-level error *)
Example C25_witness : forall P,
  run_program (chia_dialect P (flags_of_N 0)) 100 (Cons (Atom [5]) (Cons (Cons (Atom [1]) (Atom [7])) (Atom []))) (Atom []) 0
    = Err (InvalidOpArg 0) /\
  machine_bug (InvalidOpArg 0) = false /\ machine_bug (InternalError 1) = true /\ machine_bug (Panic 10) = true.
Proof. intros P. vm_compute. repeat split. Qed.

Print Assumptions C25_machine.
Print Assumptions C25_run_chia.
Print Assumptions C25_run_hiding.
Print Assumptions C25_run_runtime.
Print Assumptions C25_operators.
Print Assumptions C25_unknown.
Print Assumptions C25_witness.
