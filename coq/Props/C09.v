(* C09 — unknown operators follow the published opcode cost rule.
   Only statements here; every proof is `exact <lemma>` from Proofs/UnknownProofs.v.

   Full statement: in non-strict mode every operator atom with no assigned meaning evaluates to
   nil and costs (multiplier+1) times a base taken from the opcode's cost-function bits
   (constant, add-like, multiply-like or concat-like over the argument sizes); it fails instead
   when the opcode is empty, starts with 0xffff, is longer than 5 bytes, a required atom argument
   is a pair, the base exceeds the budget, or the full product exceeds 2^32-1 (including products
   that overflow 64 bits); in strict mode every such operator fails. For all opcode byte strings,
   argument lists of any size and both cost models.

   The rule is [unknown_spec] (Model/OpsUnknown.v): written on unbounded naturals from the comment
   block more_ops.rs:362-391 and the statement above; [Some c] = nil with cost c, [None] = fails.
   The code is [unknown_cost] / [op_unknown] / [unknown_operator] with the Rust's u64 operations.

   Proved: the code follows the rule for every opcode, argument list, budget below 2^64 and both
   cost models, EXCEPT on the class [wraps64] (C09_rule); under NEW_COST_MODEL the class is empty
   for the constant, add-like and multiply-like functions (C09_new); the class is not empty
   pre-hard-fork and the statement is FALSE there (C09_refuted: finding F6, the pre-hard-fork
   `wrapping_mul`; consensus-critical, recorded as a known finding). Strict mode: C09_strict.
   The remaining members of [wraps64] are plain u64 additions/multiplications on sizes of 4 GiB
   and more (a debug build panics, a release build wraps) — not reachable with atoms the
   allocator can hold; they are excluded by hypothesis, not proved unreachable.
   Not here: which opcodes are routed to unknown_operator (the dialect, coordinator's Dialect.v). *)
From Clvm Require Import Model.OpsUnknown Proofs.UnknownProofs.
Open Scope N_scope.

Theorem C09_rule : forall op lens ncm m,
  m < two64 -> ~ wraps64 op lens ncm m ->
  res_opt (unknown_cost op lens ncm m) = unknown_spec op lens ncm m.
Proof. exact unknown_cost_rule. Qed.

(* the same on argument trees: the value is nil *)
Theorem C09_op_unknown : forall o f args m,
  m < two64 -> ~ wraps64 o (arg_lens args) (f_new_cost_model f) m ->
  res_opt (op_unknown o f args m) =
  option_map (fun c => (c, nil_s)) (unknown_spec o (arg_lens args) (f_new_cost_model f) m).
Proof. exact op_unknown_rule. Qed.

(* new cost model: checked arithmetic, no exceptional class (cost functions 0, 1, 2) *)
Theorem C09_new : forall op lens m,
  m < two64 -> cost_function_of op <> 3 ->
  res_opt (unknown_cost op lens true m) = unknown_spec op lens true m.
Proof. exact unknown_cost_rule_new. Qed.

(* F6: pre-hard-fork the statement fails on the wrapping class *)
Theorem C09_refuted : exists op lens m,
  m < two64 /\ wraps64 op lens false m /\
  unknown_spec op lens false m = None /\ unknown_cost op lens false m = Ok 2375088102 /\
  unknown_cost op lens true m = Err CostExceeded.
Proof. exact f6_refutes. Qed.

(* strict mode (chia_dialect.rs unknown_operator) *)
Theorem C09_strict : forall o f args m,
  (f_no_unknown_ops f = true -> unknown_operator o f args m = Err Unimplemented) /\
  (f_no_unknown_ops f = false -> unknown_operator o f args m = op_unknown o f args m).
Proof. exact unknown_operator_modes. Qed.

(* `assert!(cost > 0)` (more_ops.rs:514) cannot fail *)
Theorem C09_base_positive : forall fn lens ncm m c,
  m < two64 -> unknown_base fn lens ncm m = Ok c -> 0 < c.
Proof. exact unknown_base_pos. Qed.

(* non-vacuity: the hypotheses of C09_rule hold on a multiply-like opcode with multiplier 0x3c on
   atoms of 1000 and 70000 bytes and a pair-free list, and the rule gives a cost *)
Example C09_witness :
  let op := [60; 128] in let lens := [Some 1000; Some 70000] in
  ~ wraps64 op lens false 11000000000 /\
  unknown_spec op lens false 11000000000 = Some 59404972 /\
  unknown_cost op lens false 11000000000 = Ok 59404972 /\
  unknown_spec op [Some 1000; None] false 11000000000 = None /\
  unknown_cost op [Some 1000; None] false 11000000000 = Err (InvalidOpArg 0).
Proof. exact unknown_witness. Qed.

Print Assumptions C09_rule.
Print Assumptions C09_op_unknown.
Print Assumptions C09_new.
Print Assumptions C09_refuted.
Print Assumptions C09_strict.
Print Assumptions C09_base_positive.
Print Assumptions C09_witness.
