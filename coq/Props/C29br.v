(* C29, back-reference half — node_to_bytes_backrefs_limit fails exactly at the limit with
   out-of-memory. (Props/C29.v holds the classic half and the writer law; this file is separate so
   that the two work streams do not edit the same file.)
   Only statements here; the proof is `exact <lemma>` from Proofs/SerBRLimit.v.

   Proved, for every hash function, every tree and every limit, about the Gallina model of
   ser_br.rs (Model/SerBR.v, the serializer loop is written once over an abstract io::Write and
   instantiated with an unlimited buffer and with the LimitedWriter of ser.rs): whenever the
   unlimited serializer returns bytes bs,
       node_to_bytes_backrefs_limit t L = if |bs| <= L then Ok bs else Err OutOfMemory,
   wherever the limit is crossed: at the 0xfe / 0xff marker, inside the length prefix of a path
   or an atom, or inside its body. No premise about the hash function is needed.
   Not covered: the case in which the unlimited serializer itself fails (an atom of 2^34 bytes or
   more: SerializationError; the unproved totality of C17). *)
From Clvm Require Import Model.BackRef Model.ReadCache Model.SerBR Model.Sha256 Proofs.SerBRLimit.
Open Scope N_scope.

Theorem C29_backrefs : forall H t limit bs, node_to_bytes_backrefs H t = Ok bs ->
  node_to_bytes_backrefs_limit H t limit = if blen bs <=? limit then Ok bs else Err OutOfMemory.
Proof. exact ser_br_limit_spec. Qed.

(* non-vacuity: the 9-byte compressed form of (x . x); limit 7 is crossed inside the 0xfe item,
   limit 0 at the first marker *)
Example C29_backrefs_witness :
  let t := Cons (Atom [1; 2; 3; 4; 5]) (Atom [1; 2; 3; 4; 5]) in
  node_to_bytes_backrefs sha256 t = Ok [255; 133; 1; 2; 3; 4; 5; 254; 2] /\
  node_to_bytes_backrefs_limit sha256 t 9 = Ok [255; 133; 1; 2; 3; 4; 5; 254; 2] /\
  node_to_bytes_backrefs_limit sha256 t 8 = Err OutOfMemory /\
  node_to_bytes_backrefs_limit sha256 t 7 = Err OutOfMemory /\
  node_to_bytes_backrefs_limit sha256 t 0 = Err OutOfMemory.
Proof. vm_compute. repeat split. Qed.

Print Assumptions C29_backrefs.
Print Assumptions C29_backrefs_witness.
