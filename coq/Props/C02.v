(* C02 — Cost budget is sound, monotone and tight.
   Only statements here; every proof is `exact <lemma>` from Proofs/Machine{Budget,Tight}.v and
   Proofs/DialectContracts.v.

   The machine is Model/Machine.v (run_program.rs on the tree store). [dop_budget d] is the
   operator budget contract (an operator's outcome depends on its budget only by CostExceeded
   and a success survives every larger budget); it is PROVED for ChiaDialect, the extension-hiding
   dialect and RuntimeDialect, every flag set, every set of cryptographic primitives
   (C02_chia_contract, C02_hiding_contract, C02_runtime_contract). [eff M] is the effective
   budget: 0 means unlimited (Cost::MAX). [fuel] bounds the number of loop iterations of the
   model; a run that exhausts it is Err OutOfFuel, never Ok, so every statement is about
   completed runs. The allocator caps and STACK_SIZE_LIMIT are outside this machine.

   Clauses of the property:
     - success under M with cost C implies C <= M                          C02_sound
     - every succeeding budget gives the same result and cost              C02_same
     - the succeeding budgets are upward closed                            C02_upward
     - every smaller budget fails with CostExceeded, never another error   C02_fail_kind
     - a budget of 0 means unlimited                                       C02_zero
     - unless a cost-exempt guard is entered, the smallest succeeding
       budget is exactly C                                                 C02_tight
   C02_tight needs, besides "no cost-exempt guard can be entered" (d_ext never yields the
   grandfathered operator set: ChiaDialect without NEW_COST_MODEL, RuntimeDialect always), the
   contract [dop_tight d] (a successful operator call needs no more budget than the cost it
   reports). That contract is proved for every operator except the unknown-operator rule under the
   pre-hard-fork cost model, where it is FALSE on the class of finding F6 (the 64-bit product
   wraps: the reported cost is smaller than the base that was checked against the budget;
   C02_tight_refuted_F6, found by ws-ops while proving the contract). Hence: proved outright for
   RuntimeDialect with NEW_COST_MODEL (C02_tight_runtime_new) and, for ChiaDialect under the
   pre-hard-fork cost model, for every run that does not meet the F6 class
   (C02_tight_chia_outside_F6); the check reports F6 as KNOWN-FINDING. *)
From Clvm Require Import Model.Machine Model.Dialect Model.OpsUnknown Proofs.MachineBudget Proofs.MachineTight
  Proofs.DialectContracts Proofs.OpContractsMore Proofs.UnknownProofs Model.U64.
Open Scope N_scope.

Theorem C02_sound : forall d fuel p e M C v,
  run_program d fuel p e M = Ok (C, v) -> C <= eff M.
Proof. exact run_program_sound. Qed.

Theorem C02_upward : forall d, dop_budget d -> forall fuel p e M1 M2 r,
  eff M1 <= eff M2 -> run_program d fuel p e M1 = Ok r -> run_program d fuel p e M2 = Ok r.
Proof. exact run_program_upward. Qed.

Theorem C02_same : forall d, dop_budget d -> forall fuel p e M1 M2 r1 r2,
  run_program d fuel p e M1 = Ok r1 -> run_program d fuel p e M2 = Ok r2 -> r1 = r2.
Proof. exact run_program_same. Qed.

Theorem C02_fail_kind : forall d, dop_budget d -> forall fuel p e M1 M2 r,
  eff M1 <= eff M2 -> run_program d fuel p e M2 = Ok r ->
  run_program d fuel p e M1 = Ok r \/ run_program d fuel p e M1 = Err CostExceeded.
Proof. exact run_program_fail_kind. Qed.

(* no cost-exempt guard can be entered when the dialect never maps an extension to the
   grandfathered operator set (ChiaDialect without NEW_COST_MODEL, RuntimeDialect) *)
Theorem C02_tight : forall d, dop_budget d -> dop_tight d -> (forall x, d_ext d x <> OsPreHardFork) ->
  forall fuel p e M1 M2 C v,
  run_program d fuel p e M1 = Ok (C, v) ->
  (run_program d fuel p e M2 = Ok (C, v) <-> C <= eff M2).
Proof. exact run_program_tight. Qed.

Theorem C02_zero : forall d fuel p e,
  run_program d fuel p e 0 = run_program d fuel p e COST_MAX.
Proof. exact run_program_zero. Qed.

(* the contract holds for the three dialects of the crate *)
Theorem C02_chia_contract : forall P flags, dop_budget (chia_dialect P flags).
Proof. exact chia_dop_budget. Qed.
Theorem C02_hiding_contract : forall P flags, dop_budget (hiding_dialect P flags).
Proof. exact hiding_dop_budget. Qed.
Theorem C02_runtime_contract : forall P flags, dop_budget (runtime_dialect P flags).
Proof. exact runtime_dop_budget. Qed.

(* tightness, fully discharged instance: RuntimeDialect under NEW_COST_MODEL *)
Theorem C02_tight_runtime_new : forall P flags, f_new_cost_model flags = true ->
  forall fuel p e M1 M2 C v,
  run_program (runtime_dialect P flags) fuel p e M1 = Ok (C, v) ->
  (run_program (runtime_dialect P flags) fuel p e M2 = Ok (C, v) <-> C <= eff M2).
Proof.
  intros P flags Hn. apply run_program_tight.
  - exact (runtime_dop_budget P flags).
  - exact (runtime_dop_tight_new P flags Hn).
  - intros x; discriminate.
Qed.

(* tightness for ChiaDialect under the pre-hard-fork cost model, for every run that stays outside
   the F6 class: [nowrap_dialect] is ChiaDialect with one change - an operator call whose
   unknown-operator cost product would wrap 64 bits is reported as Err (Overflow 64); so the
   premise says "the program succeeds under M1 without meeting the F6 class" *)
Theorem C02_tight_chia_outside_F6 : forall P flags, f_new_cost_model flags = false ->
  forall fuel p e M1 M2 C v,
  run_program (nowrap_dialect P flags) fuel p e M1 = Ok (C, v) ->
  (run_program (chia_dialect P flags) fuel p e M2 = Ok (C, v) <-> C <= eff M2).
Proof. exact chia_tight_outside_F6. Qed.

(* finding F6 at operator level: the reported cost is 2375088102, yet the budget 3000000000 fails *)
Theorem C02_tight_refuted_F6 :
  unknown_cost f6_op f6_lens false U64_MAX = Ok 2375088102 /\
  unknown_cost f6_op f6_lens false 3000000000 = Err CostExceeded.
Proof. exact unknown_budget_refuted. Qed.

(* non-vacuity: (+ (q . 1) (q . 2)) costs 796 on the model of ChiaDialect (any primitives); it
   succeeds under budget 796 and fails with CostExceeded under 795 *)
Example C02_witness : forall P,
  let prog := Cons (Atom [16]) (Cons (Cons (Atom [1]) (Atom [1])) (Cons (Cons (Atom [1]) (Atom [2])) (Atom []))) in
  run_program (chia_dialect P (flags_of_N 0)) 100 prog (Atom []) 0 = Ok (796, Atom [3]) /\
  run_program (chia_dialect P (flags_of_N 0)) 100 prog (Atom []) 796 = Ok (796, Atom [3]) /\
  run_program (chia_dialect P (flags_of_N 0)) 100 prog (Atom []) 795 = Err CostExceeded /\
  run_program (nowrap_dialect P (flags_of_N 0)) 100 prog (Atom []) 0 = Ok (796, Atom [3]).
Proof. intros P. vm_compute. repeat split. Qed.

Print Assumptions C02_sound.
Print Assumptions C02_upward.
Print Assumptions C02_same.
Print Assumptions C02_fail_kind.
Print Assumptions C02_tight.
Print Assumptions C02_zero.
Print Assumptions C02_chia_contract.
Print Assumptions C02_hiding_contract.
Print Assumptions C02_runtime_contract.
Print Assumptions C02_tight_runtime_new.
Print Assumptions C02_tight_chia_outside_F6.
Print Assumptions C02_tight_refuted_F6.
Print Assumptions C02_witness.
