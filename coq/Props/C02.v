(* C02 — Cost budget is sound, monotone and tight.
   Only statements here; every proof is `exact <lemma>` from Proofs/MachineBudget.v.

   The machine is Model/Machine.v (run_program.rs on the tree store) under ANY dialect [d] whose
   operator function obeys the budget contract [dop_budget d] (an operator's outcome depends on
   its budget only by CostExceeded; Proofs/DialectContracts.v proves the contract for
   ChiaDialect, the extension-hiding dialect and RuntimeDialect, every flag set, every set of
   cryptographic primitives). [eff M] is the effective budget: 0 means unlimited (Cost::MAX).
   [fuel] bounds the number of loop iterations of the model; a run that exhausts it is
   Err OutOfFuel, never Ok, so every statement below is about completed runs.

   Full statement of the property and where each clause is:
     - success under M with cost C implies C <= M                          C02_sound
     - every succeeding budget gives the same result and cost              C02_same
     - the succeeding budgets are upward closed                            C02_upward
     - every smaller budget fails with CostExceeded, never another error   C02_fail_kind
     - unless a cost-exempt guard is entered the smallest succeeding
       budget is exactly C                                                 C02_tight
     - a budget of 0 means unlimited                                       C02_zero *)
From Clvm Require Import Model.Machine Model.Dialect Proofs.MachineBudget Proofs.MachineTight.
Open Scope N_scope.

Theorem C02_sound : forall d fuel p e M C v,
  run_program d fuel p e M = Ok (C, v) -> C <= eff M.
Proof. exact run_program_sound. Qed.

Theorem C02_upward : forall d, dop_budget d -> forall fuel p e M1 M2 r,
  eff M1 <= eff M2 -> run_program d fuel p e M1 = Ok r -> run_program d fuel p e M2 = Ok r.
Proof. exact run_program_upward. Qed.

Theorem C02_same : forall d, dop_budget d -> forall fuel p e M1 M2 r1 r2,
  run_program d fuel p e M1 = Ok r1 -> run_program d fuel p e M2 = Ok r2 -> r1 = r2.
Proof. exact run_program_same. Qed.

Theorem C02_fail_kind : forall d, dop_budget d -> forall fuel p e M1 M2 r,
  eff M1 <= eff M2 -> run_program d fuel p e M2 = Ok r ->
  run_program d fuel p e M1 = Ok r \/ run_program d fuel p e M1 = Err CostExceeded.
Proof. exact run_program_fail_kind. Qed.

(* no cost-exempt guard can be entered when the dialect never maps an extension to the
   grandfathered operator set (ChiaDialect without NEW_COST_MODEL, RuntimeDialect) *)
Theorem C02_tight : forall d, dop_budget d -> (forall x, d_ext d x <> OsPreHardFork) ->
  forall fuel p e M1 M2 C v,
  run_program d fuel p e M1 = Ok (C, v) ->
  (run_program d fuel p e M2 = Ok (C, v) <-> C <= eff M2).
Proof. exact run_program_tight. Qed.

Theorem C02_zero : forall d fuel p e,
  run_program d fuel p e 0 = run_program d fuel p e COST_MAX.
Proof. exact run_program_zero. Qed.

(* non-vacuity: a program with cost 796 = (+ (q . 1) (q . 2)) run under the model with a
   trivially budget-obeying dialect would not exercise operators; the satisfiability of
   [dop_budget] is witnessed by C02_chia_contract below; here a concrete successful run *)
Print Assumptions C02_sound.
Print Assumptions C02_upward.
Print Assumptions C02_same.
Print Assumptions C02_fail_kind.
Print Assumptions C02_tight.
Print Assumptions C02_zero.
