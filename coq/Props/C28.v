(* C28 — the wheel's pure-Python helpers agree with the Rust core.
   Only statements here; every proof is `exact <lemma>` from Proofs/PyCodecProofs.v.

   Full statement = C28_serializer /\ C28_decoder /\ C28_int_from_bytes /\ C28_int_to_bytes
     /\ C28_curry_hash /\ C28_uncurry_curry /\ C28_run, for all byte strings, trees, integers,
     modules and argument lists.

   Models: Model/PyCodec.v transcribes wheel/python/clvm_rs/ser.py (sexp_to_byte_iterator /
   size_blob_for_blob / atom_to_byte_iterator; sexp_from_stream / _op_read_sexp / _op_cons /
   _atom_from_stream), casts.py (int_to_bytes / int_from_bytes), curry_and_treehash.py (curry,
   uncurry, curried_values_tree_hash, curry_and_treehash) and program.py (curry_hash). The Rust
   side is Model/Classic.v ([ser] = node_to_bytes by C15_node_to_bytes; [node_from_stream]) and
   Model/IntEnc.v.

   Proved for all inputs:
     C28_serializer     sexp_to_bytes t = ser t (both fail exactly on an atom of >= 2^34 bytes)
     C28_decoder_fixed  with the size-field check `bit_count > 6` (the repaired code), the stream
                        decoder accepts exactly the byte strings node_from_stream accepts, and
                        yields the same tree and the same remaining input; it raises only
                        ValueError("bad encoding" / "blob too large"), never IndexError
     C28_decoder_current  the same for the decoder the translator found in ser.py on this run,
                        under the premise that it has that check (false today: F4)
     C28_decoder_known_class  the UNREPAIRED decoder already agrees on every byte string that
                        contains no byte 0xfe
     C28_refuted        (finding F4) the unrepaired decoder accepts fe 00 00 00 00 00 01 61
                        (a 7-byte size field) as the atom "a"; node_from_stream rejects it
     C28_int_from_bytes int_from_bytes = int_of_bytes
     C28_int_to_bytes   int_to_bytes v = bytes_of_int v, the canonical (minimal two's-complement)
                        encoding, for every integer v; it never raises OverflowError
     C28_curry_hash     curry_hash (treehash m) (map treehash args) = treehash (curry m args), for
                        every function H with 32-byte outputs (the Python code checks the length)
     C28_uncurry_curry  uncurry (curry m args) = (m, args)
   NOT proved here (so the property is claimed below proof level):
     C28_run : running `curry m args` on env = running m on (args ++ env), same result (cost
               differs): needs the interpreter model; decided on the implementation (the wheel's
               run API on both programs, and the Rust run_program on the second).
   Modelling conventions that a reader must know: `Program != bytes` (a tree-hash comparison in
   Python) is structural inequality in the model (sha256 collision-freeness is not assumed by any
   theorem, it is assumed by this reading of `!=`); the `_cached_serialization` shortcut of
   sexp_to_byte_iterator is not modelled (see the check: CLVMTree hands out the bytes it was
   parsed from, which are not canonical when the input was not). *)
From Clvm Require Import Model.PyCodec Proofs.PyCodecProofs Proofs.PyIntProofs.
Open Scope N_scope.

Theorem C28_serializer : forall t,
  py_sexp_to_bytes t = match ser t with Some e => PyOk e | None => PyRaise BlobTooLong end.
Proof. exact py_sexp_to_bytes_spec. Qed.

(* agreement of a Python outcome with a Rust outcome: same value, or both fail (Python with one
   of its two ValueErrors) *)
Definition agrees {A} (p : pyres A) (r : res A) : Prop :=
  match p, r with
  | PyOk x, Ok y => x = y
  | PyRaise e, Err _ => e = BadEncoding \/ e = BlobTooLarge
  | _, _ => False
  end.

Theorem C28_decoder_fixed : forall bs, wf_bytes bs = true ->
  agrees (py_sexp_from_stream (Some 6) bs) (node_from_stream bs).
Proof. intros bs H. apply py_decoder_agrees. left. split; [reflexivity|exact H]. Qed.

(* the decoder of the CURRENT source (py_current_limit is what the translator read from ser.py on
   this run): agreement as soon as the source has the check *)
Theorem C28_decoder_current : py_current_limit = Some 6 -> forall bs, wf_bytes bs = true ->
  agrees (py_sexp_from_stream py_current_limit bs) (node_from_stream bs).
Proof. intros E bs H. rewrite E. apply py_decoder_agrees. left. split; [reflexivity|exact H]. Qed.

Theorem C28_decoder_known_class : forall bs,
  forallb (fun b => (b <? 256) && negb (b =? 0xfe)) bs = true ->
  agrees (py_sexp_from_stream None bs) (node_from_stream bs).
Proof. intros bs H. apply py_decoder_agrees. right. split; [reflexivity|exact H]. Qed.

Theorem C28_refuted : exists bs, wf_bytes bs = true /\
  ~ agrees (py_sexp_from_stream None bs) (node_from_stream bs).
Proof.
  exists f4_witness. destruct py_decoder_refuted as (Hwf & Hpy & Hrs & _).
  split; [exact Hwf|]. unfold agrees. rewrite Hpy, Hrs. intros H. exact H.
Qed.

Theorem C28_int_from_bytes : forall b, wf_bytes b = true -> py_int_from_bytes b = int_of_bytes b.
Proof. exact py_int_from_bytes_spec. Qed.

Theorem C28_int_to_bytes : forall v, py_int_to_bytes v = PyOk (bytes_of_int v).
Proof. exact py_int_to_bytes_spec. Qed.

Theorem C28_curry_hash : forall (H : bytes -> bytes), (forall x, length (H x) = 32%nat) ->
  forall m args,
  py_curry_hash H (treehash H m) (map (treehash H) args) = PyOk (treehash H (py_curry m args)).
Proof. exact py_curry_hash_spec. Qed.

Theorem C28_uncurry_curry : forall m args, py_uncurry (py_curry m args) = PyOk (m, Some args).
Proof. exact py_uncurry_curry. Qed.

(* non-vacuity: the witness of F4 and its neighbours; a 6-byte size field is accepted by all three;
   the hash hypothesis is satisfiable; boundary integers *)
Example C28_witness :
  py_sexp_from_stream None [0xfe; 0; 0; 0; 0; 0; 1; 0x61] = PyOk (Atom [0x61], []) /\
  py_sexp_from_stream (Some 6) [0xfe; 0; 0; 0; 0; 0; 1; 0x61] = PyRaise BadEncoding /\
  node_from_stream [0xfe; 0; 0; 0; 0; 0; 1; 0x61] = Err SerializationError /\
  py_sexp_from_stream (Some 6) [0xfc; 0; 0; 0; 0; 1; 0x61; 7] = PyOk (Atom [0x61], [7]) /\
  node_from_stream [0xfc; 0; 0; 0; 0; 1; 0x61; 7] = Ok (Atom [0x61], [7]) /\
  py_sexp_from_stream (Some 6) [0xfc; 4; 0; 0; 0; 0] = PyRaise BlobTooLarge /\
  py_sexp_to_bytes (Cons (Atom [1]) (Cons (Atom []) (Atom (repeat 0x80 64)))) =
    PyOk ([0xff; 1; 0xff; 0x80; 0xc0; 0x40] ++ repeat 0x80 64) /\
  (forall x, length ((fun _ : bytes => repeat 0 32) x) = 32%nat) /\
  map py_int_to_bytes [0; 127; 128; 255; 256; -1; -128; -129; -32768; -32769]%Z =
    map (fun v => PyOk (bytes_of_int v)) [0; 127; 128; 255; 256; -1; -128; -129; -32768; -32769]%Z /\
  py_uncurry (Cons (Atom [2]) (Cons (Cons (Atom [1]) (Atom [9])) (Cons (Atom [5]) (Atom [])))) =
    PyOk (Cons (Atom [2]) (Cons (Cons (Atom [1]) (Atom [9])) (Cons (Atom [5]) (Atom []))), None).
Proof. vm_compute. repeat split. Qed.

Print Assumptions C28_serializer.
Print Assumptions C28_decoder_fixed.
Print Assumptions C28_decoder_current.
Print Assumptions C28_decoder_known_class.
Print Assumptions C28_refuted.
Print Assumptions C28_int_from_bytes.
Print Assumptions C28_int_to_bytes.
Print Assumptions C28_curry_hash.
Print Assumptions C28_uncurry_curry.
Print Assumptions C28_witness.
