(* C28 — the wheel's pure-Python helpers agree with the Rust core.
   Only statements here; every proof is `exact <lemma>` from Proofs/PyCodecProofs.v, PyIntProofs.v,
   CurryRun.v.

   Full statement = C28_serializer /\ C28_decoder /\ C28_int_from_bytes /\ C28_int_to_bytes
     /\ C28_curry_hash /\ C28_uncurry_curry /\ C28_curried_run, for all byte strings, trees, integers,
     modules and argument lists.

   Models: Model/PyCodec.v transcribes wheel/python/clvm_rs/ser.py (sexp_to_byte_iterator /
   size_blob_for_blob / atom_to_byte_iterator; sexp_from_stream / _op_read_sexp / _op_cons /
   _atom_from_stream), casts.py (int_to_bytes / int_from_bytes), curry_and_treehash.py (curry,
   uncurry, curried_values_tree_hash, curry_and_treehash) and program.py (curry_hash). The Rust
   side is Model/Classic.v ([ser] = node_to_bytes by C15_node_to_bytes; [node_from_stream]) and
   Model/IntEnc.v.

   Proved for all inputs:
     C28_serializer     sexp_to_bytes t = ser t (both fail exactly on an atom of >= 2^34 bytes)
     C28_decoder_fixed  with the size-field check `bit_count > 6` (the repaired code), the stream
                        decoder accepts exactly the byte strings node_from_stream accepts, and
                        yields the same tree and the same remaining input; it raises only
                        ValueError("bad encoding" / "blob too large"), never IndexError
     C28_decoder_current  the same for the decoder the translator found in ser.py on this run,
                        under the premise that it has that check
     C28_decoder        ... and that premise holds for the source as it is (this theorem stops compiling
                        if the check disappears from ser.py; the search then produces F4's input)
     C28_decoder_known_class  the UNREPAIRED decoder already agrees on every byte string that
                        contains no byte 0xfe
     C28_refuted        (finding F4) the unrepaired decoder accepts fe 00 00 00 00 00 01 61
                        (a 7-byte size field) as the atom "a"; node_from_stream rejects it
     C28_int_from_bytes int_from_bytes = int_of_bytes
     C28_int_to_bytes   int_to_bytes v = bytes_of_int v, the canonical (minimal two's-complement)
                        encoding, for every integer v; it never raises OverflowError
     C28_curry_hash     curry_hash (treehash m) (map treehash args) = treehash (curry m args), for
                        every function H with 32-byte outputs (the Python code checks the length)
     C28_uncurry_curry  uncurry (curry m args) = (m, args)
     C28_curried_run    (interpreter: Model/Machine.v = run_program.rs, for EVERY dialect record whose
                        quote/apply keywords are 1/2, whose softfork keyword is not 4 and whose operator
                        4 is cons at CONS_COST - C28_curry_dialects: ChiaDialect under every flag word,
                        its extension-hiding variant and the RuntimeDialect are such) for every module m,
                        argument list args = [a1..an], environment e and every outcome R (a cost and a
                        value, or an error) other than the model's fuel exhaustion:
                          run_program (curry m args) e, with K more budget, has outcome R with K added
                          to the cost  <=>  run_program m (a1 a2 ... an . e) has outcome R
                        where K = curry_cost n = OP_COST + QUOTE_COST + APPLY_COST + 44 + n * (OP_COST +
                        QUOTE_COST + CONS_COST) = 155 + 71 n (44 = the path lookup of `1`;
                        C28_curry_cost). Same value, same error kind; the budgets are max_cost
                        arguments after run_program's `0 = unlimited = Cost::MAX` reading ([budget]),
                        so with max_cost' = 0 the right-hand run has max_cost = Cost::MAX - K.
     C28_curried_run_big  the equation behind it on the big-step evaluator (equivalent to run_program
                        for all those outcomes: C11_bigstep, C11_outcomes): with fuel f > n + 1,
                        run_big (B + K) (S f) (curry m args) e = shift K (run_big B f m (args . e)).
     C28_cost_shift     the lemma that makes the cost difference exact: the evaluator commutes with
                        shifting the cost counter, the budget and the expected costs of all open guards
                        by K (every dialect, every program).
   What "equals" cannot mean: with the SAME finite budget the two runs differ when the budget lies
   within K of the module's cost (the curried run fails with CostExceeded); C28_run_witness shows it.
   F4 (C28_refuted) is about the decoder WITHOUT the size-field check; the source has the check today
   (repaired in /repo), which is what C28_decoder states for the decoder the translator reads.
   Modelling conventions that a reader must know: `Program != bytes` (a tree-hash comparison in
   Python) is structural inequality in the model (sha256 collision-freeness is not assumed by any
   theorem, it is assumed by this reading of `!=`); the `_cached_serialization` shortcut of
   sexp_to_byte_iterator is not modelled (see the check: CLVMTree hands out the bytes it was
   parsed from, which are not canonical when the input was not). *)
From Clvm Require Import Model.PyCodec Model.Machine Model.Dialect Model.BigStep Proofs.PyCodecProofs
  Proofs.PyIntProofs Proofs.CurryRun.
Open Scope N_scope.

Theorem C28_serializer : forall t,
  py_sexp_to_bytes t = match ser t with Some e => PyOk e | None => PyRaise BlobTooLong end.
Proof. exact py_sexp_to_bytes_spec. Qed.

(* agreement of a Python outcome with a Rust outcome: same value, or both fail (Python with one
   of its two ValueErrors) *)
Definition agrees {A} (p : pyres A) (r : res A) : Prop :=
  match p, r with
  | PyOk x, Ok y => x = y
  | PyRaise e, Err _ => e = BadEncoding \/ e = BlobTooLarge
  | _, _ => False
  end.

Theorem C28_decoder_fixed : forall bs, wf_bytes bs = true ->
  agrees (py_sexp_from_stream (Some 6) bs) (node_from_stream bs).
Proof. intros bs H. apply py_decoder_agrees. left. split; [reflexivity|exact H]. Qed.

(* the decoder of the CURRENT source (py_current_limit is what the translator read from ser.py on
   this run): agreement as soon as the source has the check *)
Theorem C28_decoder_current : py_current_limit = Some 6 -> forall bs, wf_bytes bs = true ->
  agrees (py_sexp_from_stream py_current_limit bs) (node_from_stream bs).
Proof. intros E bs H. rewrite E. apply py_decoder_agrees. left. split; [reflexivity|exact H]. Qed.

Theorem C28_decoder : forall bs, wf_bytes bs = true ->
  agrees (py_sexp_from_stream py_current_limit bs) (node_from_stream bs).
Proof. exact (C28_decoder_current eq_refl). Qed.

Theorem C28_decoder_known_class : forall bs,
  forallb (fun b => (b <? 256) && negb (b =? 0xfe)) bs = true ->
  agrees (py_sexp_from_stream None bs) (node_from_stream bs).
Proof. intros bs H. apply py_decoder_agrees. right. split; [reflexivity|exact H]. Qed.

Theorem C28_refuted : exists bs, wf_bytes bs = true /\
  ~ agrees (py_sexp_from_stream None bs) (node_from_stream bs).
Proof.
  exists f4_witness. destruct py_decoder_refuted as (Hwf & Hpy & Hrs & _).
  split; [exact Hwf|]. unfold agrees. rewrite Hpy, Hrs. intros H. exact H.
Qed.

Theorem C28_int_from_bytes : forall b, wf_bytes b = true -> py_int_from_bytes b = int_of_bytes b.
Proof. exact py_int_from_bytes_spec. Qed.

Theorem C28_int_to_bytes : forall v, py_int_to_bytes v = PyOk (bytes_of_int v).
Proof. exact py_int_to_bytes_spec. Qed.

Theorem C28_curry_hash : forall (H : bytes -> bytes), (forall x, length (H x) = 32%nat) ->
  forall m args,
  py_curry_hash H (treehash H m) (map (treehash H) args) = PyOk (treehash H (py_curry m args)).
Proof. exact py_curry_hash_spec. Qed.

Theorem C28_uncurry_curry : forall m args, py_uncurry (py_curry m args) = PyOk (m, Some args).
Proof. exact py_uncurry_curry. Qed.

(* ------------------------------------------------------------------ the curried run *)
Theorem C28_curried_run : forall d, curry_dialect d -> forall max_cost max_cost' m args e R,
  budget max_cost' = budget max_cost + curry_cost (length args) -> R <> Err OutOfFuel ->
  ((exists fuel, run_program d fuel (py_curry m args) e max_cost' = shift_res (curry_cost (length args)) R) <->
   (exists fuel, run_program d fuel m (env_prepend args e) max_cost = R)).
Proof. exact curry_run_program. Qed.

Theorem C28_curried_run_big : forall d, curry_dialect d -> forall B m args e f, (length args + 1 < f)%nat ->
  run_big d (B + curry_cost (length args)) (S f) (py_curry m args) e =
  shift_res (curry_cost (length args)) (run_big d B f m (env_prepend args e)).
Proof. exact curry_run_big. Qed.

Theorem C28_cost_shift : forall d M K f gs cost p e,
  eval d (M + K) f (shift_gs K gs) (cost + K) p e = shift_res K (eval d M f gs cost p e).
Proof. exact eval_shift. Qed.

Theorem C28_curry_dialects : forall P flags,
  curry_dialect (chia_dialect P flags) /\ curry_dialect (hiding_dialect P flags) /\
  curry_dialect (runtime_dialect P flags).
Proof.
  intros P flags. split; [apply chia_curry_dialect|]. split; [apply hiding_curry_dialect|apply runtime_curry_dialect].
Qed.

Theorem C28_curry_cost : forall n, curry_cost n = 155 + 71 * N.of_nat n.
Proof. exact curry_cost_closed. Qed.

(* non-vacuity of the curried run, by computation on ChiaDialect's model: m = (+ 2 5) = (16 2 5),
   args = [3; 4], e = (10): the curried program costs 155 + 2 * 71 more and yields the same 7; a
   module that raises (x) fails the same way curried; with the same tight budget (the module's own
   cost) the curried run is out of budget, with K more it succeeds *)
Example C28_run_witness : forall P,
  let d := chia_dialect P (flags_of_N 0) in
  let m := Cons (Atom [16]) (Cons (Atom [2]) (Cons (Atom [5]) nil_s)) in
  let args := [Atom [3]; Atom [4]] in
  let e := Cons (Atom [10]) nil_s in
  env_prepend args e = Cons (Atom [3]) (Cons (Atom [4]) (Cons (Atom [10]) nil_s)) /\
  run_program d 100 m (env_prepend args e) 0 = Ok (856, Atom [7]) /\
  run_program d 100 (py_curry m args) e 0 = Ok (856 + 297, Atom [7]) /\
  curry_cost 2 = 297 /\
  run_program d 100 (Cons (Atom [8]) nil_s) (env_prepend args e) 0 = Err Raise /\
  run_program d 100 (py_curry (Cons (Atom [8]) nil_s) args) e 0 = Err Raise /\
  run_program d 100 m (env_prepend args e) 856 = Ok (856, Atom [7]) /\
  run_program d 100 (py_curry m args) e 856 = Err CostExceeded /\
  run_program d 100 (py_curry m args) e (856 + 297) = Ok (856 + 297, Atom [7]) /\
  budget (856 + 297) = budget 856 + curry_cost (length args).
Proof. intros P. vm_compute. repeat split. Qed.

(* non-vacuity: the witness of F4 and its neighbours; a 6-byte size field is accepted by all three;
   the hash hypothesis is satisfiable; boundary integers *)
Example C28_witness :
  py_sexp_from_stream None [0xfe; 0; 0; 0; 0; 0; 1; 0x61] = PyOk (Atom [0x61], []) /\
  py_sexp_from_stream (Some 6) [0xfe; 0; 0; 0; 0; 0; 1; 0x61] = PyRaise BadEncoding /\
  node_from_stream [0xfe; 0; 0; 0; 0; 0; 1; 0x61] = Err SerializationError /\
  py_sexp_from_stream (Some 6) [0xfc; 0; 0; 0; 0; 1; 0x61; 7] = PyOk (Atom [0x61], [7]) /\
  node_from_stream [0xfc; 0; 0; 0; 0; 1; 0x61; 7] = Ok (Atom [0x61], [7]) /\
  py_sexp_from_stream (Some 6) [0xfc; 4; 0; 0; 0; 0] = PyRaise BlobTooLarge /\
  py_sexp_to_bytes (Cons (Atom [1]) (Cons (Atom []) (Atom (repeat 0x80 64)))) =
    PyOk ([0xff; 1; 0xff; 0x80; 0xc0; 0x40] ++ repeat 0x80 64) /\
  (forall x, length ((fun _ : bytes => repeat 0 32) x) = 32%nat) /\
  map py_int_to_bytes [0; 127; 128; 255; 256; -1; -128; -129; -32768; -32769]%Z =
    map (fun v => PyOk (bytes_of_int v)) [0; 127; 128; 255; 256; -1; -128; -129; -32768; -32769]%Z /\
  py_uncurry (Cons (Atom [2]) (Cons (Cons (Atom [1]) (Atom [9])) (Cons (Atom [5]) (Atom [])))) =
    PyOk (Cons (Atom [2]) (Cons (Cons (Atom [1]) (Atom [9])) (Cons (Atom [5]) (Atom []))), None).
Proof. vm_compute. repeat split. Qed.

Print Assumptions C28_serializer.
Print Assumptions C28_decoder_fixed.
Print Assumptions C28_decoder_current.
Print Assumptions C28_decoder.
Print Assumptions C28_decoder_known_class.
Print Assumptions C28_refuted.
Print Assumptions C28_int_from_bytes.
Print Assumptions C28_int_to_bytes.
Print Assumptions C28_curry_hash.
Print Assumptions C28_uncurry_curry.
Print Assumptions C28_witness.
Print Assumptions C28_curried_run.
Print Assumptions C28_curried_run_big.
Print Assumptions C28_cost_shift.
Print Assumptions C28_curry_dialects.
Print Assumptions C28_curry_cost.
Print Assumptions C28_run_witness.
