(* C07 — Restriction flags only remove successes.
   Only statements here; every proof is `exact <lemma>` from Proofs/DialectRestrict.v (built on
   the lock-step theorem of Proofs/MachineRestrict.v and the per-operator contracts op_restrict).

   Model: ChiaDialect (Model/Dialect.v) over the machine of Model/Machine.v, any primitives P.
   [flag_le f f'] (Proofs/OpContractDefs.v): f' has every restriction flag of f (CANONICAL_INTS,
   NO_UNKNOWN_OPS, LIMIT_HEAP, LIMIT_SOFTFORK, LIMITS, DISABLE_OP) and possibly more, f has
   RELAXED_BLS whenever f' has it, every other flag is equal.

   Full statement: for every program and flag set F, adding restriction flags may turn a success
   into a failure but never changes a successful result or its cost; adding RELAXED_BLS never
   turns a success into a failure or changes it; anything accepted in mempool mode is accepted
   with the same cost under consensus flags.
   Proved: C07_restrict for every pair f <= f' OUTSIDE the class of finding F8 - CANONICAL_INTS
   added without NO_UNKNOWN_OPS (premise: the canonical flag is unchanged, or f' is strict); the
   statement is FALSE on that class (C07_refuted_F8: a softfork guard whose extension argument is
   the non-canonical integer 0x00 is entered under NEW_COST_MODEL and costs 601, but is skipped
   as an unknown extension under NEW_COST_MODEL|CANONICAL_INTS and costs its declared 160 + 81).
   C07_relaxed and C07_mempool are the two named corollaries. LIMIT_HEAP acts only through the
   allocator's heap limit chosen by the caller (the wheel); the tree-store machine has no heap, so
   on the model the flag is inert (it is one of the flags flag_le lets differ) and its effect is
   covered by the implementation search only. *)
From Clvm Require Import Model.Dialect Proofs.OpContractDefs Proofs.DialectRestrict.
Open Scope N_scope.

Theorem C07_restrict : forall P f f', flag_le f f' ->
  (f_canonical_ints f' = f_canonical_ints f \/ f_no_unknown_ops f' = true) ->
  forall fuel p e M r,
  run_program (chia_dialect P f') fuel p e M = Ok r -> run_program (chia_dialect P f) fuel p e M = Ok r.
Proof. exact chia_restrict. Qed.

(* adding RELAXED_BLS never turns a success into a failure or changes it *)
Theorem C07_relaxed : forall P f fuel p e M r,
  run_program (chia_dialect P f) fuel p e M = Ok r ->
  run_program (chia_dialect P (set_relaxed_bls f)) fuel p e M = Ok r.
Proof. exact chia_relaxed. Qed.

(* anything accepted in mempool mode is accepted, with the same cost, under the same flags
   without the mempool restrictions *)
Theorem C07_mempool : forall P f fuel p e M r,
  run_program (chia_dialect P (add_mempool_mode f)) fuel p e M = Ok r ->
  run_program (chia_dialect P f) fuel p e M = Ok r.
Proof. exact chia_mempool. Qed.

(* the same on 32-bit flag words: MEMPOOL_MODE ORed onto any word *)
Theorem C07_mempool_word : forall P w fuel p e M r,
  run_program (chia_dialect P (flags_of_N (N.lor w MEMPOOL_MODE_BITS))) fuel p e M = Ok r ->
  run_program (chia_dialect P (flags_of_N w)) fuel p e M = Ok r.
Proof. exact chia_mempool_word. Qed.

(* finding F8 *)
Theorem C07_refuted_F8 : forall P,
  let q x := Cons (Atom [1]) x in
  let guard := Cons (Atom [36]) (Cons (q (Atom [0; 160])) (Cons (q (Atom [0])) (Cons (q (q (Atom [1]))) (Cons (q (Atom [])) (Atom []))))) in
  flag_le (flags_of_N 0x2000) (flags_of_N 0x2001) /\
  run_program (chia_dialect P (flags_of_N 0x2000)) 100 guard (Atom []) 0 = Ok (601, Atom []) /\
  run_program (chia_dialect P (flags_of_N 0x2001)) 100 guard (Atom []) 0 = Ok (241, Atom []).
Proof. exact f8_witness. Qed.

(* non-vacuity of C07_restrict: MEMPOOL_MODE on (+ (q . 1) (q . 2)) *)
Example C07_witness : forall P,
  let q x := Cons (Atom [1]) x in
  let prog := Cons (Atom [16]) (Cons (q (Atom [1])) (Cons (q (Atom [2])) (Atom []))) in
  flag_le (flags_of_N 0) (flags_of_N MEMPOOL_MODE_BITS) /\
  f_no_unknown_ops (flags_of_N MEMPOOL_MODE_BITS) = true /\
  run_program (chia_dialect P (flags_of_N MEMPOOL_MODE_BITS)) 100 prog (Atom []) 0 = Ok (796, Atom [3]).
Proof. intros P. vm_compute. repeat split; discriminate. Qed.

Print Assumptions C07_restrict.
Print Assumptions C07_relaxed.
Print Assumptions C07_mempool.
Print Assumptions C07_mempool_word.
Print Assumptions C07_refuted_F8.
Print Assumptions C07_witness.
