(* C14 — allocated nodes are immutable and integers are canonically encoded.
   Only statements here; every proof is `exact <lemma>`.

   Full statement: every node keeps the same bytes or children for the rest of any history,
   including restores to checkpoints taken after its creation; atom_eq agrees with byte equality;
   the small-integer view exists exactly when the bytes are the minimal encoding of a value below
   2^26; new_number / new_u64 / new_i64 / new_malachite_number store the minimal two's-complement
   encoding and read back as the same value.

   Proved: C14_immutable (whole histories: the part of the node list that survives — everything
   except what a restore declares dead — keeps its denotation, node by node; same F2 proviso as
   C13: unconditional for the repaired new_substr, otherwise for histories not taking that branch —
   there the u32 cast of the heap length could wrap once the heap is pushed past 2^32);
   C14_small_number for ALL byte strings and both representations; C14_number; C14_enc_* for the
   four constructors (+ new_small_number), for all integers (new_u64 < 2^64, new_i64 in range);
   minimality and round trip of the encoding for all Z (C14_roundtrip, C14_minimal, C14_canonical,
   C14_canonical_unique). new_malachite_number has the same text as new_number and the same model;
   num-bigint's / malachite's to_signed_bytes_be are modelled by [to_signed_bytes_be] (trusted).
   C14_atom_eq: atom_eq = equality of the denoted bytes in all four representation cases.
   Level claimed: other (the immutability theorem is unconditional only for the repaired new_substr,
   and the bignum libraries' byte conversions are modelled, not verified). *)
From Clvm Require Import Model.AllocHist Proofs.BytesLemmas Proofs.AllocBasics Proofs.AllocHeap Proofs.AllocOps
  Proofs.AllocInv Proofs.AllocReads Proofs.IntEncProofs Proofs.AllocEnc.
Open Scope N_scope.

Theorem C14_immutable : forall fx h st, AINV st -> Forall wf_op h ->
  a_dead (fst (a_run fx st h)) = false -> (fx = true \/ a_f2 (fst (a_run fx st h)) = false) ->
  exists m, m <= nlen (a_nodes st) /\
    (exists extra, a_nodes (fst (a_run fx st h)) = take_N m (a_nodes st) ++ extra) /\
    forall n, In n (take_N m (a_nodes st)) ->
      vnode (hp (a_al (fst (a_run fx st h)))) n /\
      denote (hp (a_al (fst (a_run fx st h)))) n = denote (hp (a_al st)) n.
Proof. exact immutable_run. Qed.

(* one step: which nodes survive is explicit in [keeps]; pairs keep their children because the
   denotation of a pair is the tree of its children *)
Theorem C14_immutable_step : forall fx st o, AINV st -> wf_op o ->
  a_dead (fst (a_step fx st o)) = false -> (fx = true \/ a_f2 (fst (a_step fx st o)) = false) ->
  AINV (fst (a_step fx st o)) /\ keeps st (fst (a_step fx st o)).
Proof. exact ainv_step. Qed.

Theorem C14_small_number : forall a n t, WF (hp a) -> denote (hp a) n = Some t ->
  small_number a n = Ok (r_small_number t).
Proof. exact small_number_spec. Qed.

(* ... where r_small_number (AllocRef.v) is by definition: canonical, 0 <= value < 2^26; and the
   executable test fits_in_small_atom is that predicate, for all byte strings *)
Theorem C14_fits_in_small_atom : forall b v, wf_bytes b = true ->
  (fits_in_small_atom b = Some v <-> b = bytes_of_int (Z.of_N v) /\ v < 2 ^ 26).
Proof. exact fits_in_small_atom_spec. Qed.

Theorem C14_number : forall a n b, denote (hp a) n = Some (Atom b) -> number a n = Ok (int_of_bytes b).
Proof. exact number_spec. Qed.

Theorem C14_atom : forall a n b, denote (hp a) n = Some (Atom b) -> atom a n = Ok b.
Proof. exact atom_spec. Qed.

Theorem C14_atom_eq : forall a x y bx by_, WF (hp a) ->
  denote (hp a) x = Some (Atom bx) -> denote (hp a) y = Some (Atom by_) ->
  atom_eq a x y = Ok (bytes_eqb bx by_).
Proof. exact atom_eq_spec. Qed.
(* ... and bytes_eqb is equality *)
Theorem C14_bytes_eqb : forall a b, bytes_eqb a b = true <-> a = b.
Proof. exact BytesLemmas.bytes_eqb_eq. Qed.

Theorem C14_enc_number : forall a z, AOK a -> stores a (new_number a z) z.
Proof. exact new_number_stores. Qed.
Theorem C14_enc_malachite : forall a z, AOK a -> stores a (new_malachite_number a z) z.
Proof. exact new_number_stores. Qed.
Theorem C14_enc_u64 : forall a v, AOK a -> v < 2 ^ 64 -> stores a (new_u64 a v) (Z.of_N v).
Proof. exact new_u64_stores. Qed.
Theorem C14_enc_i64 : forall a z, AOK a -> (- 2 ^ 63 <= z < 2 ^ 63)%Z -> stores a (new_i64 a z) z.
Proof. exact new_i64_stores. Qed.
Theorem C14_enc_small : forall a v, AOK a -> v <= NODE_PTR_IDX_MASK -> stores a (new_small_number a v) (Z.of_N v).
Proof. exact new_small_number_stores. Qed.

Theorem C14_roundtrip : forall z, int_of_bytes (bytes_of_int z) = z.
Proof. exact int_of_bytes_of_int. Qed.
Theorem C14_canonical : forall z, canonical_int (bytes_of_int z) = true.
Proof. exact bytes_of_int_canonical. Qed.
Theorem C14_minimal : forall b, wf_bytes b = true -> (length (bytes_of_int (int_of_bytes b)) <= length b)%nat.
Proof. exact bytes_of_int_minimal. Qed.
Theorem C14_canonical_unique : forall b, wf_bytes b = true -> canonical_int b = true -> bytes_of_int (int_of_bytes b) = b.
Proof. exact canonical_unique. Qed.

(* non-vacuity: a node created before a checkpoint survives a restore past later allocations *)
Example C14_witness :
  let h1 := [ONewAtom [0xaa; 0xbb; 0xcc]; ONewI64 (-129); ONewPair 0 1; OCheckpoint] in
  let h2 := [ONewAtom [1; 2; 3; 4; 5; 6]; ONewSubstr 0 1 3; ORestore 0; ONewAtom [9; 9; 9; 9]] in
  option_map (fun st => map (denote (hp (a_al st))) (a_nodes st)) (a_final false 100 (h1 ++ h2)) =
    Some [Some (Atom [0xaa; 0xbb; 0xcc]); Some (Atom [0xff; 0x7f]);
          Some (Cons (Atom [0xaa; 0xbb; 0xcc]) (Atom [0xff; 0x7f])); Some (Atom [9; 9; 9; 9])].
Proof. vm_compute. reflexivity. Qed.

Print Assumptions C14_immutable.
Print Assumptions C14_immutable_step.
Print Assumptions C14_small_number.
Print Assumptions C14_fits_in_small_atom.
Print Assumptions C14_number.
Print Assumptions C14_atom.
Print Assumptions C14_atom_eq.
Print Assumptions C14_bytes_eqb.
Print Assumptions C14_enc_number.
Print Assumptions C14_enc_malachite.
Print Assumptions C14_enc_u64.
Print Assumptions C14_enc_i64.
Print Assumptions C14_enc_small.
Print Assumptions C14_roundtrip.
Print Assumptions C14_canonical.
Print Assumptions C14_minimal.
Print Assumptions C14_canonical_unique.
Print Assumptions C14_witness.
