(* C03 — Evaluation is independent of heap history and atom representation.
   Only statements here; proofs are `exact <lemma>` from Proofs/ReprIndep.v, Proofs/AllocReads.v,
   Proofs/AllocInv.v (work-stream C12-C14) and Proofs/DialectGC.v.

   Full statement: the outcome of a run (result tree, cost, error kind) depends only on the
   program and environment trees, the flags and the budget; it is unchanged when the allocator
   already holds unrelated nodes or earlier runs (incl. failed runs and validated BLS points) and
   when any atom is stored in a different internal form (inline small integer, heap bytes,
   substring view), as long as neither run hits an allocator limit.

   How the pieces fit. The interpreter model (Model/Machine.v, Model/Dialect.v, Model/Ops*.v) is BY
   CONSTRUCTION a function of the program and environment TREES, the flags and the budget: its
   value type [sexp] has no representation and no heap. It is tied to the implementation by the
   correspondence run, which executes every program in a fresh allocator AND after a random
   allocator history with re-encoded atoms and requires both to equal the model's prediction.
   What is PROVED here is that every way the Rust interpreter reads a node through the allocator
   is a function of the node's denoted tree - the facts a store-refinement proof would use:
     C03_read_small_number  the value used to recognise quote / apply / softfork keywords, to
                            dispatch one-byte opcodes and to pick GC candidates (small_number())
                            is the tree-level function of the machine model, for inline, heap
                            and substring representations alike;
     C03_read_atom / C03_read_number / C03_read_atom_eq   bytes, integer value and equality of
                            atoms likewise;
     C03_history            no later allocation, restore or failed operation changes what an
                            existing node denotes (C14_immutable: any history);
     C03_gc                 the GC scheduling that depends on the inline representation of the
                            operator atom (gc_candidate matches NodeVisitor::U32 only) cannot
                            change an outcome (C04, interpreter half).
   NOT proved: the composition into `run on the arena = run on the denoted trees` (DESIGN.md
   appendix B.1), the representation-dependent fast paths of more_ops.rs / run_program.rs (covered
   by C05's separately built binaries). The BLS validated-point cache is absent from the
   interpreter model; that this is sound is
     C03_bls_cache          over every history of cache operations (strict negates, group-operation
                            results, clears) from any sound cache - a fresh allocator's, or whatever
                            earlier successful or failed runs left behind - each strict negate
                            answers exactly what it would answer without a cache (Model/BlsCache.v
                            transcribes validate_g1/g2, new_g1/g2, add_validated, clear; the
                            translator pins their shape: look-up, decode, insert only after a
                            successful decode). Premises, facts about the curve library: a group
                            operation returns a valid encoding; the sign flip of a valid
                            non-infinity encoding is valid.
     C03_bls_cache_fragile  an allocator that inserts before validating is observable (witness);
   the correspondence also pre-loads the cache and re-runs programs in the same allocator. *)
From Clvm Require Import Model.OpUtils Model.Alloc Model.AllocHist Model.Dialect
  Proofs.AllocBasics Proofs.AllocHeap Proofs.AllocOps Proofs.AllocReads Proofs.AllocInv Proofs.ReprIndep Proofs.DialectGC
  Model.BlsCache Proofs.BlsCacheProofs.
Open Scope N_scope.

Theorem C03_read_small_number : forall a n t,
  WF (hp a) -> denote (hp a) n = Some t -> wf_sexp t = true ->
  Alloc.small_number a n = Ok (OpUtils.small_number t).
Proof. exact arena_small_number. Qed.

Theorem C03_small_number_is_fits : forall b, wf_bytes b = true ->
  OpUtils.small_number (Atom b) = fits_in_small_atom b.
Proof. exact small_number_is_fits. Qed.

Theorem C03_read_atom : forall a n b, denote (hp a) n = Some (Atom b) -> atom a n = Ok b.
Proof. exact atom_spec. Qed.

Theorem C03_read_number : forall a n b, denote (hp a) n = Some (Atom b) -> number a n = Ok (int_of_bytes b).
Proof. exact number_spec. Qed.

Theorem C03_read_atom_eq : forall a x y bx by_, WF (hp a) ->
  denote (hp a) x = Some (Atom bx) -> denote (hp a) y = Some (Atom by_) ->
  atom_eq a x y = Ok (bytes_eqb bx by_).
Proof. exact atom_eq_spec. Qed.

Theorem C03_history : forall fx h st, AINV st -> Forall wf_op h ->
  a_dead (fst (a_run fx st h)) = false -> (fx = true \/ a_f2 (fst (a_run fx st h)) = false) ->
  exists m, m <= nlen (a_nodes st) /\
    (exists extra, a_nodes (fst (a_run fx st h)) = take_N m (a_nodes st) ++ extra) /\
    forall n, In n (take_N m (a_nodes st)) ->
      vnode (hp (a_al (fst (a_run fx st h)))) n /\
      denote (hp (a_al (fst (a_run fx st h)))) n = denote (hp (a_al st)) n.
Proof. exact immutable_run. Qed.

Theorem C03_gc : forall P f fuel p e M r,
  run_program (chia_dialect P (set_gc f true)) fuel p e M = r -> r <> Err OutOfFuel ->
  run_program (chia_dialect P (set_gc f false)) fuel p e M = r.
Proof. exact chia_gc_to_nogc. Qed.

(* non-vacuity: the same atom 0x05 as an inline small integer and as heap bytes reads alike *)
Theorem C03_bls_cache : forall (valid is_inf : bytes -> bool) (flip : bytes -> bytes),
  (forall b, valid b = true -> is_inf b = false -> valid (flip b) = true) ->
  forall h c1 c2, cache_sound valid c1 -> cache_sound valid c2 -> Forall (op_ok valid) h ->
    fst (c_run valid is_inf flip c1 h) = map (nocache_outcome valid) h /\
    fst (c_run valid is_inf flip c2 h) = fst (c_run valid is_inf flip c1 h) /\
    cache_sound valid (snd (c_run valid is_inf flip c1 h)).
Proof.
  intros valid is_inf flip Hf h c1 c2 H1 H2 Hh.
  destruct (cache_unobservable valid is_inf flip Hf h c1 H1 Hh) as [E S].
  split; [exact E|]. split; [|exact S].
  exact (cache_history_independent valid is_inf flip Hf h c2 c1 H2 H1 Hh).
Qed.

Theorem C03_bls_cache_fragile : exists valid b c1,
  c_validate_insert_first valid [] b = (false, c1) /\ fst (c_validate_insert_first valid c1 b) = true.
Proof. exact insert_first_is_observable. Qed.

(* the premises are satisfiable and the history is not trivial: an invalid point is rejected twice,
   a valid one is cached, its flip is added, a clear forgets both *)
Example C03_bls_cache_witness :
  let valid := fun b : bytes => match b with x :: _ => x <? 100 | [] => false end in
  let is_inf := fun b : bytes => match b with 0 :: _ => true | _ => false end in
  let flip := fun b : bytes => match b with x :: r => (if x <? 50 then x + 50 else x - 50) :: r | [] => [] end in
  let h := [CNegateStrict [200]; CNegateStrict [200]; CNegateStrict [7]; CNegateStrict [57]; CNewPoint [9]; CClear; CNegateStrict [7]] in
  Forall (op_ok valid) h /\ cache_sound valid [[3]] /\
  c_run valid is_inf flip [] h = ([Some false; Some false; Some true; Some true; None; None; Some true], [[57]; [7]]) /\
  fst (c_run valid is_inf flip [[3]] h) = fst (c_run valid is_inf flip [] h).
Proof.
  cbv zeta. split; [repeat constructor|]. split; [intros b [<-|[]]; reflexivity|]. split; vm_compute; reflexivity.
Qed.

Example C03_witness :
  OpUtils.small_number (Atom [5]) = Some 5 /\ fits_in_small_atom [5] = Some 5 /\
  OpUtils.small_number (Atom [0; 5]) = None /\ OpUtils.small_number (Atom [0; 128]) = Some 128 /\
  OpUtils.small_number (Atom [4; 0; 0; 0]) = None /\ OpUtils.small_number (Atom [3; 255; 255; 255]) = Some 67108863.
Proof. vm_compute. repeat split. Qed.

Print Assumptions C03_read_small_number.
Print Assumptions C03_small_number_is_fits.
Print Assumptions C03_read_atom.
Print Assumptions C03_read_number.
Print Assumptions C03_read_atom_eq.
Print Assumptions C03_history.
Print Assumptions C03_gc.
Print Assumptions C03_bls_cache.
Print Assumptions C03_bls_cache_fragile.
Print Assumptions C03_bls_cache_witness.
Print Assumptions C03_witness.
