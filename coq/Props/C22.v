(* C22 — all tree-hash implementations agree with the recursive definition
     treehash (Atom b) = H (1 :: b)      treehash (Cons l r) = H (2 :: treehash l ++ treehash r).
   Only statements here; proofs are in Proofs/TreeHashProofs.v, Proofs/TableProofs.v,
   Proofs/InternProofs.v and Proofs/ClassicProofs.v.

   Statement: for every tree, the sha256tree operator, the costed tree hash, the object-cache tree
   hash, the interned-tree hash, tree_hash_from_stream, the hashes returned by parse_triples and the
   Python wheel's sha256_treehash all equal the recursive definition.
   Proved below for every tree and an ARBITRARY function H in place of sha256 (the theorems do not
   depend on any property of the hash function):
     C22_costed            tree_hash_costed (= the sha256tree operator after get_args), including its
                           cost and CostExceeded behaviour, for atoms in inline (U32) and heap (Buffer)
                           representation, given that the precomputed table is correct;
     C22_precomputed_table the table the translator re-reads from more_ops.rs on this run IS correct
                           for sha256 (all 37 entries, decided by evaluating Model/Sha256.v);
     C22_object_cache      ObjectCache + treehash on any arena (shared or not) denoting the tree;
     C22_interned          InternedTree::tree_hash = ObjectCache on the interned arena of the tree;
     C22_python            the Treehasher stack machine, with and without _cached_sha256_treehash;
     C22_from_stream       tree_hash_from_stream on the classic serialization of the tree;
     C22_parse_triples     parse_triples on the classic serialization of the tree (followed by
                           anything): the hash array is the tree hash of every sub-tree in
                           pre-order (one entry per node, entry 0 = the hash of the tree itself);
                           C22_parse_triples_any_input: the same for every input parse_triples
                           accepts, relative to the tree node_from_stream decodes from it.
   The stack machines are shown to finish within their fuel ((nodes + pairs of the tree) + 1 loop
   iterations; parse_triples: 4|bytes|+4), and no panic site is reachable.
   Every implementation named in the statement has its theorem. The Python wheel's
   sha256_treehash is the hand-modelled Treehasher (C22_python); that the wheel's source is that
   machine is the correspondence run's part, as for every model here.
   get_args of op_sha256_tree is outside this file (operator argument handling, C25). *)
From Clvm Require Import Model.TreeHashOp Model.Sha256 Model.Classic Gen.Tables
  Proofs.TreeHashProofs Proofs.TableProofs Proofs.InternProofs Proofs.ClassicProofs Proofs.ClassicTriples.
Open Scope N_scope.

Theorem C22_costed : forall (H : bytes -> bytes) (table : list bytes), table_ok H table ->
  forall new_cost_model t max,
  tree_hash_costed H table new_cost_model t max =
    if max <? native_cost new_cost_model t then Err CostExceeded
    else Ok (native_cost new_cost_model t, treehash H (erase t)).
Proof. exact tree_hash_costed_spec. Qed.

(* for all i < 37: PRECOMPUTED_HASHES[i] = sha256 (1 :: canonical bytes of i) *)
Theorem C22_precomputed_table : length src_precomputed_hashes = 37%nat /\
  forall i h, get_n src_precomputed_hashes i = Some h -> h = sha256 (1 :: small_bytes i).
Proof. split; [exact table_length|exact precomputed_table_ok]. Qed.

Theorem C22_object_cache : forall (H : bytes -> bytes) it t, tree_of it = Some t ->
  forall fuel, (n_nodes t + n_pairs t < fuel)%nat ->
  exists cache, oc_loop H it fuel [] [it_root it] = Ok cache /\
                lookup (it_root it) cache = Some (treehash H t).
Proof. exact oc_treehash_spec. Qed.

Theorem C22_interned : forall (H : bytes -> bytes) t fuel, (n_nodes t + n_pairs t < fuel)%nat ->
  exists cache, oc_loop H (intern_tree t) fuel [] [it_root (intern_tree t)] = Ok cache /\
                lookup (it_root (intern_tree t)) cache = Some (treehash H t).
Proof. intros H t fuel Hf. exact (oc_treehash_spec H (intern_tree t) t (intern_tree_of t) fuel Hf). Qed.

Theorem C22_python : forall (H : bytes -> bytes) it can_cache t, tree_of it = Some t ->
  forall fuel, (n_nodes t + n_pairs t < fuel)%nat -> py_treehash H it can_cache fuel = Ok (treehash H t).
Proof. exact py_treehash_spec. Qed.

Theorem C22_from_stream : forall (H : bytes -> bytes) t e rest, wf_sexp t = true -> ser t = Some e ->
  tree_hash_from_stream H (e ++ rest) = Ok (treehash H t, rest).
Proof.
  intros H t e rest Hwf Hs. rewrite tree_hash_from_stream_parse.
  rewrite (parse_ser t e rest Hwf Hs). reflexivity.
Qed.

(* the hashes returned by parse_triples: one per sub-tree, pre-order; index 0 is the whole tree *)
Theorem C22_parse_triples : forall (H : bytes -> bytes) t e rest, wf_sexp t = true -> ser t = Some e ->
  exists ts, parse_triples H (e ++ rest) = Ok (ts, map (treehash H) (subtrees t), rest) /\
             length ts = n_nodes t.
Proof. exact parse_triples_ser. Qed.

Theorem C22_parse_triples_any_input : forall (H : bytes -> bytes) bs ts hs rest,
  parse_triples H bs = Ok (ts, hs, rest) ->
  exists t, node_from_stream bs = Ok (t, rest) /\ hs = map (treehash H) (subtrees t) /\
            length ts = n_nodes t.
Proof. exact parse_triples_hashes. Qed.

Theorem C22_subtrees_root : forall t, exists r, subtrees t = t :: r.
Proof. intros [b|l r]; eexists; reflexivity. Qed.

(* non-vacuity: the hypotheses are met (table_ok by the real table and sha256; arenas that denote
   a tree: the interned one and the unshared one) *)
Example C22_table_hypothesis : table_ok sha256 src_precomputed_hashes.
Proof. exact precomputed_table_ok. Qed.
Example C22_arena_hypothesis :
  let t := Cons (Atom [1]) (Cons (Atom [1]) (Atom [])) in
  tree_of (arena_of t) = Some t /\ tree_of (intern_tree t) = Some t /\
  length (it_atoms (arena_of t)) = 3%nat /\ length (it_atoms (intern_tree t)) = 2%nat.
Proof. vm_compute. repeat split; reflexivity. Qed.
Example C22_small_atoms_both_representations :
  erase (RPair (RSmall 36) (RBuf [36])) = Cons (Atom [36]) (Atom [36]) /\ small_bytes 128 = [0; 128] /\ small_bytes 0 = [].
Proof. vm_compute. repeat split; reflexivity. Qed.

Print Assumptions C22_costed.
Print Assumptions C22_precomputed_table.
Print Assumptions C22_object_cache.
Print Assumptions C22_interned.
Print Assumptions C22_python.
Print Assumptions C22_from_stream.
Print Assumptions C22_parse_triples.
Print Assumptions C22_parse_triples_any_input.
Print Assumptions C22_subtrees_root.
Print Assumptions C22_table_hypothesis.
