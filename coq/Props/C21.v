(* C21 — serde_2026 varints are a bijection with strict minimality.
   Only statements here; every proof is `exact <lemma>` from Proofs/VarintProofs.v. *)
From Clvm Require Import Model.Bstr Model.Varint Proofs.VarintProofs.
Open Scope Z_scope.

(* every 56-bit value encodes, and decodes back to itself in both modes *)
Theorem C21_roundtrip : forall v, - 2 ^ 55 <= v < 2 ^ 55 ->
  exists e, write_varint v = Some e /\ wf_bytes e = true /\
    forall rest strict, wf_bytes rest = true -> read_varint strict (e ++ rest) = VOk v rest.
Proof.
  intros v Hv. destruct (write_varint v) as [e|] eqn:E; [|exfalso; now apply (proj1 (write_total v))].
  exists e. split; [reflexivity|]. split; [exact (write_wf v e E)|].
  intros rest strict Hr. exact (write_read v e rest strict E Hr).
Qed.

(* the encoder is defined exactly on the 56-bit range (outside it the Rust panics) *)
Theorem C21_domain : forall v, (- 2 ^ 55 <= v < 2 ^ 55) <-> write_varint v <> None.
Proof. exact write_total. Qed.

(* the encoding is the shortest byte string that denotes the value *)
Theorem C21_shortest : forall v e bs rest, wf_bytes bs = true ->
  write_varint v = Some e -> read_varint false bs = VOk v rest ->
  (length e + length rest <= length bs)%nat.
Proof. exact write_minimal. Qed.

(* decoding consumes exactly 1 + (leading ones of the first byte) bytes *)
Theorem C21_consumes : forall strict bs v rest, wf_bytes bs = true ->
  read_varint strict bs = VOk v rest ->
  exists b0 extra, bs = b0 :: extra ++ rest /\
    Z.of_nat (length extra) = leading_ones (Z.of_N b0) /\ leading_ones (Z.of_N b0) < 8.
Proof. exact read_consumes. Qed.

(* at most one encoding per value and length *)
Theorem C21_injective : forall bs1 bs2 v r1 r2,
  wf_bytes bs1 = true -> wf_bytes bs2 = true ->
  read_varint false bs1 = VOk v r1 -> read_varint false bs2 = VOk v r2 ->
  (length bs1 - length r1 = length bs2 - length r2)%nat ->
  exists p, bs1 = p ++ r1 /\ bs2 = p ++ r2.
Proof. exact read_injective. Qed.

(* strict decoding accepts exactly the shortest encodings *)
Theorem C21_strict_iff : forall bs v rest, wf_bytes bs = true ->
  (read_varint true bs = VOk v rest <-> exists e, write_varint v = Some e /\ bs = e ++ rest).
Proof. exact strict_iff. Qed.

Theorem C21_strict_implies_lenient : forall bs v rest, wf_bytes bs = true ->
  read_varint true bs = VOk v rest -> read_varint false bs = VOk v rest.
Proof. exact strict_implies_lenient. Qed.

(* lenient decoding returns the two's-complement value of the consumed bytes' payload bits *)
Theorem C21_lenient_value : forall bs v rest, wf_bytes bs = true ->
  read_varint false bs = VOk v rest ->
  exists p k, bs = p ++ rest /\ Z.of_nat (length p) = k + 1 /\ 0 <= k < 8 /\
    - 2 ^ (6 + 7 * k) <= v < 2 ^ (6 + 7 * k) /\
    (v - Z.of_N (be_value p)) mod 2 ^ (7 + 7 * k) = 0.
Proof. exact lenient_value. Qed.

(* totality: no panic on any byte string; 0xff is never a valid first byte *)
Theorem C21_no_panic : forall strict bs, wf_bytes bs = true -> read_varint strict bs <> VPanic.
Proof. exact read_no_panic. Qed.
Theorem C21_ff_rejected : forall strict r, read_varint strict (255%N :: r) = VErr.
Proof. exact read_ff. Qed.

(* non-vacuity: the hypotheses are met by concrete, non-trivial data *)
Example C21_ex_write : write_varint (-8193) = Some [223; 223; 255]%N.
Proof. vm_compute. reflexivity. Qed.
Example C21_ex_lenient_overlong :
  read_varint false [128; 0; 7]%N = VOk 0 [7%N] /\ read_varint true [128; 0; 7]%N = VErr.
Proof. vm_compute. split; reflexivity. Qed.
Example C21_ex_max : exists e, write_varint (2 ^ 55 - 1) = Some e /\ length e = 8%nat.
Proof. eexists. vm_compute. split; reflexivity. Qed.

Print Assumptions C21_roundtrip.
Print Assumptions C21_domain.
Print Assumptions C21_shortest.
Print Assumptions C21_consumes.
Print Assumptions C21_injective.
Print Assumptions C21_strict_iff.
Print Assumptions C21_strict_implies_lenient.
Print Assumptions C21_lenient_value.
Print Assumptions C21_no_panic.
Print Assumptions C21_ff_rejected.
