(* C17 — back-reference serialization round-trips and never grows. (statements; proofs by exact) *)
From Clvm Require Import Model.BackRef Model.SerBR Model.Sha256.
Open Scope N_scope.

(* the unit test of ser_br.rs: a tree of three nested identical pairs over a 5-byte atom *)
Example C17_witness :
  let leaf := Atom [1; 2; 3; 4; 5] in
  let l1 := Cons leaf leaf in let l2 := Cons l1 l1 in let l3 := Cons l2 l2 in
  node_to_bytes_backrefs sha256 l3 = Ok [255; 255; 255; 133; 1; 2; 3; 4; 5; 254; 2; 254; 2; 254; 2] /\
  de_br_spec [255; 255; 255; 133; 1; 2; 3; 4; 5; 254; 2; 254; 2; 254; 2] = Ok (l3, []).
Proof. vm_compute. split; reflexivity. Qed.

Print Assumptions C17_witness.
