(* C17 — back-reference serialization round-trips and never grows.
   Only statements here; every proof is `exact <lemma>` from Proofs/BackRefEmit.v,
   Proofs/ReadCacheProofs.v, Proofs/SerBRProofs.v, Proofs/SerBRMain.v, Proofs/SerBRTotal.v.

   Statement (properties.jsonl): for every tree, node_to_bytes_backrefs produces bytes that
   node_from_bytes_backrefs decodes to an identical tree; those bytes are canonical, no longer
   than the classic serialization, identical from run to run, and re-serialize to the same bytes
   after decoding.

   Proved about the Gallina models (Model/SerBR.v: ser_br.rs with both ObjectCaches;
   Model/ReadCache.v: ReadCacheLookup with its read stack, counts, parent lists, breadth-first
   find_paths with the length bound and the lexicographic choice; Model/BackRef.v: decoders):
     - format level (also the soundness argument of C19), for EVERY emitter: bytes that are, node
       by node, either the structure or 0xfe + a path valid for the decoder's stack at that point
       decode to the tree in the grammar, in both decoders and in the length probe, consuming
       exactly those bytes (C17_emit_ok); they are canonical (C17_enc_canonical); and if a
       back-reference is used only where it is not longer than the node's classic form, the
       output is not longer than the classic serialization (C17_format_never_grows);
     - serializer level, for every hash function H whose tree hash is injective (explicit premise,
       satisfiable: C17_premise_satisfiable; for sha256 it is collision resistance) and every
       tree with byte-valued atoms: IF node_to_bytes_backrefs returns bytes THEN they decode to
       the tree (both decoders, probe = length), are canonical, are no longer than the classic
       serialization (for classic lengths below 2^32 - 5, the u32 range of
       serialized_length_atom), and re-serialize to themselves after decoding.
       The proof needs of the read cache only: root hash = hash of the stack list, the read stack
       mirrors the stack, every parent edge is intrinsic; the reference counts only prune.
     - "identical from run to run": the model is a function of the tree; it contains no iteration
       over a hashed container (the Rust iterates none: HashMap/HashSet are used through
       get/entry/contains/insert only, see Model/ReadCache.v) — decided by the byte-for-byte
       correspondence run and the two-run comparison on the implementation, not by a theorem.
     - totality (C17_total, Proofs/SerBRTotal.v): on every tree whose atoms are shorter than
       2^32 - 5 bytes (the u32 range of serialized_length_atom; [atoms_u32]) and which has at most
       (2^32 - 2) / 6 = 715 827 882 nodes (the allocator holds at most 125 000 000), the serializer returns
       bytes: the assert on the op stack never fires (the loop is followed by structural recursion
       on the tree), no reference count underflows (the counts dominate the multiset of hashes the
       read stack will decrement: [CInv]) or overflows u32 (their sum grows by at most 6 per node),
       the breadth-first search never exhausts its fuel (every level but the last marks a parent
       edge not marked before: bfs_total) and the loop fuel 2 n + 1 suffices. Tree-hash
       injectivity is used only to know that a found path is short enough to be written as an atom.
       Both size premises are necessary for the MODEL: a list of 2^32 equal atoms overflows a
       count (Panic 13 in the model, `count += 1` on u32 in the Rust), an atom of 2^32 - 5 bytes
       makes serialized_length_atom fail.
     - C17_all: hence, for every such tree, with NO premise on the serializer's outcome: bytes are
       returned, both decoders and the specification decode them to the tree consuming everything,
       the length probe returns their length, they are canonical, not longer than the classic
       serialization (when that is shorter than 2^32 - 5 bytes) and decoding and serializing again
       gives the same bytes.
   Level claimed: other, only because "identical from run to run" is decided by the correspondence
   run and the two-run comparison, not by a theorem (the model is a function). *)
From Clvm Require Import Model.BackRef Model.ReadCache Model.SerBR Model.Sha256
  Proofs.BackRefEmit Proofs.SerBRProofs Proofs.SerBRMain Proofs.SerBRTotal.
Open Scope N_scope.

(* ---- format level: any emitter *)
Theorem C17_emit_ok : forall P t bs rest, enc P [] t bs ->
  de_br_spec (bs ++ rest) = Ok (t, rest) /\
  snd (node_from_stream_backrefs (bs ++ rest)) = Ok (t, rest) /\
  snd (node_from_stream_backrefs_old (bs ++ rest)) = Ok (t, rest) /\
  serialized_length_from_bytes (bs ++ rest) = Ok (blen bs).
Proof. exact emit_ok. Qed.

Theorem C17_format_never_grows : forall stk t bs, enc short_ok stk t bs ->
  forall e, ser t = Some e -> blen bs <= blen e.
Proof. exact enc_short_never_grows. Qed.

Theorem C17_enc_canonical : forall P t bs, enc P [] t bs -> is_canonical_serialization bs = BTrue.
Proof. exact enc_canonical. Qed.

(* ---- serializer level *)
Theorem C17_serializer_emits_valid_paths : forall H,
  (forall t1 t2, treehash H t1 = treehash H t2 -> t1 = t2) ->
  forall t bs, wf_sexp t = true -> node_to_bytes_backrefs H t = Ok bs -> enc P_loop [] t bs.
Proof. exact ser_br_enc. Qed.

Theorem C17_roundtrip : forall H,
  (forall t1 t2, treehash H t1 = treehash H t2 -> t1 = t2) ->
  forall t bs, wf_sexp t = true -> node_to_bytes_backrefs H t = Ok bs ->
  de_br_spec bs = Ok (t, []) /\
  snd (node_from_stream_backrefs bs) = Ok (t, []) /\
  snd (node_from_stream_backrefs_old bs) = Ok (t, []) /\
  serialized_length_from_bytes bs = Ok (blen bs).
Proof. exact ser_br_roundtrip. Qed.

Theorem C17_never_grows : forall H,
  (forall t1 t2, treehash H t1 = treehash H t2 -> t1 = t2) ->
  forall t bs e, wf_sexp t = true -> node_to_bytes_backrefs H t = Ok bs ->
  ser t = Some e -> blen e < 4294967291 -> blen bs <= blen e.
Proof. exact ser_br_never_grows. Qed.

Theorem C17_canonical : forall H,
  (forall t1 t2, treehash H t1 = treehash H t2 -> t1 = t2) ->
  forall t bs, wf_sexp t = true -> node_to_bytes_backrefs H t = Ok bs ->
  is_canonical_serialization bs = BTrue.
Proof. exact ser_br_canonical. Qed.

Theorem C17_idempotent : forall H,
  (forall t1 t2, treehash H t1 = treehash H t2 -> t1 = t2) ->
  forall t bs t' rest, wf_sexp t = true -> node_to_bytes_backrefs H t = Ok bs ->
  snd (node_from_stream_backrefs bs) = Ok (t', rest) -> node_to_bytes_backrefs H t' = Ok bs.
Proof. exact ser_br_idempotent. Qed.

(* ---- totality: the serializer never fails (sizes within the u32 ranges of the code) *)
Theorem C17_total : forall H,
  (forall t1 t2, treehash H t1 = treehash H t2 -> t1 = t2) ->
  forall t, atoms_u32 t = true -> 6 * N.of_nat (n_nodes t) + 1 <= 4294967295 ->
  exists bs, node_to_bytes_backrefs H t = Ok bs.
Proof. exact ser_br_total. Qed.

(* the search never exhausts its fuel, whatever the state of the lookup *)
Theorem C17_find_path_total : forall (H : bytes -> bytes) s id len, exists r, find_path s id len = Ok r.
Proof. exact find_path_total. Qed.

(* ---- the whole statement for every tree in that range, no premise on the outcome *)
Theorem C17_all : forall H,
  (forall t1 t2, treehash H t1 = treehash H t2 -> t1 = t2) ->
  forall t, wf_sexp t = true -> atoms_u32 t = true -> 6 * N.of_nat (n_nodes t) + 1 <= 4294967295 ->
  exists bs, node_to_bytes_backrefs H t = Ok bs /\
    de_br_spec bs = Ok (t, []) /\
    snd (node_from_stream_backrefs bs) = Ok (t, []) /\
    snd (node_from_stream_backrefs_old bs) = Ok (t, []) /\
    serialized_length_from_bytes bs = Ok (blen bs) /\
    is_canonical_serialization bs = BTrue /\
    (forall e, ser t = Some e -> blen e < 4294967291 -> blen bs <= blen e) /\
    (forall t' rest, snd (node_from_stream_backrefs bs) = Ok (t', rest) -> node_to_bytes_backrefs H t' = Ok bs).
Proof. exact ser_br_all. Qed.

(* the injectivity premise is satisfiable, and under such a hash the serializer does compress *)
Theorem C17_premise_satisfiable :
  exists H, (forall t1 t2, treehash H t1 = treehash H t2 -> t1 = t2) /\
    let leaf := Atom [1; 2; 3; 4; 5] in
    let l1 := Cons leaf leaf in let l2 := Cons l1 l1 in let l3 := Cons l2 l2 in
    node_to_bytes_backrefs H l3 = Ok [255; 255; 255; 133; 1; 2; 3; 4; 5; 254; 2; 254; 2; 254; 2].
Proof. exists H_id. split; [exact H_id_treehash_inj|vm_compute; reflexivity]. Qed.

(* the premises of C17_total / C17_all hold for the tree of C17_premise_satisfiable *)
Example C17_total_witness :
  let leaf := Atom [1; 2; 3; 4; 5] in
  let l1 := Cons leaf leaf in let l2 := Cons l1 l1 in let l3 := Cons l2 l2 in
  wf_sexp l3 = true /\ atoms_u32 l3 = true /\ 6 * N.of_nat (n_nodes l3) + 1 <= 4294967295.
Proof. vm_compute. repeat split; discriminate. Qed.

(* with the real hash: the pair of two equal 5-byte atoms *)
Example C17_witness :
  let leaf := Atom [1; 2; 3; 4; 5] in
  node_to_bytes_backrefs sha256 (Cons leaf leaf) = Ok [255; 133; 1; 2; 3; 4; 5; 254; 2] /\
  de_br_spec [255; 133; 1; 2; 3; 4; 5; 254; 2] = Ok (Cons leaf leaf, []) /\
  ser (Cons leaf leaf) = Some [255; 133; 1; 2; 3; 4; 5; 133; 1; 2; 3; 4; 5].
Proof. vm_compute. repeat split. Qed.

Print Assumptions C17_emit_ok.
Print Assumptions C17_format_never_grows.
Print Assumptions C17_enc_canonical.
Print Assumptions C17_serializer_emits_valid_paths.
Print Assumptions C17_roundtrip.
Print Assumptions C17_never_grows.
Print Assumptions C17_canonical.
Print Assumptions C17_idempotent.
Print Assumptions C17_premise_satisfiable.
Print Assumptions C17_witness.
Print Assumptions C17_total.
Print Assumptions C17_find_path_total.
Print Assumptions C17_all.
Print Assumptions C17_total_witness.
