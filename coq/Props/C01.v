(* C01 — the interpreter agrees with the reference CLVM on the classic operator set.
   Only statements here; every proof is `exact <lemma>` from Proofs/RefClvm*.v.

   The reference is [ref_run H adapters dom] (Model/RefClvm.v): a big-step evaluator over
   closed-form operator semantics, its own path lookup and unknown-operator rule, written from
   the published definition of CLVM with the historical cost table as literals; H is SHA-256.
   [current_adapters] names every deliberate deviation of today's consensus rules from the
   historical package (ad_div, ad_softfork_guard, ad_nil_terminator,
   ad_literal_operands_any_terminator, ad_head_any_terminator, ad_unknown_u32_cap). [dom] is the
   domain of the comparison: outside it, and on operators outside the classic set, the
   reference answers [Unsupported].

   Full statement = C01_refines, proved for ALL programs, environments, budgets below 2^64,
   cryptographic primitives P and every sound domain (dom_sound: operator applications with an
   atom of 2^31 bytes or more, or an unknown operator in the class wraps64 of C09, are outside):

     (forall fuel, ref_run ... <> Err Unsupported) ->          (the program is classic)
       ((exists fuel, run_chia P fuel 0 p e M = Ok r) <->
        (exists fuel, ref_run (p_sha256 P) current_adapters dom fuel p e M = Ok r))

   i.e. the same cost and result tree on success, failure exactly when the reference fails.
   run_chia is the stack machine of Model/Machine.v (run_program.rs) under ChiaDialect with no
   flags; the proof goes through its big-step form (Model/BigStep.v, Proofs/BigStepEquiv.v).

   Pieces:
     C01_operators      ChiaDialect::op with no flags (inside and outside softfork guards of
                        extension 0 and 1) agrees with [ref_op current_adapters] for every
                        operator atom, every argument tree (proper or not) and every budget that
                        covers the reference's cost: the dispatch, and for each of i c f r l x =
                        >s sha256 substr strlen concat + - * / divmod > ash lsh logand logior
                        logxor lognot not any all the accumulator loop of the transcribed Rust
                        against the closed form, and the unknown-operator rule (through C09's
                        published rule);
     C01_path           traverse_path = the reference's path lookup, cost and value;
     C01_unknown_rule   the reference's unknown-operator rule = the published rule of C09;
     C01_costs_literal  every literal of the reference's cost table = the constant re-read
                        from the Rust source by the translator;
     C01_refines_complete / C01_refines_sound   the two directions of C01_refines;
     C01_dom_classic_sound, C01_dom_const_sound   executable sound domains (classic opcodes;
                        plus the constant-cost unknown operators; atoms below 2^31);
     C01_refuted_F6     with the FULL domain the statement is false: finding F6 (pre-hard-fork
                        wrapping_mul in op_unknown) reached through run_program.

   Not covered by these theorems (claimed level: other): the exclusions above (F6 is a genuine,
   known, consensus-critical difference); the allocator's caps and STACK_SIZE_LIMIT, which the
   tree-store machine does not model; the fidelity of the reference to the Python package, which
   cannot be installed offline (validated against op-tests/*.txt by the check instead). *)
From Clvm Require Import Model.Dialect Model.RefClvm Proofs.RefClvmBasics Proofs.RefClvmUnknown
  Proofs.RefClvmDispatch Proofs.RefClvmCosts Proofs.UnknownProofs Proofs.RefClvmEval Proofs.RefClvmSound Proofs.RefClvmF6.
Open Scope N_scope.

Theorem C01_operators : forall (P : prims) dom ext opc args M,
  ext <> OsPreHardFork ->
  (classic_code opc = false -> M < two64) ->
  (classic_code opc = false -> ~ wraps64 opc (arg_lens args) false M) ->
  (forall b, In (Atom b) (items args) -> blen b < 2147483648) ->
  ref_op (p_sha256 P) current_adapters dom (ext_kec ext) opc (items args) (ending args) <> Err Unsupported ->
  covers M (ref_op (p_sha256 P) current_adapters dom (ext_kec ext) opc (items args) (ending args)) ->
  agrees (chia_op P true no_flags (Atom opc) args M ext)
         (ref_op (p_sha256 P) current_adapters dom (ext_kec ext) opc (items args) (ending args)).
Proof. exact chia_op_agrees. Qed.

Theorem C01_path : forall path env, traverse_path path env = ref_path path env.
Proof. exact path_agrees. Qed.

Theorem C01_unknown_rule : forall opc args M,
  covers M (ref_unknown current_adapters opc (items args)) ->
  option_map (fun c => (c, nil_s)) (unknown_spec opc (arg_lens args) false M) =
  res_opt (ref_unknown current_adapters opc (items args)).
Proof. exact ref_unknown_spec. Qed.

Theorem C01_costs_literal : costs_match.
Proof. exact costs_literal. Qed.

(* evaluator level, one direction: whenever the reference succeeds within the budget, run_program
   (the stack machine of Model/Machine.v under ChiaDialect with no flags) succeeds with the same
   cost and the same tree. [dom] is the domain of the comparison (dom_sound: no atom of 2^31
   bytes or more among operator arguments, no unknown operator in the wrap class of F6);
   through Proofs/BigStepEquiv.v (stack machine = big-step form of run_program). *)
Theorem C01_refines_complete : forall (P : prims) dom fuel p e max_cost r,
  dom_sound dom -> max_cost < two64 ->
  ref_run (p_sha256 P) current_adapters dom fuel p e max_cost = Ok r ->
  exists fuel', run_chia P fuel' 0 p e max_cost = Ok r.
Proof. exact ref_run_complete. Qed.

(* the other direction: whenever run_program succeeds, the reference succeeds with the same cost
   and tree, unless it meets an operator application outside the compared domain *)
Theorem C01_refines_sound : forall (P : prims) dom p e max_cost r,
  dom_sound dom -> max_cost < two64 ->
  (exists fuel, run_chia P fuel 0 p e max_cost = Ok r) ->
  exists fuel, ref_run (p_sha256 P) current_adapters dom fuel p e max_cost = Err Unsupported \/
               ref_run (p_sha256 P) current_adapters dom fuel p e max_cost = Ok r.
Proof. exact ref_run_sound. Qed.

(* C01: on classic programs (the reference never answers Unsupported) the interpreter and the
   reference succeed on the same inputs, with the same cost and result tree; hence one fails
   exactly when the other does *)
Theorem C01_refines : forall (P : prims) dom p e max_cost r,
  dom_sound dom -> max_cost < two64 ->
  (forall fuel, ref_run (p_sha256 P) current_adapters dom fuel p e max_cost <> Err Unsupported) ->
  ((exists fuel, run_chia P fuel 0 p e max_cost = Ok r) <->
   (exists fuel, ref_run (p_sha256 P) current_adapters dom fuel p e max_cost = Ok r)).
Proof. exact ref_run_refines. Qed.

(* finding F6 through run_program: with the full domain the statement is false (the known
   pre-hard-fork wrapping_mul of op_unknown); sound domains exclude exactly such applications *)
Theorem C01_refuted_F6 : exists p e, forall P : prims,
  run_chia P 10 0 p e 0 = Ok (2375088143, nil_s) /\
  ref_run (p_sha256 P) current_adapters (fun _ _ => true) 10 p e 0 = Err Invalid.
Proof. exact f6_refutes_c01. Qed.

Theorem C01_dom_classic_sound : dom_sound dom_classic.
Proof. exact dom_classic_sound. Qed.

(* a larger executable sound domain: also the constant-cost unknown operators (no-op opcodes) *)
Theorem C01_dom_const_sound : dom_sound dom_const.
Proof. exact dom_const_sound. Qed.

(* non-vacuity with an unknown operator: (c (0x0523 (q . 1)) (+ (q . 2))) *)
Example C01_unknown_witness : forall P : prims,
  let prog := Cons (Atom [4]) (Cons (Cons (Atom [5; 35]) (Cons (Cons (Atom [1]) (Atom [1])) nil_s))
                              (Cons (Cons (Atom [16]) (Cons (Cons (Atom [1]) (Atom [2])) nil_s)) nil_s)) in
  ref_run (p_sha256 P) current_adapters dom_const 5 prog nil_s 0 = Ok (531, Cons nil_s (Atom [2])) /\
  ref_run (p_sha256 P) current_adapters dom_classic 5 prog nil_s 0 = Err Unsupported.
Proof. intros P. vm_compute. split; reflexivity. Qed.

(* non-vacuity of C01_refines_complete: (a (q . (c (+ 2 3) (mul 2 3))) (c (q . 7) 1)) in the
   environment 6, inside the sound domain dom_classic, under the exact budget *)
Example C01_refines_witness : forall P : prims,
  let prog := Cons (Atom [2]) (Cons (Cons (Atom [1])
                 (Cons (Atom [4]) (Cons (Cons (Atom [16]) (Cons (Atom [2]) (Cons (Atom [3]) nil_s)))
                                  (Cons (Cons (Atom [18]) (Cons (Atom [2]) (Cons (Atom [3]) nil_s))) nil_s))))
               (Cons (Cons (Atom [4]) (Cons (Cons (Atom [1]) (Atom [7])) (Cons (Atom [1]) nil_s))) nil_s)) in
  ref_run (p_sha256 P) current_adapters dom_classic 5 prog (Atom [6]) 2225 = Ok (2225, Cons (Atom [13]) (Atom [42])) /\
  ref_run (p_sha256 P) current_adapters dom_classic 5 prog (Atom [6]) 2224 = Err CostExceeded.
Proof. intros P. vm_compute. split; reflexivity. Qed.

(* non-vacuity: (+ 3 -4 0x0005) through the dispatch, and an unknown operator with a
   multiply-like cost on a 3-byte and a 2-byte atom *)
Example C01_witness :
  let args := Cons (Atom [3]) (Cons (Atom [252]) (Cons (Atom [0; 5]) nil_s)) in
  ref_op (fun b => b) current_adapters (fun _ _ => true) false [16] (items args) (ending args) = Ok (1081, Atom [4]) /\
  ref_op (fun b => b) current_adapters (fun _ _ => true) false [1; 128] (items (Cons (Atom [1; 2; 3]) (Cons (Atom [4; 5]) nil_s))) []
    = Ok (2014, nil_s) /\
  ref_op (fun b => b) current_adapters (fun _ _ => true) false [48] [] [] = Err Unsupported /\
  ref_path [0; 5] (Cons (Atom [7]) (Cons (Atom [8]) (Atom [9]))) = Ok (56, Atom [8]).
Proof. vm_compute. repeat split. Qed.

Print Assumptions C01_operators.
Print Assumptions C01_path.
Print Assumptions C01_unknown_rule.
Print Assumptions C01_costs_literal.
Print Assumptions C01_witness.
Print Assumptions C01_refines_complete.
Print Assumptions C01_refines_sound.
Print Assumptions C01_refines.
Print Assumptions C01_refuted_F6.
Print Assumptions C01_dom_classic_sound.
Print Assumptions C01_dom_const_sound.
Print Assumptions C01_unknown_witness.
Print Assumptions C01_refines_witness.
