(* C04 — Heap reclamation (ENABLE_GC) is unobservable.
   Only statements here; proofs are `exact <lemma>` from Proofs/DialectGC.v (built on the stuttering
   simulation of Proofs/MachineGC.v and the operator contracts op_gc_indep) and Proofs/AllocRestore.v.

   Full statement: adding ENABLE_GC to any flag set never changes a run's outcome: same result
   tree and cost on success, same error message on failure, same atom count, pair count and heap
   size reported by the allocator afterwards.

   What ENABLE_GC does in the code: ChiaDialect::gc_candidate makes eval_op_atom take a transparent
   allocator checkpoint and schedule a RestoreAllocator operation below the Apply of every
   candidate operator; when it runs, maybe_restore_with_node truncates the arena to the checkpoint
   (moving what is dropped into the ghost counters) and keeps or re-creates the operator's result.
   The two halves are proved separately:

   (1) INTERPRETER, on the tree-store machine (Model/Machine.v keeps the Restore operations on its
       op stack; on the tree store they leave the value untouched): for every program,
       environment, budget, flag set, set of primitives, the run with ENABLE_GC and the run
       without it return the same result/cost/error; only the number of loop iterations differs
       (C04_gc_to_nogc: same fuel suffices without GC; C04_nogc_to_gc: some fuel suffices with GC).
       This covers: the scheduling (the extra operations never reorder or skip anything, the
       budget check repeated at the Restore step cannot fail differently), "value stack empty" /
       "allocator checkpoint stack empty" being unreachable at a Restore (stack discipline), and
       no operator reading the ENABLE_GC bit.
   (2) ALLOCATOR, on the arena model (Model/Alloc.v): maybe_restore_with_node leaves atom count,
       pair count and heap size unchanged and the kept / replacement node denotes the same tree
       as the operator's result, in each outcome (Aborted, NoReplace, Replace), and its
       InternalError exits are unreachable, for any allocator state satisfying the arena
       invariant and any live transparent checkpoint (C04_restore_keeps, = C12_maybe_restore_keeps).
   NOT proved: the composition - that in every run every node still referenced after a Restore
   (the stacks, the environment) is older than the checkpoint, so that truncation cannot
   invalidate it (the "age discipline" of DESIGN.md appendix B.1; premise [no_straddle] and
   validity of the other live nodes). That is what the check decides by exploration: every
   generated program under F and F|ENABLE_GC on the implementation, full observation equality
   (result, cost, error message, three counters), fresh / pre-populated / re-encoded allocators. *)
From Clvm Require Import Model.Dialect Model.Alloc Model.AllocHist Proofs.AllocBasics Proofs.AllocHeap Proofs.AllocOps
  Proofs.AllocInv Proofs.AllocRestore Proofs.DialectGC.
Open Scope N_scope.

Theorem C04_gc_to_nogc : forall P f fuel p e M r,
  run_program (chia_dialect P (set_gc f true)) fuel p e M = r -> r <> Err OutOfFuel ->
  run_program (chia_dialect P (set_gc f false)) fuel p e M = r.
Proof. exact chia_gc_to_nogc. Qed.

Theorem C04_nogc_to_gc : forall P f fuel p e M r,
  run_program (chia_dialect P (set_gc f false)) fuel p e M = r -> r <> Err OutOfFuel ->
  exists fuel', run_program (chia_dialect P (set_gc f true)) fuel' p e M = r.
Proof. exact chia_nogc_to_gc. Qed.

Theorem C04_restore_keeps : forall a c x,
  AOK a -> tcp_le c (hp a) -> WF (trunc (hp a) c) -> vnode (hp a) x -> no_straddle a c ->
  exists a' r, maybe_restore_with_node a c x = (a', Ok r) /\ counts a' = counts a /\
    match r with
    | Aborted => a' = a
    | NoReplace => vnode (hp a') x /\ denote (hp a') x = denote (hp a) x
    | Replace n => vnode (hp a') n /\ denote (hp a') n = denote (hp a) x
    end.
Proof. exact maybe_restore_ok. Qed.

(* non-vacuity: (+ (q . 1) (q . 2)) - opcode 16 is a GC candidate - with and without the flag *)
Example C04_witness : forall P,
  let q x := Cons (Atom [1]) x in
  let prog := Cons (Atom [16]) (Cons (q (Atom [1])) (Cons (q (Atom [2])) (Atom []))) in
  run_program (chia_dialect P (set_gc (flags_of_N 0) true)) 100 prog (Atom []) 0 = Ok (796, Atom [3]) /\
  run_program (chia_dialect P (set_gc (flags_of_N 0) false)) 100 prog (Atom []) 0 = Ok (796, Atom [3]) /\
  gc_candidate (set_gc (flags_of_N 0) true) (Atom [16]) = true /\
  (* the GC run needs one more loop iteration *)
  run_program (chia_dialect P (set_gc (flags_of_N 0) false)) 6 prog (Atom []) 0 = Ok (796, Atom [3]) /\
  run_program (chia_dialect P (set_gc (flags_of_N 0) true)) 6 prog (Atom []) 0 = Err OutOfFuel.
Proof. intros P. vm_compute. repeat split. Qed.

Print Assumptions C04_gc_to_nogc.
Print Assumptions C04_nogc_to_gc.
Print Assumptions C04_restore_keeps.
Print Assumptions C04_witness.
